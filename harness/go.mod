module gqlverif

go 1.21

require (
	github.com/graphql-go/graphql v0.0.0
	pgregory.net/rapid v1.3.0
)

replace github.com/graphql-go/graphql => /repo
