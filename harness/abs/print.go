package abs

import (
	"strconv"
	"strings"
)

// Layout controls how the printer lays a document out (C18).
type Layout struct {
	NL      string // line terminator: "\n", "\r", "\r\n"
	Indent  string
	Comment string // if non-empty, a comment line inserted before every selection
	BOM     bool
	Compact bool // single line, spaces only
}

var DefaultLayout = Layout{NL: "\n", Indent: "  "}

// Printed is the text of a document plus where each node id starts.
type Printed struct {
	Text   string
	Start  map[int]int // node id -> byte offset of the node's first character
	ByOff  map[int]int // byte offset -> node id
	VarDef map[string]int
}

type printer struct {
	sb   strings.Builder
	lay  Layout
	out  *Printed
	line bool
}

func LitText(v Value) string {
	switch v.K {
	case "null":
		return "null"
	case "bool":
		return strconv.FormatBool(v.B)
	case "int":
		return strconv.FormatInt(TokInt(v.V), 10)
	case "float":
		return v.V
	case "str":
		return strconv.Quote(v.V)
	case "enum":
		return v.V
	case "var":
		return "$" + v.N
	case "list":
		parts := make([]string, 0, len(v.Items))
		for _, it := range v.Items {
			parts = append(parts, LitText(it))
		}
		return "[" + strings.Join(parts, ", ") + "]"
	case "obj":
		parts := make([]string, 0, len(v.Fields))
		for _, f := range v.Fields {
			parts = append(parts, f.N+": "+LitText(f.V))
		}
		return "{" + strings.Join(parts, ", ") + "}"
	}
	return "?" + v.K
}

func (p *printer) nl(depth int) {
	if p.lay.Compact {
		p.sb.WriteString(" ")
		return
	}
	p.sb.WriteString(p.lay.NL)
	for i := 0; i < depth; i++ {
		p.sb.WriteString(p.lay.Indent)
	}
}

func (p *printer) dirs(ds []Dir) {
	for _, d := range ds {
		p.sb.WriteString(" @" + d.N + "(if: " + LitText(d.V) + ")")
	}
}

func (p *printer) mark(id int) {
	off := p.sb.Len()
	p.out.Start[id] = off
	p.out.ByOff[off] = id
}

func (p *printer) sels(ss []Sel, depth int) {
	p.sb.WriteString("{")
	for _, s := range ss {
		if p.lay.Comment != "" && !p.lay.Compact {
			p.nl(depth + 1)
			p.sb.WriteString("#" + p.lay.Comment)
		}
		p.nl(depth + 1)
		p.mark(s.ID)
		switch s.K {
		case "field":
			if s.Alias != "" {
				p.sb.WriteString(s.Alias + ": ")
			}
			p.sb.WriteString(s.Name)
			if len(s.Args) > 0 {
				parts := make([]string, 0, len(s.Args))
				for _, a := range s.Args {
					parts = append(parts, a.N+": "+LitText(a.V))
				}
				p.sb.WriteString("(" + strings.Join(parts, ", ") + ")")
			}
			p.dirs(s.Dirs)
			if len(s.Sel) > 0 {
				p.sb.WriteString(" ")
				p.sels(s.Sel, depth+1)
			}
		case "spread":
			p.sb.WriteString("..." + s.Name)
			p.dirs(s.Dirs)
		case "inline":
			p.sb.WriteString("...")
			if s.On != "" {
				p.sb.WriteString(" on " + s.On)
			}
			p.dirs(s.Dirs)
			p.sb.WriteString(" ")
			p.sels(s.Sel, depth+1)
		}
	}
	p.nl(depth)
	p.sb.WriteString("}")
}

// Print renders the abstract document.
func Print(d *Doc, lay Layout) *Printed {
	p := &printer{lay: lay, out: &Printed{Start: map[int]int{}, ByOff: map[int]int{}, VarDef: map[string]int{}}}
	if lay.BOM {
		p.sb.WriteString("\ufeff")
	}
	for i, op := range d.Ops {
		if i > 0 {
			p.nl(0)
		}
		anon := op.Kind == "query" && op.Name == "" && len(op.VDefs) == 0
		if !anon {
			p.sb.WriteString(op.Kind)
			if op.Name != "" {
				p.sb.WriteString(" " + op.Name)
			}
			if len(op.VDefs) > 0 {
				p.sb.WriteString("(")
				for j, vd := range op.VDefs {
					if j > 0 {
						p.sb.WriteString(", ")
					}
					p.out.VarDef[vd.N] = p.sb.Len()
					p.sb.WriteString("$" + vd.N + ": " + vd.Type.String())
					if vd.HasDef {
						p.sb.WriteString(" = " + LitText(vd.Def))
					}
				}
				p.sb.WriteString(")")
			}
			p.sb.WriteString(" ")
		}
		p.sels(op.Sel, 0)
	}
	for _, f := range d.Frags {
		p.nl(0)
		p.sb.WriteString("fragment " + f.Name + " on " + f.On + " ")
		p.sels(f.Sel, 0)
	}
	p.out.Text = p.sb.String()
	return p.out
}
