package abs

// Builder from the configuration model of spec/GenSchema.tla to real graphql types
// (C10, C11).  Unlike Build (schema.go), which materialises a VALID abstract schema for
// the execution families, this builder reproduces what a user wrote down, defects
// included: several type objects with one name, illegal names, empty member sets, nil
// members, non-null of non-null, thunked or plain fields/interfaces/members, types passed
// in SchemaConfig.Types or appended later.  It contains no GraphQL semantics.

import (
	"context"
	"fmt"
	"sort"
	"strconv"

	"github.com/graphql-go/graphql"
	"github.com/graphql-go/graphql/language/ast"
)

type GArg struct {
	Name   string  `json:"name"`
	Type   TypeRef `json:"type"`
	HasDef bool    `json:"hasDef"`
	Def    Value   `json:"def"`
	Desc   string  `json:"desc"`
	Nil    bool    `json:"nil"`
}

type GField struct {
	Name string  `json:"name"`
	Type TypeRef `json:"type"`
	Args []GArg  `json:"args"`
	Dep  string  `json:"dep"`
	Desc string  `json:"desc"`
	Nil  bool    `json:"nil"`
}

type GEnumVal struct {
	Name     string `json:"name"`
	Internal string `json:"internal"`
	Ik       string `json:"ik"`
	Dep      string `json:"dep"`
	Desc     string `json:"desc"`
	Nil      bool   `json:"nil"`
}

type GTypeDef struct {
	Name    string     `json:"name"`
	Kind    string     `json:"kind"`
	Desc    string     `json:"desc"`
	Fields  []GField   `json:"fields"`
	Ifaces  []string   `json:"ifaces"`
	Members []string   `json:"members"`
	Values  []GEnumVal `json:"values"`
	Inputs  []GArg     `json:"inputs"`
	ThF     bool       `json:"thF"`
	ThI     bool       `json:"thI"`
	ThM     bool       `json:"thM"`
}

type GDir struct {
	Name string   `json:"name"`
	Std  bool     `json:"std"`
	Desc string   `json:"desc"`
	Locs []string `json:"locs"`
	Args []GArg   `json:"args"`
}

type GConfig struct {
	Types        map[string]GTypeDef `json:"types"`
	Query        string              `json:"query"`
	Mutation     string              `json:"mutation"`
	Subscription string              `json:"subscription"`
	Supplied     []string            `json:"supplied"`
	Appended     []string            `json:"appended"`
	Dirs         []GDir              `json:"dirs"`
}

// GSrc is what generated resolvers return at composite positions: the runtime type wanted.
type GSrc struct{ Rt string }

type rtKey struct{}

// WithRuntimeType tells the generated resolvers which object type abstract positions resolve to.
func WithRuntimeType(ctx context.Context, rt string) context.Context {
	return context.WithValue(ctx, rtKey{}, rt)
}

// GBuilt holds one set of freshly constructed type objects for a configuration.
type GBuilt struct {
	Cfg     *GConfig
	Types   map[string]graphql.Type // by id
	Objects map[string]*graphql.Object
	Ifaces  map[string]*graphql.Interface
}

func (b *GBuilt) named(id string) graphql.Type {
	switch id {
	case "Int":
		return graphql.Int
	case "Float":
		return graphql.Float
	case "String":
		return graphql.String
	case "Boolean":
		return graphql.Boolean
	case "ID":
		return graphql.ID
	}
	if t, ok := b.Types[id]; ok {
		return t
	}
	return nil
}

// typeOf materialises a type reference; n = "nil" (or an unknown id) gives a nil type.
func (b *GBuilt) typeOf(t TypeRef) graphql.Type {
	out := b.named(t.N)
	for i := len(t.W) - 1; i >= 0; i-- {
		if t.W[i] == "NN" {
			out = graphql.NewNonNull(out)
		} else {
			out = graphql.NewList(out)
		}
	}
	return out
}

// goValue converts an internal value to the Go value the configuration holds, directed by
// the type only to find the Go kind of enum internal values.
func (b *GBuilt) goValue(t TypeRef, v Value) interface{} {
	switch v.K {
	case "null", "absent", "":
		return nil
	case "bool":
		return v.B
	case "int":
		return int(TokInt(v.V))
	case "float":
		return TokFloat(v.V)
	case "str":
		return v.V
	case "cu":
		return Cu(v.V)
	case "eint":
		if td, ok := b.Cfg.Types[t.N]; ok {
			for _, ev := range td.Values {
				if ev.Internal == v.V && (v.N == "" || ev.Ik == v.N) {
					return enumInternal(ev)
				}
			}
		}
		return v.V
	case "list":
		inner := t
		for len(inner.W) > 0 && inner.W[0] == "NN" {
			inner = TypeRef{W: inner.W[1:], N: inner.N}
		}
		if len(inner.W) > 0 {
			inner = TypeRef{W: inner.W[1:], N: inner.N}
		}
		out := make([]interface{}, 0, len(v.Items))
		for _, it := range v.Items {
			out = append(out, b.goValue(inner, it))
		}
		return out
	case "obj":
		out := map[string]interface{}{}
		td := b.Cfg.Types[t.N]
		for _, f := range v.Fields {
			ft := TypeRef{N: "?"}
			for _, in := range td.Inputs {
				if in.Name == f.N {
					ft = in.Type
				}
			}
			out[f.N] = b.goValue(ft, f.V)
		}
		return out
	}
	panic("goValue: unknown value kind " + v.K)
}

func enumInternal(ev GEnumVal) interface{} {
	if ev.Ik == "int" {
		n, _ := strconv.Atoi(ev.Internal)
		return n
	}
	return ev.Internal
}

func (b *GBuilt) argConfig(defs []GArg) graphql.FieldConfigArgument {
	if len(defs) == 0 {
		return nil
	}
	out := graphql.FieldConfigArgument{}
	for _, a := range defs {
		if a.Nil {
			out[a.Name] = nil
			continue
		}
		ac := &graphql.ArgumentConfig{Description: a.Desc}
		if t := b.typeOf(a.Type); t != nil {
			ac.Type = t
		}
		if a.HasDef {
			ac.DefaultValue = b.goValue(a.Type, a.Def)
		}
		out[a.Name] = ac
	}
	return out
}

// natural is the value a generated resolver returns for a field of type t.
func (b *GBuilt) natural(t TypeRef, rt string) interface{} {
	if len(t.W) > 0 && t.W[0] == "NN" {
		return b.natural(TypeRef{W: t.W[1:], N: t.N}, rt)
	}
	if len(t.W) > 0 {
		return []interface{}{b.natural(TypeRef{W: t.W[1:], N: t.N}, rt)}
	}
	switch t.N {
	case "Int":
		return 1
	case "Float":
		return 1.5
	case "Boolean":
		return true
	case "String", "ID":
		return "s"
	}
	td, ok := b.Cfg.Types[t.N]
	if !ok {
		return nil
	}
	switch td.Kind {
	case "SCALAR":
		return Cu("c")
	case "ENUM":
		if len(td.Values) > 0 {
			return enumInternal(td.Values[0])
		}
		return nil
	case "OBJECT":
		return &GSrc{Rt: t.N}
	case "INTERFACE", "UNION":
		return &GSrc{Rt: rt}
	}
	return nil
}

func (b *GBuilt) fields(td GTypeDef, withResolvers bool) graphql.Fields {
	out := graphql.Fields{}
	for _, f := range td.Fields {
		f := f
		if f.Nil {
			out[f.Name] = nil
			continue
		}
		fc := &graphql.Field{Args: b.argConfig(f.Args), DeprecationReason: f.Dep, Description: f.Desc}
		if t := b.typeOf(f.Type); t != nil {
			fc.Type = t
		}
		if withResolvers {
			fc.Resolve = func(p graphql.ResolveParams) (interface{}, error) {
				rt, _ := p.Context.Value(rtKey{}).(string)
				return b.natural(f.Type, rt), nil
			}
		}
		out[f.Name] = fc
	}
	return out
}

func (b *GBuilt) inputFields(td GTypeDef) graphql.InputObjectConfigFieldMap {
	out := graphql.InputObjectConfigFieldMap{}
	for _, f := range td.Inputs {
		if f.Nil {
			out[f.Name] = nil
			continue
		}
		fc := &graphql.InputObjectFieldConfig{Description: f.Desc}
		if t := b.typeOf(f.Type); t != nil {
			fc.Type = t
		}
		if f.HasDef {
			fc.DefaultValue = b.goValue(f.Type, f.Def)
		}
		out[f.Name] = fc
	}
	return out
}

func (b *GBuilt) ifaceList(td GTypeDef) []*graphql.Interface {
	var out []*graphql.Interface
	for _, id := range td.Ifaces {
		out = append(out, b.Ifaces[id]) // "nil" (or unknown) -> nil
	}
	return out
}

func (b *GBuilt) memberList(td GTypeDef) []*graphql.Object {
	var out []*graphql.Object
	for _, id := range td.Members {
		out = append(out, b.Objects[id])
	}
	return out
}

func sortedIDs(m map[string]GTypeDef) []string {
	ids := make([]string, 0, len(m))
	for id := range m {
		ids = append(ids, id)
	}
	sort.Strings(ids)
	return ids
}

// NewGBuilt constructs one fresh type object per definition of the configuration.
// Thunked parts (thF/thI/thM) are passed as functions; plain parts are passed as
// maps/slices (maps are filled once every type object exists, which is how cyclic plain
// definitions are written in Go).
func NewGBuilt(cfg *GConfig) *GBuilt {
	b := &GBuilt{Cfg: cfg, Types: map[string]graphql.Type{}, Objects: map[string]*graphql.Object{},
		Ifaces: map[string]*graphql.Interface{}}
	resolveType := func(p graphql.ResolveTypeParams) *graphql.Object {
		if s, ok := p.Value.(*GSrc); ok && s != nil {
			return b.Objects[s.Rt]
		}
		return nil
	}
	ids := sortedIDs(cfg.Types)
	var fill []func()
	byKind := func(kind string, f func(id string, td GTypeDef)) {
		for _, id := range ids {
			if td := cfg.Types[id]; td.Kind == kind {
				f(id, td)
			}
		}
	}
	byKind("SCALAR", func(id string, td GTypeDef) {
		b.Types[id] = graphql.NewScalar(graphql.ScalarConfig{
			Name: td.Name, Description: td.Desc,
			Serialize: func(v interface{}) interface{} {
				if c, ok := v.(Cu); ok {
					return string(c)
				}
				return v
			},
			ParseValue: func(v interface{}) interface{} {
				if s, ok := v.(string); ok {
					return Cu(s)
				}
				return nil
			},
			ParseLiteral: func(v ast.Value) interface{} {
				if sv, ok := v.(*ast.StringValue); ok {
					return Cu(sv.Value)
				}
				return nil
			},
		})
	})
	byKind("ENUM", func(id string, td GTypeDef) {
		vals := graphql.EnumValueConfigMap{}
		for _, ev := range td.Values {
			if ev.Nil {
				vals[ev.Name] = nil
				continue
			}
			vals[ev.Name] = &graphql.EnumValueConfig{Value: enumInternal(ev), DeprecationReason: ev.Dep, Description: ev.Desc}
		}
		b.Types[id] = graphql.NewEnum(graphql.EnumConfig{Name: td.Name, Description: td.Desc, Values: vals})
	})
	byKind("INPUT_OBJECT", func(id string, td GTypeDef) {
		c := graphql.InputObjectConfig{Name: td.Name, Description: td.Desc}
		if td.ThF {
			c.Fields = graphql.InputObjectConfigFieldMapThunk(func() graphql.InputObjectConfigFieldMap { return b.inputFields(td) })
		} else {
			m := graphql.InputObjectConfigFieldMap{}
			c.Fields = m
			fill = append(fill, func() {
				for k, v := range b.inputFields(td) {
					m[k] = v
				}
			})
		}
		b.Types[id] = graphql.NewInputObject(c)
	})
	byKind("INTERFACE", func(id string, td GTypeDef) {
		c := graphql.InterfaceConfig{Name: td.Name, Description: td.Desc, ResolveType: resolveType}
		if td.ThF {
			c.Fields = graphql.FieldsThunk(func() graphql.Fields { return b.fields(td, false) })
		} else {
			m := graphql.Fields{}
			c.Fields = m
			fill = append(fill, func() {
				for k, v := range b.fields(td, false) {
					m[k] = v
				}
			})
		}
		it := graphql.NewInterface(c)
		b.Types[id] = it
		b.Ifaces[id] = it
	})
	byKind("OBJECT", func(id string, td GTypeDef) {
		c := graphql.ObjectConfig{Name: td.Name, Description: td.Desc}
		if td.ThF {
			c.Fields = graphql.FieldsThunk(func() graphql.Fields { return b.fields(td, true) })
		} else {
			m := graphql.Fields{}
			c.Fields = m
			fill = append(fill, func() {
				for k, v := range b.fields(td, true) {
					m[k] = v
				}
			})
		}
		if td.ThI {
			c.Interfaces = graphql.InterfacesThunk(func() []*graphql.Interface { return b.ifaceList(td) })
		} else if len(td.Ifaces) > 0 {
			c.Interfaces = b.ifaceList(td) // interfaces exist already
		}
		o := graphql.NewObject(c)
		b.Types[id] = o
		b.Objects[id] = o
	})
	byKind("UNION", func(id string, td GTypeDef) {
		c := graphql.UnionConfig{Name: td.Name, Description: td.Desc, ResolveType: resolveType}
		if td.ThM {
			c.Types = graphql.UnionTypesThunk(func() []*graphql.Object { return b.memberList(td) })
		} else {
			c.Types = b.memberList(td) // objects exist already
		}
		b.Types[id] = graphql.NewUnion(c)
	})
	for _, f := range fill {
		f()
	}
	return b
}

func (b *GBuilt) directive(d GDir) *graphql.Directive {
	if d.Std {
		switch d.Name {
		case "include":
			return graphql.IncludeDirective
		case "skip":
			return graphql.SkipDirective
		case "deprecated":
			return graphql.DeprecatedDirective
		}
	}
	return graphql.NewDirective(graphql.DirectiveConfig{Name: d.Name, Description: d.Desc, Locations: d.Locs,
		Args: b.argConfig(d.Args)})
}

// SchemaConfig is the configuration handed to NewSchema: with upFront the types of
// `appended` are passed in Types as well (after the supplied ones).
func (b *GBuilt) SchemaConfig(upFront bool) graphql.SchemaConfig {
	c := graphql.SchemaConfig{Query: b.Objects[b.Cfg.Query], Mutation: b.Objects[b.Cfg.Mutation],
		Subscription: b.Objects[b.Cfg.Subscription]}
	ids := append([]string(nil), b.Cfg.Supplied...)
	if upFront {
		ids = append(ids, b.Cfg.Appended...)
	}
	for _, id := range ids {
		c.Types = append(c.Types, b.named(id)) // "nil" -> nil entry
	}
	for _, d := range b.Cfg.Dirs {
		c.Directives = append(c.Directives, b.directive(d))
	}
	return c
}

// Late returns the types to pass to AppendType, in the given order (1-based positions of
// Cfg.Appended; nil = configuration order).
func (b *GBuilt) Late(order []int) []graphql.Type {
	var out []graphql.Type
	if order == nil {
		for _, id := range b.Cfg.Appended {
			out = append(out, b.named(id))
		}
		return out
	}
	for _, i := range order {
		out = append(out, b.named(b.Cfg.Appended[i-1]))
	}
	return out
}

// ------------------------------------------------------------------ projections

// LitOf projects a parsed GraphQL literal onto the abstract literal value.
func LitOf(v ast.Value) Value {
	switch t := v.(type) {
	case *ast.IntValue:
		return Value{K: "int", V: t.Value}
	case *ast.FloatValue:
		if f, err := strconv.ParseFloat(t.Value, 64); err == nil {
			return Value{K: "float", V: FloatTok(f)}
		}
		return Value{K: "float", V: t.Value}
	case *ast.StringValue:
		return Value{K: "str", V: t.Value}
	case *ast.BooleanValue:
		return Value{K: "bool", B: t.Value}
	case *ast.EnumValue:
		return Value{K: "enum", V: t.Value}
	case *ast.ListValue:
		out := Value{K: "list", Items: []Value{}}
		for _, it := range t.Values {
			out.Items = append(out.Items, LitOf(it))
		}
		return out
	case *ast.ObjectValue:
		out := Value{K: "obj", Fields: []NV{}}
		for _, f := range t.Fields {
			n := ""
			if f.Name != nil {
				n = f.Name.Value
			}
			out.Fields = append(out.Fields, NV{N: n, V: LitOf(f.Value)})
		}
		return out
	case *ast.Variable:
		return Value{K: "var", N: t.Name.Value}
	}
	return Value{K: "other", V: fmt.Sprintf("%T", v)}
}

// ----- the observed view of a built schema (C11), through the public API only

// VRef is a type reference as observed: wrappers outermost first, the name and kind of the
// named type at the bottom ("" / "NIL" when a wrapper wraps nothing), and whether the type
// map's entry of that name is this very type object.
type VRef struct {
	W    []string `json:"w"`
	N    string   `json:"n"`
	K    string   `json:"k"`
	Same bool     `json:"same"`
}

type VArg struct {
	Name string `json:"name"`
	Type VRef   `json:"type"`
}

type VField struct {
	Name string `json:"name"`
	Type VRef   `json:"type"`
	Args []VArg `json:"args"`
}

type VType struct {
	Key     string   `json:"key"`  // key in TypeMap()
	Name    string   `json:"name"` // Name() of the entry
	NC      []string `json:"nc"`   // the characters of Name()
	Kind    string   `json:"kind"`
	Builtin bool     `json:"builtin"` // one of the library's own introspection/scalar objects (details omitted)
	Lookup  bool     `json:"lookup"`  // schema.Type(key) is this entry
	Fields  []VField `json:"fields"`
	Ifaces  []VRef   `json:"ifaces"`
	Poss    []VRef   `json:"poss"`   // PossibleTypes(t) as listed (abstract types)
	IsPoss  []string `json:"isposs"` // object types o of the map with IsPossibleType(t, o)
	Inputs  []VArg   `json:"inputs"`
	Values  []string `json:"values"`
}

type View struct {
	Types        []VType `json:"types"`
	Query        VRef    `json:"query"`
	Mutation     VRef    `json:"mutation"`
	Subscription VRef    `json:"subscription"`
	HasMutation  bool    `json:"hasMutation"`
	HasSub       bool    `json:"hasSub"`
}

func kindOf(t graphql.Type) string {
	switch x := t.(type) {
	case nil:
		return "NIL"
	case *graphql.Scalar:
		if x == nil {
			return "NIL"
		}
		return "SCALAR"
	case *graphql.Object:
		if x == nil {
			return "NIL"
		}
		return "OBJECT"
	case *graphql.Interface:
		if x == nil {
			return "NIL"
		}
		return "INTERFACE"
	case *graphql.Union:
		if x == nil {
			return "NIL"
		}
		return "UNION"
	case *graphql.Enum:
		if x == nil {
			return "NIL"
		}
		return "ENUM"
	case *graphql.InputObject:
		if x == nil {
			return "NIL"
		}
		return "INPUT_OBJECT"
	case *graphql.List:
		return "LIST"
	case *graphql.NonNull:
		return "NON_NULL"
	}
	return "OTHER"
}

func refOf(tm graphql.TypeMap, t graphql.Type) VRef {
	r := VRef{W: []string{}}
	cur := t
	for {
		switch x := cur.(type) {
		case *graphql.List:
			if x != nil {
				r.W = append(r.W, "L")
				cur = x.OfType
				continue
			}
		case *graphql.NonNull:
			if x != nil {
				r.W = append(r.W, "NN")
				cur = x.OfType
				continue
			}
		}
		break
	}
	r.K = kindOf(cur)
	if r.K != "NIL" {
		r.N = cur.Name()
		if e, ok := tm[r.N]; ok && e == cur {
			r.Same = true
		}
	}
	return r
}

var libraryTypes = map[graphql.Type]bool{}

func init() {
	for _, t := range []graphql.Type{graphql.SchemaType, graphql.TypeType, graphql.FieldType, graphql.InputValueType,
		graphql.EnumValueType, graphql.DirectiveType, graphql.TypeKindEnumType, graphql.DirectiveLocationEnumType,
		graphql.Int, graphql.Float, graphql.String, graphql.Boolean, graphql.ID} {
		libraryTypes[t] = true
	}
}

func splitChars(s string) []string {
	out := []string{}
	for _, r := range s {
		out = append(out, string(r))
	}
	return out
}

func vargs(tm graphql.TypeMap, args []*graphql.Argument) []VArg {
	out := []VArg{}
	for _, a := range args {
		if a == nil {
			out = append(out, VArg{Name: "<nil>", Type: VRef{W: []string{}, K: "NIL"}})
			continue
		}
		out = append(out, VArg{Name: a.PrivateName, Type: refOf(tm, a.Type)})
	}
	sort.Slice(out, func(i, j int) bool { return out[i].Name < out[j].Name })
	return out
}

func vfields(tm graphql.TypeMap, fm graphql.FieldDefinitionMap) []VField {
	out := []VField{}
	for name, f := range fm {
		if f == nil {
			out = append(out, VField{Name: name, Type: VRef{W: []string{}, K: "NIL"}, Args: []VArg{}})
			continue
		}
		out = append(out, VField{Name: name, Type: refOf(tm, f.Type), Args: vargs(tm, f.Args)})
	}
	sort.Slice(out, func(i, j int) bool { return out[i].Name < out[j].Name })
	return out
}

// ViewOf extracts the observable type system of a built schema.
func ViewOf(s *graphql.Schema) View {
	tm := s.TypeMap()
	v := View{Types: []VType{}}
	keys := make([]string, 0, len(tm))
	for k := range tm {
		keys = append(keys, k)
	}
	sort.Strings(keys)
	var objects []*graphql.Object
	for _, k := range keys {
		if o, ok := tm[k].(*graphql.Object); ok && o != nil {
			objects = append(objects, o)
		}
	}
	for _, k := range keys {
		t := tm[k]
		vt := VType{Key: k, Kind: kindOf(t), NC: []string{}, Fields: []VField{}, Ifaces: []VRef{}, Poss: []VRef{},
			IsPoss: []string{}, Inputs: []VArg{}, Values: []string{}}
		if vt.Kind != "NIL" {
			vt.Name = t.Name()
			vt.NC = splitChars(vt.Name)
			vt.Lookup = s.Type(k) == t
		}
		if libraryTypes[t] {
			vt.Builtin = true
			v.Types = append(v.Types, vt)
			continue
		}
		switch x := t.(type) {
		case *graphql.Object:
			vt.Fields = vfields(tm, x.Fields())
			for _, it := range x.Interfaces() {
				if it == nil {
					vt.Ifaces = append(vt.Ifaces, VRef{W: []string{}, K: "NIL"})
				} else {
					vt.Ifaces = append(vt.Ifaces, refOf(tm, it))
				}
			}
		case *graphql.Interface:
			vt.Fields = vfields(tm, x.Fields())
			for _, o := range s.PossibleTypes(x) {
				vt.Poss = append(vt.Poss, refOf(tm, o))
			}
			sort.SliceStable(vt.Poss, func(i, j int) bool { return vt.Poss[i].N < vt.Poss[j].N }) // multiplicities kept
			for _, o := range objects {
				if s.IsPossibleType(x, o) {
					vt.IsPoss = append(vt.IsPoss, o.Name())
				}
			}
		case *graphql.Union:
			for _, o := range s.PossibleTypes(x) {
				if o == nil {
					vt.Poss = append(vt.Poss, VRef{W: []string{}, K: "NIL"})
				} else {
					vt.Poss = append(vt.Poss, refOf(tm, o))
				}
			}
			for _, o := range objects {
				if s.IsPossibleType(x, o) {
					vt.IsPoss = append(vt.IsPoss, o.Name())
				}
			}
		case *graphql.Enum:
			for _, ev := range x.Values() {
				if ev != nil {
					vt.Values = append(vt.Values, ev.Name)
				}
			}
			sort.Strings(vt.Values)
		case *graphql.InputObject:
			for name, f := range x.Fields() {
				if f == nil {
					vt.Inputs = append(vt.Inputs, VArg{Name: name, Type: VRef{W: []string{}, K: "NIL"}})
					continue
				}
				vt.Inputs = append(vt.Inputs, VArg{Name: name, Type: refOf(tm, f.Type)})
			}
			sort.Slice(vt.Inputs, func(i, j int) bool { return vt.Inputs[i].Name < vt.Inputs[j].Name })
		}
		v.Types = append(v.Types, vt)
	}
	root := func(o *graphql.Object) VRef {
		if o == nil {
			return VRef{W: []string{}, K: "NIL"}
		}
		return refOf(tm, o)
	}
	v.Query = root(s.QueryType())
	v.Mutation = root(s.MutationType())
	v.Subscription = root(s.SubscriptionType())
	v.HasMutation = s.MutationType() != nil
	v.HasSub = s.SubscriptionType() != nil
	return v
}
