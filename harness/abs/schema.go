package abs

import (
	"context"
	"errors"
	"fmt"
	"math"
	"reflect"
	"sort"
	"strconv"
	"strings"
	"sync"

	"github.com/graphql-go/graphql"
	"github.com/graphql-go/graphql/language/ast"
)

// EInt is the Go representation of an enum's internal value; Cu of a parsed custom scalar.
type EInt string
type Cu string

// Src is the Go representation of [k |-> "src", tag, rt]: the value harness resolvers
// return at composite positions.
type Src struct {
	Tag string
	Rt  string
}

// ToGo converts an internal (coerced) abstract value to the Go value the library uses.
func ToGo(v Value) interface{} {
	switch v.K {
	case "null", "absent":
		return nil
	case "bool":
		return v.B
	case "int":
		return int(TokInt(v.V))
	case "float":
		return TokFloat(v.V)
	case "str":
		return v.V
	case "eint":
		return EInt(v.V)
	case "cu":
		return Cu(v.V)
	case "list":
		out := make([]interface{}, 0, len(v.Items))
		for _, it := range v.Items {
			out = append(out, ToGo(it))
		}
		return out
	case "obj":
		out := map[string]interface{}{}
		for _, f := range v.Fields {
			out[f.N] = ToGo(f.V)
		}
		return out
	}
	panic("ToGo: unknown value kind " + v.K)
}

// ToJSONish converts a JSON-like variable value (what a client would send).
func ToJSONish(v Value) interface{} {
	switch v.K {
	case "int":
		return int(TokInt(v.V))
	case "float":
		return TokFloat(v.V)
	case "enum":
		return v.V
	}
	if v.K == "list" {
		out := make([]interface{}, 0, len(v.Items))
		for _, it := range v.Items {
			out = append(out, ToJSONish(it))
		}
		return out
	}
	if v.K == "obj" {
		out := map[string]interface{}{}
		for _, f := range v.Fields {
			out[f.N] = ToJSONish(f.V)
		}
		return out
	}
	return ToGo(v)
}

// FromGo projects a Go value (argument map entry, response datum) onto the abstract value.
func FromGo(x interface{}) Value {
	switch t := x.(type) {
	case nil:
		return Null()
	case bool:
		return Value{K: "bool", B: t}
	case int:
		return Value{K: "int", V: IntTok(int64(t))}
	case int32:
		return Value{K: "int", V: IntTok(int64(t))}
	case int64:
		return Value{K: "int", V: IntTok(t)}
	case float64:
		if math.IsNaN(t) {
			return Value{K: "float", V: "nan"}
		}
		return Value{K: "float", V: FloatTok(t)}
	case float32:
		return Value{K: "float", V: FloatTok(float64(t))}
	case string:
		// numeric strings denoting a class representative are reported by class label
		if n, err := strconv.ParseInt(t, 10, 64); err == nil {
			if tok := IntTok(n); tok != t {
				return Value{K: "str", V: tok}
			}
		}
		return Value{K: "str", V: t}
	case EInt:
		return Value{K: "eint", V: string(t)}
	case Cu:
		return Value{K: "cu", V: string(t)}
	case *Src:
		if t == nil {
			return Null()
		}
		return Value{K: "src", Tag: t.Tag, Rt: t.Rt}
	case []interface{}:
		items := make([]Value, 0, len(t))
		for _, it := range t {
			items = append(items, FromGo(it))
		}
		return Value{K: "list", Items: items}
	case map[string]interface{}:
		fs := make([]NV, 0, len(t))
		for k, v := range t {
			fs = append(fs, NV{N: k, V: FromGo(v)})
		}
		return Value{K: "obj", Fields: fs}
	case func() interface{}:
		return Value{K: "thunk"}
	}
	return Value{K: "other", V: fmt.Sprintf("%T", x)}
}

// RunCtx is the per-request state harness callbacks consult and append to.
type RunCtx struct {
	Outs   []OutEntry
	mu     sync.Mutex
	Calls  []Call
	Events []string    // generic event log (C13, C17, ...)
	NodeID map[int]int // source offset of a field's start -> node id (set by the printer)
	Built  *Built      // schema the request runs against
	Extra  map[string]interface{}
	OnCall func(tn, fn string, p graphql.ResolveParams) // optional observer (gates etc.)
	TCalls []TCall
	// what the caller passed in, for the accuracy checks of C20
	Root       interface{}
	RootTag    string
	OpName     string
	OpKind     string
	FragNames  []string
	MutateArgs bool
	LogEvents  bool
	// EchoArgs: String leaves answer their source, field AND the arguments they received (C12: the response
	// then depends on the arguments, so a resolver that is handed another call's arguments changes the bytes)
	EchoArgs bool
}

func samePointer(a, b interface{}) bool {
	if a == nil || b == nil {
		return a == nil && b == nil
	}
	va, vb := reflect.ValueOf(a), reflect.ValueOf(b)
	if va.Kind() != vb.Kind() {
		return false
	}
	switch va.Kind() {
	case reflect.Map, reflect.Ptr, reflect.Slice, reflect.Func:
		return va.Pointer() == vb.Pointer()
	}
	return reflect.DeepEqual(a, b)
}

// normTag maps the per-run root tag back to the specification's "r".
func (rc *RunCtx) normTag(t string) string {
	if rc.RootTag != "" && rc.RootTag != "r" && strings.HasPrefix(t, rc.RootTag) {
		return "r" + t[len(rc.RootTag):]
	}
	return t
}

func (rc *RunCtx) infoComplaints(info graphql.ResolveInfo) []string {
	var out []string
	if rc.Built != nil && info.Schema.QueryType() != rc.Built.Schema.QueryType() {
		out = append(out, "Info.Schema is not the request's schema")
	}
	if rc.Root != nil && !samePointer(info.RootValue, rc.Root) {
		out = append(out, fmt.Sprintf("Info.RootValue is not the request's root value (%v)", info.RootValue))
	}
	if rc.OpKind != "" {
		op, _ := info.Operation.(*ast.OperationDefinition)
		if op == nil {
			out = append(out, "Info.Operation is not an operation definition")
		} else {
			name := ""
			if op.Name != nil {
				name = op.Name.Value
			}
			if op.Operation != rc.OpKind || name != rc.OpName {
				out = append(out, fmt.Sprintf("Info.Operation is %s %q, selected %s %q", op.Operation, name, rc.OpKind, rc.OpName))
			}
		}
		got := make([]string, 0, len(info.Fragments))
		for k := range info.Fragments {
			got = append(got, k)
		}
		sort.Strings(got)
		want := append([]string(nil), rc.FragNames...)
		sort.Strings(want)
		if strings.Join(got, ",") != strings.Join(want, ",") {
			out = append(out, fmt.Sprintf("Info.Fragments has %v, document defines %v", got, want))
		}
	}
	return out
}

type ctxKey struct{}

func WithRun(ctx context.Context, rc *RunCtx) context.Context {
	return context.WithValue(ctx, ctxKey{}, rc)
}

func RunOf(ctx context.Context) *RunCtx {
	if ctx == nil {
		return nil
	}
	rc, _ := ctx.Value(ctxKey{}).(*RunCtx)
	return rc
}

func (rc *RunCtx) outcome(tn, fn, tag string) Outcome {
	for _, e := range rc.Outs {
		if e.T == tn && e.F == fn && (e.Src == "" || e.Src == "*" || e.Src == tag) {
			return e.O
		}
	}
	return Outcome{K: "val"}
}

func (rc *RunCtx) Event(s string) {
	rc.mu.Lock()
	rc.Events = append(rc.Events, s)
	rc.mu.Unlock()
}

// Built is a real schema built from an abstract one, with table-driven resolvers.
type Built struct {
	Abs     *Schema
	Schema  graphql.Schema
	Types   map[string]graphql.Type
	Objects map[string]*graphql.Object
}

func pathStrings(p *graphql.ResponsePath) []string {
	arr := p.AsArray()
	out := make([]string, 0, len(arr))
	for _, k := range arr {
		switch t := k.(type) {
		case string:
			out = append(out, t)
		case int:
			out = append(out, "#"+strconv.Itoa(t))
		default:
			out = append(out, fmt.Sprintf("?%v", k))
		}
	}
	return out
}

func argsNV(m map[string]interface{}) []NV {
	out := make([]NV, 0, len(m))
	for k, v := range m {
		out = append(out, NV{N: k, V: FromGo(v)})
	}
	return out
}

// leafInt mirrors LeafInt of Exec.tla (the "natural value" convention).
func leafInt(fn string) int {
	switch fn {
	case "a":
		return 1
	case "b":
		return 2
	case "c":
		return 3
	case "nn":
		return 4
	case "w":
		return 5
	case "f":
		return 6
	}
	return 9
}

// naturalValue mirrors ValueFor of Exec.tla.
func (b *Built) naturalValue(t TypeRef, tag, fn string, oc Outcome) interface{} {
	if len(t.W) > 0 && t.W[0] == "NN" {
		return b.naturalValue(TypeRef{W: t.W[1:], N: t.N}, tag, fn, oc)
	}
	if len(t.W) > 0 && t.W[0] == "L" {
		n := 2
		if oc.Len != nil {
			n = *oc.Len
		}
		inner := TypeRef{W: t.W[1:], N: t.N}
		innerNamed := len(inner.W) == 0 || (len(inner.W) == 1 && inner.W[0] == "NN")
		out := make([]interface{}, 0, n)
		for i := 0; i < n; i++ {
			oci := oc
			if len(oc.Rts) > 0 && innerNamed {
				oci = Outcome{K: "val", Rt: oc.Rts[i]}
			}
			out = append(out, b.naturalValue(inner, tag+"#"+strconv.Itoa(i), fn, oci))
		}
		return out
	}
	tr := b.Abs.Types[t.N]
	switch tr.Kind {
	case "SCALAR":
		switch t.N {
		case "Int":
			return leafInt(fn)
		case "Boolean":
			return true
		case "Float":
			return 1.5
		}
		return tag
	case "ENUM":
		return EInt(tr.Values[0].Internal)
	}
	rt := t.N
	if tr.Kind == "INTERFACE" || tr.Kind == "UNION" {
		rt = tr.Defrt
	}
	if oc.Rt != "" {
		rt = oc.Rt
	}
	if oc.Rt == "-" {
		rt = ""
	}
	if tr.Plain {
		// a type without resolvers: DefaultResolveFn reads this map by field name
		m := map[string]interface{}{}
		for _, f := range tr.Fields {
			m[f.Name] = b.naturalValue(f.Type, tag+"."+f.Name, f.Name, Outcome{K: "val"})
		}
		return m
	}
	return &Src{Tag: tag, Rt: rt}
}

// wrongKind is unhashable on purpose (a map look-up keyed by it panics)
type wrongKind struct{ X []int }

// goInt returns 5 (or 3000000000 when big) in the Go representation g.
func goInt(g string, big bool) interface{} {
	var n int64 = 5
	if big {
		n = 3000000000
	}
	switch g {
	case "i8":
		return int8(n)
	case "i16":
		return int16(n)
	case "i32":
		return int32(n)
	case "i64":
		return n
	case "u8":
		return uint8(n)
	case "u16":
		return uint16(n)
	case "u32":
		return uint32(n)
	case "u64":
		return uint64(n)
	case "uint":
		return uint(n)
	case "f32":
		return float32(n)
	case "f64":
		return float64(n)
	case "pint":
		v := int(n)
		return &v
	case "pi64":
		return &n
	case "pu32":
		v := uint32(n)
		return &v
	case "pf64":
		v := float64(n)
		return &v
	case "nilp":
		var p *int
		return p
	}
	return int(n)
}

// cuSerializesToNilPointer is a custom-scalar value whose serialisation is a typed nil pointer.
type cuSerializesToNilPointer struct{}

// goLeaf returns the abstract leaf value v (int 5, float 1.5, a boolean, the string "sv", null) in the Go
// representation g.
func goLeaf(g string, v *Value) interface{} {
	switch g {
	case "strnan":
		return "NaN" // not null, but no Float: serialises to NaN, which is not a legal value
	case "cunilp":
		return cuSerializesToNilPointer{}
	case "f64":
		return float64(1.5)
	case "f32":
		return float32(1.5)
	case "pf64":
		x := float64(1.5)
		return &x
	case "pf32":
		x := float32(1.5)
		return &x
	case "nilpf64":
		var p *float64
		return p
	case "nilpf32":
		var p *float32
		return p
	case "nilpint":
		var p *int
		return p
	case "nilpu16":
		var p *uint16
		return p
	case "nilpi64":
		var p *int64
		return p
	case "bool":
		return v.B
	case "pbool":
		x := v.B
		return &x
	case "nilpbool":
		var p *bool
		return p
	case "string":
		return v.V
	case "pstring":
		x := v.V
		return &x
	case "nilpstring":
		var p *string
		return p
	case "int":
		return int(5)
	case "i8":
		return int8(5)
	case "i16":
		return int16(5)
	case "i32":
		return int32(5)
	case "i64":
		return int64(5)
	case "u8":
		return uint8(5)
	case "u16":
		return uint16(5)
	case "u32":
		return uint32(5)
	case "u64":
		return uint64(5)
	case "uint":
		return uint(5)
	case "pint":
		x := int(5)
		return &x
	case "pi8":
		x := int8(5)
		return &x
	case "pi16":
		x := int16(5)
		return &x
	case "pi32":
		x := int32(5)
		return &x
	case "pi64":
		x := int64(5)
		return &x
	case "pu8":
		x := uint8(5)
		return &x
	case "pu16":
		x := uint16(5)
		return &x
	case "pu32":
		x := uint32(5)
		return &x
	case "pu64":
		x := uint64(5)
		return &x
	case "puint":
		x := uint(5)
		return &x
	}
	panic("harness: unknown Go representation " + g)
}

func isTypeOfFor(name string, enabled bool) graphql.IsTypeOfFn {
	if !enabled {
		return nil
	}
	return func(p graphql.IsTypeOfParams) bool {
		if RunOf(p.Context) == nil {
			return false // the caller's context did not reach this call: see resolveType
		}
		s, ok := p.Value.(*Src)
		return ok && s != nil && (s.Rt == name || s.Rt == "*")
	}
}

// Resolve makes every source value a graphql.FieldResolver: the fields of a type built without Resolve functions
// ("selfres") are resolved by their source, through DefaultResolveFn, with the same table-driven resolver.
func (s *Src) Resolve(p graphql.ResolveParams) (interface{}, error) {
	rc := RunOf(p.Context)
	if rc == nil || rc.Built == nil || p.Info.ParentType == nil {
		return nil, errors.New("harness: a source was asked to resolve a field without a run context")
	}
	tn := p.Info.ParentType.Name()
	for _, fd := range rc.Built.Abs.Types[tn].Fields {
		if fd.Name == p.Info.FieldName {
			return rc.Built.resolver(tn, fd)(p)
		}
	}
	return nil, errors.New("harness: " + tn + " has no field " + p.Info.FieldName)
}

func (b *Built) resolver(tn string, fd FieldDef) graphql.FieldResolveFn {
	return func(p graphql.ResolveParams) (interface{}, error) {
		rc := RunOf(p.Context)
		if rc == nil {
			return nil, errors.New("harness: no run context reached the resolver")
		}
		srcTag := "?"
		switch s := p.Source.(type) {
		case *Src:
			srcTag = s.Tag
		case map[string]interface{}:
			if t, ok := s["__tag"].(string); ok {
				srcTag = t
			} else {
				srcTag = "r"
			}
		case nil:
			srcTag = "nil"
		}
		srcTag = rc.normTag(srcTag)
		call := Call{P: pathStrings(p.Info.Path), Pt: "", F: p.Info.FieldName, Src: srcTag, Args: argsNV(p.Args)}
		if p.Info.ParentType != nil {
			call.Pt = p.Info.ParentType.Name()
		}
		call.RtStr = fmt.Sprintf("%v", p.Info.ReturnType)
		call.VV = Value{K: "obj", Fields: argsNV(p.Info.VariableValues)}.Canon()
		call.Info = rc.infoComplaints(p.Info)
		if rc.MutateArgs {
			// an argument-mutating resolver: the map it received must be its own copy
			for k := range p.Args {
				delete(p.Args, k)
			}
			p.Args["__mutated"] = true
		}
		for _, fa := range p.Info.FieldASTs {
			if fa != nil && fa.Loc != nil {
				if id, ok := rc.NodeID[fa.Loc.Start]; ok {
					call.Occ = append(call.Occ, id)
					continue
				}
			}
			call.Occ = append(call.Occ, -1)
		}
		call.Oc = rc.outcome(tn, fd.Name, srcTag).K
		rc.mu.Lock()
		rc.Calls = append(rc.Calls, call)
		rc.mu.Unlock()
		if rc.OnCall != nil {
			rc.OnCall(tn, fd.Name, p)
		}
		evPath := strings.Join(call.P, "/")
		if rc.LogEvents {
			rc.Event("res:" + evPath)
		}
		oc := rc.outcome(tn, fd.Name, srcTag)
		nat := func() interface{} { return b.naturalValue(fd.Type, srcTag+"."+fd.Name, fd.Name, oc) }
		switch oc.K {
		case "val":
			if rc.EchoArgs && len(fd.Type.W) == 0 && fd.Type.N == "String" {
				return srcTag + "." + fd.Name + "|" + Value{K: "obj", Fields: call.Args}.Canon(), nil
			}
			return nat(), nil
		case "nil":
			return nil, nil
		case "typednil":
			var s *Src
			return s, nil
		case "nan":
			return math.NaN(), nil
		case "err":
			return nil, errors.New("boom " + tn + "." + fd.Name)
		case "valerr":
			return nat(), errors.New("boom " + tn + "." + fd.Name)
		case "panic":
			panic(errors.New("panic " + tn + "." + fd.Name))
		case "panics":
			panic("panic-string " + tn + "." + fd.Name)
		case "thunk":
			return func() (interface{}, error) {
				if rc.LogEvents {
					rc.Event("force:" + evPath)
				}
				return nat(), nil
			}, nil
		case "thunkerr":
			return func() (interface{}, error) {
				if rc.LogEvents {
					rc.Event("force:" + evPath)
				}
				return nil, errors.New("thunk boom " + tn + "." + fd.Name)
			}, nil
		case "badthunk":
			return func() int { return 1 }, nil
		case "wrong":
			return wrongKind{X: []int{1}}, nil
		case "big":
			return 3000000000, nil
		case "goint":
			return goInt(oc.G, oc.Big), nil
		case "goleaf":
			return goLeaf(oc.G, oc.Val), nil
		case "badenum":
			return EInt("nope"), nil
		case "wrongitem":
			v := nat()
			if l, ok := v.([]interface{}); ok && len(l) >= 2 {
				l[1] = wrongKind{X: []int{1}}
			}
			return v, nil
		case "titems":
			// a list whose ITEMS are deferred values
			v := nat()
			if l, ok := v.([]interface{}); ok {
				for i := range l {
					el := l[i]
					l[i] = func() (interface{}, error) { return el, nil }
				}
			}
			return v, nil
		case "nilitem":
			v := nat()
			if l, ok := v.([]interface{}); ok && len(l) >= 2 {
				l[1] = nil
			}
			return v, nil
		}
		return nil, fmt.Errorf("harness: unknown outcome %q", oc.K)
	}
}

// Build constructs the real schema.
func Build(s *Schema) (*Built, error) {
	b := &Built{Abs: s, Types: map[string]graphql.Type{}, Objects: map[string]*graphql.Object{}}
	b.Types["Int"] = graphql.Int
	b.Types["Float"] = graphql.Float
	b.Types["String"] = graphql.String
	b.Types["Boolean"] = graphql.Boolean
	b.Types["ID"] = graphql.ID

	resolveType := func(p graphql.ResolveTypeParams) *graphql.Object {
		if rc := RunOf(p.Context); rc != nil && rc.Extra != nil {
			if f, ok := rc.Extra["onResolveType"].(func(graphql.ResolveTypeParams)); ok {
				f(p)
			}
		}
		s, ok := p.Value.(*Src)
		if RunOf(p.Context) == nil {
			// the caller's context did not reach the type resolver: a resolver that depends on it (a per-request
			// registry, a deadline) cannot answer
			return nil
		}
		if rc := RunOf(p.Context); rc != nil {
			tc := TCall{P: pathStrings(p.Info.Path), V: "?"}
			if ok && s != nil {
				tc.V = rc.normTag(s.Tag)
			}
			rc.mu.Lock()
			rc.TCalls = append(rc.TCalls, tc)
			rc.mu.Unlock()
		}
		if !ok || s == nil || s.Rt == "" {
			return nil
		}
		return b.Objects[s.Rt]
	}

	wrap := func(t TypeRef) graphql.Type {
		var out graphql.Type = b.Types[t.N]
		for i := len(t.W) - 1; i >= 0; i-- {
			if t.W[i] == "NN" {
				out = graphql.NewNonNull(out)
			} else {
				out = graphql.NewList(out)
			}
		}
		return out
	}
	argCfg := func(defs []ArgDef) graphql.FieldConfigArgument {
		if len(defs) == 0 {
			return nil
		}
		out := graphql.FieldConfigArgument{}
		for _, a := range defs {
			ac := &graphql.ArgumentConfig{Type: wrap(a.Type)}
			if a.HasDef {
				ac.DefaultValue = ToGo(a.Def)
			}
			out[a.Name] = ac
		}
		return out
	}

	// pass 1: shells for every named type (fields are thunks, so cycles are fine)
	for name, tr := range s.Types {
		name, tr := name, tr
		switch tr.Kind {
		case "SCALAR":
			if _, ok := b.Types[name]; !ok {
				b.Types[name] = graphql.NewScalar(graphql.ScalarConfig{
					Name:      name,
					Serialize: func(v interface{}) interface{} {
						if _, ok := v.(cuSerializesToNilPointer); ok {
							var p *string // a value that is not null itself but serialises to a nil pointer
							return p
						}
						return v
					},
					ParseValue: func(v interface{}) interface{} {
						if s, ok := v.(string); ok {
							return Cu(s)
						}
						return nil
					},
					ParseLiteral: func(v ast.Value) interface{} {
						if sv, ok := v.(*ast.StringValue); ok {
							return Cu(sv.Value)
						}
						return nil
					},
				})
			}
		case "ENUM":
			vals := graphql.EnumValueConfigMap{}
			for _, ev := range tr.Values {
				cfg := &graphql.EnumValueConfig{Value: EInt(ev.Internal)}
				if ev.Deprecated {
					cfg.DeprecationReason = "deprecated " + ev.Name
				}
				vals[ev.Name] = cfg
			}
			b.Types[name] = graphql.NewEnum(graphql.EnumConfig{Name: name, Values: vals})
		case "INPUT_OBJECT":
			b.Types[name] = graphql.NewInputObject(graphql.InputObjectConfig{
				Name: name,
				Fields: graphql.InputObjectConfigFieldMapThunk(func() graphql.InputObjectConfigFieldMap {
					out := graphql.InputObjectConfigFieldMap{}
					for _, f := range tr.Inputs {
						fc := &graphql.InputObjectFieldConfig{Type: wrap(f.Type)}
						if f.HasDef {
							fc.DefaultValue = ToGo(f.Def)
						}
						out[f.Name] = fc
					}
					return out
				}),
			})
		case "INTERFACE":
			rtFn := resolveType
			if tr.NoRT {
				rtFn = nil // the default resolution asks the implementers' IsTypeOf
			}
			b.Types[name] = graphql.NewInterface(graphql.InterfaceConfig{
				Name: name,
				Fields: graphql.FieldsThunk(func() graphql.Fields {
					out := graphql.Fields{}
					for _, f := range tr.Fields {
						out[f.Name] = &graphql.Field{Type: wrap(f.Type).(graphql.Output), Args: argCfg(f.Args)}
					}
					return out
				}),
				ResolveType: rtFn,
			})
		case "UNION":
			// members filled in pass 2 (objects must exist)
		case "OBJECT":
			obj := graphql.NewObject(graphql.ObjectConfig{
				Name: name,
				Fields: graphql.FieldsThunk(func() graphql.Fields {
					out := graphql.Fields{}
					for _, f := range tr.Fields {
						fld := &graphql.Field{Type: wrap(f.Type).(graphql.Output), Args: argCfg(f.Args)}
						if !tr.Plain && !tr.SelfRes {
							fld.Resolve = b.resolver(name, f)
						}
						out[f.Name] = fld
					}
					return out
				}),
				IsTypeOf: isTypeOfFor(name, tr.IsTypeOf),
				Interfaces: graphql.InterfacesThunk(func() []*graphql.Interface {
					var out []*graphql.Interface
					for _, in := range tr.Ifaces {
						out = append(out, b.Types[in].(*graphql.Interface))
					}
					return out
				}),
			})
			b.Types[name] = obj
			b.Objects[name] = obj
		default:
			return nil, fmt.Errorf("unknown kind %q of type %s", tr.Kind, name)
		}
	}
	for name, tr := range s.Types {
		if tr.Kind != "UNION" {
			continue
		}
		var members []*graphql.Object
		for _, m := range tr.Members {
			members = append(members, b.Objects[m])
		}
		urt := resolveType
		if tr.NoRT {
			urt = nil
		}
		b.Types[name] = graphql.NewUnion(graphql.UnionConfig{Name: name, Types: members, ResolveType: urt})
	}
	cfg := graphql.SchemaConfig{Query: b.Objects[s.Query]}
	if s.Mutation != "" {
		cfg.Mutation = b.Objects[s.Mutation]
	}
	if s.Subscription != "" {
		cfg.Subscription = b.Objects[s.Subscription]
	}
	for name, tr := range s.Types {
		if tr.Kind == "OBJECT" && name != s.Query && name != s.Mutation && name != s.Subscription {
			cfg.Types = append(cfg.Types, b.Types[name])
		}
	}
	sch, err := graphql.NewSchema(cfg)
	if err != nil {
		return nil, err
	}
	b.Schema = sch
	return b, nil
}
