// Package abs holds the abstract data model shared with the TLA+ specifications
// (DESIGN.md section 3) and the trivial builders/printers/projections that bind it
// to the real library. It contains no GraphQL semantics: every expectation comes
// from TLC.
package abs

import (
	"encoding/json"
	"sort"
	"strconv"
	"strings"
)

// TypeRef is [w |-> <<"NN","L",...>>, n |-> name], outermost wrapper first.
type TypeRef struct {
	W []string `json:"w"`
	N string   `json:"n"`
}

func (t TypeRef) String() string {
	s := t.N
	for i := len(t.W) - 1; i >= 0; i-- {
		if t.W[i] == "NN" {
			s += "!"
		} else {
			s = "[" + s + "]"
		}
	}
	return s
}

// Value is the tagged value record of GQLBase.tla.
type Value struct {
	K      string  `json:"k"`
	B      bool    `json:"b,omitempty"`
	V      string  `json:"v,omitempty"`
	N      string  `json:"n,omitempty"`
	Items  []Value `json:"items,omitempty"`
	Fields []NV    `json:"fields,omitempty"`
	Tag    string  `json:"tag,omitempty"`
	Rt     string  `json:"rt,omitempty"`
}

type NV struct {
	N string `json:"n"`
	V Value  `json:"v"`
}

func Null() Value { return Value{K: "null"} }

// Canon returns a canonical string for comparison; object fields are sorted by
// name (response maps and argument maps are unordered in Go).
func (v Value) Canon() string {
	var sb strings.Builder
	v.canon(&sb)
	return sb.String()
}

func (v Value) canon(sb *strings.Builder) {
	switch v.K {
	case "null", "absent":
		sb.WriteString(v.K)
	case "bool":
		sb.WriteString(strconv.FormatBool(v.B))
	case "list":
		sb.WriteString("[")
		for i, it := range v.Items {
			if i > 0 {
				sb.WriteString(",")
			}
			it.canon(sb)
		}
		sb.WriteString("]")
	case "obj":
		fs := append([]NV(nil), v.Fields...)
		sort.SliceStable(fs, func(i, j int) bool { return fs[i].N < fs[j].N })
		sb.WriteString("{")
		for i, f := range fs {
			if i > 0 {
				sb.WriteString(",")
			}
			sb.WriteString(f.N)
			sb.WriteString(":")
			f.V.canon(sb)
		}
		sb.WriteString("}")
	case "var":
		sb.WriteString("$" + v.N)
	case "src":
		sb.WriteString("src(" + v.Tag + ")")
	default:
		sb.WriteString(v.K + "(" + v.V + ")")
	}
}

func (v Value) JSON() string { b, _ := json.Marshal(v); return string(b) }

// Number tokens: decimal numerals or class labels with fixed representatives.
var numClass = map[string]int64{
	"max32": 2147483647, "min32": -2147483648, "over32": 3000000000, "under32": -3000000000,
}

func TokInt(tok string) int64 {
	if n, ok := numClass[tok]; ok {
		return n
	}
	n, _ := strconv.ParseInt(tok, 10, 64)
	return n
}

func IntTok(n int64) string {
	for k, v := range numClass {
		if v == n {
			return k
		}
	}
	return strconv.FormatInt(n, 10)
}

func TokFloat(tok string) float64 {
	if n, ok := numClass[tok]; ok {
		return float64(n)
	}
	f, _ := strconv.ParseFloat(tok, 64)
	return f
}

func FloatTok(f float64) string {
	if f == float64(int64(f)) {
		return IntTok(int64(f))
	}
	return strconv.FormatFloat(f, 'g', -1, 64)
}

// Schema model.
type ArgDef struct {
	Name   string  `json:"name"`
	Type   TypeRef `json:"type"`
	HasDef bool    `json:"hasDef"`
	Def    Value   `json:"def"`
}

type FieldDef struct {
	Name string   `json:"name"`
	Type TypeRef  `json:"type"`
	Args []ArgDef `json:"args"`
}

type EnumVal struct {
	Name       string `json:"name"`
	Internal   string `json:"internal"`
	Deprecated bool   `json:"deprecated"`
}

type TypeRec struct {
	Kind     string     `json:"kind"`
	Fields   []FieldDef `json:"fields"`
	Ifaces   []string   `json:"ifaces"`
	Members  []string   `json:"members"`
	Values   []EnumVal  `json:"values"`
	Inputs   []ArgDef   `json:"inputs"`
	Defrt    string     `json:"defrt"`
	IsTypeOf bool       `json:"isTypeOf"`
	NoRT     bool       `json:"noRT"`
	Plain    bool       `json:"plain"`
	SelfRes  bool       `json:"selfres"`
}

type Schema struct {
	Query        string             `json:"query"`
	Mutation     string             `json:"mutation"`
	Subscription string             `json:"subscription"`
	Types        map[string]TypeRec `json:"types"`
}

// Document model.
type Dir struct {
	N string `json:"n"`
	V Value  `json:"v"`
}

type Sel struct {
	K     string `json:"k"`
	ID    int    `json:"id"`
	Alias string `json:"alias,omitempty"`
	Name  string `json:"name,omitempty"`
	On    string `json:"on,omitempty"`
	Args  []NV   `json:"args,omitempty"`
	Dirs  []Dir  `json:"dirs"`
	Sel   []Sel  `json:"sel,omitempty"`
}

type VarDef struct {
	N      string  `json:"n"`
	Type   TypeRef `json:"type"`
	HasDef bool    `json:"hasDef"`
	Def    Value   `json:"def"`
}

type Op struct {
	Kind  string   `json:"kind"`
	Name  string   `json:"name"`
	VDefs []VarDef `json:"vdefs"`
	Sel   []Sel    `json:"sel"`
}

type Frag struct {
	Name string `json:"name"`
	On   string `json:"on"`
	Sel  []Sel  `json:"sel"`
}

type Doc struct {
	Ops   []Op   `json:"ops"`
	Frags []Frag `json:"frags"`
}

// Outcome of a resolver, see Exec.tla.
type Outcome struct {
	K   string   `json:"k"`
	Rt  string   `json:"rt,omitempty"`
	Rts []string `json:"rts,omitempty"`
	Len *int     `json:"len,omitempty"`
	G   string   `json:"g,omitempty"`
	Big bool     `json:"big,omitempty"`
	Val *Value   `json:"val,omitempty"` // "goleaf": the abstract value delivered in representation G
}

type OutEntry struct {
	T   string  `json:"t"`
	F   string  `json:"f"`
	Src string  `json:"src"` // "*" or "" = any source, otherwise the source tag
	O   Outcome `json:"o"`
}

// Call is one resolver invocation as logged by harness resolvers / predicted by the spec.
type Call struct {
	P     []string `json:"p"`
	Pt    string   `json:"pt"`
	F     string   `json:"f"`
	Src   string   `json:"src"`
	Args  []NV     `json:"args"`
	Occ   []int    `json:"occ"`
	Rt    *TypeRef `json:"rt,omitempty"`   // declared return type
	Info  []string `json:"info,omitempty"` // harness-side complaints about ResolveInfo/context
	RtStr string   `json:"-"`              // observed: printed Info.ReturnType
	VV    string   `json:"-"`              // observed: canonical Info.VariableValues
	Oc    string   `json:"-"`              // observed: the scripted outcome kind this invocation delivered
}

// TCall is one type-resolver invocation.
type TCall struct {
	P []string `json:"p"`
	V string   `json:"v"`
}

func (c Call) Key() string {
	return strings.Join(c.P, "/") + "|" + c.Pt + "." + c.F + "|" + c.Src + "|" + Value{K: "obj", Fields: c.Args}.Canon()
}

// Resp is the abstract response.
type Resp struct {
	Data   Value      `json:"data"`
	ReqErr bool       `json:"reqerr"`
	Unspec bool       `json:"unspec"`
	Errs   [][]string `json:"errs"`
	Opt    [][]string `json:"opt"`
	All    [][]string `json:"all"`
	Calls  []Call     `json:"calls"`
	TCalls []TCall    `json:"tcalls"`
	VVals  []NV       `json:"vvals"`
}
