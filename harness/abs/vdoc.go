package abs

import (
	"strconv"
	"strings"
)

// The document model of spec/Validate.tla (C02, C18b): the model of types.go extended with
// arbitrary directives (name + arguments) on selections, operations and fragment definitions.
// A directive is {n, v} (= @n(if: v), the execution families) or {n, v, args}.

type VDir struct {
	N    string `json:"n"`
	V    Value  `json:"v"`
	Args *[]NV  `json:"args,omitempty"`
}

// ArgList is the directive's argument list (the short form has the single argument `if`).
func (d VDir) ArgList() []NV {
	if d.Args != nil {
		return *d.Args
	}
	return []NV{{N: "if", V: d.V}}
}

type VSel struct {
	K     string `json:"k"`
	ID    int    `json:"id"`
	Alias string `json:"alias,omitempty"`
	Name  string `json:"name,omitempty"`
	On    string `json:"on,omitempty"`
	Args  []NV   `json:"args,omitempty"`
	Dirs  []VDir `json:"dirs"`
	Sel   []VSel `json:"sel,omitempty"`
}

type VOp struct {
	Kind  string   `json:"kind"`
	Name  string   `json:"name"`
	VDefs []VarDef `json:"vdefs"`
	Sel   []VSel   `json:"sel"`
	Dirs  []VDir   `json:"dirs,omitempty"`
}

type VFrag struct {
	Name string `json:"name"`
	On   string `json:"on"`
	Sel  []VSel `json:"sel"`
	Dirs []VDir `json:"dirs,omitempty"`
}

type VDoc struct {
	Ops   []VOp   `json:"ops"`
	Frags []VFrag `json:"frags"`
}

// VLayout: how the printer lays the document out (C18b).
type VLayout struct {
	Name       string
	NL         string // line terminator: "\n", "\r", "\r\n"
	Indent     string
	Lead       string // if non-empty, a comment line before the first definition
	Comment    string // if non-empty, a comment line before every selection
	Compact    bool   // one line, single spaces
	FragsFirst bool   // fragment definitions before the operations (the order of definitions is free)
}

var VLayouts = map[string]VLayout{
	"lf":         {Name: "lf", NL: "\n", Indent: "  "},
	"cr":         {Name: "cr", NL: "\r", Indent: "  "},
	"crlf":       {Name: "crlf", NL: "\r\n", Indent: "\t"},
	"comment":    {Name: "comment", NL: "\n", Indent: " ", Lead: " leading comment, with { braces } and $x", Comment: " c"},
	"crlfcom":    {Name: "crlfcom", NL: "\r\n", Indent: "  ", Lead: " lead", Comment: " c"},
	"compact":    {Name: "compact", NL: "\n", Compact: true},
	"fragsfirst": {Name: "fragsfirst", NL: "\n", Indent: "  ", FragsFirst: true},
}

// VPrinted is the text plus the byte offset at which every node of the specification's
// node-id scheme (see the header of Validate.tla) starts.
type VPrinted struct {
	Text    string
	Start   map[string]int    // node id -> byte offset of the node's first character
	Pos     map[string][2]int // node id -> 1-based (line, column); the printer counts the line ends it writes
	FieldAt map[int]int       // byte offset of a field's first character -> selection id
}

type vprinter struct {
	sb        strings.Builder
	lay       VLayout
	out       *VPrinted
	line      int // current 1-based line
	lineStart int // byte offset at which the current line starts
}

func (p *vprinter) mark(key string) {
	p.out.Start[key] = p.sb.Len()
	p.out.Pos[key] = [2]int{p.line, p.sb.Len() - p.lineStart + 1}
}

func (p *vprinter) nl(depth int) {
	if p.lay.Compact {
		p.sb.WriteString(" ")
		return
	}
	p.sb.WriteString(p.lay.NL)
	p.line++
	p.lineStart = p.sb.Len()
	for i := 0; i < depth; i++ {
		p.sb.WriteString(p.lay.Indent)
	}
}

// value prints a literal; key is the node id of the value.
func (p *vprinter) value(v Value, key string) {
	p.mark(key)
	switch v.K {
	case "list":
		p.sb.WriteString("[")
		for i, it := range v.Items {
			if i > 0 {
				p.sb.WriteString(", ")
			}
			p.value(it, key+"."+strconv.Itoa(i+1))
		}
		p.sb.WriteString("]")
	case "obj":
		p.sb.WriteString("{")
		for i, f := range v.Fields {
			if i > 0 {
				p.sb.WriteString(", ")
			}
			fk := key + "." + strconv.Itoa(i+1)
			p.mark(fk)
			p.sb.WriteString(f.N + ": ")
			p.value(f.V, fk+".v")
		}
		p.sb.WriteString("}")
	default:
		p.sb.WriteString(LitText(v))
	}
}

func (p *vprinter) args(as []NV, holder string) {
	if len(as) == 0 {
		return
	}
	p.sb.WriteString("(")
	for i, a := range as {
		if i > 0 {
			p.sb.WriteString(", ")
		}
		ak := holder + ".a" + strconv.Itoa(i+1)
		p.mark(ak)
		p.sb.WriteString(a.N + ": ")
		p.value(a.V, ak+".v")
	}
	p.sb.WriteString(")")
}

func (p *vprinter) dirs(ds []VDir, holder string) {
	for j, d := range ds {
		p.sb.WriteString(" ")
		dk := holder + ".d" + strconv.Itoa(j+1)
		p.mark(dk)
		p.sb.WriteString("@" + d.N)
		p.args(d.ArgList(), dk)
	}
}

func (p *vprinter) sels(ss []VSel, depth int) {
	p.sb.WriteString("{")
	for _, s := range ss {
		if p.lay.Comment != "" && !p.lay.Compact {
			p.nl(depth + 1)
			p.sb.WriteString("#" + p.lay.Comment)
		}
		p.nl(depth + 1)
		sk := "s" + strconv.Itoa(s.ID)
		p.mark(sk)
		switch s.K {
		case "field":
			p.out.FieldAt[p.sb.Len()] = s.ID
			if s.Alias != "" {
				p.sb.WriteString(s.Alias + ": ")
			}
			p.mark(sk + ".n")
			p.sb.WriteString(s.Name)
			p.args(s.Args, sk)
			p.dirs(s.Dirs, sk)
			if len(s.Sel) > 0 {
				p.sb.WriteString(" ")
				p.mark(sk + ".ss")
				p.sels(s.Sel, depth+1)
			}
		case "spread":
			p.sb.WriteString("...")
			p.mark(sk + ".n")
			p.sb.WriteString(s.Name)
			p.dirs(s.Dirs, sk)
		case "inline":
			p.sb.WriteString("...")
			if s.On != "" {
				p.sb.WriteString(" on ")
				p.mark(sk + ".on")
				p.sb.WriteString(s.On)
			}
			p.dirs(s.Dirs, sk)
			p.sb.WriteString(" ")
			p.mark(sk + ".ss")
			p.sels(s.Sel, depth+1)
		}
	}
	p.nl(depth)
	p.sb.WriteString("}")
}

// typeRef prints a type reference; key.n is the named type inside the wrappers.
func (p *vprinter) typeRef(t TypeRef, key string) {
	p.mark(key)
	opens := 0
	for _, w := range t.W {
		if w == "L" {
			opens++
		}
	}
	p.sb.WriteString(strings.Repeat("[", opens))
	p.mark(key + ".n")
	p.sb.WriteString(t.N)
	for i := len(t.W) - 1; i >= 0; i-- {
		if t.W[i] == "NN" {
			p.sb.WriteString("!")
		} else {
			p.sb.WriteString("]")
		}
	}
}

// PrintV renders the document in the given layout.
func PrintV(d *VDoc, lay VLayout) *VPrinted {
	p := &vprinter{lay: lay, line: 1, out: &VPrinted{Start: map[string]int{}, Pos: map[string][2]int{}, FieldAt: map[int]int{}}}
	first := true
	sep := func() {
		if !first {
			p.nl(0)
		}
		first = false
	}
	if lay.Lead != "" && !lay.Compact {
		p.sb.WriteString("#" + lay.Lead)
		first = false
	}
	printFrags := func() {}
	printOps := func() {
		for i, op := range d.Ops {
			sep()
			ok := "o" + strconv.Itoa(i+1)
			p.mark(ok)
			short := op.Kind == "query" && op.Name == "" && len(op.VDefs) == 0 && len(op.Dirs) == 0
			if !short {
				p.sb.WriteString(op.Kind)
				if op.Name != "" {
					p.sb.WriteString(" ")
					p.mark(ok + ".n")
					p.sb.WriteString(op.Name)
				}
				if len(op.VDefs) > 0 {
					p.sb.WriteString("(")
					for j, vd := range op.VDefs {
						if j > 0 {
							p.sb.WriteString(", ")
						}
						vk := ok + ".v" + strconv.Itoa(j+1)
						p.mark(vk)
						p.sb.WriteString("$")
						p.mark(vk + ".n") // the Name node of the variable
						p.sb.WriteString(vd.N + ": ")
						p.typeRef(vd.Type, vk+".t")
						if vd.HasDef {
							p.sb.WriteString(" = ")
							p.value(vd.Def, vk+".d")
						}
					}
					p.sb.WriteString(")")
				}
				p.dirs(op.Dirs, ok)
				p.sb.WriteString(" ")
			}
			p.sels(op.Sel, 0)
		}
	}
	printFrags = func() {
		for i, f := range d.Frags {
			sep()
			fk := "f" + strconv.Itoa(i+1)
			p.mark(fk)
			p.sb.WriteString("fragment ")
			p.mark(fk + ".n")
			p.sb.WriteString(f.Name + " on ")
			p.mark(fk + ".on")
			p.sb.WriteString(f.On)
			p.dirs(f.Dirs, fk)
			p.sb.WriteString(" ")
			p.sels(f.Sel, 0)
		}
	}
	if lay.FragsFirst {
		printFrags()
		printOps()
	} else {
		printOps()
		printFrags()
	}
	p.out.Text = p.sb.String()
	return p.out
}
