// gqlv: the Go side of the TLA+ <-> implementation binding.
//
//	gqlv replay <ID> [flags]   read TLC output on stdin, replay every VEC line into the real library
//	gqlv record <ID> [flags]   drive the real library, write NDJSON traces for Trace_<ID>.tla
//
// Exit status: 0 all vectors agreed (or matched a listed known finding), 1 at least one
// unexplained mismatch (details in the summary file), 2 infrastructure trouble.
package main

import (
	"bufio"
	"encoding/json"
	"flag"
	"fmt"
	"hash/fnv"
	"io"
	"os"
	"runtime"
	"sort"
	"strings"
	"sync"
	"time"
)

// Mismatch is an unexplained disagreement between the specification and the implementation.
type Mismatch struct {
	What   string          `json:"what"`
	Detail interface{}     `json:"detail,omitempty"`
	Vector json.RawMessage `json:"vector,omitempty"`
}

// Stats is the shared, concurrency-safe accumulator of a replay/record run.
type Stats struct {
	mu         sync.Mutex
	Counters   map[string]int64
	Samples    []interface{}
	Mismatches []Mismatch
	nMismatch  int64
	distinct   map[uint64]struct{}
	Known      map[string]int64 // deviation name -> cases explained
	Notes      []string
}

func newStats() *Stats {
	return &Stats{Counters: map[string]int64{}, distinct: map[uint64]struct{}{}, Known: map[string]int64{}}
}

func (s *Stats) Add(k string, n int64) { s.mu.Lock(); s.Counters[k] += n; s.mu.Unlock() }

func (s *Stats) Get(k string) int64 { s.mu.Lock(); defer s.mu.Unlock(); return s.Counters[k] }

func (s *Stats) Sample(x interface{}) {
	s.mu.Lock()
	if len(s.Samples) < 4 {
		s.Samples = append(s.Samples, x)
	}
	s.mu.Unlock()
}

// Distinct counts x (by hash) once in counter k.
func (s *Stats) Distinct(k string, x string) {
	h := fnv.New64a()
	h.Write([]byte(k))
	h.Write([]byte{0})
	h.Write([]byte(x))
	v := h.Sum64()
	s.mu.Lock()
	if _, ok := s.distinct[v]; !ok {
		s.distinct[v] = struct{}{}
		s.Counters[k]++
	}
	s.mu.Unlock()
}

func (s *Stats) Mismatch(m Mismatch) {
	s.mu.Lock()
	s.nMismatch++
	if len(s.Mismatches) < 10 {
		s.Mismatches = append(s.Mismatches, m)
	}
	s.mu.Unlock()
}

func (s *Stats) KnownHit(dev string) { s.mu.Lock(); s.Known[dev]++; s.mu.Unlock() }

func (s *Stats) Note(n string) {
	s.mu.Lock()
	if len(s.Notes) < 20 {
		s.Notes = append(s.Notes, n)
	}
	s.mu.Unlock()
}

// Summary is what bin/check reads back.
type Summary struct {
	Property   string           `json:"property"`
	Mode       string           `json:"mode"`
	Counters   map[string]int64 `json:"counters"`
	Known      map[string]int64 `json:"known"`
	Samples    []interface{}    `json:"samples"`
	Mismatches []Mismatch       `json:"mismatches"`
	NMismatch  int64            `json:"n_mismatch"`
	Notes      []string         `json:"notes,omitempty"`
	WallS      float64          `json:"wall_s"`
	Infra      string           `json:"infra,omitempty"`
}

// KnownFindings is /verif/known_findings.json.
type KnownFinding struct {
	Property  string      `json:"property"`
	ID        string      `json:"id"`
	Status    string      `json:"status"` // "known" | "fixed"
	Deviation string      `json:"deviation"`
	What      string      `json:"what"`
	Witness   interface{} `json:"witness,omitempty"`
	Commit    string      `json:"commit,omitempty"`
}

var knownDevs = map[string]bool{}

func loadKnown(path string) {
	b, err := os.ReadFile(path)
	if err != nil {
		return
	}
	var f struct {
		Findings []KnownFinding `json:"findings"`
	}
	if json.Unmarshal(b, &f) != nil {
		return
	}
	for _, k := range f.Findings {
		if k.Status == "known" && k.Deviation != "" {
			knownDevs[k.Deviation] = true
		}
	}
}

// devsListed reports whether every deviation in ds is a listed known finding.
func devsListed(ds []string) bool {
	for _, d := range ds {
		if !knownDevs[d] {
			return false
		}
	}
	return len(ds) > 0
}

// unescapeTLA undoes TLC's string printing.
func unescapeTLA(s string) string {
	if !strings.Contains(s, "\\") {
		return s
	}
	var sb strings.Builder
	sb.Grow(len(s))
	for i := 0; i < len(s); i++ {
		c := s[i]
		if c == '\\' && i+1 < len(s) {
			i++
			switch s[i] {
			case 'n':
				sb.WriteByte('\n')
			case 't':
				sb.WriteByte('\t')
			case 'r':
				sb.WriteByte('\r')
			case 'f':
				sb.WriteByte('\f')
			default:
				sb.WriteByte(s[i])
			}
			continue
		}
		sb.WriteByte(c)
	}
	return sb.String()
}

type handler func(tag string, raw []byte, st *Stats, wk *worker)

// worker holds per-goroutine caches (schemas are never shared between workers).
type worker struct {
	id    int
	cache map[string]interface{}
}

// pump reads TLC's stdout: `<<"TAG", "json">>` lines go to the handler (in a worker pool),
// everything else to the log writer.
func pump(in io.Reader, logw io.Writer, h handler, st *Stats, nworkers int, globalTags map[string]bool) {
	type job struct {
		tag string
		raw []byte
	}
	jobs := make(chan job, 4*nworkers)
	var wg sync.WaitGroup
	workers := make([]*worker, nworkers)
	for i := 0; i < nworkers; i++ {
		workers[i] = &worker{id: i, cache: map[string]interface{}{}}
		wg.Add(1)
		go func(wk *worker) {
			defer wg.Done()
			for j := range jobs {
				h(j.tag, j.raw, st, wk)
			}
		}(workers[i])
	}
	rd := bufio.NewReaderSize(in, 1<<20)
	for {
		line, err := rd.ReadString('\n')
		if len(line) > 0 {
			l := strings.TrimRight(line, "\r\n")
			if strings.HasPrefix(l, "<<\"") && strings.HasSuffix(l, "\">>") {
				rest := l[3:]
				if q := strings.Index(rest, "\", \""); q > 0 {
					tag := rest[:q]
					body := unescapeTLA(rest[q+4 : len(rest)-3])
					if globalTags[tag] {
						// delivered synchronously to every worker before anything else proceeds
						for len(jobs) > 0 {
							time.Sleep(time.Millisecond)
						}
						for _, wk := range workers {
							h(tag, []byte(body), st, wk)
						}
					} else {
						jobs <- job{tag, []byte(body)}
					}
					if err != nil {
						break
					}
					continue
				}
			}
			if logw != nil {
				io.WriteString(logw, line)
			}
		}
		if err != nil {
			break
		}
	}
	close(jobs)
	wg.Wait()
}

func writeSummary(path string, sum *Summary) {
	b, _ := json.MarshalIndent(sum, "", " ")
	if path == "" || path == "-" {
		os.Stdout.Write(append(b, '\n'))
		return
	}
	os.WriteFile(path, b, 0o644)
}

var handlers = map[string]func(fs *flag.FlagSet) handler{}

func main() {
	if len(os.Args) < 3 {
		fmt.Fprintln(os.Stderr, "usage: gqlv replay|record <ID> [flags]")
		os.Exit(2)
	}
	mode, id := os.Args[1], os.Args[2]
	fs := flag.NewFlagSet("gqlv", flag.ExitOnError)
	summary := fs.String("summary", "-", "summary JSON file")
	logf := fs.String("log", "", "file receiving TLC's non-vector output")
	known := fs.String("known", "/verif/known_findings.json", "known findings file")
	nw := fs.Int("workers", runtime.NumCPU(), "replay workers")
	switch mode {
	case "replay":
		mk, ok := handlers[id]
		if !ok {
			fmt.Fprintf(os.Stderr, "gqlv: no replay handler for %s\n", id)
			os.Exit(2)
		}
		h := mk(fs)
		fs.Parse(os.Args[3:])
		loadKnown(*known)
		st := newStats()
		var logw io.Writer
		if *logf != "" {
			f, err := os.Create(*logf)
			if err != nil {
				fmt.Fprintln(os.Stderr, err)
				os.Exit(2)
			}
			defer f.Close()
			logw = f
		}
		t0 := time.Now()
		pump(os.Stdin, logw, h, st, *nw, map[string]bool{"SCHEMA": true, "POOL": true})
		for _, f := range atExit {
			f()
		}
		sum := &Summary{Property: id, Mode: mode, Counters: st.Counters, Known: st.Known, Samples: st.Samples,
			Mismatches: st.Mismatches, NMismatch: st.nMismatch, Notes: st.Notes, WallS: time.Since(t0).Seconds()}
		normalize(sum)
		writeSummary(*summary, sum)
		if st.nMismatch > 0 {
			os.Exit(1)
		}
	case "record":
		mk, ok := recorders[id]
		if !ok {
			fmt.Fprintf(os.Stderr, "gqlv: no recorder for %s\n", id)
			os.Exit(2)
		}
		loadKnown(*known)
		os.Exit(mk(os.Args[3:]))
	default:
		fmt.Fprintln(os.Stderr, "gqlv: unknown mode", mode)
		os.Exit(2)
	}
}

var recorders = map[string]func(args []string) int{}

var atExit []func()

func normalize(sum *Summary) {
	if sum.Samples == nil {
		sum.Samples = []interface{}{}
	}
	if sum.Mismatches == nil {
		sum.Mismatches = []Mismatch{}
	}
	if sum.Notes == nil {
		sum.Notes = []string{}
	}
}

func sortedKeys(m map[string]int64) []string {
	ks := make([]string, 0, len(m))
	for k := range m {
		ks = append(ks, k)
	}
	sort.Strings(ks)
	return ks
}
