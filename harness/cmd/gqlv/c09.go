package main

import (
	"context"
	"encoding/json"
	"flag"
	"fmt"
	"os"
	"runtime/debug"
	"sort"
	"strconv"
	"strings"
	"sync"
	"time"

	"gqlverif/abs"

	"github.com/graphql-go/graphql"
	"github.com/graphql-go/graphql/gqlerrors"
	"github.com/graphql-go/graphql/language/ast"
	"github.com/graphql-go/graphql/language/parser"
	"github.com/graphql-go/graphql/language/printer"
	"github.com/graphql-go/graphql/language/source"
)

// C09: every input of the TLC-generated spaces is pushed through every public entry point;
// each call is summarised as an observation shape; the distinct shapes (with counts and a
// sample input) are written for Trace_C09.tla, which evaluates ResultShape.

type c09Shape struct {
	Entry   string `json:"entry"`
	Parse   bool   `json:"parse"`
	Valid   bool   `json:"valid"`
	Data    bool   `json:"data"`
	Errs    bool   `json:"errs"`
	JSON    bool   `json:"json"`
	Panic   bool   `json:"panic"`
	Timeout bool   `json:"timeout"`
}

type c09Agg struct {
	n      int
	sample string
	note   string
}

type c09State struct {
	mu     sync.Mutex
	shapes map[c09Shape]*c09Agg
}

func (s *c09State) add(sh c09Shape, input, note string) {
	s.mu.Lock()
	a := s.shapes[sh]
	if a == nil {
		a = &c09Agg{sample: input, note: note}
		s.shapes[sh] = a
	}
	a.n++
	s.mu.Unlock()
}

var charReps = map[string]string{"BOM": "\ufeff", "E9": "é", "U1F600": "😀", "BEL": "\a", "DEL": "\x7f"}

func c09Text(mode string, seq []string) string {
	if mode == "tok" {
		return strings.Join(seq, " ")
	}
	var sb strings.Builder
	for _, c := range seq {
		if r, ok := charReps[c]; ok {
			sb.WriteString(r)
		} else {
			sb.WriteString(c)
		}
	}
	// character strings are tried bare and inside four contexts by the caller
	return sb.String()
}

func resultShape(entry string, res *graphql.Result, pan string, parse, valid bool) c09Shape {
	sh := c09Shape{Entry: entry, Parse: parse, Valid: valid, JSON: true}
	if pan != "" {
		sh.Panic = true
		return sh
	}
	if res == nil {
		sh.JSON = false
		return sh
	}
	sh.Data = res.Data != nil
	sh.Errs = len(res.Errors) > 0
	if _, err := json.Marshal(res); err != nil {
		sh.JSON = false
	}
	return sh
}

// battery runs every entry point on one request text (and variables) and reports shapes.
func c09Battery(b *abs.Built, text string, vars map[string]interface{}, outs []abs.OutEntry, report func(c09Shape, string)) {
	mkctx := func() context.Context {
		return abs.WithRun(context.Background(), &abs.RunCtx{Built: b, Root: rootObject, RootTag: "r", Outs: outs})
	}
	var doc *ast.Document
	var perr error
	parsePanic := ""
	func() {
		defer func() {
			if r := recover(); r != nil {
				parsePanic = fmt.Sprint(r)
			}
		}()
		doc, perr = parseDoc(text)
	}()
	parse := parsePanic == "" && perr == nil && doc != nil
	report(c09Shape{Entry: "Parse", Parse: parse, Valid: true, Errs: perr != nil, JSON: true, Data: false, Panic: parsePanic != ""}, parsePanic)
	valid := false
	if parse {
		func() {
			defer func() {
				if r := recover(); r != nil {
					report(c09Shape{Entry: "ValidateDocument", Parse: true, Panic: true, JSON: true}, fmt.Sprint(r))
				}
			}()
			vr := graphql.ValidateDocument(&b.Schema, doc, nil)
			valid = vr.IsValid
			_, jerr := json.Marshal(vr.Errors)
			report(c09Shape{Entry: "ValidateDocument", Parse: true, Valid: vr.IsValid, Errs: len(vr.Errors) > 0, JSON: jerr == nil}, "")
		}()
	}
	// Do
	res, pan := guard(func() *graphql.Result {
		return graphql.Do(graphql.Params{Schema: b.Schema, RequestString: text, RootObject: rootObject, VariableValues: vars, Context: mkctx()})
	})
	report(resultShape("Do", res, pan, parse, valid), pan)
	// Subscribe
	func() {
		ctx, cancel := context.WithCancel(mkctx())
		defer cancel()
		var first *graphql.Result
		var pan string
		timedOut := false
		func() {
			defer func() {
				if r := recover(); r != nil {
					pan = fmt.Sprint(r)
				}
			}()
			ch := graphql.Subscribe(graphql.Params{Schema: b.Schema, RequestString: text, RootObject: rootObject, VariableValues: vars, Context: ctx})
			select {
			case first = <-ch:
			case <-time.After(3 * time.Second):
				timedOut = true
			}
		}()
		sh := resultShape("Subscribe", first, pan, parse, valid)
		if timedOut {
			sh = c09Shape{Entry: "Subscribe", Parse: parse, Valid: valid, Timeout: true, JSON: true}
		} else if first == nil && pan == "" {
			// channel closed without a result: only legal for a valid subscription whose source ended
			sh = c09Shape{Entry: "Subscribe", Parse: parse, Valid: valid, Errs: true, JSON: true}
		}
		report(sh, pan)
	}()
	// PlanCache.Get (+ ExecutePlan)
	for _, norm := range []bool{false, true} {
		cache := graphql.NewPlanCache(graphql.PlanCacheOptions{MaxEntries: 2, Normalize: norm})
		res, pan = guard(func() *graphql.Result {
			pr := cache.Get(&b.Schema, text, "")
			if len(pr.Errors) > 0 || pr.Plan == nil {
				return &graphql.Result{Errors: pr.Errors}
			}
			args := map[string]interface{}{}
			for k, v := range vars {
				args[k] = v
			}
			for k, v := range pr.SynthArgs {
				args[k] = v
			}
			return graphql.ExecutePlan(pr.Plan, graphql.ExecuteParams{Schema: b.Schema, Root: rootObject, Args: args, Context: mkctx()})
		})
		report(resultShape("CacheGet+ExecutePlan", res, pan, parse, valid), pan)
	}
	if !parse {
		return
	}
	// unvalidated documents straight into planning / execution / printing
	res, pan = guard(func() *graphql.Result {
		return graphql.Execute(graphql.ExecuteParams{Schema: b.Schema, Root: rootObject, AST: doc, Args: vars, Context: mkctx()})
	})
	report(resultShape("Execute", res, pan, true, valid), pan)
	res, pan = guard(func() *graphql.Result {
		plan, err := graphql.PlanQuery(&b.Schema, doc, "")
		if err != nil {
			return &graphql.Result{Errors: gqlErrs(err)}
		}
		return graphql.ExecutePlan(plan, graphql.ExecuteParams{Schema: b.Schema, Root: rootObject, Args: vars, Context: mkctx()})
	})
	report(resultShape("ExecutePlan", res, pan, true, valid), pan)
	func() {
		ctx, cancel := context.WithCancel(mkctx())
		defer cancel()
		var first *graphql.Result
		var pan string
		timedOut := false
		func() {
			defer func() {
				if r := recover(); r != nil {
					pan = fmt.Sprint(r)
				}
			}()
			ch := graphql.ExecuteSubscription(graphql.ExecuteParams{Schema: b.Schema, Root: rootObject, AST: doc, Args: vars, Context: ctx})
			select {
			case first = <-ch:
			case <-time.After(3 * time.Second):
				timedOut = true
			}
		}()
		sh := resultShape("ExecuteSubscription", first, pan, true, valid)
		if timedOut {
			sh = c09Shape{Entry: "ExecuteSubscription", Parse: true, Valid: valid, Timeout: true, JSON: true}
		} else if first == nil && pan == "" {
			sh = c09Shape{Entry: "ExecuteSubscription", Parse: true, Valid: valid, Errs: true, JSON: true}
		}
		report(sh, pan)
	}()
	func() {
		pan := ""
		func() {
			defer func() {
				if r := recover(); r != nil {
					pan = fmt.Sprint(r)
				}
			}()
			_ = printer.Print(doc)
		}()
		report(c09Shape{Entry: "Print", Parse: true, Valid: valid, Panic: pan != "", JSON: true, Data: true}, pan)
	}()
}

// c09Degen is one case of MC_C09's "degen" space: an entry point and the parameters handed to it.
type c09Degen struct {
	Entry  string `json:"entry"`
	Schema string `json:"schema"` // ok | nil | zero
	Doc    string `json:"doc"`    // ok | nil | empty | nildef | nilsel
	Vars   string `json:"vars"`   // ok | nil
	Ctx    string `json:"ctx"`    // ok | nil
	Op     string `json:"op"`
}

// c09DegenCase calls one entry point with nil / zero-valued parameters.  What a request without schema or
// document should answer beyond "no panic, returns, serialisable, an error whenever data is absent" is not stated
// by the property (a zero Schema answers {"data":{}}): the observation is reported as parsed and valid, which
// leaves exactly those clauses of ResultShape.
func c09DegenCase(b *abs.Built, c *c09Degen, report func(c09Shape, string)) {
	var schema graphql.Schema
	var schemaP *graphql.Schema
	switch c.Schema {
	case "ok":
		schema, schemaP = b.Schema, &b.Schema
	case "zero":
		schemaP = &graphql.Schema{}
	}
	text := "{ a }"
	var doc *ast.Document
	switch c.Doc {
	case "ok":
		doc, _ = parseDoc(text)
	case "empty":
		doc, text = &ast.Document{Kind: "Document"}, ""
	default:
		text = ""
	}
	var vars map[string]interface{}
	if c.Vars == "ok" {
		vars = map[string]interface{}{}
	}
	var ctx context.Context
	if c.Ctx == "ok" {
		ctx = abs.WithRun(context.Background(), &abs.RunCtx{Built: b, Root: rootObject, RootTag: "r"})
	}
	proper := c.Schema == "ok" && c.Doc == "ok" && c.Op == ""
	shape := func(res *graphql.Result, pan string) {
		sh := resultShape(c.Entry, res, pan, true, true)
		if c.Entry == "CacheGet" {
			sh.Entry = "CacheGet+ExecutePlan"
		}
		report(sh, pan)
	}
	plain := func(f func()) {
		pan := ""
		done := make(chan struct{})
		go func() {
			defer close(done)
			defer func() {
				if r := recover(); r != nil {
					pan = fmt.Sprint(r)
				}
			}()
			f()
		}()
		select {
		case <-done:
			report(c09Shape{Entry: c.Entry, Parse: true, Valid: true, Data: true, JSON: true, Panic: pan != ""}, pan)
		case <-time.After(5 * time.Second):
			report(c09Shape{Entry: c.Entry, Parse: true, Valid: true, JSON: true, Timeout: true}, "did not return within 5 s")
		}
	}
	switch c.Entry {
	case "Do":
		shape(guard(func() *graphql.Result {
			return graphql.Do(graphql.Params{Schema: schema, RequestString: text, RootObject: rootObject, VariableValues: vars, OperationName: c.Op, Context: ctx})
		}))
	case "Subscribe":
		var first *graphql.Result
		pan := ""
		func() {
			defer func() {
				if r := recover(); r != nil {
					pan = fmt.Sprint(r)
				}
			}()
			cctx := ctx
			if cctx != nil {
				var cancel context.CancelFunc
				cctx, cancel = context.WithCancel(cctx)
				defer cancel()
			}
			ch := graphql.Subscribe(graphql.Params{Schema: schema, RequestString: text, RootObject: rootObject, VariableValues: vars, OperationName: c.Op, Context: cctx})
			select {
			case first = <-ch:
			case <-time.After(3 * time.Second):
			}
		}()
		if first == nil && pan == "" {
			report(c09Shape{Entry: "Subscribe", Errs: true, JSON: true, Timeout: !proper}, "no first result within 3 s")
			return
		}
		shape(first, pan)
	case "ValidateDocument":
		plain(func() {
			vr := graphql.ValidateDocument(schemaP, doc, nil)
			if vr.IsValid && (schemaP == nil || doc == nil) {
				panic("ValidateDocument calls a request without schema or document valid")
			}
		})
	case "PlanQuery", "ExecutePlan":
		shape(guard(func() *graphql.Result {
			plan, err := graphql.PlanQuery(schemaP, doc, c.Op)
			if c.Entry == "PlanQuery" {
				if err != nil {
					return &graphql.Result{Errors: gqlErrs(err)}
				}
				if plan == nil {
					panic("PlanQuery returned neither a plan nor an error")
				}
				if !proper {
					return &graphql.Result{Data: map[string]interface{}{"planned": true}}
				}
			} else if err != nil || !proper {
				plan = nil // ExecutePlan with a nil plan
			}
			return graphql.ExecutePlan(plan, graphql.ExecuteParams{Schema: schema, Root: rootObject, Args: vars, OperationName: c.Op, Context: ctx})
		}))
	case "Execute":
		shape(guard(func() *graphql.Result {
			return graphql.Execute(graphql.ExecuteParams{Schema: schema, Root: rootObject, AST: doc, Args: vars, OperationName: c.Op, Context: ctx})
		}))
	case "ExecuteSubscription":
		var first *graphql.Result
		pan := ""
		func() {
			defer func() {
				if r := recover(); r != nil {
					pan = fmt.Sprint(r)
				}
			}()
			cctx := ctx
			if cctx != nil {
				var cancel context.CancelFunc
				cctx, cancel = context.WithCancel(cctx)
				defer cancel()
			}
			ch := graphql.ExecuteSubscription(graphql.ExecuteParams{Schema: schema, Root: rootObject, AST: doc, Args: vars, OperationName: c.Op, Context: cctx})
			select {
			case first = <-ch:
			case <-time.After(3 * time.Second):
			}
		}()
		if first == nil && pan == "" {
			report(c09Shape{Entry: "ExecuteSubscription", Errs: true, JSON: true, Timeout: !proper}, "no first result within 3 s")
			return
		}
		shape(first, pan)
	case "CacheGet":
		for _, nilCache := range []bool{false, true} {
			shape(guard(func() *graphql.Result {
				var cache *graphql.PlanCache
				if !nilCache {
					cache = graphql.NewPlanCache(graphql.PlanCacheOptions{MaxEntries: 2, Normalize: c.Vars == "ok"})
				}
				pr := cache.Get(schemaP, text, c.Op)
				if len(pr.Errors) > 0 || pr.Plan == nil {
					return &graphql.Result{Errors: pr.Errors}
				}
				return graphql.ExecutePlan(pr.Plan, graphql.ExecuteParams{Schema: schema, Root: rootObject, Args: vars, Context: ctx})
			}))
		}
	case "Print":
		plain(func() {
			if doc == nil {
				_ = printer.Print(nil)
			} else {
				_ = printer.Print(doc)
			}
		})
	case "Parse":
		plain(func() {
			var src interface{}
			switch c.Doc {
			case "ok":
				src = text
			case "empty":
				src = ""
			case "nil":
				if c.Vars == "ok" {
					src = source.NewSource(nil)
				} else if c.Ctx == "ok" {
					src = &source.Source{}
				}
			}
			_, _ = parser.Parse(parser.ParseParams{Source: src})
		})
	}
}

func gqlErrs(err error) []gqlerrors.FormattedError {
	return gqlerrors.FormatErrors(err)
}

func init() {
	handlers["C09"] = func(fs *flag.FlagSet) handler {
		traceOut := fs.String("trace-out", "", "NDJSON trace for Trace_C09")
		inflight := fs.String("inflight", "", "prefix of files naming the document each worker is processing")
		state := &c09State{shapes: map[c09Shape]*c09Agg{}}
		var once sync.Once
		return func(tag string, raw []byte, st *Stats, wk *worker) {
			once.Do(func() {
				// runaway recursion must end as Go's "fatal error: stack overflow" (which the driver attributes to the
				// document in flight), not as the kernel killing the process for the heap each frame allocates
				debug.SetMaxStack(64 << 20)
				atExit = append(atExit, func() {
					if *traceOut == "" {
						return
					}
					tw := openTrace(*traceOut, 1<<30)
					keys := make([]c09Shape, 0, len(state.shapes))
					for k := range state.shapes {
						keys = append(keys, k)
					}
					sort.Slice(keys, func(i, j int) bool { return fmt.Sprint(keys[i]) < fmt.Sprint(keys[j]) })
					for _, k := range keys {
						a := state.shapes[k]
						tw.put([]interface{}{map[string]interface{}{"t": "ev", "entry": k.Entry, "parse": k.Parse, "valid": k.Valid,
							"data": k.Data, "errs": k.Errs, "json": k.JSON, "panic": k.Panic, "timeout": k.Timeout, "n": a.n,
							"sample": strconv.QuoteToASCII(a.sample), "note": strconv.QuoteToASCII(a.note)}})
					}
					tw.close(map[string]string{"t": "end"})
				})
			})
			switch tag {
			case "SCHEMA":
				handleSchemaLine(raw, st, wk)
			case "VEC":
				b := builtFor(wk)
				if b == nil {
					st.Mismatch(Mismatch{What: "infra: vector before SCHEMA"})
					return
				}
				var probe struct {
					Case *c09Degen `json:"case"`
					A    []string  `json:"a"`
					B    []string  `json:"b"`
					Mode string   `json:"mode"`
					Seq  []string `json:"seq"`
					Fam  string   `json:"fam"`
					Toks []string `json:"toks"`
				}
				json.Unmarshal(raw, &probe)
				type job struct {
					text string
					vars map[string]interface{}
					outs []abs.OutEntry
				}
				var jobs []job
				if probe.Mode == "subcyc" {
					// S1 with M as subscription root (built once per worker)
					bv, _ := wk.cache["c09subroot"].(*abs.Built)
					if bv == nil {
						cp := *b.Abs
						cp.Subscription = "M"
						var err error
						if bv, err = abs.Build(&cp); err != nil {
							st.Mismatch(Mismatch{What: "infra: " + err.Error()})
							return
						}
						wk.cache["c09subroot"] = bv
					}
					text := "subscription { ...A } fragment A on M { " + strings.Join(probe.A, " ") + " } fragment B on M { " + strings.Join(probe.B, " ") + " }"
					if *inflight != "" {
						os.WriteFile(fmt.Sprintf("%s.%d", *inflight, wk.id), []byte(text), 0o644)
					}
					st.Add("vectors", 1)
					c09Battery(bv, text, nil, nil, func(sh c09Shape, note string) {
						state.add(sh, text, note)
						st.Add("executions", 1)
					})
					st.Distinct("distinct_nontrivial", text)
					return
				}
				if probe.Mode == "degen" && probe.Case != nil {
					st.Add("vectors", 1)
					c09DegenCase(b, probe.Case, func(sh c09Shape, note string) {
						state.add(sh, fmt.Sprintf("%+v", *probe.Case), note)
						st.Add("executions", 1)
					})
					st.Distinct("distinct_nontrivial", string(raw))
					return
				}
				if probe.Fam == "tok" {
					// a token-kind string of MC_C03 (grown from a fixed prefix, pruned at the first non-viable token)
					jobs = append(jobs, job{text: string(renderTokens(probe.Toks, 0).text)})
				} else if probe.Mode != "" {
					t := c09Text(probe.Mode, probe.Seq)
					jobs = append(jobs, job{text: t})
					if probe.Mode == "char" {
						jobs = append(jobs, job{text: "{ a " + t + " b }"}, job{text: "{ f(x: \"" + t + "\") }"},
							job{text: "{ g(st: \"\"\"" + t + "\"\"\") }"}, job{text: "{ f(x: 1" + t + ") }"})
					}
				} else {
					var v execVector
					if err := json.Unmarshal(raw, &v); err != nil {
						st.Mismatch(Mismatch{What: "infra: bad vector: " + err.Error()})
						return
					}
					pr := abs.Print(&v.Doc, abs.DefaultLayout)
					if *inflight != "" {
						// a fatal runtime error (stack overflow) cannot be recovered: leave a note for the driver
						os.WriteFile(fmt.Sprintf("%s.%d", *inflight, wk.id), []byte(pr.Text), 0o644)
					}
					if len(v.Runs) == 0 {
						jobs = append(jobs, job{text: pr.Text})
					}
					for _, r := range v.Runs {
						var outs []abs.OutEntry
						if r.Oi >= 1 && r.Oi <= len(v.Outs) {
							outs = v.Outs[r.Oi-1]
						}
						jobs = append(jobs, job{text: pr.Text, vars: varsMap(r.Inputs), outs: outs})
					}
				}
				st.Add("vectors", 1)
				for _, j := range jobs {
					j := j
					done := make(chan struct{})
					go func() {
						defer close(done)
						c09Battery(b, j.text, j.vars, j.outs, func(sh c09Shape, note string) {
							state.add(sh, j.text, note)
							st.Add("executions", 1)
						})
					}()
					select {
					case <-done:
					case <-time.After(15 * time.Second):
						state.add(c09Shape{Entry: "battery", Timeout: true, JSON: true}, j.text, "an entry point did not return within 15 s")
					}
					st.Distinct("distinct_nontrivial", j.text)
				}
				if len(jobs) > 0 {
					st.Sample(map[string]interface{}{"request": strconv.QuoteToASCII(jobs[0].text)})
				}
			}
		}
	}
}
