package main

import (
	"context"
	"encoding/json"
	"flag"
	"fmt"
	"sort"
	"strings"

	"gqlverif/abs"

	"github.com/graphql-go/graphql"
	"github.com/graphql-go/graphql/gqlerrors"
	"github.com/graphql-go/graphql/language/ast"
)

// ---- C02 (and C18b): vectors of MC_C02*.tla ----
//
// A vector is an abstract document plus, for each of the 24 validation rules, the set of
// offending node ids Validate.tla computes (`viol`), the same under each named deviation where
// it differs (`dev`), and the rules whose verdict is not asserted on this document (`unspec`).
// The handler prints the document in several layouts (recording where every node starts),
// parses it with the real parser and compares, for every rule alone, for all rules together
// and for graphql.Do, the real verdict and error locations with the specification's.
// It contains no validation logic of its own.

type c02RuleViol struct {
	R   string   `json:"r"`
	Ids []string `json:"ids"`
}

type c02DevViol struct {
	D   string   `json:"d"`
	R   string   `json:"r"`
	Ids []string `json:"ids"`
}

type c02Vector struct {
	Fam    string        `json:"fam"`
	Doc    abs.VDoc      `json:"doc"`
	Viol   []c02RuleViol `json:"viol"`
	Dev    []c02DevViol  `json:"dev"`
	Unspec []string      `json:"unspec"`
}

var c02Rules = []struct {
	Name string
	Fn   graphql.ValidationRuleFn
}{
	{"ArgumentsOfCorrectType", graphql.ArgumentsOfCorrectTypeRule},
	{"DefaultValuesOfCorrectType", graphql.DefaultValuesOfCorrectTypeRule},
	{"FieldsOnCorrectType", graphql.FieldsOnCorrectTypeRule},
	{"FragmentsOnCompositeTypes", graphql.FragmentsOnCompositeTypesRule},
	{"KnownArgumentNames", graphql.KnownArgumentNamesRule},
	{"KnownDirectives", graphql.KnownDirectivesRule},
	{"KnownFragmentNames", graphql.KnownFragmentNamesRule},
	{"KnownTypeNames", graphql.KnownTypeNamesRule},
	{"LoneAnonymousOperation", graphql.LoneAnonymousOperationRule},
	{"NoFragmentCycles", graphql.NoFragmentCyclesRule},
	{"NoUndefinedVariables", graphql.NoUndefinedVariablesRule},
	{"NoUnusedFragments", graphql.NoUnusedFragmentsRule},
	{"NoUnusedVariables", graphql.NoUnusedVariablesRule},
	{"OverlappingFieldsCanBeMerged", graphql.OverlappingFieldsCanBeMergedRule},
	{"PossibleFragmentSpreads", graphql.PossibleFragmentSpreadsRule},
	{"ProvidedNonNullArguments", graphql.ProvidedNonNullArgumentsRule},
	{"ScalarLeafs", graphql.ScalarLeafsRule},
	{"UniqueArgumentNames", graphql.UniqueArgumentNamesRule},
	{"UniqueFragmentNames", graphql.UniqueFragmentNamesRule},
	{"UniqueInputFieldNames", graphql.UniqueInputFieldNamesRule},
	{"UniqueOperationNames", graphql.UniqueOperationNamesRule},
	{"UniqueVariableNames", graphql.UniqueVariableNamesRule},
	{"VariablesAreInputTypes", graphql.VariablesAreInputTypesRule},
	{"VariablesInAllowedPosition", graphql.VariablesInAllowedPositionRule},
}

// relatedKey: node ids a and b denote the same node, or one is a part of the other
// (an argument of the field, the value of the argument, the name of the spread ...).
func relatedKey(a, b string) bool {
	return a == b || strings.HasPrefix(a, b+".") || strings.HasPrefix(b, a+".")
}

type c02Observed struct {
	N     int
	Msgs  []string
	Locs  [][][2]int
	Panic string
}

func c02Validate(sch *graphql.Schema, doc *ast.Document, rules []graphql.ValidationRuleFn) (o c02Observed) {
	defer func() {
		if r := recover(); r != nil {
			o.Panic = fmt.Sprintf("%v", r)
		}
	}()
	vr := graphql.ValidateDocument(sch, doc, rules)
	o.N = len(vr.Errors)
	if vr.IsValid != (o.N == 0) {
		o.Panic = fmt.Sprintf("ValidationResult.IsValid=%v with %d errors", vr.IsValid, o.N)
	}
	for _, e := range vr.Errors {
		o.Msgs = append(o.Msgs, e.Message)
		o.Locs = append(o.Locs, c02Locs(e))
	}
	return o
}

func c02Locs(e gqlerrors.FormattedError) [][2]int {
	out := make([][2]int, 0, len(e.Locations))
	for _, l := range e.Locations {
		out = append(out, [2]int{l.Line, l.Column})
	}
	return out
}

// locate checks clause "located at the offending node" (C02) / C18(b): every reported error has at
// least one location that is the start of an offending node (or of a part / the whole of it).
// Returns "" or a description.
func c02Locate(o c02Observed, ids []string, at map[[2]int][]string, strict bool) string {
	for i, locs := range o.Locs {
		if len(locs) == 0 {
			return "error without location: " + o.Msgs[i]
		}
		ok := false
		for _, lc := range locs {
			here := false
			for _, k := range at[lc] {
				for _, id := range ids {
					if relatedKey(k, id) {
						here = true
					}
				}
			}
			if here {
				ok = true
			} else if strict {
				// every location an error carries points at a node the rule's verdict names
				return fmt.Sprintf("location %v of the error %q is not the start of an offending node %v", lc, o.Msgs[i], ids)
			}
		}
		if !ok {
			return fmt.Sprintf("no location of the error %q %v is the start of an offending node %v", o.Msgs[i], locs, ids)
		}
	}
	return ""
}

// rules whose verdict names EVERY node an error may point at (the spreads that form a cycle): all locations of an
// error are checked, not only one.  (Other rules legitimately add the operation, the variable definition ...)
var c02StrictLocations = map[string]bool{"NoFragmentCycles": true}

// sampleValue builds a type-conformant JSON-like value for a variable of type t (a builder, not
// semantics: the document is valid, so the type is a known input type).
func sampleValue(s *abs.Schema, t abs.TypeRef, depth int) interface{} {
	for i, w := range t.W {
		if w == "L" {
			return []interface{}{sampleValue(s, abs.TypeRef{W: t.W[i+1:], N: t.N}, depth+1)}
		}
	}
	switch t.N {
	case "Int":
		return 1
	case "Float":
		return 1.5
	case "String", "ID":
		return "s"
	case "Boolean":
		return true
	}
	tr, ok := s.Types[t.N]
	if !ok {
		return nil
	}
	switch tr.Kind {
	case "ENUM":
		if len(tr.Values) > 0 {
			return tr.Values[0].Name
		}
	case "SCALAR":
		return "c"
	case "INPUT_OBJECT":
		m := map[string]interface{}{}
		if depth < 4 {
			for _, f := range tr.Inputs {
				if len(f.Type.W) > 0 && f.Type.W[0] == "NN" {
					m[f.Name] = sampleValue(s, f.Type, depth+1)
				}
			}
		}
		return m
	}
	return nil
}

func init() {
	handlers["C02"] = c02Handler(false)
	handlers["C18b"] = c02Handler(true)
}

func c02Handler(c18 bool) func(fs *flag.FlagSet) handler {
	return func(fs *flag.FlagSet) handler {
		layouts := fs.String("layouts", "lf,cr,crlf,comment,fragsfirst", "comma-separated layouts (lf cr crlf comment crlfcom compact fragsfirst)")
		return func(tag string, raw []byte, st *Stats, wk *worker) {
			switch tag {
			case "SCHEMA":
				handleSchemaLine(raw, st, wk)
			case "VEC":
				var lays []abs.VLayout
				for _, n := range strings.Split(*layouts, ",") {
					if l, ok := abs.VLayouts[strings.TrimSpace(n)]; ok {
						lays = append(lays, l)
					}
				}
				replayC02(raw, st, wk, lays, c18)
			}
		}
	}
}

func replayC02(raw []byte, st *Stats, wk *worker, lays []abs.VLayout, c18 bool) {
	prop := "C02"
	if c18 {
		prop = "C18b"
	}
	var v c02Vector
	if err := json.Unmarshal(raw, &v); err != nil {
		st.Mismatch(Mismatch{What: "infra: bad vector: " + err.Error()})
		return
	}
	b := builtFor(wk)
	if b == nil {
		st.Mismatch(Mismatch{What: "infra: vector before SCHEMA"})
		return
	}
	st.Add("vectors", 1)
	viol := map[string][]string{}
	for _, rv := range v.Viol {
		viol[rv.R] = rv.Ids
	}
	unspec := map[string]bool{}
	for _, r := range v.Unspec {
		unspec[r] = true
	}
	// a rule the specification leaves open on this document is not asserted at all: neither its own
	// verdict nor its contribution to the verdict of the whole document
	for r := range unspec {
		delete(viol, r)
	}
	devOf := map[string][]c02DevViol{} // rule -> deviated verdicts
	var devs []c02DevViol
	for _, d := range v.Dev {
		if !unspec[d.R] {
			devOf[d.R] = append(devOf[d.R], d)
			devs = append(devs, d)
		}
	}
	v.Dev = devs
	specInvalid := len(viol) > 0
	anyUnspecSilent := len(unspec) > 0
	for r := range viol {
		st.Add("violated/"+r, 1) // how often each rule is exercised by an invalid document
	}
	if specInvalid || len(v.Doc.Frags) >= 2 {
		st.Distinct("distinct_nontrivial", string(mustJSON(v.Doc)))
	}
	if specInvalid {
		st.Add("spec_invalid", 1)
	} else {
		st.Add("spec_valid", 1)
	}

	// the verdicts the all-rules run may have: the specification's, or the specification's with the
	// deviated rules replaced, for every non-empty set of LISTED deviations present in the vector
	type alt struct {
		devs    []string
		invalid bool
	}
	var alts []alt
	var listed []c02DevViol
	for _, d := range v.Dev {
		if devsListed([]string{d.D}) {
			listed = append(listed, d)
		}
	}
	for mask := 1; mask < 1<<len(listed); mask++ {
		repl := map[string][]string{}
		var names []string
		for i, d := range listed {
			if mask&(1<<i) != 0 {
				repl[d.R] = d.Ids
				names = append(names, d.D)
			}
		}
		inv := false
		for _, r := range c02Rules {
			ids, ok := repl[r.Name]
			if !ok {
				ids = viol[r.Name]
			}
			if len(ids) > 0 {
				inv = true
			}
		}
		alts = append(alts, alt{names, inv})
	}
	sort.SliceStable(alts, func(i, j int) bool { return len(alts[i].devs) < len(alts[j].devs) })

	for li, lay := range lays {
		pr := abs.PrintV(&v.Doc, lay)
		report := func(what string, detail map[string]interface{}) {
			cat := what
			if i := strings.IndexAny(cat, ":"); i > 0 {
				cat = cat[:i]
			}
			st.Add("mismatch/"+cat, 1)
			if detail == nil {
				detail = map[string]interface{}{}
			}
			detail["query"] = pr.Text
			detail["layout"] = lay.Name
			detail["spec_viol"] = v.Viol
			detail["spec_dev"] = v.Dev
			detail["unspec"] = v.Unspec
			st.Mismatch(Mismatch{What: prop + " " + what, Detail: detail, Vector: raw})
		}
		doc, err := parseDoc(pr.Text)
		if err != nil {
			report("infra: generated document does not parse: "+err.Error(), nil)
			return
		}
		at := map[[2]int][]string{}
		for k, lc := range pr.Pos {
			at[lc] = append(at[lc], k)
		}
		// ---- every rule alone
		for _, r := range c02Rules {
			ids := viol[r.Name]
			if c18 && len(ids) == 0 && len(devOf[r.Name]) == 0 {
				continue // C18(b) looks at locations only
			}
			if li > 0 && len(ids) == 0 && len(devOf[r.Name]) == 0 && !c18 {
				// other layouts: the verdict cannot depend on white space; re-run only what has locations
				continue
			}
			o := c02Validate(&b.Schema, doc, []graphql.ValidationRuleFn{r.Fn})
			st.Add("executions", 1)
			if o.Panic != "" {
				report("rule "+r.Name+": panic escaped: "+o.Panic, nil)
				return
			}
			if unspec[r.Name] {
				st.Add("unspecified_not_asserted", 1)
				continue
			}
			if (o.N > 0) == (len(ids) > 0) {
				if o.N > 0 {
					if why := c02Locate(o, ids, at, c02StrictLocations[r.Name]); why != "" {
						report("rule "+r.Name+": location: "+why, map[string]interface{}{"errors": o.Msgs, "locations": o.Locs})
						return
					}
					st.Add("locations_checked", int64(o.N))
				}
				st.Add("agree", 1)
				continue
			}
			// disagreement: explained by a listed deviation?
			explained := ""
			for _, d := range devOf[r.Name] {
				if devsListed([]string{d.D}) && (o.N > 0) == (len(d.Ids) > 0) && (o.N == 0 || c02Locate(o, d.Ids, at, c02StrictLocations[r.Name]) == "") {
					explained = d.D
					break
				}
			}
			if explained != "" {
				st.KnownHit(explained)
				st.Add("explained_by_known_finding", 1)
				continue
			}
			if o.N > 0 {
				report(fmt.Sprintf("rule %s alone reports %d error(s) on a document that satisfies the rule: %s", r.Name, o.N, o.Msgs[0]),
					map[string]interface{}{"errors": o.Msgs, "locations": o.Locs})
			} else {
				report(fmt.Sprintf("rule %s alone accepts a document that violates it at %v", r.Name, ids), nil)
			}
			return
		}
		if c18 {
			continue
		}
		// ---- all rules together, and Do
		judgeAll := func(what string, obsInvalid bool, detail map[string]interface{}) bool {
			if anyUnspecSilent && !specInvalid {
				st.Add("unspecified_not_asserted", 1)
				return true
			}
			if obsInvalid == specInvalid {
				st.Add("agree", 1)
				return true
			}
			for _, a := range alts {
				if a.invalid == obsInvalid {
					for _, d := range a.devs {
						st.KnownHit(d)
					}
					st.Add("explained_by_known_finding", 1)
					return true
				}
			}
			if obsInvalid {
				report(what+" rejects a document that satisfies every rule", detail)
			} else {
				report(what+" accepts a document that violates "+strings.Join(violNames(v.Viol), ", "), detail)
			}
			return false
		}
		o := c02Validate(&b.Schema, doc, nil)
		st.Add("executions", 1)
		if o.Panic != "" {
			report("all rules: panic escaped: "+o.Panic, nil)
			return
		}
		if !judgeAll("ValidateDocument with the specified rules", o.N > 0, map[string]interface{}{"errors": o.Msgs}) {
			return
		}
		if li > 0 {
			continue
		}
		// graphql.Do: no data and >= 1 error exactly for invalid documents
		op := v.Doc.Ops[0]
		if !specInvalid && op.Kind == "subscription" {
			st.Add("do_skipped_subscription", 1)
			continue
		}
		vars := map[string]interface{}{}
		for _, vd := range op.VDefs {
			if x := sampleValue(b.Abs, vd.Type, 0); x != nil {
				vars[vd.N] = x
			}
		}
		rc := &abs.RunCtx{NodeID: pr.FieldAt, Built: b, Root: rootObject, RootTag: "r"}
		res, pan := guard(func() *graphql.Result {
			return graphql.Do(graphql.Params{Schema: b.Schema, RequestString: pr.Text, RootObject: rootObject,
				VariableValues: vars, OperationName: op.Name, Context: abs.WithRun(context.Background(), rc)})
		})
		st.Add("executions", 1)
		if pan != "" || res == nil {
			report("Do: panic escaped: "+pan, nil)
			return
		}
		refused := res.Data == nil && len(res.Errors) > 0
		detail := map[string]interface{}{"data_nil": res.Data == nil, "n_errors": len(res.Errors), "resolver_calls": len(rc.Calls)}
		if len(res.Errors) > 0 {
			detail["first_error"] = res.Errors[0].Message
		}
		if !judgeAll("Do", refused, detail) {
			return
		}
		if refused && len(rc.Calls) > 0 {
			report("Do: resolvers were invoked for a document refused by validation", detail)
			return
		}
	}
	if specInvalid {
		st.Sample(map[string]interface{}{"query": abs.PrintV(&v.Doc, abs.VLayouts["compact"]).Text, "violated": v.Viol})
	}
}

func violNames(vs []c02RuleViol) []string {
	out := make([]string, 0, len(vs))
	for _, v := range vs {
		out = append(out, v.R)
	}
	sort.Strings(out)
	return out
}

func mustJSON(x interface{}) []byte { b, _ := json.Marshal(x); return b }
