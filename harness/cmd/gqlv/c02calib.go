package main

import (
	"encoding/json"
	"flag"
	"fmt"
	"os"
	"path/filepath"
	"regexp"
	"sort"
	"strconv"

	"github.com/graphql-go/graphql"
	"github.com/graphql-go/graphql/language/ast"
	"github.com/graphql-go/graphql/testutil"
)

// ---- C02 calibration (DESIGN.md 4.8), direction B ----
//
// The repository's rules_*_test.go fixtures are green on this tree, so they pin down the edition
// of every rule. The recorder extracts every (rule, query) pair that runs on the shared test
// schema, projects the schema through the public API and the parsed document to the abstract
// forms of Validate.tla, runs the real rule alone and writes (rule, document, observed verdict)
// lines; Trace_C02.tla recomputes the verdict with the very operators the generated families use.
// Any disagreement is, by construction, an error of the SPECIFICATION (or a case to declare
// unspecified), found before it can become a false alarm.

var c02FixtureRe = regexp.MustCompile("testutil\\.Expect(Passes|Fails)Rule\\(t, graphql\\.(\\w+)Rule, `([^`]*)`")

func absTypeOf(t graphql.Type) map[string]interface{} {
	w := []interface{}{}
	for {
		switch tt := t.(type) {
		case *graphql.NonNull:
			w = append(w, "NN")
			t = tt.OfType
			continue
		case *graphql.List:
			w = append(w, "L")
			t = tt.OfType
			continue
		}
		break
	}
	return map[string]interface{}{"w": w, "n": t.Name()}
}

func absNull() map[string]interface{} { return map[string]interface{}{"k": "null"} }

func absArgDefs(args []*graphql.Argument) []interface{} {
	out := []interface{}{}
	sorted := append([]*graphql.Argument(nil), args...)
	sort.Slice(sorted, func(i, j int) bool { return sorted[i].Name() < sorted[j].Name() })
	for _, a := range sorted {
		out = append(out, map[string]interface{}{"name": a.Name(), "type": absTypeOf(a.Type), "hasDef": a.DefaultValue != nil, "def": absNull()})
	}
	return out
}

func absFieldDefs(fm graphql.FieldDefinitionMap) []interface{} {
	names := make([]string, 0, len(fm))
	for n := range fm {
		names = append(names, n)
	}
	sort.Strings(names)
	out := []interface{}{}
	for _, n := range names {
		f := fm[n]
		out = append(out, map[string]interface{}{"name": n, "type": absTypeOf(f.Type), "args": absArgDefs(f.Args)})
	}
	return out
}

// projectSchema renders a real schema, through its public API, in the abstract form of GQLBase.tla.
func projectSchema(s *graphql.Schema) map[string]interface{} {
	types := map[string]interface{}{}
	rec := func(kind string) map[string]interface{} {
		return map[string]interface{}{"kind": kind, "fields": []interface{}{}, "ifaces": []interface{}{}, "members": []interface{}{},
			"values": []interface{}{}, "inputs": []interface{}{}, "defrt": ""}
	}
	rootName := func(o *graphql.Object) string {
		if o == nil {
			return ""
		}
		return o.Name()
	}
	for name, t := range s.TypeMap() {
		switch tt := t.(type) {
		case *graphql.Object:
			r := rec("OBJECT")
			fs := absFieldDefs(tt.Fields())
			if tt == s.QueryType() {
				fs = append(fs,
					map[string]interface{}{"name": "__schema", "type": absTypeOf(graphql.SchemaMetaFieldDef.Type), "args": absArgDefs(graphql.SchemaMetaFieldDef.Args)},
					map[string]interface{}{"name": "__type", "type": absTypeOf(graphql.TypeMetaFieldDef.Type), "args": absArgDefs(graphql.TypeMetaFieldDef.Args)})
			}
			r["fields"] = fs
			ifs := []interface{}{}
			for _, i := range tt.Interfaces() {
				ifs = append(ifs, i.Name())
			}
			r["ifaces"] = ifs
			types[name] = r
		case *graphql.Interface:
			r := rec("INTERFACE")
			r["fields"] = absFieldDefs(tt.Fields())
			types[name] = r
		case *graphql.Union:
			r := rec("UNION")
			ms := []interface{}{}
			for _, m := range tt.Types() {
				ms = append(ms, m.Name())
			}
			r["members"] = ms
			types[name] = r
		case *graphql.Enum:
			r := rec("ENUM")
			vs := []interface{}{}
			for _, v := range tt.Values() {
				vs = append(vs, map[string]interface{}{"name": v.Name, "internal": v.Name, "deprecated": false})
			}
			r["values"] = vs
			types[name] = r
		case *graphql.InputObject:
			r := rec("INPUT_OBJECT")
			fm := tt.Fields()
			names := make([]string, 0, len(fm))
			for n := range fm {
				names = append(names, n)
			}
			sort.Strings(names)
			ins := []interface{}{}
			for _, n := range names {
				ins = append(ins, map[string]interface{}{"name": n, "type": absTypeOf(fm[n].Type), "hasDef": fm[n].DefaultValue != nil, "def": absNull()})
			}
			r["inputs"] = ins
			types[name] = r
		case *graphql.Scalar:
			types[name] = rec("SCALAR")
		}
	}
	dirs := []interface{}{}
	for _, d := range s.Directives() {
		locs := []interface{}{}
		for _, l := range d.Locations {
			locs = append(locs, l)
		}
		dirs = append(dirs, map[string]interface{}{"name": d.Name, "locs": locs, "args": absArgDefs(d.Args)})
	}
	return map[string]interface{}{"query": rootName(s.QueryType()), "mutation": rootName(s.MutationType()),
		"subscription": rootName(s.SubscriptionType()), "types": types, "directives": dirs}
}

// astToAbs converts a parsed executable document into the abstract document of Validate.tla
// (selection ids in pre-order). ok=false: the document uses something the model does not have.
type absConv struct {
	next int
	ok   bool
}

func (c *absConv) value(v ast.Value) map[string]interface{} {
	switch x := v.(type) {
	case *ast.Variable:
		return map[string]interface{}{"k": "var", "n": x.Name.Value}
	case *ast.IntValue:
		tok := x.Value
		if n, err := strconv.ParseInt(x.Value, 10, 64); err != nil || n > 2147483647 {
			tok = "over32"
			if err == nil && n < 0 {
				tok = "under32"
			}
		} else if n < -2147483648 {
			tok = "under32"
		}
		return map[string]interface{}{"k": "int", "v": tok}
	case *ast.FloatValue:
		return map[string]interface{}{"k": "float", "v": x.Value}
	case *ast.StringValue:
		return map[string]interface{}{"k": "str", "v": x.Value}
	case *ast.BooleanValue:
		return map[string]interface{}{"k": "bool", "b": x.Value}
	case *ast.EnumValue:
		if x.Value == "null" {
			c.ok = false
		}
		return map[string]interface{}{"k": "enum", "v": x.Value}
	case *ast.ListValue:
		items := []interface{}{}
		for _, it := range x.Values {
			items = append(items, c.value(it))
		}
		return map[string]interface{}{"k": "list", "items": items}
	case *ast.ObjectValue:
		fs := []interface{}{}
		for _, f := range x.Fields {
			fs = append(fs, map[string]interface{}{"n": f.Name.Value, "v": c.value(f.Value)})
		}
		return map[string]interface{}{"k": "obj", "fields": fs}
	}
	c.ok = false
	return absNull()
}

func (c *absConv) args(as []*ast.Argument) []interface{} {
	out := []interface{}{}
	for _, a := range as {
		out = append(out, map[string]interface{}{"n": a.Name.Value, "v": c.value(a.Value)})
	}
	return out
}

func (c *absConv) dirs(ds []*ast.Directive) []interface{} {
	out := []interface{}{}
	for _, d := range ds {
		out = append(out, map[string]interface{}{"n": d.Name.Value, "v": absNull(), "args": c.args(d.Arguments)})
	}
	return out
}

func (c *absConv) sels(ss *ast.SelectionSet) []interface{} {
	out := []interface{}{}
	if ss == nil {
		return out
	}
	for _, s := range ss.Selections {
		c.next++
		id := c.next
		switch x := s.(type) {
		case *ast.Field:
			alias := ""
			if x.Alias != nil {
				alias = x.Alias.Value
			}
			out = append(out, map[string]interface{}{"k": "field", "id": id, "alias": alias, "name": x.Name.Value,
				"args": c.args(x.Arguments), "dirs": c.dirs(x.Directives), "sel": c.sels(x.SelectionSet)})
		case *ast.FragmentSpread:
			out = append(out, map[string]interface{}{"k": "spread", "id": id, "name": x.Name.Value, "dirs": c.dirs(x.Directives)})
		case *ast.InlineFragment:
			on := ""
			if x.TypeCondition != nil {
				on = x.TypeCondition.Name.Value
			}
			out = append(out, map[string]interface{}{"k": "inline", "id": id, "on": on, "dirs": c.dirs(x.Directives), "sel": c.sels(x.SelectionSet)})
		}
	}
	return out
}

func absTypeRefOf(t ast.Type) map[string]interface{} {
	w := []interface{}{}
	for {
		switch tt := t.(type) {
		case *ast.NonNull:
			w = append(w, "NN")
			t = tt.Type
			continue
		case *ast.List:
			w = append(w, "L")
			t = tt.Type
			continue
		case *ast.Named:
			return map[string]interface{}{"w": w, "n": tt.Name.Value}
		}
		return map[string]interface{}{"w": w, "n": ""}
	}
}

func astToAbs(doc *ast.Document) (map[string]interface{}, bool) {
	c := &absConv{ok: true}
	ops, frags := []interface{}{}, []interface{}{}
	for _, d := range doc.Definitions {
		switch x := d.(type) {
		case *ast.OperationDefinition:
			name := ""
			if x.Name != nil {
				name = x.Name.Value
			}
			vds := []interface{}{}
			for _, vd := range x.VariableDefinitions {
				def := absNull()
				if vd.DefaultValue != nil {
					def = c.value(vd.DefaultValue)
				}
				vds = append(vds, map[string]interface{}{"n": vd.Variable.Name.Value, "type": absTypeRefOf(vd.Type),
					"hasDef": vd.DefaultValue != nil, "def": def})
			}
			ops = append(ops, map[string]interface{}{"kind": x.Operation, "name": name, "vdefs": vds, "sel": c.sels(x.SelectionSet),
				"dirs": c.dirs(x.Directives)})
		case *ast.FragmentDefinition:
			on := ""
			if x.TypeCondition != nil {
				on = x.TypeCondition.Name.Value
			}
			frags = append(frags, map[string]interface{}{"name": x.Name.Value, "on": on, "sel": c.sels(x.SelectionSet), "dirs": c.dirs(x.Directives)})
		default:
			return nil, false // type-system definitions are not part of the executable document model
		}
	}
	return map[string]interface{}{"ops": ops, "frags": frags}, c.ok
}

func init() { recorders["C02"] = recordC02 }

func recordC02(args []string) int {
	fs := flag.NewFlagSet("record C02", flag.ExitOnError)
	out := fs.String("out", "trace.ndjson", "")
	summary := fs.String("summary", "-", "")
	fs.Int64("seed", 1, "")
	fs.String("tier", "quick", "")
	repo := fs.String("repo", "/repo", "directory holding the rules_*_test.go fixtures")
	fs.Parse(args)
	st := newStats()
	f, err := os.Create(*out)
	if err != nil {
		fmt.Fprintln(os.Stderr, err)
		return 2
	}
	defer f.Close()
	enc := json.NewEncoder(f)
	enc.SetEscapeHTML(false)
	enc.Encode(map[string]interface{}{"t": "schema", "schema": projectSchema(testutil.TestSchema)})
	rules := map[string]graphql.ValidationRuleFn{}
	for _, r := range c02Rules {
		rules[r.Name] = r.Fn
	}
	files, _ := filepath.Glob(filepath.Join(*repo, "rules_*_test.go"))
	sort.Strings(files)
	for _, file := range files {
		src, err := os.ReadFile(file)
		if err != nil {
			continue
		}
		for _, m := range c02FixtureRe.FindAllSubmatch(src, -1) {
			expectPass, rule, query := string(m[1]) == "Passes", string(m[2]), string(m[3])
			fn, ok := rules[rule]
			if !ok {
				st.Add("skipped_unknown_rule", 1)
				continue
			}
			doc, err := parseDoc(query)
			if err != nil {
				st.Add("skipped_unparsable", 1)
				continue
			}
			ad, ok := astToAbs(doc)
			if !ok {
				st.Add("skipped_outside_model", 1)
				continue
			}
			o := c02Validate(testutil.TestSchema, doc, []graphql.ValidationRuleFn{fn})
			if o.Panic != "" {
				st.Mismatch(Mismatch{What: "C02 calibration: rule " + rule + " panicked: " + o.Panic, Detail: query})
				continue
			}
			if (o.N == 0) != expectPass {
				st.Note("fixture expectation differs from the observed verdict (suite not green?): " + rule + " " + query)
			}
			st.Add("vectors", 1)
			st.Add("executions", 1)
			st.Add("fixtures/"+rule, 1)
			if o.N > 0 {
				st.Distinct("distinct_nontrivial", rule+query)
			}
			enc.Encode(map[string]interface{}{"t": "ev", "rule": rule, "doc": ad, "obs": o.N > 0, "file": filepath.Base(file)})
			st.Sample(map[string]interface{}{"rule": rule, "query": query, "observed_errors": o.N})
		}
	}
	sum := &Summary{Property: "C02", Mode: "record", Counters: st.Counters, Known: st.Known, Samples: st.Samples,
		Mismatches: st.Mismatches, NMismatch: st.nMismatch, Notes: st.Notes}
	normalize(sum)
	writeSummary(*summary, sum)
	if st.Get("vectors") == 0 {
		return 2
	}
	return 0
}
