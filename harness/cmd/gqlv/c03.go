package main

// C03 (parser = grammar), C08 (print/parse round trip), C18A (syntax-error locations).
//
// The vectors come from spec/MC_C03.tla and spec/MC_C08.tla; the oracle is spec/Syntax.tla.
// This file only renders abstract inputs to bytes (one representative lexeme per token
// kind, one byte sequence per character class), runs the real lexer / parser / printer,
// projects the real AST onto the generic tree (kind, attribute, ordered children, token
// span) and compares structurally.

import (
	"bytes"
	"encoding/json"
	"flag"
	"fmt"
	"reflect"
	"strconv"
	"strings"
	"unicode/utf8"

	"github.com/graphql-go/graphql/gqlerrors"
	"github.com/graphql-go/graphql/language/ast"
	"github.com/graphql-go/graphql/language/lexer"
	"github.com/graphql-go/graphql/language/parser"
	"github.com/graphql-go/graphql/language/printer"
	"github.com/graphql-go/graphql/language/source"
)

func init() {
	handlers["C03"] = func(fs *flag.FlagSet) handler { return synHandler("C03") }
	handlers["C18A"] = func(fs *flag.FlagSet) handler { return synHandler("C18A") }
	handlers["C08"] = func(fs *flag.FlagSet) handler { return c08Handler }
}

// ------------------------------------------------------------------ wire format

type xnode struct {
	K string   `json:"k"`
	V string   `json:"v"`
	S int      `json:"s"`
	E int      `json:"e"`
	C []*xnode `json:"c"`
	// C08 only: literal text of a leaf (class names) and quoting style
	T []string `json:"t,omitempty"`
}

type xloc struct {
	L int      `json:"l"`
	C int      `json:"c"`
	D []string `json:"d"`
}

type ctok struct {
	K string   `json:"k"`
	V []string `json:"v"`
	S int      `json:"s"`
	E int      `json:"e"`
}

// one expectation: of the grammar (D empty) or under the named deviations D
type synVariant struct {
	D      []string `json:"d"`
	Ok     bool     `json:"ok"`
	ErrTok int      `json:"errTok"`
	Open   int      `json:"open"`
	Desc   int      `json:"desc"`
	Ast    *xnode   `json:"ast"`
	// character families
	Bytes  bool   `json:"bytes"`
	LexOk  bool   `json:"lexok"`
	LexErr bool   `json:"lexErr"`
	Toks   []ctok `json:"toks"`
	ErrS   int    `json:"errS"`
	ErrE   int    `json:"errE"`
	Rw     []int  `json:"rw"`
	Locs   []xloc `json:"locs"`
	Unspec string `json:"unspec"`
}

type synVec struct {
	Fam    string       `json:"fam"`
	Name   string       `json:"name"`
	Toks   []string     `json:"toks"`
	Chars  []string     `json:"chars"`
	X      []string     `json:"x"`
	Unspec string       `json:"unspec"`
	LexUn  bool         `json:"lexun"`
	Exp    synVariant   `json:"exp"`
	Devs   []synVariant `json:"devs"`
}

// ------------------------------------------------------------------ character classes

var classBytes = map[string][]byte{
	"DQ": []byte(`"`), "BS": []byte(`\`), "TAB": {0x09}, "LF": {0x0a}, "CR": {0x0d},
	"BOM": []byte("\uFEFF"), "U2": []byte("\u00e9"), "U3": []byte("\u2028"), "U4": []byte("\U0001F600"),
	"U4NP": []byte("\U000E0001"), "BEL": {0x07}, "NUL": {0x00}, "BKSP": {0x08}, "FF": {0x0c}, "VT": {0x0b},
	"DEL": {0x7f}, "SI": {0x0f}, "L72": []byte(strings.Repeat("a", 72)),
}

// bytesOfClass renders one character class (or continuation unit "X:n", or decoded escape
// "U+hhhh") to its UTF-8 bytes.
func bytesOfClass(c string) []byte {
	if b, ok := classBytes[c]; ok {
		return b
	}
	if len(c) == 1 {
		return []byte(c)
	}
	if strings.HasPrefix(c, "U+") {
		n, err := strconv.ParseUint(c[2:], 16, 32)
		if err == nil {
			var buf [4]byte
			k := utf8.EncodeRune(buf[:], rune(n))
			return append([]byte{}, buf[:k]...)
		}
	}
	if i := strings.IndexByte(c, ':'); i > 0 {
		if b, ok := classBytes[c[:i]]; ok {
			if n, err := strconv.Atoi(c[i+1:]); err == nil && n >= 1 && n <= len(b) {
				return b[n-1 : n]
			}
		}
	}
	panic("harness: unknown character class " + c)
}

// bytesOfUnits renders byte units (variants computed over the byte expansion of the text):
// the name of a multi-byte class stands for its lead byte only.
func bytesOfUnits(cs []string) []byte {
	var out []byte
	for _, c := range cs {
		b := bytesOfClass(c)
		if _, multi := classBytes[c]; multi && len(b) > 1 {
			b = b[:1]
		}
		out = append(out, b...)
	}
	return out
}

func bytesOfClasses(cs []string) []byte {
	var out []byte
	for _, c := range cs {
		out = append(out, bytesOfClass(c)...)
	}
	return out
}

// ------------------------------------------------------------------ projection of the real AST

func isNilNode(n interface{}) bool {
	if n == nil {
		return true
	}
	v := reflect.ValueOf(n)
	return v.Kind() == reflect.Ptr && v.IsNil()
}

type kidList []ast.Node

func (k *kidList) add(ns ...interface{}) {
	for _, n := range ns {
		if isNilNode(n) {
			continue
		}
		*k = append(*k, n.(ast.Node))
	}
}

func addAll[T any](k *kidList, xs []T) {
	for _, x := range xs {
		k.add(x)
	}
}

// project returns the attribute, the children in the grammar's role order, and (for
// leaves) the literal value of a real AST node.
func project(n ast.Node) (attr string, kids kidList, leaf *string) {
	str := func(s string) *string { return &s }
	switch x := n.(type) {
	case *ast.Name:
		leaf = str(x.Value)
	case *ast.Document:
		addAll(&kids, x.Definitions)
	case *ast.OperationDefinition:
		attr = x.Operation
		kids.add(x.Name)
		addAll(&kids, x.VariableDefinitions)
		addAll(&kids, x.Directives)
		kids.add(x.SelectionSet)
	case *ast.VariableDefinition:
		kids.add(x.Variable, x.Type, x.DefaultValue)
	case *ast.Variable:
		kids.add(x.Name)
	case *ast.SelectionSet:
		addAll(&kids, x.Selections)
	case *ast.Field:
		kids.add(x.Alias, x.Name)
		addAll(&kids, x.Arguments)
		addAll(&kids, x.Directives)
		kids.add(x.SelectionSet)
	case *ast.Argument:
		kids.add(x.Name, x.Value)
	case *ast.FragmentSpread:
		kids.add(x.Name)
		addAll(&kids, x.Directives)
	case *ast.InlineFragment:
		kids.add(x.TypeCondition)
		addAll(&kids, x.Directives)
		kids.add(x.SelectionSet)
	case *ast.FragmentDefinition:
		kids.add(x.Name, x.TypeCondition)
		addAll(&kids, x.Directives)
		kids.add(x.SelectionSet)
	case *ast.IntValue:
		leaf = str(x.Value)
	case *ast.FloatValue:
		leaf = str(x.Value)
	case *ast.StringValue:
		leaf = str(x.Value)
	case *ast.EnumValue:
		leaf = str(x.Value)
	case *ast.BooleanValue:
		attr = strconv.FormatBool(x.Value)
	case *ast.ListValue:
		addAll(&kids, x.Values)
	case *ast.ObjectValue:
		addAll(&kids, x.Fields)
	case *ast.ObjectField:
		kids.add(x.Name, x.Value)
	case *ast.Directive:
		kids.add(x.Name)
		addAll(&kids, x.Arguments)
	case *ast.Named:
		kids.add(x.Name)
	case *ast.List:
		kids.add(x.Type)
	case *ast.NonNull:
		kids.add(x.Type)
	case *ast.SchemaDefinition:
		addAll(&kids, x.Directives)
		addAll(&kids, x.OperationTypes)
	case *ast.OperationTypeDefinition:
		attr = x.Operation
		kids.add(x.Type)
	case *ast.ScalarDefinition:
		kids.add(x.Description, x.Name)
		addAll(&kids, x.Directives)
	case *ast.ObjectDefinition:
		kids.add(x.Description, x.Name)
		addAll(&kids, x.Interfaces)
		addAll(&kids, x.Directives)
		addAll(&kids, x.Fields)
	case *ast.FieldDefinition:
		kids.add(x.Description, x.Name)
		addAll(&kids, x.Arguments)
		kids.add(x.Type)
		addAll(&kids, x.Directives)
	case *ast.InputValueDefinition:
		kids.add(x.Description, x.Name, x.Type, x.DefaultValue)
		addAll(&kids, x.Directives)
	case *ast.InterfaceDefinition:
		kids.add(x.Description, x.Name)
		addAll(&kids, x.Directives)
		addAll(&kids, x.Fields)
	case *ast.UnionDefinition:
		kids.add(x.Description, x.Name)
		addAll(&kids, x.Directives)
		addAll(&kids, x.Types)
	case *ast.EnumDefinition:
		kids.add(x.Description, x.Name)
		addAll(&kids, x.Directives)
		addAll(&kids, x.Values)
	case *ast.EnumValueDefinition:
		kids.add(x.Description, x.Name)
		addAll(&kids, x.Directives)
	case *ast.InputObjectDefinition:
		kids.add(x.Description, x.Name)
		addAll(&kids, x.Directives)
		addAll(&kids, x.Fields)
	case *ast.TypeExtensionDefinition:
		kids.add(x.Definition)
	case *ast.DirectiveDefinition:
		kids.add(x.Description, x.Name)
		addAll(&kids, x.Arguments)
		addAll(&kids, x.Locations)
	default:
		attr = fmt.Sprintf("?%T", n)
	}
	return
}

// tokInfo is what the comparison needs to know about the tokens of the text: byte
// offsets [start,end) and literal values, indexed 1..n (n+1 = EOF).
type tokInfo struct {
	start, end []int    // index 0 unused
	val        []string // literal value of Name / Int / Float / String tokens
	textLen    int
}

func (t *tokInfo) n() int { return len(t.start) - 1 }

// cmpNode compares a real AST node with the expected generic node; withLoc also checks
// that Loc delimits exactly the text of the node's token span.  Returns "" if equal.
func cmpNode(real ast.Node, exp *xnode, tk *tokInfo, withLoc bool, path string) string {
	if isNilNode(real) {
		return path + ": real node is nil, expected " + exp.K
	}
	if real.GetKind() != exp.K {
		return fmt.Sprintf("%s: kind %s, expected %s", path, real.GetKind(), exp.K)
	}
	attr, kids, leaf := project(real)
	path = path + "/" + exp.K
	if leaf != nil {
		if exp.S < 1 || exp.S > tk.n() {
			return fmt.Sprintf("%s: expected leaf span %d outside the tokens", path, exp.S)
		}
		if *leaf != tk.val[exp.S] {
			return fmt.Sprintf("%s: value %q, expected %q (token %d)", path, *leaf, tk.val[exp.S], exp.S)
		}
	} else if exp.K == "BooleanValue" || exp.K == "OperationDefinition" || exp.K == "OperationTypeDefinition" {
		if attr != exp.V {
			return fmt.Sprintf("%s: attribute %q, expected %q", path, attr, exp.V)
		}
	}
	if withLoc && !(exp.K == "Document" && len(exp.C) == 0) {
		loc := real.GetLoc()
		if loc == nil {
			return path + ": no location"
		}
		es, ee := -1, -1
		if exp.S >= 1 && exp.S <= tk.n() {
			es = tk.start[exp.S]
		}
		if exp.E >= 1 && exp.E <= tk.n() {
			ee = tk.end[exp.E]
		} else if exp.E == tk.n()+1 {
			ee = tk.textLen
		}
		if exp.K == "Document" {
			// Unspecified: whether the Document's location includes the ignored characters
			// before the first and after the last token (reference implementations differ)
			if (loc.Start == es || loc.Start == 0) && (loc.End == ee || loc.End == tk.textLen) {
				es, ee = loc.Start, loc.End
			}
		}
		if loc.Start != es || loc.End != ee {
			return fmt.Sprintf("%s: Loc [%d,%d) but tokens %d..%d are [%d,%d)", path, loc.Start, loc.End, exp.S, exp.E, es, ee)
		}
	}
	if len(kids) != len(exp.C) {
		ks := []string{}
		for _, k := range kids {
			ks = append(ks, k.GetKind())
		}
		es := []string{}
		for _, k := range exp.C {
			es = append(es, k.K)
		}
		return fmt.Sprintf("%s: children %v, expected %v", path, ks, es)
	}
	for i := range kids {
		if d := cmpNode(kids[i], exp.C[i], tk, withLoc, fmt.Sprintf("%s[%d]", path, i)); d != "" {
			return d
		}
	}
	return ""
}

// ------------------------------------------------------------------ running the real front end

type parseObs struct {
	doc     *ast.Document
	err     error
	panicv  string
	line    int
	col     int
	hasLoc  bool
	bodyAft []byte
}

func realParse(text []byte) parseObs {
	body := append([]byte{}, text...)
	src := source.NewSource(&source.Source{Body: body})
	var o parseObs
	func() {
		defer func() {
			if r := recover(); r != nil {
				o.panicv = fmt.Sprintf("%v", r)
			}
		}()
		o.doc, o.err = parser.Parse(parser.ParseParams{Source: src})
	}()
	o.bodyAft = src.Body
	if o.err != nil {
		var ge *gqlerrors.Error
		switch e := o.err.(type) {
		case *gqlerrors.Error:
			ge = e
		case gqlerrors.Error:
			ge = &e
		}
		if ge != nil && len(ge.Locations) > 0 {
			o.line, o.col, o.hasLoc = ge.Locations[0].Line, ge.Locations[0].Column, true
		}
	}
	return o
}

// ------------------------------------------------------------------ token family: rendering

var punctOrKeyword = map[string]bool{}

func init() {
	for _, k := range []string{"!", "$", "(", ")", "...", ":", "=", "@", "[", "]", "{", "|", "}", "&",
		"query", "mutation", "subscription", "fragment", "on", "true", "false", "null", "type", "interface", "union",
		"enum", "input", "scalar", "schema", "extend", "directive", "implements"} {
		punctOrKeyword[k] = true
	}
}

func isPunct(k string) bool {
	return len(k) > 0 && !(k[0] >= 'a' && k[0] <= 'z') && !(k[0] >= 'A' && k[0] <= 'Z')
}

// lexeme and literal value of the i-th token (1-based) of kind k
// In layouts 2 and 5 string tokens spell keywords ("on", "query", ...): a string is never a keyword,
// whatever it contains.
var keywordStrings = []string{"on", "query", "fragment", "implements", "type", "true", "null", "extend", "mutation", "schema"}

func lexemeOfIn(k string, i, layout int) (text, val string) {
	if layout == 2 || layout == 5 {
		kw := keywordStrings[i%len(keywordStrings)]
		if layout == 2 {
			kw = "on" // the one keyword that is expected right after a name (fragment / directive definitions)
		}
		switch k {
		case "String":
			return `"` + kw + `"`, kw
		case "BlockString":
			return `"""` + kw + `"""`, kw
		}
	}
	return lexemeOf(k, i)
}

func lexemeOf(k string, i int) (text, val string) {
	switch k {
	case "Name":
		s := "n" + strconv.Itoa(i)
		return s, s
	case "Int":
		s := strconv.Itoa(i)
		return s, s
	case "Float":
		s := strconv.Itoa(i) + ".5"
		return s, s
	case "String":
		return `"s` + strconv.Itoa(i) + `"`, "s" + strconv.Itoa(i)
	case "BlockString":
		return `"""b` + strconv.Itoa(i) + `"""`, "b" + strconv.Itoa(i)
	}
	if punctOrKeyword[k] {
		return k, k
	}
	panic("harness: unknown token kind " + k)
}

type lineCol struct{ l, c int }

type rendered struct {
	text []byte
	tk   tokInfo
	pos  map[int]lineCol // byte offset -> line:column, for every offset where a unit starts, and the end
}

const nLayouts = 8

var layoutNames = [nLayouts]string{"space", "LF", "CR", "CRLF", "mixed", "comments", "tight", "padded"}

// renderTokens prints the token kinds in the given layout (ASCII only) and records the
// positions of everything it printed.
func renderTokens(kinds []string, layout int) *rendered {
	r := &rendered{pos: map[int]lineCol{}}
	line, col := 1, 1
	emit := func(unit string) { // a unit is a lexeme, a blank, or one line terminator
		r.pos[len(r.text)] = lineCol{line, col}
		if unit == "\n" || unit == "\r" || unit == "\r\n" {
			r.text = append(r.text, unit...)
			line++
			col = 1
			return
		}
		for i := 0; i < len(unit); i++ {
			r.pos[len(r.text)] = lineCol{line, col}
			r.text = append(r.text, unit[i])
			col++
		}
	}
	seps := func(i int) []string { // separator units before token i (i >= 2)
		switch layout {
		case 1:
			return []string{"\n"}
		case 2:
			return []string{"\r"}
		case 3:
			return []string{"\r\n"}
		case 4:
			return [][]string{{" "}, {"\n"}, {"\r\n", " "}, {"\r"}, {","}, {"\t"}, {" ", "# c", "\n"}, {"\n", "\r"}, {",", "\r\n", "\r\n"}}[i%9]
		case 5:
			return []string{" ", "# a comment, with (punctuation) \"quotes\" {", []string{"\n", "\r", "\r\n"}[i%3], " ", " "}
		case 6:
			a, b := kinds[i-2], kinds[i-1]
			if (isPunct(a) || isPunct(b)) && !((a == "Int" || a == "Float") && b == "...") {
				return nil
			}
			return []string{" "}
		}
		return []string{" "}
	}
	r.tk.start = make([]int, len(kinds)+1)
	r.tk.end = make([]int, len(kinds)+1)
	r.tk.val = make([]string, len(kinds)+1)
	if layout == 7 {
		for _, u := range []string{"\n", "\r\n", " ", " "} {
			emit(u)
		}
	}
	for i, k := range kinds {
		if i > 0 {
			for _, u := range seps(i + 1) {
				emit(u)
			}
		}
		text, val := lexemeOfIn(k, i+1, layout)
		r.tk.start[i+1] = len(r.text)
		emit(text)
		r.tk.end[i+1] = len(r.text)
		r.tk.val[i+1] = val
	}
	if layout == 7 {
		for _, u := range []string{" ", "\r", "# trailing", "\n", "\n"} {
			emit(u)
		}
	}
	r.pos[len(r.text)] = lineCol{line, col}
	r.tk.textLen = len(r.text)
	return r
}

// closed byte range of token j (n+1 = EOF: from the end of the last token to the end of the text)
func (r *rendered) span(j int) (int, int) {
	n := r.tk.n()
	if j >= 1 && j <= n {
		return r.tk.start[j], r.tk.end[j]
	}
	if n == 0 {
		return 0, len(r.text)
	}
	return r.tk.end[n], len(r.text)
}

func (r *rendered) within(j int, line, col int) bool {
	a, b := r.span(j)
	for o := a; o <= b; o++ {
		if p, ok := r.pos[o]; ok && p.l == line && p.c == col {
			return true
		}
	}
	return false
}

// ------------------------------------------------------------------ the handler

func synHandler(prop string) handler {
	return func(tag string, raw []byte, st *Stats, wk *worker) {
		if tag != "VEC" {
			return
		}
		var v synVec
		if err := json.Unmarshal(raw, &v); err != nil {
			st.Mismatch(Mismatch{What: "infra: cannot decode vector: " + err.Error(), Vector: raw})
			return
		}
		st.Add("vectors", 1)
		st.Add("family_"+v.Name, 1)
		switch v.Fam {
		case "tok":
			tokFamily(prop, &v, raw, st)
		case "chr":
			chrFamily(prop, &v, raw, st)
		default:
			st.Mismatch(Mismatch{What: "infra: unknown family " + v.Fam, Vector: raw})
		}
	}
}

func names(d []string) string { return strings.Join(d, "+") }

func tokFamily(prop string, v *synVec, raw []byte, st *Stats) {
	if v.Exp.Ok || v.Exp.ErrTok > 1 {
		st.Add("distinct_nontrivial", 1)
	}
	if v.Unspec != "" {
		st.Add("unspecified", 1)
	}
	for layout := 0; layout < nLayouts; layout++ {
		r := renderTokens(v.Toks, layout)
		o := realParse(r.text)
		st.Add("executions", 1)
		detail := func(extra map[string]interface{}) map[string]interface{} {
			m := map[string]interface{}{"text": string(r.text), "layout": layoutNames[layout], "tokens": v.Toks}
			if o.err != nil {
				m["real_error"] = firstLineOf(o.err.Error())
			} else {
				m["real"] = "accepted"
			}
			for k, x := range extra {
				m[k] = x
			}
			return m
		}
		if o.panicv != "" {
			st.Mismatch(Mismatch{What: prop + ": the parser panicked: " + o.panicv, Detail: detail(nil), Vector: raw})
			return
		}
		if v.Unspec != "" {
			continue // DESIGN 4.2: only "no panic" is required
		}
		realOk := o.err == nil
		if prop == "C03" {
			if !bytes.Equal(o.bodyAft, r.text) {
				st.Mismatch(Mismatch{What: "C03: Source.Body was modified by parsing", Detail: detail(map[string]interface{}{"after": string(o.bodyAft)}), Vector: raw})
				return
			}
			match := func(c *synVariant) string {
				if c.Ok != realOk {
					if c.Ok {
						return "expected accept"
					}
					return fmt.Sprintf("expected reject at token %d", c.ErrTok)
				}
				if !c.Ok {
					return ""
				}
				return cmpNode(o.doc, c.Ast, &r.tk, true, "")
			}
			why := match(&v.Exp)
			if why == "" {
				if layout == 0 && realOk {
					st.Sample(map[string]interface{}{"text": string(r.text), "verdict": "accepted, AST and locations equal"})
				}
				continue
			}
			hit := false
			for i := range v.Devs {
				if match(&v.Devs[i]) == "" && devsListed(v.Devs[i].D) {
					for _, d := range v.Devs[i].D {
						st.KnownHit(d)
					}
					hit = true
					break
				}
			}
			if !hit {
				st.Mismatch(Mismatch{What: "C03: parser disagrees with the grammar: " + why, Detail: detail(map[string]interface{}{"exp": v.Exp, "devs": v.Devs}), Vector: raw})
				return
			}
			continue
		}
		// C18A: the location of the syntax error
		if realOk {
			st.Add("c18a_skipped_real_accepts", 1)
			continue
		}
		if !o.hasLoc {
			st.Mismatch(Mismatch{What: "C18A: syntax error without a location", Detail: detail(nil), Vector: raw})
			return
		}
		st.Add("locations_checked", 1)
		try := func(c *synVariant) (bool, []string) {
			if c.Ok {
				return false, nil
			}
			if r.within(c.ErrTok, o.line, o.col) {
				return true, c.D
			}
			if c.Open > 0 && r.within(c.Open, o.line, o.col) {
				return true, append(append([]string{}, c.D...), "D_C18_empty_reported_at_open")
			}
			if c.Desc > 0 && r.within(c.Desc, o.line, o.col) {
				return true, append(append([]string{}, c.D...), "D_C18_description_keyword")
			}
			return false, nil
		}
		ok, ds := try(&v.Exp)
		for i := 0; !ok && i < len(v.Devs); i++ {
			ok, ds = try(&v.Devs[i])
		}
		if ok && len(ds) == 0 {
			continue
		}
		if ok && devsListed(ds) {
			for _, d := range ds {
				st.KnownHit(d)
			}
			continue
		}
		a, b := r.span(v.Exp.ErrTok)
		st.Mismatch(Mismatch{What: fmt.Sprintf("C18A: syntax error located at %d:%d, outside token %d (bytes %d..%d) where the text stops being a viable prefix",
			o.line, o.col, v.Exp.ErrTok, a, b), Detail: detail(map[string]interface{}{"exp": v.Exp, "devs": v.Devs, "deviations_needed": ds}), Vector: raw})
		return
	}
}

func firstLineOf(s string) string {
	if i := strings.IndexByte(s, '\n'); i >= 0 {
		return s[:i]
	}
	return s
}

// ------------------------------------------------------------------ character families

// realLex drives lexer.Lex the way the parser does (resuming at the previous token's End).
type lexObs struct {
	toks   []lexer.Token
	err    error
	panicv string
}

func realLex(text []byte) lexObs {
	body := append([]byte{}, text...)
	src := source.NewSource(&source.Source{Body: body})
	var o lexObs
	func() {
		defer func() {
			if r := recover(); r != nil {
				o.panicv = fmt.Sprintf("%v", r)
			}
		}()
		lx := lexer.Lex(src)
		prevEnd := 0
		for i := 0; i < len(text)+2; i++ {
			t, err := lx(prevEnd)
			if err != nil {
				o.err = err
				return
			}
			if t.Kind == lexer.EOF {
				return
			}
			o.toks = append(o.toks, t)
			prevEnd = t.End
		}
	}()
	return o
}

func kindOfRealToken(t lexer.Token) string {
	switch t.Kind {
	case lexer.NAME:
		if punctOrKeyword[t.Value] {
			return t.Value
		}
		return "Name"
	case lexer.INT:
		return "Int"
	case lexer.FLOAT:
		return "Float"
	case lexer.STRING:
		return "String"
	case lexer.BLOCK_STRING:
		return "BlockString"
	}
	return t.Kind.String()
}

// tokInfoOf builds the byte offsets / values of a variant's tokens.  Positions of the
// grammar's expectation are code-point indices (mapped through off), of byte variants
// byte indices; both 1-based inclusive.
func tokInfoOf(c *synVariant, off []int, textLen int) *tokInfo {
	tk := &tokInfo{start: make([]int, len(c.Toks)+1), end: make([]int, len(c.Toks)+1), val: make([]string, len(c.Toks)+1), textLen: textLen}
	for i, t := range c.Toks {
		if c.Bytes {
			tk.start[i+1], tk.end[i+1] = t.S-1, t.E
		} else {
			tk.start[i+1], tk.end[i+1] = off[t.S-1], off[t.E]
		}
		if c.Bytes {
			tk.val[i+1] = string(bytesOfUnits(t.V))
		} else {
			tk.val[i+1] = string(bytesOfClasses(t.V))
		}
	}
	return tk
}

func chrFamily(prop string, v *synVec, raw []byte, st *Stats) {
	text := []byte{}
	off := make([]int, len(v.Chars)+1) // off[i] = byte offset of character i (0-based); off[n] = len
	for i, c := range v.Chars {
		off[i] = len(text)
		text = append(text, bytesOfClass(c)...)
	}
	off[len(v.Chars)] = len(text)
	if v.Exp.Ok || len(v.Exp.Toks) > 2 {
		st.Add("distinct_nontrivial", 1)
	}
	o := realParse(text)
	lo := realLex(text)
	st.Add("executions", 2)
	detail := func(extra map[string]interface{}) map[string]interface{} {
		m := map[string]interface{}{"text": string(text), "chars": v.Chars}
		if o.err != nil {
			m["real_error"] = firstLineOf(o.err.Error())
		} else {
			m["real"] = "accepted"
		}
		rt := []string{}
		for _, t := range lo.toks {
			rt = append(rt, fmt.Sprintf("%s[%d,%d)%q", kindOfRealToken(t), t.Start, t.End, t.Value))
		}
		m["real_tokens"] = rt
		if lo.err != nil {
			m["real_lex_error"] = firstLineOf(lo.err.Error())
		}
		for k, x := range extra {
			m[k] = x
		}
		return m
	}
	if o.panicv != "" || lo.panicv != "" {
		st.Mismatch(Mismatch{What: prop + ": the lexer/parser panicked: " + o.panicv + lo.panicv, Detail: detail(nil), Vector: raw})
		return
	}
	if v.Unspec != "" {
		st.Add("unspecified", 1)
		return
	}
	realOk := o.err == nil
	if prop == "C03" {
		// (1) the token stream, (2) accept/reject + AST + locations, (3) Source.Body
		match := func(c *synVariant) string {
			tk := tokInfoOf(c, off, len(text))
			if v.LexUn {
				// some lexeme beyond the parser's reach is Unspecified: compare only the parser's verdict
			} else if c.LexOk != (lo.err == nil) {
				return fmt.Sprintf("lexing: expected ok=%v", c.LexOk)
			}
			if !v.LexUn && len(lo.toks) != len(c.Toks) {
				return fmt.Sprintf("lexing: %d tokens, expected %d", len(lo.toks), len(c.Toks))
			}
			for i, t := range lo.toks {
				if v.LexUn {
					break
				}
				e := c.Toks[i]
				if kindOfRealToken(t) != e.K || t.Start != tk.start[i+1] || t.End != tk.end[i+1] {
					return fmt.Sprintf("lexing: token %d is %s[%d,%d), expected %s[%d,%d)", i+1, kindOfRealToken(t), t.Start, t.End, e.K, tk.start[i+1], tk.end[i+1])
				}
				if len(e.V) > 0 || t.Value != "" {
					if t.Value != tk.val[i+1] {
						return fmt.Sprintf("lexing: token %d has value %q, expected %q", i+1, t.Value, tk.val[i+1])
					}
				}
			}
			if c.Ok != realOk {
				return fmt.Sprintf("parsing: expected ok=%v", c.Ok)
			}
			if c.Ok {
				if d := cmpNode(o.doc, c.Ast, tk, true, ""); d != "" {
					return "AST: " + d
				}
			}
			// Source.Body: unchanged, or (named deviation) the backslash of every processed \""" overwritten
			want := append([]byte{}, text...)
			if !bytes.Equal(o.bodyAft, want) {
				for _, p := range c.Rw {
					if c.Bytes {
						want[p-1] = '"'
					} else {
						want[off[p-1]] = '"'
					}
				}
				if len(c.Rw) > 0 && bytes.Equal(o.bodyAft, want) {
					return "rewritten"
				}
				return "Source.Body was modified by parsing"
			}
			return ""
		}
		credit := func(c *synVariant, why string) bool {
			ds := append([]string{}, c.D...)
			if why == "rewritten" {
				ds = append(ds, "D_C03_blockstring_rewrites_source")
			} else if why != "" {
				return false
			}
			if len(ds) == 0 {
				return true
			}
			if !devsListed(ds) {
				return false
			}
			for _, d := range ds {
				st.KnownHit(d)
			}
			return true
		}
		why := match(&v.Exp)
		if credit(&v.Exp, why) {
			if realOk && len(v.X) >= 3 {
				st.Sample(map[string]interface{}{"text": string(text), "verdict": "tokens, AST, locations equal"})
			}
			return
		}
		devWhy := []string{}
		for i := range v.Devs {
			w := match(&v.Devs[i])
			if credit(&v.Devs[i], w) {
				return
			}
			devWhy = append(devWhy, names(v.Devs[i].D)+": "+w)
		}
		st.Mismatch(Mismatch{What: "C03: lexer/parser disagrees with the grammar: " + why, Detail: detail(map[string]interface{}{"exp": v.Exp, "devs": v.Devs, "under_deviations": devWhy}), Vector: raw})
		return
	}
	// C18A
	if realOk {
		st.Add("c18a_skipped_real_accepts", 1)
		return
	}
	if !o.hasLoc {
		st.Mismatch(Mismatch{What: "C18A: syntax error without a location", Detail: detail(nil), Vector: raw})
		return
	}
	st.Add("locations_checked", 1)
	var best []string
	found := false
	consider := func(c *synVariant) {
		for _, l := range c.Locs {
			if l.L == o.line && l.C == o.col {
				if !found || len(l.D) < len(best) {
					best, found = l.D, true
				}
			}
		}
	}
	consider(&v.Exp)
	for i := range v.Devs {
		consider(&v.Devs[i])
	}
	if found && len(best) == 0 {
		return
	}
	if found && devsListed(best) {
		for _, d := range best {
			st.KnownHit(d)
		}
		return
	}
	st.Mismatch(Mismatch{What: fmt.Sprintf("C18A: syntax error located at %d:%d, not inside the token or malformed lexeme where the text stops being a viable prefix", o.line, o.col),
		Detail: detail(map[string]interface{}{"exp": v.Exp, "devs": v.Devs, "deviations_needed": best}), Vector: raw})
}

// ------------------------------------------------------------------ C08 (see c08 section below)

func printReal(n ast.Node) (s string, panicv string) {
	defer func() {
		if r := recover(); r != nil {
			panicv = fmt.Sprintf("%v", r)
		}
	}()
	p := printer.Print(n)
	if ps, ok := p.(string); ok {
		return ps, ""
	}
	return fmt.Sprintf("%v", p), "printer returned a non-string"
}

// ------------------------------------------------------------------ C08: print o parse round trip

type c08Dev struct {
	D       []string `json:"d"`
	Reparse bool     `json:"reparse"`
	Any     bool     `json:"any"`
	Stable  bool     `json:"stable"`
	Ast     *xnode   `json:"ast"`
}

type c08Vec struct {
	Fam  string   `json:"fam"`
	Ast  *xnode   `json:"ast"`
	Toks []string `json:"toks"`
	Devs []c08Dev `json:"devs"`
}

var leafKinds = map[string]bool{"Name": true, "IntValue": true, "FloatValue": true, "StringValue": true, "BooleanValue": true, "EnumValue": true}

// quoteGraphQL renders a string value (character classes) as a quoted GraphQL string.
func quoteGraphQL(cs []string) string {
	var sb strings.Builder
	sb.WriteByte('"')
	for _, c := range cs {
		switch c {
		case "DQ":
			sb.WriteString(`\"`)
		case "BS":
			sb.WriteString(`\\`)
		case "LF":
			sb.WriteString(`\n`)
		case "CR":
			sb.WriteString(`\r`)
		case "TAB":
			sb.WriteString(`\t`)
		default:
			b := bytesOfClass(c)
			if len(b) == 1 && b[0] < 0x20 {
				fmt.Fprintf(&sb, `\u%04X`, b[0])
			} else {
				sb.Write(b)
			}
		}
	}
	sb.WriteByte('"')
	return sb.String()
}

// numberLeaves walks the generic AST in source order, gives every leaf its ordinal (in S)
// and collects the literal values and the source renderings of the leaves.
func numberLeaves(n *xnode, vals *[]string, texts *[]string) {
	if n == nil {
		return
	}
	if leafKinds[n.K] {
		*vals = append(*vals, "")
		n.S, n.E = len(*vals)-1, len(*vals)-1
		switch n.K {
		case "StringValue":
			(*vals)[n.S] = string(bytesOfClasses(n.T))
			*texts = append(*texts, quoteGraphQL(n.T))
		case "BooleanValue":
			*texts = append(*texts, n.V)
		default:
			(*vals)[n.S] = strings.Join(n.T, "")
			*texts = append(*texts, strings.Join(n.T, ""))
		}
		return
	}
	for _, c := range n.C {
		numberLeaves(c, vals, texts)
	}
}

func leafTable(n *xnode) (*tokInfo, []string) {
	vals := []string{""}
	texts := []string{}
	numberLeaves(n, &vals, &texts)
	return &tokInfo{start: make([]int, len(vals)), end: make([]int, len(vals)), val: vals}, texts
}

func c08Handler(tag string, raw []byte, st *Stats, wk *worker) {
	if tag != "VEC" {
		return
	}
	var v c08Vec
	if err := json.Unmarshal(raw, &v); err != nil {
		st.Mismatch(Mismatch{What: "infra: cannot decode vector: " + err.Error(), Vector: raw})
		return
	}
	st.Add("vectors", 1)
	st.Add("family_"+v.Fam, 1)
	st.Add("distinct_nontrivial", 1)
	tk, texts := leafTable(v.Ast)
	// the harness's own rendering: tokens separated by single blanks, leaves from the AST
	var sb strings.Builder
	li := 0
	for i, t := range v.Toks {
		if i > 0 {
			sb.WriteByte(' ')
		}
		if t == "<leaf>" {
			if li >= len(texts) {
				st.Mismatch(Mismatch{What: "infra: C08 vector has more leaf markers than leaves", Vector: raw})
				return
			}
			sb.WriteString(texts[li])
			li++
		} else {
			sb.WriteString(t)
		}
	}
	text := sb.String()
	detail := map[string]interface{}{"text": text, "family": v.Fam}
	fail := func(what string) {
		st.Mismatch(Mismatch{What: what, Detail: detail, Vector: raw})
	}
	o1 := realParse([]byte(text))
	st.Add("executions", 1)
	if o1.panicv != "" {
		fail("C08: the parser panicked on the rendered AST: " + o1.panicv)
		return
	}
	if o1.err != nil {
		detail["error"] = firstLineOf(o1.err.Error())
		fail("infra: C08 rendering of a generated AST does not parse (C03's business)")
		return
	}
	if d := cmpNode(o1.doc, v.Ast, tk, false, ""); d != "" {
		detail["diff"] = d
		fail("infra: C08 rendering of a generated AST parses to a different AST (C03's business)")
		return
	}
	before, _ := json.Marshal(o1.doc)
	p1, pan := printReal(o1.doc)
	if pan != "" {
		fail("C08: printer failed: " + pan)
		return
	}
	detail["printed"] = p1
	after, _ := json.Marshal(o1.doc)
	if !bytes.Equal(before, after) {
		fail("C08: printing modified the AST it was given")
		return
	}
	o2 := realParse([]byte(p1))
	st.Add("executions", 1)
	if o2.panicv != "" {
		fail("C08: the parser panicked on the printed text: " + o2.panicv)
		return
	}
	// verdict of the round trip against an expected AST
	check := func(exp *xnode, etk *tokInfo, stable bool) string {
		if o2.err != nil {
			return "printed text does not parse: " + firstLineOf(o2.err.Error())
		}
		if d := cmpNode(o2.doc, exp, etk, false, ""); d != "" {
			return "re-parsed AST differs: " + d
		}
		p2, pan2 := printReal(o2.doc)
		if pan2 != "" {
			return "second print failed: " + pan2
		}
		if (p2 == p1) != stable {
			detail["printed_again"] = p2
			if stable {
				return "printing is not stable after one round"
			}
			return "second print equals the first although the deviation predicts a change"
		}
		return ""
	}
	why := check(v.Ast, tk, true)
	if why == "" {
		st.Sample(map[string]interface{}{"text": text, "printed": p1, "verdict": "round trip equal, print stable, AST unmodified"})
		return
	}
	for i := range v.Devs {
		dv := &v.Devs[i]
		if !devsListed(dv.D) {
			continue
		}
		ok := false
		switch {
		case dv.Any:
			// the raw description does not lex as one block string: what follows it in the
			// printed text is unconstrained by the deviation model (counted separately)
			ok = true
			st.Add("c08_description_garbled_unconstrained", 1)
		case !dv.Reparse:
			ok = o2.err != nil
		default:
			dtk, _ := leafTable(dv.Ast)
			ok = check(dv.Ast, dtk, dv.Stable) == ""
		}
		if ok {
			for _, d := range dv.D {
				st.KnownHit(d)
			}
			return
		}
	}
	detail["devs"] = v.Devs
	fail("C08: " + why)
}
