package main

import (
	"context"
	"encoding/json"
	"flag"
	"fmt"
	"regexp"
	"runtime"
	"strconv"
	"strings"
	"sync"
	"time"

	"gqlverif/abs"

	"github.com/graphql-go/graphql"
)

// C07: TLC-generated schedules replayed with blocking gates.
//
// A vector names N requests (kinds R1..R9) and a schedule: the sequence of request indices
// that are allowed to pass their next gate.  The N requests run on N goroutines against ONE
// cold schema, ONE prepared plan and ONE plan cache.  The `verif` hook blocks a goroutine at
// every lock-free instrumentation point (lazy enum tables, possible-type tables, entry of
// lazy abstract planning) until the scheduler grants it, so the interleaving of first uses is
// the one TLC chose.  Events fired inside critical sections (under plan.abstractMu /
// PlanCache.mu) are recorded, with the TryLock-observed lock state, but never block.
// Verdicts: every response equals the response of the same request run alone on a cold schema;
// nothing panics or hangs; the access trace is a behaviour of the intended protocol
// (Trace_C07: lockset NoRace + at most one builder per cell).

type c07Vector struct {
	Reqs  []string `json:"reqs"`
	Sched []int    `json:"sched"`
}

var (
	goidRe   = regexp.MustCompile(`^goroutine (\d+) `)
	parentRe = regexp.MustCompile(`in goroutine (\d+)\n?$`)
)

// goids returns the current goroutine's id and the id of the goroutine that created it.
func goids() (int, int) {
	buf := make([]byte, 1<<14)
	n := runtime.Stack(buf, false)
	s := string(buf[:n])
	id, parent := 0, 0
	if m := goidRe.FindStringSubmatch(s); m != nil {
		id, _ = strconv.Atoi(m[1])
	}
	if i := strings.LastIndex(s, "in goroutine "); i >= 0 {
		j := i + len("in goroutine ")
		k := j
		for k < len(s) && s[k] >= '0' && s[k] <= '9' {
			k++
		}
		parent, _ = strconv.Atoi(s[j:k])
	}
	return id, parent
}

type c07Access struct {
	G  int    `json:"g"`
	C  string `json:"c"`
	RW string `json:"rw"`
	LK string `json:"lk"` // "x" exclusive, "s" shared, "n" not held
}

type c07World struct {
	mu      sync.Mutex
	byGoid  map[int]int // goroutine id -> request index (1-based)
	arrive  chan int    // request index arrived at a gate
	grant   []chan struct{}
	free    bool // gates open (free run)
	log     []c07Access
	cellIDs map[string]string
	active  bool
}

var c07 *c07World
var c07mu sync.RWMutex

func (w *c07World) reqOf() int {
	id, parent := goids()
	w.mu.Lock()
	defer w.mu.Unlock()
	if r, ok := w.byGoid[id]; ok {
		return r
	}
	if r, ok := w.byGoid[parent]; ok {
		w.byGoid[id] = r
		return r
	}
	return 0
}

func (w *c07World) cell(kind string, obj interface{}, extra string) string {
	key := fmt.Sprintf("%s/%p/%s", kind, obj, extra)
	w.mu.Lock()
	defer w.mu.Unlock()
	if n, ok := w.cellIDs[key]; ok {
		return n
	}
	n := fmt.Sprintf("%s%d", kind, len(w.cellIDs)+1)
	w.cellIDs[key] = n
	return n
}

func (w *c07World) record(g int, c, rw string, lk string) {
	w.mu.Lock()
	w.log = append(w.log, c07Access{G: g, C: c, RW: rw, LK: lk})
	w.mu.Unlock()
}

func (w *c07World) gate(r int) {
	w.mu.Lock()
	free := w.free
	w.mu.Unlock()
	if free || r == 0 {
		return
	}
	w.arrive <- r
	<-w.grant[r]
}

func c07Hook(ev string, args ...interface{}) {
	c07mu.RLock()
	w := c07
	c07mu.RUnlock()
	if w == nil || !w.active {
		return
	}
	r := w.reqOf()
	if r == 0 {
		return // a goroutine that does not belong to a scheduled request (setup)
	}
	name := func(x interface{}) string {
		if n, ok := x.(interface{ Name() string }); ok {
			return n.Name()
		}
		return ""
	}
	switch ev {
	case "enum.values.check", "enum.names.check":
		w.gate(r)
		w.record(r, w.cell(ev[:len(ev)-len(".check")], args[0], ""), "rd", "n")
	case "enum.values.publish", "enum.names.publish":
		w.gate(r)
		w.record(r, w.cell(ev[:len(ev)-len(".publish")], args[0], ""), "wr", "n")
	case "schema.possible.check":
		w.gate(r)
		w.record(r, w.cell("schema.possible", args[0], name(args[1])), "rd", "n")
	case "schema.possible.publish":
		w.gate(r)
		w.record(r, w.cell("schema.possible", args[0], name(args[1])), "wr", "n")
	case "plan.abstract.enter":
		w.gate(r) // before Lock(): never blocks while holding the mutex
	case "plan.abstract.locked":
		p := args[0].(*graphql.Plan)
		w.record(r, w.cell("plan.alt", args[1], name(args[2])), "rd", p.VerifAbstractLockMode())
	case "plan.abstract.built":
		p := args[0].(*graphql.Plan)
		w.record(r, w.cell("plan.alt", args[1], name(args[2])), "wr", p.VerifAbstractLockMode())
	case "cache.lookup":
		c := args[0].(*graphql.PlanCache)
		rw := "rd"
		if len(args) > 3 && (args[3] == "hit" || args[3] == "stale") {
			rw = "wr" // MoveToFront / removal mutate the LRU
		}
		w.record(r, w.cell("cache", c, ""), rw, c.VerifLockMode())
	case "cache.store", "cache.reset", "cache.evict":
		c := args[0].(*graphql.PlanCache)
		w.record(r, w.cell("cache", c, ""), "wr", c.VerifLockMode())
	}
}

// request kinds
const (
	c07EnumQ     = `{ e j: f(en: RED) h: f(en: GREEN) }`
	c07AbstractQ = `{ i { x ... on A { p } ... on B { q } } il { x __typename } u { __typename ... on B { q } } ix { x } }`
)

func c07Outs(variant int) []abs.OutEntry {
	if variant%2 == 1 {
		return []abs.OutEntry{{T: "Q", F: "i", Src: "*", O: abs.Outcome{K: "val", Rt: "B"}},
			{T: "Q", F: "u", Src: "*", O: abs.Outcome{K: "val", Rt: "B"}},
			{T: "Q", F: "il", Src: "*", O: abs.Outcome{K: "val", Rts: []string{"B", "A"}}}}
	}
	return nil
}

type c07Shared struct {
	b     *abs.Built
	cache *graphql.PlanCache
	plan  *graphql.Plan
}

// runRequest executes request kind `kind` (variant = request index, so that different
// requests resolve abstract fields to different runtime types) and returns a canonical
// rendering of what the caller observed.
func c07Run(sh *c07Shared, kind string, variant int) string {
	b := sh.b
	rc := &abs.RunCtx{Built: b, Root: rootObject, RootTag: "r", Outs: c07Outs(variant)}
	ctx := abs.WithRun(context.Background(), rc)
	render := func(o observed) string {
		return o.Data.Canon() + " errs=" + fmt.Sprint(o.Errs) + " " + o.Panic
	}
	switch kind {
	case "R1": // enum literal + enum result through Do
		return render(runDo(b, c07EnumQ, "", nil, rc))
	case "R2": // abstract fields through Do
		return render(runDo(b, c07AbstractQ, "", nil, rc))
	case "R3": // shared plan cache: Get + ExecutePlan
		var out string
		func() {
			defer func() {
				if r := recover(); r != nil {
					out = fmt.Sprintf("panic: %v", r)
				}
			}()
			pr := sh.cache.Get(&b.Schema, c07AbstractQ, "")
			if len(pr.Errors) > 0 {
				out = "planerr " + pr.Errors[0].Message
				return
			}
			res := graphql.ExecutePlan(pr.Plan, graphql.ExecuteParams{Schema: b.Schema, Root: rootObject, Args: pr.SynthArgs, Context: ctx})
			out = render(projectResult(res, rc))
		}()
		return out
	case "R4": // shared prepared plan
		res, pan := guard(func() *graphql.Result {
			return graphql.ExecutePlan(sh.plan, graphql.ExecuteParams{Schema: b.Schema, Root: rootObject, Context: ctx})
		})
		o := projectResult(res, rc)
		o.Panic = pan
		return render(o)
	case "R7": // warm hits on two different keys in turn: every hit moves its entry to the front of the LRU
		var out string
		func() {
			defer func() {
				if r := recover(); r != nil {
					out = fmt.Sprintf("panic: %v", r)
				}
			}()
			for i := 0; i < 4; i++ {
				q := c07EnumQ
				if (i+variant)%2 == 1 {
					q = c07AbstractQ
				}
				pr := sh.cache.Get(&b.Schema, q, "")
				if len(pr.Errors) > 0 {
					out = "planerr " + pr.Errors[0].Message
					return
				}
				res := graphql.ExecutePlan(pr.Plan, graphql.ExecuteParams{Schema: b.Schema, Root: rootObject, Args: pr.SynthArgs, Context: ctx})
				out += render(projectResult(res, rc)) + ";"
			}
		}()
		return out
	case "R8": // introspection of the abstract types (reads the possible-type lists, sorted for the answer)
		return render(runDo(b, `{ __type(name: "UO") { possibleTypes { name } } i: __type(name: "I") { possibleTypes { name } } it: __type(name: "IT") { possibleTypes { name } } }`, "", nil, rc))
	case "R9": // abstract values resolved by walking the possible types' IsTypeOf (no ResolveType)
		rc9 := &abs.RunCtx{Built: b, Root: rootObject, RootTag: "r", Outs: []abs.OutEntry{
			{T: "Q", F: "uo", Src: "*", O: abs.Outcome{K: "val", Rt: "*"}}}}
		return render(runDo(b, `{ uo { __typename } itl { __typename x } it { x } }`, "", nil, rc9))
	case "R5": // cache reset racing with Gets
		sh.cache.Reset()
		return "reset"
	case "R6": // enum through the shared cache (validation on the shared *Schema)
		var out string
		func() {
			defer func() {
				if r := recover(); r != nil {
					out = fmt.Sprintf("panic: %v", r)
				}
			}()
			pr := sh.cache.Get(&b.Schema, c07EnumQ, "")
			if len(pr.Errors) > 0 {
				out = "planerr " + pr.Errors[0].Message
				return
			}
			res := graphql.ExecutePlan(pr.Plan, graphql.ExecuteParams{Schema: b.Schema, Root: rootObject, Args: pr.SynthArgs, Context: ctx})
			out = render(projectResult(res, rc))
		}()
		return out
	}
	return "unknown kind " + kind
}

func c07Fresh(absSchema *abs.Schema) (*c07Shared, error) {
	b, err := abs.Build(absSchema)
	if err != nil {
		return nil, err
	}
	sh := &c07Shared{b: b, cache: graphql.NewPlanCache(graphql.PlanCacheOptions{MaxEntries: 2, Normalize: true})}
	doc, err := parseDoc(c07AbstractQ)
	if err != nil {
		return nil, err
	}
	sh.plan, err = graphql.PlanQuery(&b.Schema, doc, "")
	return sh, err
}

func init() {
	handlers["C07"] = func(fs *flag.FlagSet) handler {
		traceOut := fs.String("trace-out", "", "NDJSON trace for Trace_C07")
		capLines := fs.Int("trace-cap", 200000, "max trace lines")
		var tw *traceWriter
		var once sync.Once
		var absSchema *abs.Schema
		baselines := map[string]string{}
		var vecMu sync.Mutex // schedules are replayed one at a time (global hook, goroutine identities)
		return func(tag string, raw []byte, st *Stats, wk *worker) {
			once.Do(func() {
				installHook()
				extraHookMu.Lock()
				extraHooks = append(extraHooks, c07Hook)
				extraHookMu.Unlock()
				if *traceOut != "" {
					tw = openTrace(*traceOut, *capLines)
					atExit = append(atExit, func() { tw.close(map[string]string{"t": "end"}) })
				}
			})
			switch tag {
			case "SCHEMA":
				if wk.id == 0 {
					var s abs.Schema
					if err := json.Unmarshal(raw, &s); err != nil {
						st.Mismatch(Mismatch{What: "infra: bad SCHEMA line: " + err.Error()})
						return
					}
					absSchema = &s
				}
			case "VEC":
				vecMu.Lock()
				defer vecMu.Unlock()
				replayC07(raw, st, absSchema, baselines, tw)
			}
		}
	}
}

func replayC07(raw []byte, st *Stats, absSchema *abs.Schema, baselines map[string]string, tw *traceWriter) {
	var v c07Vector
	if err := json.Unmarshal(raw, &v); err != nil || absSchema == nil {
		st.Mismatch(Mismatch{What: "infra: bad vector or no schema"})
		return
	}
	st.Add("vectors", 1)
	// sequential baselines: the same request run alone on a cold schema
	for i, k := range v.Reqs {
		key := fmt.Sprintf("%s/%d", k, (i+1)%2)
		if _, ok := baselines[key]; !ok {
			sh, err := c07Fresh(absSchema)
			if err != nil {
				st.Mismatch(Mismatch{What: "infra: " + err.Error()})
				return
			}
			baselines[key] = c07Run(sh, k, i+1)
		}
	}
	attempt := func() (string, interface{}, []c07Access) {
		sh, err := c07Fresh(absSchema)
		if err != nil {
			return "infra: " + err.Error(), nil, nil
		}
		n := len(v.Reqs)
		w := &c07World{byGoid: map[int]int{}, arrive: make(chan int, n), cellIDs: map[string]string{}, active: true}
		w.grant = make([]chan struct{}, n+1)
		for i := range w.grant {
			w.grant[i] = make(chan struct{}, 1)
		}
		c07mu.Lock()
		c07 = w
		c07mu.Unlock()
		defer func() {
			c07mu.Lock()
			c07 = nil
			c07mu.Unlock()
		}()
		results := make([]string, n+1)
		done := make(chan int, n)
		started := make(chan struct{}, n)
		for i := 1; i <= n; i++ {
			go func(r int) {
				id, _ := goids()
				w.mu.Lock()
				w.byGoid[id] = r
				w.mu.Unlock()
				started <- struct{}{}
				w.gate(r) // every request starts blocked
				results[r] = c07Run(sh, v.Reqs[r-1], r)
				done <- r
			}(i)
		}
		blocked := map[int]bool{}
		finished := map[int]bool{}
		waitOne := func(timeout time.Duration) bool {
			select {
			case r := <-w.arrive:
				blocked[r] = true
				return true
			case r := <-done:
				finished[r] = true
				return true
			case <-time.After(timeout):
				return false
			}
		}
		for i := 0; i < n; i++ {
			<-started
		}
		for len(blocked)+len(finished) < n {
			if !waitOne(20 * time.Second) {
				return "a request neither reached a gate nor finished within 20 s (hang)", goroutineDump(), w.log
			}
		}
		for _, g := range v.Sched {
			if finished[g] || !blocked[g] {
				continue
			}
			delete(blocked, g)
			w.grant[g] <- struct{}{}
			// exactly one goroutine of request g is runnable: wait for it to block again or finish.
			// It may also block on a mutex held by nobody (impossible: gates are lock-free), so this terminates.
			for !blocked[g] && !finished[g] {
				if !waitOne(20 * time.Second) {
					return fmt.Sprintf("request %d did not reach its next gate or finish within 20 s (deadlock)", g), goroutineDump(), w.log
				}
			}
		}
		// schedule exhausted: open all gates and let everything finish
		w.mu.Lock()
		w.free = true
		w.mu.Unlock()
		for g := range blocked {
			w.grant[g] <- struct{}{}
		}
		for len(finished) < n {
			if !waitOne(20 * time.Second) {
				return "requests did not finish within 20 s after the gates were opened (deadlock)", goroutineDump(), w.log
			}
		}
		w.active = false
		for i, k := range v.Reqs {
			want := baselines[fmt.Sprintf("%s/%d", k, (i+1)%2)]
			if k != "R5" {
				if results[i+1] != want {
					return fmt.Sprintf("request %d (%s) answered %s, alone it answers %s", i+1, k, results[i+1], want), nil, w.log
				}
			}
		}
		return "", nil, w.log
	}
	why, detail, log := attempt()
	if why != "" && !strings.HasPrefix(why, "infra:") {
		// a verdict from a schedule replay counts only if it reproduces in a fresh attempt
		why2, detail2, _ := attempt()
		if why2 == "" {
			st.Add("unreproduced_disagreements", 1)
			st.Note("not reproduced on re-run (ignored): " + why)
			why = ""
		} else {
			why, detail = why2, detail2
		}
	}
	st.Add("executions", int64(len(v.Reqs)))
	if why == "" {
		// free run: the same mix with no gates and no recording, all requests released at once and repeated, on one
		// cold world.  The schedule replay orders every step through the scheduler's channels (which also orders them
		// for the race detector); here the goroutines really overlap.  A disagreement counts only if it shows again.
		for try := 0; try < 3; try++ {
			why = c07FreeRun(&v, absSchema, baselines)
			if why == "" {
				break
			}
		}
		st.Add("free_runs", 1)
		if why != "" {
			why = "free run: " + why
		}
	}
	if why != "" {
		st.Mismatch(Mismatch{What: "C07 " + why, Detail: map[string]interface{}{"reqs": v.Reqs, "sched": v.Sched, "info": detail}, Vector: raw})
		return
	}
	// the access trace
	lines := []interface{}{map[string]interface{}{"t": "new", "reqs": v.Reqs, "sched": v.Sched}}
	gs := map[int]bool{}
	for _, a := range log {
		lines = append(lines, map[string]interface{}{"t": "ev", "g": a.G, "c": a.C, "rw": a.RW, "lk": a.LK})
		gs[a.G] = true
	}
	if tw != nil && len(lines) > 1 && tw.put(lines) {
		st.Add("trace_lines", int64(len(lines)))
	}
	if len(gs) >= 2 {
		st.Distinct("distinct_nontrivial", string(raw))
	}
	st.Add("agree", 1)
	if len(log) > 0 {
		st.Sample(map[string]interface{}{"reqs": v.Reqs, "sched": v.Sched, "accesses": len(log), "first": log[:minInt(6, len(log))]})
	}
}

func c07FreeRun(v *c07Vector, absSchema *abs.Schema, baselines map[string]string) string {
	sh, err := c07Fresh(absSchema)
	if err != nil {
		return ""
	}
	n := len(v.Reqs)
	const reps = 3
	start := make(chan struct{})
	type res struct {
		r   int
		out [reps]string
	}
	done := make(chan res, 2*n)
	for i := 1; i <= 2*n; i++ { // every request of the mix twice
		go func(i int) {
			r := (i-1)%n + 1
			var o res
			o.r = r
			<-start
			for k := 0; k < reps; k++ {
				o.out[k] = c07Run(sh, v.Reqs[r-1], r)
			}
			done <- o
		}(i)
	}
	close(start)
	reset := false
	for _, k := range v.Reqs {
		reset = reset || k == "R5"
	}
	bad := ""
	for i := 0; i < 2*n; i++ {
		select {
		case o := <-done:
			k := v.Reqs[o.r-1]
			want := baselines[fmt.Sprintf("%s/%d", k, o.r%2)]
			for _, got := range o.out {
				if k != "R5" && got != want && bad == "" {
					bad = fmt.Sprintf("request %d (%s) answered %s, alone it answers %s", o.r, k, got, want)
				}
			}
		case <-time.After(30 * time.Second):
			return "requests did not finish within 30 s (deadlock or livelock)\n" + goroutineDump()
		}
	}
	_ = reset
	return bad
}

func minInt(a, b int) int {
	if a < b {
		return a
	}
	return b
}

func goroutineDump() string {
	buf := make([]byte, 1<<16)
	n := runtime.Stack(buf, true)
	s := string(buf[:n])
	if len(s) > 6000 {
		s = s[:6000]
	}
	return s
}
