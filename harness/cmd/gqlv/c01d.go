package main

import (
	"context"
	"encoding/json"
	"errors"
	"flag"
	"fmt"
	"reflect"
	"sync"

	"github.com/graphql-go/graphql"
)

// C01D: vectors of MC_DefaultResolve.tla.  The abstract source is built as a Go value
// (reflect.StructOf with tags / maps / a FieldResolver / something else), an object type whose
// fields have NO resolver reads the names of the vector from it through graphql.Do, and every
// field of the response is compared with DefaultResolve!Resolve.

type drField struct {
	Go   string `json:"go"`
	JSON string `json:"json"`
	Gql  string `json:"gql"`
	V    string `json:"v"`
}

type drEnt struct {
	K string `json:"k"`
	V string `json:"v"`
}

type drSource struct {
	Shape  string          `json:"shape"`
	Ptr    int             `json:"ptr"`
	NilP   bool            `json:"nilp"`
	Fields []drField       `json:"fields"`
	Typ    string          `json:"typ"`
	Ents   json.RawMessage `json:"ents"`
	Fails  bool            `json:"fails"`
	Kind   string          `json:"kind"`
}

type drExp struct {
	Name string `json:"name"`
	K    string `json:"k"`
	V    string `json:"v"`
}

type drVector struct {
	Src drSource `json:"src"`
	Exp []drExp  `json:"exp"`
}

const drNoTag = "<none>"

type drResolver struct{ fails bool }

func (r drResolver) Resolve(p graphql.ResolveParams) (interface{}, error) {
	if r.fails {
		return nil, errors.New("own resolver fails")
	}
	return "resolved:" + p.Info.FieldName, nil
}

type drNamedMap map[string]interface{}

// drBuild turns the abstract source into a Go value.
func drBuild(s *drSource, variant int) (interface{}, error) {
	switch s.Shape {
	case "resolver":
		if s.Ptr == 1 {
			return &drResolver{fails: s.Fails}, nil
		}
		return drResolver{fails: s.Fails}, nil
	case "struct":
		var sf []reflect.StructField
		for i, f := range s.Fields {
			tag := ""
			if f.JSON != drNoTag {
				opt := ""
				if (i+variant)%2 == 1 {
					opt = ",omitempty" // options after the name are not part of the name
				}
				tag = fmt.Sprintf(`json:"%s%s"`, f.JSON, opt)
			}
			if f.Gql != drNoTag {
				if tag != "" {
					tag += " "
				}
				tag += fmt.Sprintf(`graphql:"%s"`, f.Gql)
			}
			sf = append(sf, reflect.StructField{Name: f.Go, Type: reflect.TypeOf(""), Tag: reflect.StructTag(tag)})
		}
		t := reflect.StructOf(sf)
		if s.NilP {
			return reflect.Zero(reflect.PointerTo(t)).Interface(), nil
		}
		v := reflect.New(t) // *struct
		for i, f := range s.Fields {
			v.Elem().Field(i).SetString(f.V)
		}
		switch s.Ptr {
		case 0:
			return v.Elem().Interface(), nil
		case 1:
			return v.Interface(), nil
		default:
			pp := reflect.New(v.Type())
			pp.Elem().Set(v)
			return pp.Interface(), nil
		}
	case "map":
		ents := map[string]drEnt{}
		if len(s.Ents) > 0 && s.Ents[0] == '{' {
			if err := json.Unmarshal(s.Ents, &ents); err != nil {
				return nil, err
			}
		}
		fn := func(v string) func() interface{} { return func() interface{} { return v } }
		var m interface{}
		switch s.Typ {
		case "any", "named":
			mm := map[string]interface{}{}
			for k, e := range ents {
				switch e.K {
				case "val":
					mm[k] = e.V
				case "fn":
					mm[k] = fn(e.V)
				case "nil":
					mm[k] = nil
				}
			}
			if s.Typ == "named" {
				m = drNamedMap(mm)
				if s.Ptr == 1 {
					x := drNamedMap(mm)
					return &x, nil
				}
			} else {
				m = mm
				if s.Ptr == 1 {
					return &mm, nil
				}
			}
		case "str":
			mm := map[string]string{}
			for k, e := range ents {
				mm[k] = e.V
			}
			m = mm
			if s.Ptr == 1 {
				return &mm, nil
			}
		case "fn":
			mm := map[string]func() interface{}{}
			for k, e := range ents {
				if e.K == "fn" {
					mm[k] = fn(e.V)
				} else {
					mm[k] = nil
				}
			}
			m = mm
			if s.Ptr == 1 {
				return &mm, nil
			}
		default:
			return nil, fmt.Errorf("unknown map type %q", s.Typ)
		}
		return m, nil
	case "other":
		switch s.Kind {
		case "int":
			return 5, nil
		case "string":
			return "ab", nil
		case "slice":
			return []string{"ab"}, nil
		case "intmap":
			return map[int]string{1: "ab"}, nil
		case "chan":
			return make(chan int), nil
		}
	}
	return nil, fmt.Errorf("unknown source %+v", *s)
}

type drCtxKey struct{}

func init() {
	handlers["C01D"] = func(fs *flag.FlagSet) handler {
		var once sync.Once
		var schema graphql.Schema
		var serr error
		names := []string{"ab", "Ab", "AB", "cd", "CD"}
		return func(tag string, raw []byte, st *Stats, wk *worker) {
			if tag != "VEC" {
				return
			}
			once.Do(func() {
				of := graphql.Fields{}
				for _, n := range names {
					of[n] = &graphql.Field{Type: graphql.String} // no Resolve: the default resolver
				}
				o := graphql.NewObject(graphql.ObjectConfig{Name: "O", Fields: of})
				src := func(p graphql.ResolveParams) (interface{}, error) { return p.Context.Value(drCtxKey{}), nil }
				q := graphql.NewObject(graphql.ObjectConfig{Name: "Q", Fields: graphql.Fields{
					"o":  &graphql.Field{Type: o, Resolve: src},
					"ol": &graphql.Field{Type: graphql.NewList(o), Resolve: func(p graphql.ResolveParams) (interface{}, error) {
						v := p.Context.Value(drCtxKey{})
						return []interface{}{v, v}, nil
					}},
				}})
				schema, serr = graphql.NewSchema(graphql.SchemaConfig{Query: q})
			})
			if serr != nil {
				st.Mismatch(Mismatch{What: "infra: " + serr.Error()})
				return
			}
			var v drVector
			if err := json.Unmarshal(raw, &v); err != nil {
				st.Mismatch(Mismatch{What: "infra: bad vector: " + err.Error()})
				return
			}
			st.Add("vectors", 1)
			for variant := 0; variant < 2; variant++ {
				srcVal, err := drBuild(&v.Src, variant)
				if err != nil {
					st.Mismatch(Mismatch{What: "infra: " + err.Error(), Vector: raw})
					return
				}
				sel := ""
				for _, e := range v.Exp {
					sel += " " + e.Name
				}
				query := "{ o {" + sel + " } }"
				if variant == 1 {
					query = "{ ol {" + sel + " } }"
				}
				res, pan := guard(func() *graphql.Result {
					return graphql.Do(graphql.Params{Schema: schema, RequestString: query,
						Context: context.WithValue(context.Background(), drCtxKey{}, srcVal)})
				})
				st.Add("executions", 1)
				if pan != "" {
					st.Mismatch(Mismatch{What: "C01 default resolver: graphql.Do panicked: " + pan, Vector: raw})
					return
				}
				why := drCompare(&v, res, variant)
				if why != "" {
					b, _ := json.Marshal(res)
					st.Mismatch(Mismatch{What: "C01 default resolver: " + why, Detail: map[string]interface{}{"query": query,
						"source": fmt.Sprintf("%T", srcVal), "response": json.RawMessage(b)}, Vector: raw})
					return
				}
			}
			nontrivial := false
			for _, e := range v.Exp {
				nontrivial = nontrivial || e.K == "val"
			}
			if nontrivial {
				st.Distinct("distinct_nontrivial", string(raw))
			}
			st.Add("agree", 1)
			if v.Src.Shape == "struct" && len(v.Src.Fields) >= 2 {
				st.Sample(map[string]interface{}{"src": v.Src, "exp": v.Exp})
			}
		}
	}
}

func drCompare(v *drVector, res *graphql.Result, variant int) string {
	data, ok := res.Data.(map[string]interface{})
	if !ok {
		return fmt.Sprintf("no data (errors %v)", res.Errors)
	}
	var objs []map[string]interface{}
	allNull := true
	for _, e := range v.Exp {
		allNull = allNull && e.K != "val" && e.K != "err"
	}
	if variant == 0 {
		o, ok := data["o"].(map[string]interface{})
		if !ok {
			if data["o"] == nil && v.Src.Shape == "struct" && v.Src.NilP {
				return "" // a nil pointer is a null object: nothing to read
			}
			return "field o is not an object"
		}
		objs = append(objs, o)
	} else {
		l, ok := data["ol"].([]interface{})
		if !ok || len(l) != 2 {
			return "field ol is not a list of two"
		}
		for _, it := range l {
			o, ok := it.(map[string]interface{})
			if !ok {
				if it == nil && v.Src.Shape == "struct" && v.Src.NilP {
					continue
				}
				return "an element of ol is not an object"
			}
			objs = append(objs, o)
		}
	}
	for _, o := range objs {
		nerr := 0
		for _, e := range v.Exp {
			got, present := o[e.Name]
			if !present {
				return "response key " + e.Name + " is missing"
			}
			switch e.K {
			case "val":
				if s, ok := got.(string); !ok || s != e.V {
					return fmt.Sprintf("field %s: expected %q, got %v", e.Name, e.V, got)
				}
			case "null":
				if got != nil {
					return fmt.Sprintf("field %s: expected null, got %v", e.Name, got)
				}
			case "err":
				nerr++
				if got != nil {
					return fmt.Sprintf("field %s: its source's own Resolve failed, expected null, got %v", e.Name, got)
				}
			}
		}
		_ = nerr
	}
	// errors: exactly one per failing field and object
	want := 0
	for _, e := range v.Exp {
		if e.K == "err" {
			want += len(objs)
		}
	}
	unspec := false
	for _, e := range v.Exp {
		unspec = unspec || e.K == "unspec"
	}
	if !unspec && len(res.Errors) != want {
		return fmt.Sprintf("expected %d field errors, got %d: %v", want, len(res.Errors), res.Errors)
	}
	return ""
}
