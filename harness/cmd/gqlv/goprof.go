package main

import (
	"bytes"
	"runtime"
	"strconv"
	"strings"
	"sync"
	"sync/atomic"
	"time"
)

// Goroutine-profile observations for the concurrency checks (C15, C16).
//
// DESIGN.md 4.6: schedule replay waits on logical events only.  Besides channel operations the
// only other evidence used is the runtime's own description of a goroutine: whether it still
// exists, and the reason it is parked ("chan send", "chan receive", "select").  Sleeping is used
// solely to pace polling; a verdict never depends on how long something took.

type gInfo struct {
	ID        int64
	State     string // "chan send", "select", "runnable", ...
	Top       string // function of the innermost frame
	Creator   string // function that started the goroutine
	CreatorID int64  // goroutine that started it
	Raw       string
}

// parseGoroutines reads the text form of runtime.Stack(all):
//
//	goroutine 6 [chan send]:
//	github.com/graphql-go/graphql.ExecuteSubscription.func2()
//		/repo/subscription.go:217 +0x1005
//	created by github.com/graphql-go/graphql.ExecuteSubscription in goroutine 1
//		/repo/subscription.go:92 +0x16a
func parseGoroutines(dump string) []gInfo {
	var out []gInfo
	for _, blk := range strings.Split(dump, "\n\n") {
		blk = strings.TrimSpace(blk)
		if !strings.HasPrefix(blk, "goroutine ") {
			continue
		}
		lb := strings.Index(blk, " [")
		rb := strings.Index(blk, "]:")
		if lb < 0 || rb < lb {
			continue
		}
		g := gInfo{Raw: blk}
		g.ID, _ = strconv.ParseInt(blk[len("goroutine "):lb], 10, 64)
		g.State = blk[lb+2 : rb]
		if i := strings.Index(g.State, ","); i >= 0 { // "chan send, 2 minutes"
			g.State = g.State[:i]
		}
		rest := blk[rb+2:]
		if strings.HasPrefix(rest, "\n") {
			top := rest[1:]
			if i := strings.Index(top, "\n"); i >= 0 {
				top = top[:i]
			}
			if i := strings.LastIndex(top, "("); i > 0 {
				top = top[:i]
			}
			g.Top = top
		}
		if c := strings.LastIndex(blk, "\ncreated by "); c >= 0 {
			line := blk[c+len("\ncreated by "):]
			if i := strings.Index(line, "\n"); i >= 0 {
				line = line[:i]
			}
			if i := strings.Index(line, " in goroutine "); i >= 0 {
				g.Creator = line[:i]
				g.CreatorID, _ = strconv.ParseInt(strings.TrimSpace(line[i+len(" in goroutine "):]), 10, 64)
			} else {
				g.Creator = line
			}
		}
		out = append(out, g)
	}
	return out
}

// curGoroutineID returns the id of the calling goroutine.
func curGoroutineID() int64 {
	var buf [64]byte
	n := runtime.Stack(buf[:], false)
	f := bytes.Fields(buf[:n])
	if len(f) < 2 {
		return -1
	}
	id, _ := strconv.ParseInt(string(f[1]), 10, 64)
	return id
}

// profSnap is one goroutine dump, indexed.
type profSnap struct {
	gs       []gInfo
	byParent map[int64][]*gInfo
	byID     map[int64]*gInfo
}

func (s *profSnap) child(creator string, parent int64) *gInfo {
	for _, g := range s.byParent[parent] {
		if g.Creator == creator {
			return g
		}
	}
	return nil
}

func (s *profSnap) byGoroutine(id int64) *gInfo { return s.byID[id] }

// A goroutine dump stops the world (milliseconds on a loaded machine), so the scripts in flight
// share dumps: a dump that was STARTED after a script asked is valid evidence for that script.  The
// first script that needs a newer dump takes it (after a short pacing pause that lets more scripts
// queue up); everybody who asked before it started is served by it.
var profHub = struct {
	mu      sync.Mutex
	cond    *sync.Cond
	dumping bool
	started time.Time
	last    *profSnap
	n       int64
}{}

func init() { profHub.cond = sync.NewCond(&profHub.mu) }

var dumpBuf []byte

func takeDump() *profSnap {
	// only one dump is taken at a time (profHub.dumping), so the buffer can be reused
	if dumpBuf == nil {
		dumpBuf = make([]byte, 1<<20)
	}
	var text string
	for {
		n := runtime.Stack(dumpBuf, true)
		if n < len(dumpBuf) {
			text = string(dumpBuf[:n])
			break
		}
		dumpBuf = make([]byte, 2*len(dumpBuf))
	}
	s := &profSnap{gs: parseGoroutines(text), byParent: map[int64][]*gInfo{}, byID: map[int64]*gInfo{}}
	for i := range s.gs {
		g := &s.gs[i]
		s.byID[g.ID] = g
		if g.CreatorID != 0 {
			s.byParent[g.CreatorID] = append(s.byParent[g.CreatorID], g)
		}
	}
	return s
}

// goroutinesNow returns a dump that was started after the call.
func goroutinesNow() *profSnap {
	asked := time.Now()
	h := &profHub
	h.mu.Lock()
	defer h.mu.Unlock()
	for h.last == nil || !h.started.After(asked) {
		if h.dumping {
			h.cond.Wait()
			continue
		}
		h.dumping = true
		h.mu.Unlock()
		time.Sleep(300 * time.Microsecond) // pacing only: batch the requests of other scripts
		start := time.Now()
		snap := takeDump()
		h.mu.Lock()
		h.last, h.started, h.dumping = snap, start, false
		h.n++
		h.cond.Broadcast()
	}
	return h.last
}

// pacer yields first and then sleeps with a growing (capped) pause; used only to pace polling.
type pacer struct{ i int }

func (p *pacer) wait() {
	p.i++
	switch {
	case p.i <= 3:
		runtime.Gosched()
	case p.i <= 20:
		time.Sleep(50 * time.Microsecond)
	case p.i <= 100:
		time.Sleep(500 * time.Microsecond)
	default:
		time.Sleep(5 * time.Millisecond)
	}
}

// groupStore collects TLC vectors by input shape: for one shape (script / schedule) the
// specification may allow several behaviours; TLC emits each as its own vector.
type groupStore struct {
	mu     sync.Mutex
	groups map[string]*vecGroup
	order  []string
}

type vecGroup struct {
	Key   string
	Input []byte            // one representative vector (the input part is the same in all)
	Legal map[string]string // observation key -> deviation ("-" for none)
}

func newGroupStore() *groupStore { return &groupStore{groups: map[string]*vecGroup{}} }

// add registers one legal observation; it reports whether the pair is new.
func (s *groupStore) add(key string, input []byte, obsKey, dev string) bool {
	s.mu.Lock()
	defer s.mu.Unlock()
	g := s.groups[key]
	if g == nil {
		g = &vecGroup{Key: key, Input: input, Legal: map[string]string{}}
		s.groups[key] = g
		s.order = append(s.order, key)
	}
	if old, ok := g.Legal[obsKey]; ok {
		if old != "-" && dev == "-" { // allowed without any deviation wins
			g.Legal[obsKey] = "-"
		}
		return false
	}
	g.Legal[obsKey] = dev
	return true
}

func (s *groupStore) get(key string) *vecGroup {
	s.mu.Lock()
	defer s.mu.Unlock()
	return s.groups[key]
}

// nonRepro collects disagreements that did not reproduce on the immediate re-run.  DESIGN.md 2.3: a
// mismatch is a violation only after it reproduces; if nothing reproduced, the non-reproducible ones
// make the run an infrastructure failure (exit 2); next to confirmed violations they are only noted.
type nonRepro struct {
	mu sync.Mutex
	ms []Mismatch
}

func (n *nonRepro) add(m Mismatch) { n.mu.Lock(); n.ms = append(n.ms, m); n.mu.Unlock() }

func (n *nonRepro) settle(st *Stats, confirmed *int64) {
	n.mu.Lock()
	defer n.mu.Unlock()
	if len(n.ms) == 0 {
		return
	}
	st.Add("disagreements_not_reproduced", int64(len(n.ms)))
	if atomic.LoadInt64(confirmed) > 0 {
		st.Note(strconv.Itoa(len(n.ms)) + " further disagreement(s) did not reproduce on the immediate re-run, e.g. " + n.ms[0].What)
		return
	}
	for _, m := range n.ms {
		st.Mismatch(m)
	}
}
