package main

// C14: AST traversal.  TLC (spec/MC_C14.tla over spec/Visitor.tla) emits, per document, the
// abstract tree (every node with its kind, label, key, path from the root, enclosing nodes and the
// schema types in force), the full walk, and one case per visitor policy with the event sequence
// the reference walk prescribes.  This file prints / parses the document with the real parser,
// binds every abstract node to the real AST node found by following its path, runs the REAL
// visitor.Visit (plain, under VisitInParallel, under VisitWithTypeInfo) with callbacks that
// answer according to the policy and record what they are told, and compares.
//
// The harness knows nothing about traversal order: c14Kids lists the children of a node as an
// unordered (key -> value) table, used only to follow paths and to count nodes.

import (
	"encoding/json"
	"flag"
	"fmt"
	"os"
	"reflect"
	"strconv"
	"strings"
	"sync"
	"time"

	"gqlverif/abs"

	"github.com/graphql-go/graphql"
	"github.com/graphql-go/graphql/language/ast"
	"github.com/graphql-go/graphql/language/visitor"
)

type c14Node struct {
	Kind  string   `json:"kind"`
	Label string   `json:"label"`
	Key   string   `json:"key"`
	Path  []string `json:"path"`
	Anc   []int    `json:"anc"`
	Ty    string   `json:"ty"`
}

type c14Form struct {
	Name  string      `json:"name"`
	Ge    bool        `json:"ge"`
	Gl    bool        `json:"gl"`
	Ek    []string    `json:"ek"` // kinds registered in EnterKindMap / LeaveKindMap, whether or not they win
	Lk    []string    `json:"lk"`
	Slots [][3]string `json:"slots"` // kind, slot on enter, slot on leave
}

type c14Dec struct {
	E int    `json:"e"` // event number (1-based) of the full walk
	A string `json:"a"` // "skip" | "break"
}

type c14Fixed struct {
	Pol []c14Dec `json:"pol"`
	Exp []int    `json:"exp"`
}

type c14Case struct {
	D   []c14Dec `json:"d"`
	Exp []int    `json:"exp"`
	// expectations under the named deviations that model recorded defects (DESIGN.md section 5)
	Panics []string `json:"panics"` // modes in which D_C14_skip_root_panics predicts an escaping panic
	TyDev  []string `json:"tydev"`  // types per observed event under D_C14_typeinfo_skip_unbalanced (mode "ti")
}

const (
	devRootSkip = "D_C14_skip_root_panics"
	devTISkip   = "D_C14_typeinfo_skip_unbalanced"
)

type c14Vec struct {
	Fam   string     `json:"fam"`
	Src   string     `json:"src"`
	Root  []string   `json:"root"` // path from the document to the node the traversal starts at
	Doc   *abs.Doc   `json:"doc"`
	Text  string     `json:"text"`
	Nodes []c14Node  `json:"nodes"`
	Full  []int      `json:"full"` // id = enter, 1000+id = leave
	Forms []c14Form  `json:"forms"`
	Modes []string   `json:"modes"`
	Fixed []c14Fixed `json:"fixed"`
	Pre   []c14Dec   `json:"pre"`
	Cases []c14Case  `json:"cases"`
}

type c14Ev struct {
	Leave bool
	ID    int
}

func (e c14Ev) String() string {
	if e.Leave {
		return "-" + strconv.Itoa(e.ID)
	}
	return "+" + strconv.Itoa(e.ID)
}

func c14Decode(x int) c14Ev {
	if x >= 1000 {
		return c14Ev{true, x - 1000}
	}
	return c14Ev{false, x}
}

// ---- children of a real AST node, as an unordered table ----

type c14Kid struct {
	Key  string
	One  ast.Node   // single child (nil = absent)
	Many []ast.Node // list child
	List bool
}

func c14NilNode(n ast.Node) bool {
	if n == nil {
		return true
	}
	v := reflect.ValueOf(n)
	return v.Kind() == reflect.Ptr && v.IsNil()
}

func one(key string, n ast.Node) c14Kid {
	if c14NilNode(n) {
		return c14Kid{Key: key}
	}
	return c14Kid{Key: key, One: n}
}

func many(key string, n int, at func(i int) ast.Node) c14Kid {
	k := c14Kid{Key: key, List: true}
	for i := 0; i < n; i++ {
		k.Many = append(k.Many, at(i))
	}
	return k
}

func dirs(ds []*ast.Directive) c14Kid {
	return many("Directives", len(ds), func(i int) ast.Node { return ds[i] })
}

func c14Kids(n ast.Node) []c14Kid {
	switch x := n.(type) {
	case *ast.Document:
		return []c14Kid{many("Definitions", len(x.Definitions), func(i int) ast.Node { return x.Definitions[i] })}
	case *ast.OperationDefinition:
		return []c14Kid{one("Name", x.Name),
			many("VariableDefinitions", len(x.VariableDefinitions), func(i int) ast.Node { return x.VariableDefinitions[i] }),
			dirs(x.Directives), one("SelectionSet", x.SelectionSet)}
	case *ast.VariableDefinition:
		return []c14Kid{one("Variable", x.Variable), one("Type", x.Type), one("DefaultValue", x.DefaultValue)}
	case *ast.Variable:
		return []c14Kid{one("Name", x.Name)}
	case *ast.SelectionSet:
		return []c14Kid{many("Selections", len(x.Selections), func(i int) ast.Node { n, _ := x.Selections[i].(ast.Node); return n })}
	case *ast.Field:
		return []c14Kid{one("Alias", x.Alias), one("Name", x.Name),
			many("Arguments", len(x.Arguments), func(i int) ast.Node { return x.Arguments[i] }),
			dirs(x.Directives), one("SelectionSet", x.SelectionSet)}
	case *ast.Argument:
		return []c14Kid{one("Name", x.Name), one("Value", x.Value)}
	case *ast.FragmentSpread:
		return []c14Kid{one("Name", x.Name), dirs(x.Directives)}
	case *ast.InlineFragment:
		return []c14Kid{one("TypeCondition", x.TypeCondition), dirs(x.Directives), one("SelectionSet", x.SelectionSet)}
	case *ast.FragmentDefinition:
		return []c14Kid{one("Name", x.Name),
			many("VariableDefinitions", len(x.VariableDefinitions), func(i int) ast.Node { return x.VariableDefinitions[i] }),
			one("TypeCondition", x.TypeCondition), dirs(x.Directives), one("SelectionSet", x.SelectionSet)}
	case *ast.ListValue:
		return []c14Kid{many("Values", len(x.Values), func(i int) ast.Node { return x.Values[i] })}
	case *ast.ObjectValue:
		return []c14Kid{many("Fields", len(x.Fields), func(i int) ast.Node { return x.Fields[i] })}
	case *ast.ObjectField:
		return []c14Kid{one("Name", x.Name), one("Value", x.Value)}
	case *ast.Directive:
		return []c14Kid{one("Name", x.Name), many("Arguments", len(x.Arguments), func(i int) ast.Node { return x.Arguments[i] })}
	case *ast.Named:
		return []c14Kid{one("Name", x.Name)}
	case *ast.List:
		return []c14Kid{one("Type", x.Type)}
	case *ast.NonNull:
		return []c14Kid{one("Type", x.Type)}
	case *ast.SchemaDefinition:
		return []c14Kid{dirs(x.Directives),
			many("OperationTypes", len(x.OperationTypes), func(i int) ast.Node { return x.OperationTypes[i] })}
	case *ast.OperationTypeDefinition:
		return []c14Kid{one("Type", x.Type)}
	case *ast.ScalarDefinition:
		return []c14Kid{one("Name", x.Name), dirs(x.Directives)}
	case *ast.ObjectDefinition:
		return []c14Kid{one("Name", x.Name),
			many("Interfaces", len(x.Interfaces), func(i int) ast.Node { return x.Interfaces[i] }),
			dirs(x.Directives), many("Fields", len(x.Fields), func(i int) ast.Node { return x.Fields[i] })}
	case *ast.FieldDefinition:
		return []c14Kid{one("Name", x.Name),
			many("Arguments", len(x.Arguments), func(i int) ast.Node { return x.Arguments[i] }),
			one("Type", x.Type), dirs(x.Directives)}
	case *ast.InputValueDefinition:
		return []c14Kid{one("Name", x.Name), one("Type", x.Type), one("DefaultValue", x.DefaultValue), dirs(x.Directives)}
	case *ast.InterfaceDefinition:
		return []c14Kid{one("Name", x.Name), dirs(x.Directives),
			many("Fields", len(x.Fields), func(i int) ast.Node { return x.Fields[i] })}
	case *ast.UnionDefinition:
		return []c14Kid{one("Name", x.Name), dirs(x.Directives),
			many("Types", len(x.Types), func(i int) ast.Node { return x.Types[i] })}
	case *ast.EnumDefinition:
		return []c14Kid{one("Name", x.Name), dirs(x.Directives),
			many("Values", len(x.Values), func(i int) ast.Node { return x.Values[i] })}
	case *ast.EnumValueDefinition:
		return []c14Kid{one("Name", x.Name), dirs(x.Directives)}
	case *ast.InputObjectDefinition:
		return []c14Kid{one("Name", x.Name), dirs(x.Directives),
			many("Fields", len(x.Fields), func(i int) ast.Node { return x.Fields[i] })}
	case *ast.TypeExtensionDefinition:
		return []c14Kid{one("Definition", x.Definition)}
	case *ast.DirectiveDefinition:
		return []c14Kid{one("Name", x.Name),
			many("Arguments", len(x.Arguments), func(i int) ast.Node { return x.Arguments[i] }),
			many("Locations", len(x.Locations), func(i int) ast.Node { return x.Locations[i] })}
	}
	return nil
}

func c14Label(n ast.Node) string {
	switch x := n.(type) {
	case *ast.Name:
		return x.Value
	case *ast.IntValue:
		return x.Value
	case *ast.FloatValue:
		return x.Value
	case *ast.StringValue:
		return x.Value
	case *ast.EnumValue:
		return x.Value
	case *ast.BooleanValue:
		return strconv.FormatBool(x.Value)
	case *ast.OperationDefinition:
		return x.Operation
	case *ast.OperationTypeDefinition:
		return x.Operation
	}
	return ""
}

// c14Follow follows a path of keys ("Field", "#3") from root; nil when it leaves the tree.
func c14Follow(root ast.Node, path []string) ast.Node {
	cur := root
	var list []ast.Node
	inList := false
	for _, k := range path {
		if inList {
			if !strings.HasPrefix(k, "#") {
				return nil
			}
			i, err := strconv.Atoi(k[1:])
			if err != nil || i < 0 || i >= len(list) {
				return nil
			}
			cur, inList = list[i], false
			continue
		}
		found := false
		for _, kid := range c14Kids(cur) {
			if kid.Key != k {
				continue
			}
			found = true
			if kid.List {
				list, inList = kid.Many, true
			} else {
				cur = kid.One
			}
			break
		}
		if !found || (!inList && c14NilNode(cur)) {
			return nil
		}
	}
	if inList {
		return nil
	}
	return cur
}

func c14Count(n ast.Node) int {
	if c14NilNode(n) {
		return 0
	}
	c := 1
	for _, kid := range c14Kids(n) {
		if kid.List {
			for _, m := range kid.Many {
				c += c14Count(m)
			}
		} else {
			c += c14Count(kid.One)
		}
	}
	return c
}

func keyString(k interface{}) string {
	switch t := k.(type) {
	case nil:
		return ""
	case string:
		return t
	case int:
		return "#" + strconv.Itoa(t)
	}
	return fmt.Sprintf("?%v", k)
}

// ---- one recorded callback ----

type c14Obs struct {
	Slot  string
	Leave bool
	ID    int // 0 = a node that is not part of the tree
	Kind  string
	Key   string
	Path  []string
	Anc   []int
	Ty    string
	Notes []string
}

func (o c14Obs) ev() c14Ev { return c14Ev{o.Leave, o.ID} }

type c14Run struct {
	v      *c14Vec
	root   ast.Node
	ids    map[ast.Node]int
	ti     *graphql.TypeInfo
	obs    [][]c14Obs         // per visitor
	pols   []map[c14Ev]string // per visitor: (phase, node) -> answer
	broken []bool
}

func ifaceNil(x interface{}) bool {
	if x == nil {
		return true
	}
	v := reflect.ValueOf(x)
	return (v.Kind() == reflect.Ptr || v.Kind() == reflect.Interface || v.Kind() == reflect.Map) && v.IsNil()
}

func (r *c14Run) tiString() (s string) {
	defer func() {
		if p := recover(); p != nil {
			s = fmt.Sprintf("panic:%v", p)
		}
	}()
	f := [6]string{}
	if x := r.ti.Type(); !ifaceNil(x) {
		f[0] = x.String()
	}
	if x := r.ti.ParentType(); !ifaceNil(x) {
		f[1] = x.Name()
	}
	if x := r.ti.FieldDef(); x != nil {
		f[2] = x.Name
	}
	if x := r.ti.InputType(); !ifaceNil(x) {
		f[3] = x.String()
	}
	if x := r.ti.Directive(); x != nil {
		f[4] = x.Name
	}
	if x := r.ti.Argument(); x != nil {
		f[5] = x.Name()
	}
	return strings.Join(f[:], "|")
}

// fn builds the callback registered in table slot `slot` of visitor vi.
func (r *c14Run) fn(vi int, slot string, leave bool) visitor.VisitFunc {
	return func(p visitor.VisitFuncParams) (string, interface{}) {
		o := c14Obs{Slot: slot, Leave: leave, Key: keyString(p.Key)}
		if n, ok := p.Node.(ast.Node); ok && !c14NilNode(n) {
			o.ID = r.ids[n]
			o.Kind = n.GetKind()
		} else {
			o.Notes = append(o.Notes, fmt.Sprintf("Node is %T", p.Node))
		}
		for _, k := range p.Path {
			o.Path = append(o.Path, keyString(k))
		}
		for _, a := range p.Ancestors {
			if !c14NilNode(a) {
				o.Anc = append(o.Anc, r.ids[a])
			}
		}
		if !c14NilNode(p.Parent) {
			o.Anc = append(o.Anc, r.ids[p.Parent])
		}
		if !leave {
			// following Path from the root reaches the node
			if got := c14Follow(r.root, o.Path); got == nil || got != p.Node {
				o.Notes = append(o.Notes, "following Path from the root does not reach the node")
			}
		}
		if r.ti != nil {
			o.Ty = r.tiString()
		}
		if r.broken[vi] {
			o.Notes = append(o.Notes, "called after this visitor answered break")
		}
		// a traversal delivers at most one enter and one leave per node: far beyond that it does
		// not terminate; get out of it (the panic is caught by c14Guard and reported)
		if len(r.obs[vi]) > 4*len(r.v.Full)+64 {
			panic(fmt.Sprintf("traversal does not end: more than %d callbacks for a tree of %d nodes", len(r.obs[vi]), len(r.v.Nodes)))
		}
		r.obs[vi] = append(r.obs[vi], o)
		switch r.pols[vi][o.ev()] {
		case "skip":
			return visitor.ActionSkip, nil
		case "break":
			r.broken[vi] = true
			return visitor.ActionBreak, nil
		}
		return visitor.ActionNoChange, nil
	}
}

// options builds the VisitorOptions of visitor vi in form f: exactly the functions the form's slot
// table names, each in the table its slot belongs to.
func (r *c14Run) options(vi int, f *c14Form) *visitor.VisitorOptions {
	o := &visitor.VisitorOptions{}
	if f.Ge {
		o.Enter = r.fn(vi, "g.enter", false)
	}
	if f.Gl {
		o.Leave = r.fn(vi, "g.leave", true)
	}
	for _, s := range f.Slots {
		kind, en, lv := s[0], s[1], s[2]
		if en == "kf.enter" || lv == "kf.leave" {
			if o.KindFuncMap == nil {
				o.KindFuncMap = map[string]visitor.NamedVisitFuncs{}
			}
			o.KindFuncMap[kind] = visitor.NamedVisitFuncs{Enter: r.fn(vi, "kf.enter", false), Leave: r.fn(vi, "kf.leave", true)}
		}
		if en == "kk.kind" || lv == "kk.leave" {
			if o.KindFuncMap == nil {
				o.KindFuncMap = map[string]visitor.NamedVisitFuncs{}
			}
			o.KindFuncMap[kind] = visitor.NamedVisitFuncs{Kind: r.fn(vi, "kk.kind", false), Leave: r.fn(vi, "kk.leave", true)}
		}
		if en == "ek" {
			if o.EnterKindMap == nil {
				o.EnterKindMap = map[string]visitor.VisitFunc{}
			}
			o.EnterKindMap[kind] = r.fn(vi, "ek", false)
		}
		if lv == "lk" {
			if o.LeaveKindMap == nil {
				o.LeaveKindMap = map[string]visitor.VisitFunc{}
			}
			o.LeaveKindMap[kind] = r.fn(vi, "lk", true)
		}
	}
	for _, kind := range f.Ek {
		if o.EnterKindMap == nil {
			o.EnterKindMap = map[string]visitor.VisitFunc{}
		}
		if o.EnterKindMap[kind] == nil {
			o.EnterKindMap[kind] = r.fn(vi, "ek", false)
		}
	}
	for _, kind := range f.Lk {
		if o.LeaveKindMap == nil {
			o.LeaveKindMap = map[string]visitor.VisitFunc{}
		}
		if o.LeaveKindMap[kind] == nil {
			o.LeaveKindMap[kind] = r.fn(vi, "lk", true)
		}
	}
	return o
}

func (f *c14Form) slot(kind string, leave bool) string {
	for _, s := range f.Slots {
		if s[0] == kind {
			if leave {
				return s[2]
			}
			return s[1]
		}
	}
	return "none"
}

func tyAgree(exp, got string) string {
	e, g := strings.Split(exp, "|"), strings.Split(got, "|")
	names := []string{"Type", "ParentType", "FieldDef", "InputType", "Directive", "Argument"}
	if len(e) != 6 || len(g) != 6 {
		return "types: expected " + exp + " got " + got
	}
	for i := range e {
		if e[i] == "?" { // left open by the specification
			continue
		}
		if e[i] != g[i] {
			return fmt.Sprintf("%s() is %q, the type that applies here is %q (all: got %s, expected %s)", names[i], g[i], e[i], got, exp)
		}
	}
	return ""
}

func sameStrings(a, b []string) bool {
	if len(a) != len(b) {
		return false
	}
	for i := range a {
		if a[i] != b[i] {
			return false
		}
	}
	return true
}

func sameInts(a, b []int) bool {
	if len(a) != len(b) {
		return false
	}
	for i := range a {
		if a[i] != b[i] {
			return false
		}
	}
	return true
}

func evList(es []c14Ev) string {
	parts := make([]string, len(es))
	for i, e := range es {
		parts[i] = e.String()
	}
	return strings.Join(parts, " ")
}

// compare one visitor's recorded callbacks with the expectation; "" = agreement.
// tyDev, when non-nil, gives the types expected per event under a deviation instead of the
// types that apply at the node.
func (r *c14Run) compare(vi int, f *c14Form, exp []int, types bool, tyDev []string) string {
	v := r.v
	expEv := make([]c14Ev, len(exp))
	for i, x := range exp {
		expEv[i] = c14Decode(v.Full[x-1])
	}
	got := make([]c14Ev, len(r.obs[vi]))
	for i, o := range r.obs[vi] {
		got[i] = o.ev()
	}
	if len(got) != len(expEv) {
		return fmt.Sprintf("event sequence differs: expected %d events [%s], observed %d [%s]", len(expEv), evList(expEv), len(got), evList(got))
	}
	for i, o := range r.obs[vi] {
		if got[i] != expEv[i] {
			return fmt.Sprintf("event %d differs: expected %s, observed %s (kind %s) (expected [%s], observed [%s])", i+1, expEv[i], got[i], o.Kind, evList(expEv), evList(got))
		}
		nd := &v.Nodes[o.ID-1]
		where := fmt.Sprintf("event %d (%s %s %q)", i+1, expEv[i], nd.Kind, nd.Label)
		if len(o.Notes) > 0 {
			return where + ": " + strings.Join(o.Notes, "; ")
		}
		if want := f.slot(nd.Kind, o.Leave); o.Slot != want {
			return fmt.Sprintf("%s: delivered to function %s, the form's function for it is %s", where, o.Slot, want)
		}
		if o.Key != nd.Key {
			return fmt.Sprintf("%s: Key is %q, expected %q", where, o.Key, nd.Key)
		}
		if !o.Leave {
			if !sameStrings(o.Path, nd.Path) {
				return fmt.Sprintf("%s: Path is %v, expected %v", where, o.Path, nd.Path)
			}
			if len(o.Path) > 0 && o.Path[len(o.Path)-1] != o.Key {
				return fmt.Sprintf("%s: Key %q is not the last element of Path %v", where, o.Key, o.Path)
			}
		}
		if !sameInts(o.Anc, nd.Anc) {
			return fmt.Sprintf("%s: non-nil Ancestors followed by Parent are nodes %v, the enclosing nodes are %v", where, o.Anc, nd.Anc)
		}
		if types {
			want := nd.Ty
			if tyDev != nil {
				if i >= len(tyDev) {
					return where + ": no deviated type expectation for this event"
				}
				want = tyDev[i]
			}
			if why := tyAgree(want, o.Ty); why != "" {
				return where + ": " + why
			}
		}
	}
	return ""
}

func c14Guard(f func()) (pan string) {
	defer func() {
		if p := recover(); p != nil {
			pan = fmt.Sprintf("%v", p)
		}
	}()
	f()
	return ""
}

type c14Bound struct {
	text string
	doc  *ast.Document // the parsed document
	root ast.Node      // where the traversal starts
	ref  *ast.Document // a second parse, never traversed
	ids  map[ast.Node]int
}

// bind parses the text twice (the second copy stays untouched, for the no-edit comparison) and
// binds every abstract node to the real node its path leads to.
func c14Bind(v *c14Vec, text string) (*c14Bound, string) {
	doc, err := parseDoc(text)
	if err != nil {
		return nil, "document does not parse: " + err.Error()
	}
	ref, _ := parseDoc(text)
	// the traversal starts at the document or at the node the vector's root path leads to
	root := c14Follow(doc, v.Root)
	if root == nil {
		return nil, fmt.Sprintf("root path %v leads nowhere in the parsed document", v.Root)
	}
	b := &c14Bound{text: text, doc: doc, root: root, ref: ref, ids: map[ast.Node]int{}}
	for i := range v.Nodes {
		nd := &v.Nodes[i]
		n := c14Follow(root, nd.Path)
		if n == nil {
			return nil, fmt.Sprintf("node %d (%s %q): path %v leads nowhere in the parsed document", i+1, nd.Kind, nd.Label, nd.Path)
		}
		if n.GetKind() != nd.Kind || c14Label(n) != nd.Label {
			return nil, fmt.Sprintf("node %d: path %v leads to %s %q, the abstract tree has %s %q", i+1, nd.Path, n.GetKind(), c14Label(n), nd.Kind, nd.Label)
		}
		if _, dup := b.ids[n]; dup {
			return nil, fmt.Sprintf("node %d: path %v leads to a node already bound", i+1, nd.Path)
		}
		b.ids[n] = i + 1
	}
	if c := c14Count(root); c != len(v.Nodes) {
		return nil, fmt.Sprintf("the parsed document has %d nodes, the abstract tree %d", c, len(v.Nodes))
	}
	return b, ""
}

func decMap(v *c14Vec, ds ...[]c14Dec) map[c14Ev]string {
	m := map[c14Ev]string{}
	for _, d := range ds {
		for _, x := range d {
			m[c14Decode(v.Full[x.E-1])] = x.A
		}
	}
	return m
}

func polString(v *c14Vec, ds ...[]c14Dec) string {
	var parts []string
	for _, d := range ds {
		for _, x := range d {
			parts = append(parts, x.A+"@"+c14Decode(v.Full[x.E-1]).String())
		}
	}
	return strings.Join(parts, ",")
}

func replayC14(raw []byte, st *Stats, wk *worker) {
	var v c14Vec
	if err := json.Unmarshal(raw, &v); err != nil {
		st.Mismatch(Mismatch{What: "infra: bad C14 vector: " + err.Error()})
		return
	}
	st.Add("vectors", 1)
	text := v.Text
	if v.Doc != nil && text == "" {
		text = abs.Print(v.Doc, abs.DefaultLayout).Text
	}
	bound, why := c14Bind(&v, text)
	if why != "" {
		st.Mismatch(Mismatch{What: "infra: C14 cannot bind the abstract tree to the parsed document: " + why, Detail: text})
		return
	}
	built := builtFor(wk)
	nvis := len(v.Fixed) + 1
	fixedPols := make([]map[c14Ev]string, len(v.Fixed))
	for i, f := range v.Fixed {
		fixedPols[i] = decMap(&v, f.Pol)
	}
	for ci := range v.Cases {
		c := &v.Cases[ci]
		st.Add("cases", 1)
		last := decMap(&v, v.Pre, c.D)
		if len(v.Pre)+len(c.D) > 0 || len(v.Fixed) > 0 {
			st.Distinct("distinct_nontrivial", text+"|"+polString(&v, v.Pre, c.D)+"|"+fmt.Sprint(v.Fixed)+"|"+v.Forms[0].Name)
		}
		for mi, mode := range v.Modes {
			withTI := mode == "ti" || mode == "tipar"
			par := mode == "par" || mode == "tipar"
			if nvis > 1 && !par {
				continue
			}
			if withTI && built == nil {
				st.Mismatch(Mismatch{What: "infra: C14 needs the SCHEMA line for type tracking"})
				return
			}
			for rot := range v.Forms {
				// every form in the first mode of the family; in the other modes two forms per case,
				// rotating with the case number, so that all (form, mode) pairs occur on every document
				if mi > 0 && rot != ci%len(v.Forms) && rot != (ci+3)%len(v.Forms) {
					continue
				}
				r := &c14Run{v: &v, root: bound.root, ids: bound.ids, obs: make([][]c14Obs, nvis), broken: make([]bool, nvis)}
				r.pols = append(append([]map[c14Ev]string{}, fixedPols...), last)
				if withTI {
					r.ti = graphql.NewTypeInfo(&graphql.TypeInfoConfig{Schema: &built.Schema})
				}
				forms := make([]*c14Form, nvis)
				opts := make([]*visitor.VisitorOptions, nvis)
				for vi := 0; vi < nvis; vi++ {
					forms[vi] = &v.Forms[(vi+rot)%len(v.Forms)]
					opts[vi] = r.options(vi, forms[vi])
				}
				top := opts[0]
				if par {
					top = visitor.VisitInParallel(opts...)
				}
				if withTI {
					top = visitor.VisitWithTypeInfo(r.ti, top)
				}
				// watchdog: a traversal that never returns (and delivers no callback that could stop
				// it) cannot be interrupted from inside the process: report it and end the replay
				watchdog := time.AfterFunc(c14HangLimit, func() {
					c14Hang(st, fmt.Sprintf("visitor.Visit did not return within %v (document of %d nodes)", c14HangLimit, len(v.Nodes)),
						map[string]interface{}{"document": text, "family": v.Fam, "mode": mode,
							"policy (answer@+enter/-leave node id)": polString(&v, v.Pre, c.D)}, c14Minimal(raw, ci))
				})
				pan := c14Guard(func() { visitor.Visit(bound.root, top, nil) })
				watchdog.Stop()
				st.Add("executions", 1)
				// verdict: the specification's expectation first; if it fails, the expectation under
				// each listed deviation that applies to this case and mode (never a pattern on inputs)
				judge := func(allowPanic bool, tyDev []string) string {
					if pan != "" && !allowPanic {
						return "panic escaped from visitor.Visit: " + pan
					}
					if pan == "" && allowPanic {
						return "no panic"
					}
					for vi := 0; vi < nvis; vi++ {
						exp := c.Exp
						if vi < len(v.Fixed) {
							exp = v.Fixed[vi].Exp
						}
						if why := r.compare(vi, forms[vi], exp, withTI, tyDev); why != "" {
							return fmt.Sprintf("visitor %d of %d (form %s): %s", vi+1, nvis, forms[vi].Name, why)
						}
					}
					if !reflect.DeepEqual(bound.doc, bound.ref) {
						return "the AST differs from a freshly parsed copy after a traversal that requested no edit"
					}
					return ""
				}
				fail := judge(false, nil)
				if fail != "" {
					panicsHere := false
					for _, m := range c.Panics {
						panicsHere = panicsHere || m == mode
					}
					tyDevHere := mode == "ti" && len(c.TyDev) > 0
					switch {
					case panicsHere && devsListed([]string{devRootSkip}) && judge(true, nil) == "":
						st.KnownHit(devRootSkip)
						fail = ""
					case tyDevHere && devsListed([]string{devTISkip}) && judge(false, c.TyDev) == "":
						st.KnownHit(devTISkip)
						fail = ""
					case panicsHere && tyDevHere && devsListed([]string{devRootSkip, devTISkip}) && judge(true, c.TyDev) == "":
						st.KnownHit(devRootSkip)
						fail = ""
					}
				}
				if fail != "" {
					pols := []string{}
					for _, f := range v.Fixed {
						pols = append(pols, polString(&v, f.Pol))
					}
					pols = append(pols, polString(&v, v.Pre, c.D))
					st.Mismatch(Mismatch{What: "C14 " + mode + ": " + fail,
						Detail: map[string]interface{}{"document": text, "family": v.Fam, "mode": mode,
							"policies (answer@+enter/-leave node id)": pols, "case": ci},
						Vector: c14Minimal(raw, ci)})
					return
				}
			}
		}
	}
	if len(v.Cases) > 1 {
		c := v.Cases[len(v.Cases)/2]
		st.Sample(map[string]interface{}{"document": text, "family": v.Fam, "policy": polString(&v, v.Pre, c.D),
			"expected_events": len(c.Exp), "nodes": len(v.Nodes)})
	}
}

// c14Minimal keeps only the failing case in the stored vector (replay files stay small).
func c14Minimal(raw []byte, ci int) json.RawMessage {
	var m map[string]json.RawMessage
	if json.Unmarshal(raw, &m) != nil {
		return raw
	}
	var cases []json.RawMessage
	if json.Unmarshal(m["cases"], &cases) != nil || ci >= len(cases) {
		return raw
	}
	m["cases"], _ = json.Marshal(cases[ci : ci+1])
	b, err := json.Marshal(m)
	if err != nil {
		return raw
	}
	return b
}

// a traversal of a document of at most a few hundred nodes takes well under a millisecond
const c14HangLimit = 90 * time.Second

var (
	c14SummaryPath = func() string { return "-" }
	c14HangOnce    sync.Once
)

// c14Hang records the hang as a disagreement, writes the summary main would have written and
// ends the process with the "mismatch" status (the stuck goroutine cannot be stopped).
func c14Hang(st *Stats, what string, detail interface{}, vec json.RawMessage) {
	c14HangOnce.Do(func() {
		st.Mismatch(Mismatch{What: "C14: " + what, Detail: detail, Vector: vec})
		st.mu.Lock()
		sum := &Summary{Property: "C14", Mode: "replay", Counters: st.Counters, Known: st.Known, Samples: st.Samples,
			Mismatches: st.Mismatches, NMismatch: st.nMismatch, Notes: st.Notes}
		normalize(sum)
		writeSummary(c14SummaryPath(), sum)
		os.Exit(1)
	})
}

func init() {
	handlers["C14"] = func(fs *flag.FlagSet) handler {
		c14SummaryPath = func() string {
			if f := fs.Lookup("summary"); f != nil {
				return f.Value.String()
			}
			return "-"
		}
		return func(tag string, raw []byte, st *Stats, wk *worker) {
			switch tag {
			case "SCHEMA":
				handleSchemaLine(raw, st, wk)
			case "VEC":
				replayC14(raw, st, wk)
			}
		}
	}
}
