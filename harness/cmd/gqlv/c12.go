package main

import (
	"bufio"
	"crypto/sha256"
	"encoding/hex"
	"encoding/json"
	"flag"
	"fmt"
	"os"
	"regexp"
	"sort"
	"strings"
	"sync"
	"time"

	"gqlverif/abs"

	"github.com/graphql-go/graphql"
	"github.com/graphql-go/graphql/testutil"
)

// C12: observations (request id, hash of the response bytes, hash after list-order
// normalisation) for Trace_C12.tla.

type c12Req struct {
	Text string `json:"text"`
	Op   string `json:"op"`
	Vars string `json:"vars"`
	Outs string `json:"outs"`
	Tag  string `json:"tag"`
}

func c12Vars(tag string) map[string]interface{} {
	if tag == "badin" {
		return map[string]interface{}{"q": map[string]interface{}{"r": "x", "k": "y", "zz": 1, "yy": 2}}
	}
	return nil
}

func c12Outs(tag string) []abs.OutEntry {
	var out []abs.OutEntry
	add := func(t, f, k string) { out = append(out, abs.OutEntry{T: t, F: f, Src: "*", O: abs.Outcome{K: k}}) }
	switch tag {
	case "thunkerr":
		for _, t := range []string{"Q", "M"} {
			for _, f := range []string{"a", "b", "c"} {
				add(t, f, "thunkerr")
			}
		}
	case "uostar":
		out = append(out, abs.OutEntry{T: "Q", F: "uo", Src: "*", O: abs.Outcome{K: "val", Rt: "*"}})
	case "err":
		add("Q", "a", "err")
		add("Q", "nn", "nil")
		add("O", "x", "err")
	}
	return out
}

var wordRe = regexp.MustCompile(`[A-Za-z0-9_$]+`)

// normalise: every array sorted (recursively, by canonical rendering), every string reduced to
// its sorted bag of words: two responses that differ only in the order of some list (or of the
// names quoted in a message) normalise to the same value.
func c12Normalise(x interface{}) interface{} {
	switch t := x.(type) {
	case map[string]interface{}:
		out := map[string]interface{}{}
		for k, v := range t {
			out[k] = c12Normalise(v)
		}
		return out
	case []interface{}:
		items := make([]interface{}, len(t))
		keys := make([]string, len(t))
		for i, v := range t {
			items[i] = c12Normalise(v)
			b, _ := json.Marshal(items[i])
			keys[i] = string(b)
		}
		sort.Strings(keys)
		out := make([]interface{}, len(keys))
		for i, k := range keys {
			out[i] = json.RawMessage(k)
		}
		return out
	case string:
		ws := wordRe.FindAllString(t, -1)
		sort.Strings(ws)
		return strings.Join(ws, " ")
	}
	return x
}

func sha(b []byte) string { h := sha256.Sum256(b); return hex.EncodeToString(h[:8]) }

func c12Observe(b *abs.Built, cache *graphql.PlanCache, rid int, r *c12Req, proc int, mode string) (map[string]interface{}, string) {
	text := r.Text
	if text == "FULL_INTROSPECTION" {
		text = testutil.IntrospectionQuery
	}
	// resolvers change the argument map they are given and String leaves echo the arguments they saw: a plan
	// that hands one call's arguments to another changes the response
	rc := &abs.RunCtx{Built: b, Root: rootObject, RootTag: "r", Outs: c12Outs(r.Outs), MutateArgs: true, EchoArgs: true}
	var res *graphql.Result
	var pan string
	vars := c12Vars(r.Vars)
	if cache == nil {
		res, pan = guard(func() *graphql.Result {
			return graphql.Do(graphql.Params{Schema: b.Schema, RequestString: text, RootObject: rootObject,
				VariableValues: vars, OperationName: r.Op, Context: abs.WithRun(contextBG, rc)})
		})
	} else {
		res, pan = guard(func() *graphql.Result {
			pr := cache.Get(&b.Schema, text, r.Op)
			if len(pr.Errors) > 0 {
				return &graphql.Result{Errors: pr.Errors}
			}
			args := map[string]interface{}{}
			for k, v := range vars {
				args[k] = v
			}
			for k, v := range pr.SynthArgs {
				args[k] = v
			}
			return graphql.ExecutePlan(pr.Plan, graphql.ExecuteParams{Schema: b.Schema, Root: rootObject, Args: args,
				Context: abs.WithRun(contextBG, rc)})
		})
	}
	if pan != "" {
		return nil, "panic: " + pan
	}
	raw, err := json.Marshal(res)
	if err != nil {
		return nil, "result not serialisable: " + err.Error()
	}
	var generic interface{}
	json.Unmarshal(raw, &generic)
	nb, _ := json.Marshal(c12Normalise(generic))
	return map[string]interface{}{"t": "ev", "rid": fmt.Sprintf("q%d/%s", rid, mode), "h": sha(raw), "nh": sha(nb), "tag": r.Tag, "proc": proc}, ""
}

func c12KnownTags() []string {
	tags := []string{"-none-"}
	for d := range knownDevs {
		if strings.HasPrefix(d, "D_C12_") {
			tags = append(tags, strings.TrimPrefix(d, "D_C12_"))
		}
	}
	sort.Strings(tags)
	return tags
}

func init() {
	handlers["C12"] = func(fs *flag.FlagSet) handler {
		traceOut := fs.String("trace-out", "", "NDJSON trace for Trace_C12")
		poolOut := fs.String("pool-out", "", "file receiving the pool and schema for the multi-process recorder")
		var tw *traceWriter
		var once sync.Once
		var mu sync.Mutex
		var pool []c12Req
		var schemaRaw []byte
		return func(tag string, raw []byte, st *Stats, wk *worker) {
			once.Do(func() {
				if *traceOut != "" {
					tw = openTrace(*traceOut, 2000000)
					tw.put([]interface{}{map[string]interface{}{"t": "cfg", "known": c12KnownTags()}})
					atExit = append(atExit, func() { tw.close(nil) })
				}
			})
			switch tag {
			case "SCHEMA":
				handleSchemaLine(raw, st, wk)
				mu.Lock()
				schemaRaw = append([]byte(nil), raw...)
				mu.Unlock()
			case "POOL":
				mu.Lock()
				json.Unmarshal(raw, &pool)
				if *poolOut != "" {
					b, _ := json.Marshal(map[string]interface{}{"schema": json.RawMessage(schemaRaw), "pool": pool})
					os.WriteFile(*poolOut, b, 0o644)
				}
				mu.Unlock()
			case "VEC":
				var v struct {
					Hist []int `json:"hist"`
				}
				if json.Unmarshal(raw, &v) != nil {
					st.Mismatch(Mismatch{What: "infra: bad vector"})
					return
				}
				mu.Lock()
				p := pool
				mu.Unlock()
				base := builtFor(wk)
				if base == nil || len(p) == 0 {
					st.Mismatch(Mismatch{What: "infra: vector before SCHEMA/POOL"})
					return
				}
				st.Add("vectors", 1)
				for _, mode := range []string{"do", "cache", "plaincache"} {
					// a fresh schema per history: map iteration at construction is part of what is tested
					b, err := abs.Build(base.Abs)
					if err != nil {
						st.Mismatch(Mismatch{What: "infra: " + err.Error()})
						return
					}
					var cache *graphql.PlanCache
					if mode == "cache" {
						cache = graphql.NewPlanCache(graphql.PlanCacheOptions{MaxEntries: 2, Normalize: true})
					} else if mode == "plaincache" {
						cache = graphql.NewPlanCache(graphql.PlanCacheOptions{MaxEntries: 2})
					}
					var lines []interface{}
					for _, q := range v.Hist {
						ob, bad := c12Observe(b, cache, q, &p[q-1], 0, "x")
						st.Add("executions", 1)
						if bad != "" {
							st.Mismatch(Mismatch{What: "C12 " + bad, Detail: p[q-1], Vector: raw})
							return
						}
						lines = append(lines, ob)
					}
					if tw != nil {
						tw.put(lines)
						st.Add("trace_lines", int64(len(lines)))
					}
				}
				st.Distinct("distinct_nontrivial", string(raw))
				if len(v.Hist) > 0 {
					st.Sample(map[string]interface{}{"history": v.Hist, "first_request": p[v.Hist[0]-1].Text})
				}
			}
		}
	}
	// one fresh process: run every pool request `reps` times on fresh schemas and append observations
	recorders["C12"] = func(args []string) int {
		fs := flag.NewFlagSet("record C12", flag.ExitOnError)
		poolFile := fs.String("pool", "", "")
		out := fs.String("out", "", "trace file to APPEND to")
		proc := fs.Int("proc", 1, "")
		reps := fs.Int("reps", 5, "")
		fs.Int64("seed", 1, "")
		fs.String("tier", "quick", "")
		fs.String("summary", "", "")
		fs.Parse(args)
		t0 := time.Now()
		b, err := os.ReadFile(*poolFile)
		if err != nil {
			fmt.Fprintln(os.Stderr, err)
			return 2
		}
		var pf struct {
			Schema abs.Schema `json:"schema"`
			Pool   []c12Req   `json:"pool"`
		}
		if err := json.Unmarshal(b, &pf); err != nil {
			fmt.Fprintln(os.Stderr, err)
			return 2
		}
		f, err := os.OpenFile(*out, os.O_APPEND|os.O_WRONLY|os.O_CREATE, 0o644)
		if err != nil {
			fmt.Fprintln(os.Stderr, err)
			return 2
		}
		w := bufio.NewWriter(f)
		n := 0
		for rep := 0; rep < *reps; rep++ {
			built, err := abs.Build(&pf.Schema)
			if err != nil {
				fmt.Fprintln(os.Stderr, err)
				return 2
			}
			for i := range pf.Pool {
				ob, bad := c12Observe(built, nil, i+1, &pf.Pool[i], *proc, "x")
				if bad != "" {
					fmt.Fprintln(os.Stderr, "C12:", bad)
					return 2
				}
				jb, _ := json.Marshal(ob)
				w.Write(jb)
				w.WriteByte('\n')
				n++
			}
		}
		w.Flush()
		f.Close()
		fmt.Printf("{\"lines\":%d,\"wall_s\":%.2f}\n", n, time.Since(t0).Seconds())
		return 0
	}
}
