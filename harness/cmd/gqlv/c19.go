package main

import (
	"bufio"
	"encoding/json"
	"flag"
	"fmt"
	"os"
	"strings"
	"time"

	"github.com/graphql-go/graphql"
)

// C19 recorder: drives the scaled document families through the real ValidateDocument /
// PlanQuery / ExecutePlan, reads the `verif` step counters and writes one measurement per
// line for Trace_C19.tla (which checks them against Cost!Bound).  Counters, not wall-clock.

func c19AbstractSchema(k int) (graphql.Schema, []*graphql.Object) {
	var node *graphql.Interface
	var impls []*graphql.Object
	node = graphql.NewInterface(graphql.InterfaceConfig{
		Name: "Node",
		Fields: graphql.FieldsThunk(func() graphql.Fields {
			return graphql.Fields{"x": &graphql.Field{Type: graphql.String}, "child": &graphql.Field{Type: node}}
		}),
		ResolveType: func(p graphql.ResolveTypeParams) *graphql.Object { return impls[0] },
	})
	for i := 0; i < k; i++ {
		impls = append(impls, graphql.NewObject(graphql.ObjectConfig{
			Name:       fmt.Sprintf("T%d", i),
			Interfaces: []*graphql.Interface{node},
			Fields: graphql.FieldsThunk(func() graphql.Fields {
				return graphql.Fields{
					"x": &graphql.Field{Type: graphql.String, Resolve: func(p graphql.ResolveParams) (interface{}, error) { return "x", nil }},
					"child": &graphql.Field{Type: node, Resolve: func(p graphql.ResolveParams) (interface{}, error) {
						return map[string]interface{}{}, nil
					}},
				}
			}),
		}))
	}
	q := graphql.NewObject(graphql.ObjectConfig{Name: "Query", Fields: graphql.Fields{
		"node": &graphql.Field{Type: node, Resolve: func(p graphql.ResolveParams) (interface{}, error) { return map[string]interface{}{}, nil }},
		"a":    &graphql.Field{Type: graphql.Int, Resolve: func(p graphql.ResolveParams) (interface{}, error) { return 1, nil }},
		"b":    &graphql.Field{Type: graphql.Int, Resolve: func(p graphql.ResolveParams) (interface{}, error) { return 2, nil }},
		"c":    &graphql.Field{Type: graphql.Int, Resolve: func(p graphql.ResolveParams) (interface{}, error) { return 3, nil }},
	}})
	types := []graphql.Type{}
	for _, t := range impls {
		types = append(types, t)
	}
	s, err := graphql.NewSchema(graphql.SchemaConfig{Query: q, Types: types})
	if err != nil {
		panic(err)
	}
	return s, impls
}

func c19Doc(fam string, n int) string {
	var sb strings.Builder
	switch fam {
	case "abstract":
		sb.WriteString("{ node ")
		for i := 0; i < n; i++ {
			sb.WriteString("{ x child ")
		}
		sb.WriteString("{ x }")
		for i := 0; i < n; i++ {
			sb.WriteString(" }")
		}
		sb.WriteString(" }")
	case "chain":
		sb.WriteString("{ ...F1 }\n")
		for i := 1; i <= n; i++ {
			if i < n {
				fmt.Fprintf(&sb, "fragment F%d on Query { a ...F%d ...F%d }\n", i, i+1, i+1)
			} else {
				fmt.Fprintf(&sb, "fragment F%d on Query { a }\n", i)
			}
		}
	case "fan":
		sb.WriteString("{")
		for i := 0; i < n; i++ {
			sb.WriteString(" ...F")
		}
		sb.WriteString(" }\nfragment F on Query { a b c }\n")
	case "mesh":
		sb.WriteString("{ ...F1 }\n")
		for i := 1; i <= n; i++ {
			fmt.Fprintf(&sb, "fragment F%d on Query { a", i)
			for j := i + 1; j <= n; j++ {
				fmt.Fprintf(&sb, " ...F%d", j)
			}
			sb.WriteString(" }\n")
		}
	case "exclchain":
		// two parallel chains A0..An, B0..Bn; each link selects `child` once under ... on T0 and once under
		// ... on T1, so the pair (A(i+1), B(i+1)) is compared from mutually exclusive and from non-exclusive parents
		sb.WriteString("{ node { ...A0 ...B0 } }\n")
		for _, p := range []string{"A", "B"} {
			for i := 0; i < n; i++ {
				fmt.Fprintf(&sb, "fragment %s%d on Node { ... on T0 { child { ...%s%d } } ... on T1 { child { ...%s%d } } }\n", p, i, p, i+1, p, i+1)
			}
			fmt.Fprintf(&sb, "fragment %s%d on Node { x }\n", p, n)
		}
	case "diamond":
		// F0 -> (G0, H0) -> F1 -> (G1, H1) -> ... : every fragment is reachable along 2^i paths
		sb.WriteString("{ ...F0 }\n")
		for i := 0; i < n; i++ {
			fmt.Fprintf(&sb, "fragment F%d on Query { a ...G%d ...H%d }\n", i, i, i)
			fmt.Fprintf(&sb, "fragment G%d on Query { b ...F%d }\n", i, i+1)
			fmt.Fprintf(&sb, "fragment H%d on Query { c ...F%d }\n", i, i+1)
		}
		fmt.Fprintf(&sb, "fragment F%d on Query { a }\n", n)
	case "excldiamond":
		// one response key selected three times: under T0 (spreading F0), under T1 (plain), under T1 (spreading F0) -
		// the same fields meet the same fragment first from mutually exclusive parents, then from non-exclusive
		// ones - and F0 heads a chain of diamonds (2^n spread paths)
		sb.WriteString("{ node { ... on T0 { child { ...F0 } } ... on T1 { child { x } } ... on T1 { child { ...F0 } } } }\n")
		for i := 0; i < n; i++ {
			fmt.Fprintf(&sb, "fragment F%d on Node { x ...A%d ...B%d }\n", i, i, i)
			fmt.Fprintf(&sb, "fragment A%d on Node { x ...F%d }\n", i, i+1)
			fmt.Fprintf(&sb, "fragment B%d on Node { x ...F%d }\n", i, i+1)
		}
		fmt.Fprintf(&sb, "fragment F%d on Node { x }\n", n)
	case "twinchain":
		// one response key selected twice at every level, both occurrences spreading the SAME next fragment:
		// merged once per level, not once per path
		sb.WriteString("{ node { child { ...F1 } child { ...F1 } } }\n")
		for i := 1; i <= n; i++ {
			if i < n {
				fmt.Fprintf(&sb, "fragment F%d on Node { child { ...F%d } child { ...F%d } }\n", i, i+1, i+1)
			} else {
				fmt.Fprintf(&sb, "fragment F%d on Node { x }\n", i)
			}
		}
	case "wide":
		sb.WriteString("{")
		for i := 0; i < n; i++ {
			sb.WriteString(" a")
		}
		sb.WriteString(" }")
	}
	return sb.String()
}

func sumCounters(idx ...int) int64 {
	c := graphql.VerifCounters()
	var s int64
	for _, i := range idx {
		s += c[i]
	}
	return s
}

func init() {
	recorders["C19"] = func(args []string) int {
		fs := flag.NewFlagSet("record C19", flag.ExitOnError)
		out := fs.String("out", "trace.ndjson", "")
		summary := fs.String("summary", "-", "")
		fs.Int64("seed", 1, "")
		tier := fs.String("tier", "quick", "")
		corrupt := fs.String("corrupt", "", "")
		fs.Parse(args)
		_ = corrupt
		t0 := time.Now()
		st := newStats()
		f, err := os.Create(*out)
		if err != nil {
			fmt.Fprintln(os.Stderr, err)
			return 2
		}
		w := bufio.NewWriter(f)
		maxN := 12
		ks := []int{1, 8, 64}
		if *tier != "quick" {
			maxN = 24
			ks = []int{1, 4, 16, 64, 256}
		}
		emit := func(fam string, n, k int, work int64) {
			b, _ := json.Marshal(map[string]interface{}{"t": "ev", "fam": fam, "n": n, "k": k, "work": work})
			w.Write(b)
			w.WriteByte('\n')
			st.Add("executions", 1)
			st.Add("vectors", 1)
			if n >= 3 {
				st.Distinct("distinct_nontrivial", fmt.Sprintf("%s/%d/%d", fam, n, k))
			}
			if n == maxN {
				st.Sample(map[string]interface{}{"family": fam, "n": n, "k": k, "work": work})
			}
		}
		const giveUp = 5_000_000 // stop scaling a family whose work exploded (the line is still recorded)
		for _, k := range ks {
			schema, _ := c19AbstractSchema(k)
			for n := 1; n <= maxN; n++ {
				doc, err := parseDoc(c19Doc("abstract", n))
				if err != nil {
					fmt.Fprintln(os.Stderr, "infra: generated document does not parse:", err)
					return 2
				}
				graphql.VerifResetCounters()
				plan, perr := graphql.PlanQuery(&schema, doc, "")
				if perr != nil {
					fmt.Fprintln(os.Stderr, "infra: PlanQuery:", perr)
					return 2
				}
				emit("abstract_plan", n, k, sumCounters(0, 1))
				graphql.VerifResetCounters()
				res := graphql.ExecutePlan(plan, graphql.ExecuteParams{Schema: schema})
				if len(res.Errors) > 0 {
					fmt.Fprintln(os.Stderr, "infra: ExecutePlan:", res.Errors[0].Message)
					return 2
				}
				work := sumCounters(0, 1)
				emit("abstract_exec", n, k, work)
				if work > giveUp {
					break
				}
			}
		}
		schema, _ := c19AbstractSchema(2)
		for _, fam := range []string{"chain", "fan", "mesh", "wide", "exclchain", "diamond", "twinchain", "excldiamond"} {
			for n := 1; n <= maxN; n++ {
				doc, err := parseDoc(c19Doc(fam, n))
				if err != nil {
					fmt.Fprintln(os.Stderr, "infra: generated document does not parse:", err)
					return 2
				}
				graphql.VerifResetCounters()
				vr := graphql.ValidateDocument(&schema, doc, nil)
				work := sumCounters(2, 3, 4, 5, 6, 8)
				if !vr.IsValid {
					fmt.Fprintln(os.Stderr, "infra: family document invalid:", vr.Errors[0].Message)
					return 2
				}
				emit(fam+"_validate", n, 1, work)
				stop := work > giveUp
				if fam == "twinchain" {
				// abstract fields are planned lazily, per runtime type, while the request runs
				graphql.VerifResetCounters()
				plan, perr := graphql.PlanQuery(&schema, doc, "")
				if perr != nil {
					fmt.Fprintln(os.Stderr, "infra: PlanQuery:", perr)
					return 2
				}
				res := graphql.ExecutePlan(plan, graphql.ExecuteParams{Schema: schema})
				if len(res.Errors) > 0 {
					fmt.Fprintln(os.Stderr, "infra: ExecutePlan:", res.Errors[0].Message)
					return 2
				}
				pw := sumCounters(0, 1)
				emit(fam+"_planexec", n, 1, pw)
				stop = stop || pw > giveUp
			}
			if fam == "chain" || fam == "diamond" {
					graphql.VerifResetCounters()
					if _, perr := graphql.PlanQuery(&schema, doc, ""); perr != nil {
						fmt.Fprintln(os.Stderr, "infra: PlanQuery:", perr)
						return 2
					}
					pw := sumCounters(0, 1)
					emit(fam+"_plan", n, 1, pw)
					stop = stop || pw > giveUp
					// the normalising plan cache fingerprints the document before anything else
					graphql.VerifResetCounters()
					cache := graphql.NewPlanCache(graphql.PlanCacheOptions{Normalize: true})
					pr := cache.Get(&schema, c19Doc(fam, n), "")
					if len(pr.Errors) > 0 {
						fmt.Fprintln(os.Stderr, "infra: PlanCache.Get:", pr.Errors[0].Message)
						return 2
					}
					fw := sumCounters(7)
					emit(fam+"_fingerprint", n, 1, fw)
					stop = stop || fw > giveUp
				}
				if stop {
					break
				}
			}
		}
		b, _ := json.Marshal(map[string]string{"t": "end"})
		w.Write(b)
		w.WriteByte('\n')
		w.Flush()
		f.Close()
		sum := &Summary{Property: "C19", Mode: "record", Counters: st.Counters, Known: st.Known, Samples: st.Samples,
			Mismatches: st.Mismatches, NMismatch: st.nMismatch, WallS: time.Since(t0).Seconds()}
		normalize(sum)
		writeSummary(*summary, sum)
		return 0
	}
}
