package main

import (
	"context"
	"encoding/json"
	"flag"
	"fmt"
	"sort"
	"strings"

	"gqlverif/abs"

	"github.com/graphql-go/graphql"
	"github.com/graphql-go/graphql/gqlerrors"
	"github.com/graphql-go/graphql/language/ast"
	"github.com/graphql-go/graphql/language/parser"
	"github.com/graphql-go/graphql/language/source"
)

// ---- vectors of MC_C01.tla (also used by C04, C05, C18c, C20) ----

type devExp struct {
	D   []string `json:"d"`
	Exp abs.Resp `json:"exp"`
}

type execRun struct {
	Inputs []abs.NV `json:"inputs"`
	Oi     int      `json:"oi"`
	Exp    abs.Resp `json:"exp"`
	Dev    []devExp `json:"dev"`
}

type execVector struct {
	Fam    string           `json:"fam"`
	Doc    abs.Doc          `json:"doc"`
	OpName string           `json:"opname"`
	Outs   [][]abs.OutEntry `json:"outs"`
	Runs   []execRun        `json:"runs"`
}

// observed is the projection of a real Result.
type observed struct {
	Data   abs.Value
	Errs   [][]string
	Msgs   []string
	Locs   [][2]int
	Calls  []abs.Call
	TCalls []abs.TCall
	Panic  string
	NoData bool
}

func projectResult(res *graphql.Result, rc *abs.RunCtx) observed {
	o := observed{}
	if res == nil {
		o.Panic = "nil result"
		return o
	}
	if res.Data == nil {
		o.Data = abs.Null()
		o.NoData = true
	} else {
		o.Data = abs.FromGo(res.Data)
	}
	for _, e := range res.Errors {
		o.Errs = append(o.Errs, errPath(e))
		o.Msgs = append(o.Msgs, e.Message)
		if len(e.Locations) > 0 {
			o.Locs = append(o.Locs, [2]int{e.Locations[0].Line, e.Locations[0].Column})
		} else {
			o.Locs = append(o.Locs, [2]int{0, 0})
		}
	}
	if rc != nil {
		o.Calls = append(o.Calls, rc.Calls...)
		o.TCalls = append(o.TCalls, rc.TCalls...)
	}
	return o
}

func errPath(e gqlerrors.FormattedError) []string {
	out := make([]string, 0, len(e.Path))
	for _, k := range e.Path {
		switch t := k.(type) {
		case string:
			out = append(out, t)
		case int:
			out = append(out, fmt.Sprintf("#%d", t))
		default:
			out = append(out, fmt.Sprintf("?%v", k))
		}
	}
	return out
}

// valueAt walks an abstract response value along a path; ok=false when the path leaves the value.
func valueAt(v abs.Value, path []string) (abs.Value, bool) {
	cur := v
	for _, k := range path {
		switch cur.K {
		case "obj":
			found := false
			for _, f := range cur.Fields {
				if f.N == k {
					cur, found = f.V, true
					break
				}
			}
			if !found {
				return abs.Value{}, false
			}
		case "list":
			if !strings.HasPrefix(k, "#") {
				return abs.Value{}, false
			}
			var i int
			fmt.Sscanf(k[1:], "%d", &i)
			if i < 0 || i >= len(cur.Items) {
				return abs.Value{}, false
			}
			cur = cur.Items[i]
		default:
			return abs.Value{}, false
		}
	}
	return cur, true
}

// underNull: some strict prefix of path is null in data (the field was never required to run).
func underNull(data abs.Value, path []string) bool {
	if data.K == "null" || data.K == "absent" {
		return true
	}
	for k := 0; k < len(path); k++ {
		if v, ok := valueAt(data, path[:k]); ok && v.K == "null" {
			return true
		}
	}
	return false
}

func pathKey(p []string) string { return strings.Join(p, "/") }

// matchResp applies the comparison rule of DESIGN.md section 4 (required subset of observed
// subset of required+optional; data equal as unordered trees; calls as multisets, exact outside
// nulled subtrees). It returns "" on agreement or a description of the first disagreement.
func matchResp(exp abs.Resp, obs observed, checkOcc bool) string {
	if obs.Panic != "" {
		return "panic escaped: " + obs.Panic
	}
	if exp.ReqErr {
		if !obs.NoData {
			return "request error expected (no data), got data " + obs.Data.Canon()
		}
		if len(obs.Errs) == 0 {
			return "request error expected, got no error"
		}
		if len(obs.Calls) != 0 {
			return fmt.Sprintf("request error expected, but %d resolver(s) were invoked", len(obs.Calls))
		}
		return ""
	}
	ed := exp.Data
	if ed.K == "absent" {
		ed = abs.Null()
	}
	if ed.Canon() != obs.Data.Canon() {
		return "data: expected " + ed.Canon() + " got " + obs.Data.Canon()
	}
	// errors: required (sequential order) is a subset of observed, observed is a subset of
	// required + optional + potential errors inside nulled subtrees; where several failures
	// can null the same subtree any of them explains the null (sibling order is free).
	need := map[string]int{}
	for _, p := range exp.Errs {
		need[pathKey(p)]++
	}
	optional := map[string]bool{}
	for _, p := range exp.Opt {
		optional[pathKey(p)] = true
	}
	potential := map[string]bool{}
	for _, p := range exp.All {
		potential[pathKey(p)] = true
	}
	for i, p := range obs.Errs {
		k := pathKey(p)
		if need[k] > 0 {
			need[k]--
			continue
		}
		if optional[k] || (potential[k] && underNull(ed, p)) {
			continue
		}
		return fmt.Sprintf("unexpected error at path %v: %s", p, obs.Msgs[i])
	}
	for _, e := range exp.Errs {
		k := pathKey(e)
		if need[k] <= 0 {
			continue
		}
		need[k]--
		// the outermost null position above e: any potential failure below it explains the null
		root := -1
		if ed.K == "null" {
			root = 0
		} else {
			for n := 0; n < len(e); n++ {
				if v, ok := valueAt(ed, e[:n]); ok && v.K == "null" {
					root = n
					break
				}
			}
		}
		explained := false
		// ... unless the field's resolver WAS invoked and failed on the spot: an error that has been recorded is kept,
		// whatever nulls the response afterwards (only a failure that lies in the future - a deferred value that is
		// never forced, a resolver that never runs because a sibling killed the parent first - may go unreported)
		recorded := false
		for _, c := range obs.Calls {
			if pathKey(c.P) == k && (c.Oc == "err" || c.Oc == "valerr" || c.Oc == "panic" || c.Oc == "panics") {
				recorded = true
			}
		}
		if root >= 0 && !recorded {
			for _, p := range obs.Errs {
				if len(p) >= root && pathKey(p[:root]) == pathKey(e[:root]) && potential[pathKey(p)] {
					explained = true
					break
				}
			}
		}
		if !explained {
			return "missing error at path " + k
		}
	}
	// a required error path must address null data
	for _, p := range exp.Errs {
		if v, ok := valueAt(obs.Data, p); ok && v.K != "null" && !underNull(obs.Data, p) {
			return "data at failed path " + pathKey(p) + " is not null: " + v.Canon()
		}
	}
	// calls
	expCalls := map[string]int{}
	expOcc := map[string][]int{}
	expRt := map[string]string{}
	for _, c := range exp.Calls {
		expCalls[c.Key()]++
		expOcc[c.Key()] = c.Occ
		if c.Rt != nil {
			expRt[c.Key()] = c.Rt.String()
		}
	}
	expVV := abs.Value{K: "obj", Fields: exp.VVals}.Canon()
	seenPath := map[string]bool{}
	for _, c := range obs.Calls {
		pk := pathKey(c.P)
		if seenPath[pk] {
			return "field resolved more than once at path " + pk
		}
		seenPath[pk] = true
		k := c.Key()
		if expCalls[k] > 0 {
			expCalls[k]--
			if len(c.Info) > 0 {
				return "resolver at " + pk + ": " + strings.Join(c.Info, "; ")
			}
			if checkOcc && expRt[k] != "" && c.RtStr != expRt[k] {
				return "resolver at " + pk + ": Info.ReturnType is " + c.RtStr + ", declared " + expRt[k]
			}
			if checkOcc && c.VV != expVV {
				return "resolver at " + pk + ": Info.VariableValues is " + c.VV + ", coerced variables are " + expVV
			}
			if checkOcc {
				have := map[int]bool{}
				for _, id := range c.Occ {
					if id < 0 {
						return "resolver at " + pk + " was given a FieldAST that is not a field of the document"
					}
					have[id] = true
				}
				for _, id := range expOcc[k] {
					if !have[id] {
						return fmt.Sprintf("resolver at %s: FieldASTs %v lack included occurrence %d", pk, c.Occ, id)
					}
				}
			}
			continue
		}
		if underNull(ed, c.P) {
			continue
		}
		return "unexpected or mis-parameterised resolver call " + k
	}
	for _, c := range exp.Calls {
		if expCalls[c.Key()] > 0 && !underNull(ed, c.P) {
			return "missing resolver call " + c.Key()
		}
	}
	// type-resolver invocations
	expT := map[string]int{}
	for _, t := range exp.TCalls {
		expT[pathKey(t.P)+"|"+t.V]++
	}
	for _, t := range obs.TCalls {
		k := pathKey(t.P) + "|" + t.V
		if expT[k] > 0 {
			expT[k]--
			continue
		}
		if underNull(ed, t.P) {
			continue
		}
		return "unexpected or mis-parameterised type-resolver call " + k
	}
	for _, t := range exp.TCalls {
		if expT[pathKey(t.P)+"|"+t.V] > 0 && !underNull(ed, t.P) {
			return "missing type-resolver call at " + pathKey(t.P)
		}
	}
	return ""
}

// ---- running the real entry points ----

type schemaSet struct {
	built *abs.Built
}

func varsMap(in []abs.NV) map[string]interface{} {
	m := map[string]interface{}{}
	for _, nv := range in {
		m[nv.N] = abs.ToJSONish(nv.V)
	}
	return m
}

func guard(f func() *graphql.Result) (res *graphql.Result, pan string) {
	defer func() {
		if r := recover(); r != nil {
			pan = fmt.Sprintf("%v", r)
		}
	}()
	return f(), ""
}

func newRun(b *abs.Built, outs []abs.OutEntry, pr *abs.Printed) *abs.RunCtx {
	return &abs.RunCtx{Outs: outs, NodeID: pr.ByOff, Built: b, Root: rootObject, RootTag: "r"}
}

// newRunFor also records what the harness passed in, so resolvers can check ResolveInfo.
func newRunFor(b *abs.Built, v *execVector, outs []abs.OutEntry, pr *abs.Printed) *abs.RunCtx {
	rc := newRun(b, outs, pr)
	op := v.Doc.Ops[0]
	for _, o := range v.Doc.Ops {
		if o.Name == v.OpName && v.OpName != "" {
			op = o
		}
	}
	rc.OpKind, rc.OpName = op.Kind, op.Name
	rc.FragNames = []string{}
	for _, f := range v.Doc.Frags {
		rc.FragNames = append(rc.FragNames, f.Name)
	}
	return rc
}

var rootObject = map[string]interface{}{"__tag": "r"}

var contextBG = context.Background()

func runDo(b *abs.Built, text, opName string, vars map[string]interface{}, rc *abs.RunCtx) observed {
	res, pan := guard(func() *graphql.Result {
		return graphql.Do(graphql.Params{Schema: b.Schema, RequestString: text, RootObject: rootObject,
			VariableValues: vars, OperationName: opName, Context: abs.WithRun(context.Background(), rc)})
	})
	o := projectResult(res, rc)
	if pan != "" {
		o.Panic = pan
	}
	return o
}

func parseDoc(text string) (*ast.Document, error) {
	return parser.Parse(parser.ParseParams{Source: source.NewSource(&source.Source{Body: []byte(text), Name: "v"})})
}

func runExecute(b *abs.Built, doc *ast.Document, opName string, vars map[string]interface{}, rc *abs.RunCtx) observed {
	res, pan := guard(func() *graphql.Result {
		return graphql.Execute(graphql.ExecuteParams{Schema: b.Schema, Root: rootObject, AST: doc,
			OperationName: opName, Args: vars, Context: abs.WithRun(context.Background(), rc)})
	})
	o := projectResult(res, rc)
	if pan != "" {
		o.Panic = pan
	}
	return o
}

func runPlan(b *abs.Built, plan *graphql.Plan, vars map[string]interface{}, rc *abs.RunCtx) observed {
	res, pan := guard(func() *graphql.Result {
		return graphql.ExecutePlan(plan, graphql.ExecuteParams{Schema: b.Schema, Root: rootObject,
			Args: vars, Context: abs.WithRun(context.Background(), rc)})
	})
	o := projectResult(res, rc)
	if pan != "" {
		o.Panic = pan
	}
	return o
}

// judge compares one observation with the expectation and its deviation variants.
// Returns ("", nil) pass, ("", devs) explained by listed known findings, (why, nil) mismatch.
func judge(run *execRun, obs observed, checkOcc bool) (string, []string) {
	why := matchResp(run.Exp, obs, checkOcc)
	if why == "" {
		return "", nil
	}
	for _, d := range run.Dev {
		if devsListed(d.D) && matchResp(d.Exp, obs, false) == "" {
			return "", d.D
		}
	}
	return why, nil
}

func nontrivialDoc(d *abs.Doc) bool {
	var walk func(ss []abs.Sel, keys map[string]int) bool
	walk = func(ss []abs.Sel, keys map[string]int) bool {
		for _, s := range ss {
			for _, dd := range s.Dirs {
				if dd.V.K == "var" {
					return true
				}
			}
			switch s.K {
			case "spread", "inline":
				return true
			case "field":
				k := s.Alias
				if k == "" {
					k = s.Name
				}
				keys[k]++
				if keys[k] > 1 {
					return true
				}
				if walk(s.Sel, map[string]int{}) {
					return true
				}
			}
		}
		return false
	}
	for _, op := range d.Ops {
		if walk(op.Sel, map[string]int{}) {
			return true
		}
	}
	return len(d.Frags) > 0
}

// nontrivialC20: an invocation under a list or an abstract type, a merged field or an argument.
func nontrivialC20(d *abs.Doc) bool {
	var walk func(ss []abs.Sel) bool
	walk = func(ss []abs.Sel) bool {
		for _, s := range ss {
			if s.K != "field" {
				return true
			}
			if len(s.Args) > 0 || s.Name == "l" || s.Name == "ll" || s.Name == "il" || s.Name == "ln" || s.Name == "i" || s.Name == "u" {
				return true
			}
			if walk(s.Sel) {
				return true
			}
		}
		return false
	}
	for _, op := range d.Ops {
		if walk(op.Sel) {
			return true
		}
	}
	return false
}

func builtFor(wk *worker) *abs.Built {
	b, _ := wk.cache["built"].(*abs.Built)
	return b
}

func handleSchemaLine(raw []byte, st *Stats, wk *worker) {
	var s abs.Schema
	if err := json.Unmarshal(raw, &s); err != nil {
		st.Mismatch(Mismatch{What: "infra: bad SCHEMA line: " + err.Error()})
		return
	}
	b, err := abs.Build(&s)
	if err != nil {
		st.Mismatch(Mismatch{What: "infra: schema build failed: " + err.Error()})
		return
	}
	wk.cache["built"] = b
}

func execHandler(prop string) func(fs *flag.FlagSet) handler {
	return func(fs *flag.FlagSet) handler {
		return func(tag string, raw []byte, st *Stats, wk *worker) {
			switch tag {
			case "SCHEMA":
				handleSchemaLine(raw, st, wk)
			case "VEC":
				replayExecVector(raw, st, wk, prop)
			}
		}
	}
}

func init() {
	handlers["C04"] = execHandler("C04")
	handlers["C05"] = execHandler("C05")
	handlers["C20"] = execHandler("C20")
	handlers["C18C"] = execHandler("C18C")
	handlers["C01"] = func(fs *flag.FlagSet) handler {
		return func(tag string, raw []byte, st *Stats, wk *worker) {
			switch tag {
			case "SCHEMA":
				handleSchemaLine(raw, st, wk)
			case "VEC":
				replayExecVector(raw, st, wk, "C01")
			}
		}
	}
}

// replayExecVector: Do, parse+Execute, and PlanQuery once + ExecutePlan for every run in
// turn and the first again (plan reuse).
func replayExecVector(raw []byte, st *Stats, wk *worker, prop string) {
	var v execVector
	if err := json.Unmarshal(raw, &v); err != nil {
		st.Mismatch(Mismatch{What: "infra: bad vector: " + err.Error()})
		return
	}
	b := builtFor(wk)
	if b == nil {
		st.Mismatch(Mismatch{What: "infra: vector before SCHEMA"})
		return
	}
	st.Add("vectors", 1)
	if prop == "C18C" {
		replayC18C(&v, raw, st, b)
		return
	}
	pr := abs.Print(&v.Doc, abs.DefaultLayout)
	doc, err := parseDoc(pr.Text)
	if err != nil {
		st.Mismatch(Mismatch{What: "generated document does not parse: " + err.Error(), Detail: pr.Text, Vector: raw})
		return
	}
	vr := graphql.ValidateDocument(&b.Schema, doc, nil)
	if !vr.IsValid && prop == "C05" && v.Fam == "C05" {
		// C05 states what happens to non-coercible input: errors, no data, no resolver call
		for ri := range v.Runs {
			st.Add("executions", 1)
			if !v.Runs[ri].Exp.ReqErr {
				st.Mismatch(Mismatch{What: "C05 validation rejects a literal the specification's coercion accepts: " + vr.Errors[0].Message,
					Detail: map[string]interface{}{"query": pr.Text}, Vector: raw})
				return
			}
			obs := runDo(b, pr.Text, v.OpName, varsMap(v.Runs[ri].Inputs), newRunFor(b, &v, v.Outs[0], pr))
			if why := matchResp(v.Runs[ri].Exp, obs, false); why != "" {
				st.Mismatch(Mismatch{What: "C05 Do: " + why, Detail: map[string]interface{}{"query": pr.Text}, Vector: raw})
				return
			}
			st.Add("agree", 1)
			st.Distinct("distinct_nontrivial", pr.Text)
		}
		return
	}
	if !vr.IsValid {
		// C01 is judged on valid documents only (DESIGN 4.4); C02 decides validity.
		st.Add("skipped_invalid", 1)
		if st.Get("skipped_invalid") <= 3 {
			st.Note("skipped (real validator rejects): " + pr.Text + " :: " + vr.Errors[0].Message)
		}
		return
	}
	switch prop {
	case "C20":
		if nontrivialC20(&v.Doc) {
			st.Distinct("distinct_nontrivial", pr.Text)
		}
	case "C05":
		b, _ := json.Marshal(v.Runs[0].Inputs)
		st.Distinct("distinct_nontrivial", pr.Text+string(b))
	case "C04":
		if len(v.Outs) > 0 && len(v.Outs[0]) > 0 {
			b, _ := json.Marshal(v.Outs[0])
			st.Distinct("distinct_nontrivial", pr.Text+string(b))
		}
	default:
		if nontrivialDoc(&v.Doc) {
			st.Distinct("distinct_nontrivial", pr.Text)
		}
	}
	st.Distinct("distinct_docs", pr.Text)
	report := func(ep string, ri int, why string, obs observed) {
		cat := why
		if i := strings.IndexAny(cat, ":{"); i > 0 {
			cat = cat[:i]
		}
		st.Add("mismatch/"+cat, 1)
		st.Mismatch(Mismatch{What: prop + " " + ep + ": " + why,
			Detail: map[string]interface{}{"query": pr.Text, "inputs": v.Runs[ri].Inputs, "outs": v.Outs[v.Runs[ri].Oi-1],
				"expected": v.Runs[ri].Exp, "observed_data": obs.Data.Canon(), "observed_errs": obs.Errs, "observed_msgs": obs.Msgs,
				"run": ri, "entry": ep},
			Vector: raw})
	}
	account := func(ep string, ri int, obs observed) bool {
		st.Add("executions", 1)
		if v.Runs[ri].Exp.Unspec {
			// the editions disagree on this input (DESIGN 4.2): only crash-freedom is required
			st.Add("unspecified_not_asserted", 1)
			if obs.Panic != "" {
				report(ep, ri, "panic escaped: "+obs.Panic, obs)
				return false
			}
			return true
		}
		why, devs := judge(&v.Runs[ri], obs, true)
		if why != "" {
			report(ep, ri, why, obs)
			return false
		}
		if devs != nil {
			for _, d := range devs {
				st.KnownHit(d)
			}
			st.Add("explained_by_known_finding", 1)
		} else {
			st.Add("agree", 1)
		}
		return true
	}
	plan, perr := graphql.PlanQuery(&b.Schema, doc, v.OpName)
	if perr != nil {
		// legal only when the request selects no operation (missing / ambiguous / unknown name)
		for ri := range v.Runs {
			if !v.Runs[ri].Exp.ReqErr {
				st.Mismatch(Mismatch{What: prop + " PlanQuery failed on a valid document: " + perr.Error(), Detail: pr.Text, Vector: raw})
				return
			}
		}
		plan = nil
	}
	for ri := range v.Runs {
		run := &v.Runs[ri]
		outs := v.Outs[run.Oi-1]
		vars := varsMap(run.Inputs)
		if !account("Do", ri, runDo(b, pr.Text, v.OpName, vars, newRunFor(b, &v, outs, pr))) {
			return
		}
		if !account("Execute", ri, runExecute(b, doc, v.OpName, vars, newRunFor(b, &v, outs, pr))) {
			return
		}
		if plan != nil && !account("ExecutePlan", ri, runPlan(b, plan, vars, newRunFor(b, &v, outs, pr))) {
			return
		}
	}
	if prop == "C20" && plan != nil {
		// reuse history: the same plan executed again for every run, in two rounds, each time
		// with a different root value and context and with resolvers that mutate their Args map;
		// a stale root, a shared args map or a captured context shows up in a later call
		for round := 0; round < 2; round++ {
			for ri := range v.Runs {
				run := &v.Runs[ri]
				rc := newRunFor(b, &v, v.Outs[run.Oi-1], pr)
				tag := fmt.Sprintf("R%d_%d", round, ri)
				root := map[string]interface{}{"__tag": tag}
				rc.Root, rc.RootTag, rc.MutateArgs = root, tag, true
				res, pan := guard(func() *graphql.Result {
					return graphql.ExecutePlan(plan, graphql.ExecuteParams{Schema: b.Schema, Root: root,
						Args: varsMap(run.Inputs), Context: abs.WithRun(context.Background(), rc)})
				})
				obs := projectResult(res, rc)
				obs.Panic = pan
				// response leaves embed the source tag: map this run's root tag back to "r"
				obs.Data = renameRoot(obs.Data, tag)
				if !account("ExecutePlan(reuse history)", ri, obs) {
					return
				}
			}
		}
	}
	if len(v.Runs) > 1 && plan != nil {
		run := &v.Runs[0]
		if !account("ExecutePlan(reuse)", 0, runPlan(b, plan, varsMap(run.Inputs), newRunFor(b, &v, v.Outs[run.Oi-1], pr))) {
			return
		}
	}
	if len(v.Runs) > 0 {
		st.Sample(map[string]interface{}{"query": pr.Text, "runs": len(v.Runs), "inputs0": v.Runs[0].Inputs,
			"expected0": v.Runs[0].Exp.Data.Canon()})
	}
}

// renameRoot rewrites string leaves "<tag>..." to "r..." (harness resolvers derive their
// natural values from the source tag, and the reuse history gives every execution its own root).
func renameRoot(v abs.Value, tag string) abs.Value {
	switch v.K {
	case "str":
		if strings.HasPrefix(v.V, tag) {
			v.V = "r" + v.V[len(tag):]
		}
	case "list":
		items := make([]abs.Value, len(v.Items))
		for i, it := range v.Items {
			items[i] = renameRoot(it, tag)
		}
		v.Items = items
	case "obj":
		fs := make([]abs.NV, len(v.Fields))
		for i, f := range v.Fields {
			fs[i] = abs.NV{N: f.N, V: renameRoot(f.V, tag)}
		}
		v.Fields = fs
	}
	return v
}

func sortStrings(s []string) []string { sort.Strings(s); return s }

// ---- C18 clause (c) and the field-error part of (b): paths and locations of field errors ----

var c18Layouts = []abs.Layout{
	{NL: "\n", Indent: "  "},
	{NL: "\r", Indent: "\t"},
	{NL: "\r\n", Indent: " "},
	{NL: "\n", Indent: "  ", Comment: " caf\u00e9 \U0001F600 comment"},
	{NL: "\r\n", Indent: "", Comment: " x"},
	{Compact: true},
}

// lineCol of byte offset off in text: LF, CR and CRLF (as one) terminate lines; 1-based.
func lineColOf(text string, off int) (int, int) {
	line, col := 1, 1
	for i := 0; i < off && i < len(text); i++ {
		switch text[i] {
		case '\n':
			line++
			col = 1
		case '\r':
			if i+1 < len(text) && text[i+1] == '\n' {
				continue // the LF of a CRLF ends the line
			}
			line++
			col = 1
		default:
			col++
		}
	}
	return line, col
}

func replayC18C(v *execVector, raw []byte, st *Stats, b *abs.Built) {
	for li, lay := range c18Layouts {
		pr := abs.Print(&v.Doc, lay)
		doc, err := parseDoc(pr.Text)
		if err != nil {
			st.Mismatch(Mismatch{What: "generated document does not parse: " + err.Error(), Detail: pr.Text, Vector: raw})
			return
		}
		if vr := graphql.ValidateDocument(&b.Schema, doc, nil); !vr.IsValid {
			st.Add("skipped_invalid", 1)
			return
		}
		for ri := range v.Runs {
			run := &v.Runs[ri]
			if run.Exp.Unspec || run.Exp.ReqErr {
				continue
			}
			outs := v.Outs[run.Oi-1]
			obs := runDo(b, pr.Text, v.OpName, varsMap(run.Inputs), newRunFor(b, v, outs, pr))
			st.Add("executions", 1)
			why, devs := judge(run, obs, false)
			if why != "" {
				st.Mismatch(Mismatch{What: "C18 (c) " + why, Detail: map[string]interface{}{"query": pr.Text, "outs": outs,
					"observed_errs": obs.Errs, "observed_data": obs.Data.Canon()}, Vector: raw})
				return
			}
			for _, d := range devs {
				st.KnownHit(d)
			}
			// locations: the start of (one of) the failing field's occurrences
			occOf := map[string][]int{}
			for _, c := range run.Exp.Calls {
				occOf[pathKey(c.P)] = c.Occ
			}
			for i, p := range obs.Errs {
				ids, ok := occOf[pathKey(stripIdx(p))]
				if !ok || len(ids) == 0 {
					continue
				}
				got := obs.Locs[i]
				okLoc := false
				var want [][2]int
				for _, id := range ids {
					l, c := lineColOf(pr.Text, pr.Start[id])
					want = append(want, [2]int{l, c})
					if got == [2]int{l, c} {
						okLoc = true
					}
				}
				if !okLoc {
					st.Mismatch(Mismatch{What: fmt.Sprintf("C18 (b) field error at path %v is located at %d:%d, the field starts at %v (layout %d)", p, got[0], got[1], want, li),
						Detail: map[string]interface{}{"query": pr.Text, "outs": outs}, Vector: raw})
					return
				}
				st.Add("locations_checked", 1)
				if got[0] >= 2 {
					st.Distinct("distinct_nontrivial", fmt.Sprintf("%d|%s|%v", li, pr.Text, p))
				}
			}
		}
	}
	st.Sample(map[string]interface{}{"query": abs.Print(&v.Doc, c18Layouts[1]).Text, "layouts": len(c18Layouts)})
}
