package main

// C10: introspection describes the schema exactly.
//
// A vector of MC_C10.tla is [eds, cfg, image]: a valid schema configuration and the image
// Introspect!Image(cfg) computed by TLC.  The handler builds the real schema (NewSchema,
// then AppendType for the late types), runs the full introspection query of
// /repo/testutil, partial `__type(name:)` queries with includeDeprecated on/off/default,
// and `__typename` at composite positions, projects the JSON onto the abstract image and
// compares structurally.  Lists the property treats as sets are compared as sets, with
// "each once".  Every reported defaultValue is parsed with the real parser, projected,
// and must be one of the literals TLC proved to satisfy the DefaultLiteral law.

import (
	"context"
	"encoding/json"
	"flag"
	"fmt"
	"sort"
	"strings"

	"gqlverif/abs"

	"github.com/graphql-go/graphql"
	"github.com/graphql-go/graphql/language/parser"
	"github.com/graphql-go/graphql/testutil"
)

type devLit struct {
	D   []string  `json:"d"`
	Lit abs.Value `json:"lit"`
}

type argImage struct {
	Name   string      `json:"name"`
	Desc   string      `json:"desc"`
	Type   abs.TypeRef `json:"type"`
	HasDef bool        `json:"hasDef"`
	Lits   []abs.Value `json:"lits"`
	Dev    []devLit    `json:"dev"`
}

type fieldImage struct {
	Name   string      `json:"name"`
	Desc   string      `json:"desc"`
	Type   abs.TypeRef `json:"type"`
	Dep    bool        `json:"dep"`
	Reason string      `json:"reason"`
	Args   []argImage  `json:"args"`
}

type valueImage struct {
	Name   string `json:"name"`
	Desc   string `json:"desc"`
	Dep    bool   `json:"dep"`
	Reason string `json:"reason"`
}

type multImage struct {
	N string `json:"n"`
	C int    `json:"c"`
}

type typeImage struct {
	Name       string       `json:"name"`
	Kind       string       `json:"kind"`
	Desc       string       `json:"desc"`
	CmpDesc    bool         `json:"cmpDesc"`
	Fields     []fieldImage `json:"fields"`
	Live       []string     `json:"live"`
	Ifaces     []string     `json:"ifaces"`
	Possible   []string     `json:"possible"`
	PossDev    []multImage  `json:"possDev"`
	Values     []valueImage `json:"values"`
	LiveValues []string     `json:"liveValues"`
	Inputs     []argImage   `json:"inputs"`
}

type dirImage struct {
	Name    string     `json:"name"`
	Desc    string     `json:"desc"`
	CmpDesc bool       `json:"cmpDesc"`
	Locs    []string   `json:"locs"`
	Args    []argImage `json:"args"`
}

type devExpS struct {
	D   []string `json:"d"`
	Exp string   `json:"exp"`
}

type tnImage struct {
	On  string    `json:"on"`
	F   string    `json:"f"`
	W   []string  `json:"w"`
	Rt  string    `json:"rt"`
	Exp string    `json:"exp"`
	Dev []devExpS `json:"dev"`
}

type c10Image struct {
	Names        []string    `json:"names"`
	Types        []typeImage `json:"types"`
	Query        string      `json:"query"`
	Mutation     string      `json:"mutation"`
	Subscription string      `json:"subscription"`
	Directives   []dirImage  `json:"directives"`
	Typenames    []tnImage   `json:"typenames"`
}

type genEdit struct {
	S string `json:"s"`
	A string `json:"a"`
}

type c10Vector struct {
	Eds   []genEdit   `json:"eds"`
	Cfg   abs.GConfig `json:"cfg"`
	Image c10Image    `json:"image"`
}

func edsLabel(eds []genEdit) string {
	parts := make([]string, 0, len(eds))
	for _, e := range eds {
		parts = append(parts, e.S+"="+e.A)
	}
	if len(parts) == 0 {
		return "(base)"
	}
	return strings.Join(parts, "; ")
}

// buildOutcome is what constructing a schema from a configuration produced.
type buildOutcome struct {
	St      string // "ok" | "err" | "panic"
	Msg     string
	Step    int // 0 = NewSchema, k = k-th AppendType
	Schema  graphql.Schema
	PreKeys []string // keys of the type map before the AppendType call that returned an error
}

// buildSchema runs NewSchema (and AppendType for the late types) inside recover().
func buildSchema(b *abs.GBuilt, upFront bool, order []int) (out buildOutcome) {
	defer func() {
		if r := recover(); r != nil {
			out.St, out.Msg = "panic", fmt.Sprint(r)
		}
	}()
	out.St = "ok"
	s, err := graphql.NewSchema(b.SchemaConfig(upFront))
	if err != nil {
		return buildOutcome{St: "err", Msg: err.Error()}
	}
	out.Schema = s
	if !upFront {
		for i, t := range b.Late(order) {
			out.Step = i + 1
			pre := make([]string, 0, len(out.Schema.TypeMap()))
			for k := range out.Schema.TypeMap() {
				pre = append(pre, k)
			}
			if err := out.Schema.AppendType(t); err != nil {
				sort.Strings(pre)
				return buildOutcome{St: "err", Msg: err.Error(), Step: i + 1, PreKeys: pre}
			}
		}
	}
	return out
}

// c10Checker accumulates the differences of one vector.
type c10Checker struct {
	diffs []string
	known map[string]bool
	execs int64
}

func (c *c10Checker) diff(format string, a ...interface{}) {
	if len(c.diffs) < 12 {
		c.diffs = append(c.diffs, fmt.Sprintf(format, a...))
	}
}

func asMap(x interface{}) map[string]interface{} { m, _ := x.(map[string]interface{}); return m }
func asList(x interface{}) []interface{}         { l, _ := x.([]interface{}); return l }
func asStr(x interface{}) string                 { s, _ := x.(string); return s }

// projRef projects {kind name ofType{...}} onto [w, n].
func projRef(x interface{}) (abs.TypeRef, string) {
	r := abs.TypeRef{W: []string{}}
	m := asMap(x)
	for depth := 0; depth < 16; depth++ {
		if m == nil {
			return r, "type reference ends in null below " + strings.Join(r.W, ",")
		}
		switch asStr(m["kind"]) {
		case "NON_NULL":
			r.W = append(r.W, "NN")
			m = asMap(m["ofType"])
		case "LIST":
			r.W = append(r.W, "L")
			m = asMap(m["ofType"])
		default:
			r.N = asStr(m["name"])
			return r, ""
		}
	}
	return r, "type reference too deep"
}

func sameRef(a, b abs.TypeRef) bool {
	return a.N == b.N && strings.Join(a.W, ",") == strings.Join(b.W, ",")
}

// namesOnce checks that the observed list of names is the expected set, each once.
func (c *c10Checker) namesOnce(where string, obs []string, exp []string) {
	seen := map[string]int{}
	for _, n := range obs {
		seen[n]++
	}
	want := map[string]bool{}
	for _, n := range exp {
		want[n] = true
		if seen[n] == 0 {
			c.diff("%s: %q missing", where, n)
		}
	}
	for n, k := range seen {
		if !want[n] {
			c.diff("%s: unexpected %q", where, n)
		} else if k > 1 {
			c.diff("%s: %q listed %d times", where, n, k)
		}
	}
}

func namesOf(l []interface{}) []string {
	out := make([]string, 0, len(l))
	for _, x := range l {
		out = append(out, asStr(asMap(x)["name"]))
	}
	return out
}

func (c *c10Checker) desc(where string, obs interface{}, exp string, cmp bool) {
	if !cmp {
		return
	}
	if got := asStr(obs); got != exp {
		c.diff("%s: description %q, configured %q", where, got, exp)
	}
}

// defaultValue checks one reported default against the literals acceptable under the law.
func (c *c10Checker) defaultValue(where string, obs interface{}, a argImage) {
	if obs == nil {
		if a.HasDef {
			c.diff("%s: no defaultValue reported, one is configured (%s)", where, canonLits(a.Lits))
		}
		return
	}
	text := asStr(obs)
	if !a.HasDef {
		c.diff("%s: defaultValue %q reported, none configured", where, text)
		return
	}
	val, err := parser.ParseValue(parser.ParseParams{Source: text})
	if err != nil || val == nil {
		c.diff("%s: defaultValue %q is not a GraphQL literal (%v)", where, text, err)
		return
	}
	got := abs.LitOf(val).Canon()
	for _, l := range a.Lits {
		if l.Canon() == got {
			return
		}
	}
	for _, d := range a.Dev {
		if d.Lit.Canon() == got && devsListed(d.D) {
			for _, n := range d.D {
				c.known[n] = true
			}
			return
		}
	}
	c.diff("%s: defaultValue %s parses to %s which does not coerce back to the configured default (acceptable: %s)",
		where, text, got, canonLits(a.Lits))
}

func canonLits(ls []abs.Value) string {
	out := make([]string, 0, len(ls))
	for _, l := range ls {
		out = append(out, l.Canon())
	}
	sort.Strings(out)
	return strings.Join(out, " | ")
}

func (c *c10Checker) args(where string, obs []interface{}, exp []argImage, full bool) {
	want := make([]string, 0, len(exp))
	by := map[string]argImage{}
	for _, a := range exp {
		want = append(want, a.Name)
		by[a.Name] = a
	}
	c.namesOnce(where+" args", namesOf(obs), want)
	for _, x := range obs {
		m := asMap(x)
		a, ok := by[asStr(m["name"])]
		if !ok {
			continue
		}
		w := where + "(" + a.Name + ":)"
		if r, bad := projRef(m["type"]); bad != "" {
			c.diff("%s: %s", w, bad)
		} else if !sameRef(r, a.Type) {
			c.diff("%s: type %s, configured %s", w, r, a.Type)
		}
		if full {
			c.desc(w, m["description"], a.Desc, true)
		}
		c.defaultValue(w, m["defaultValue"], a)
	}
}

// possible compares a possibleTypes list: the expected set, each once; or, under the
// listed deviation, exactly the deviated multiplicities.
func (c *c10Checker) possible(where string, obs []string, t typeImage) {
	sub := &c10Checker{known: c.known}
	sub.namesOnce(where, obs, t.Possible)
	if len(sub.diffs) == 0 {
		return
	}
	if len(t.PossDev) > 0 && devsListed([]string{"D_C10_append_duplicates_possible_types"}) {
		seen := map[string]int{}
		for _, n := range obs {
			seen[n]++
		}
		ok := len(seen) == len(t.PossDev)
		for _, m := range t.PossDev {
			if seen[m.N] != m.C {
				ok = false
			}
		}
		if ok {
			c.known["D_C10_append_duplicates_possible_types"] = true
			return
		}
	}
	for _, d := range sub.diffs {
		c.diff("%s", d)
	}
}

// typeFull compares one entry of __schema.types (FullType fragment) with its image.
func (c *c10Checker) typeFull(m map[string]interface{}, t typeImage) {
	w := "type " + t.Name
	if k := asStr(m["kind"]); k != t.Kind {
		c.diff("%s: kind %s, configured %s", w, k, t.Kind)
	}
	c.desc(w, m["description"], t.Desc, t.CmpDesc)
	// fields (includeDeprecated: true)
	fnames := make([]string, 0, len(t.Fields))
	fby := map[string]fieldImage{}
	for _, f := range t.Fields {
		fnames = append(fnames, f.Name)
		fby[f.Name] = f
	}
	c.namesOnce(w+" fields", namesOf(asList(m["fields"])), fnames)
	for _, x := range asList(m["fields"]) {
		fm := asMap(x)
		f, ok := fby[asStr(fm["name"])]
		if !ok {
			continue
		}
		fw := t.Name + "." + f.Name
		if r, bad := projRef(fm["type"]); bad != "" {
			c.diff("%s: %s", fw, bad)
		} else if !sameRef(r, f.Type) {
			c.diff("%s: type %s, configured %s", fw, r, f.Type)
		}
		c.desc(fw, fm["description"], f.Desc, t.CmpDesc)
		if dep, _ := fm["isDeprecated"].(bool); dep != f.Dep {
			c.diff("%s: isDeprecated %v, configured %v", fw, dep, f.Dep)
		}
		if got := asStr(fm["deprecationReason"]); got != f.Reason {
			c.diff("%s: deprecationReason %q, configured %q", fw, got, f.Reason)
		}
		c.args(fw, asList(fm["args"]), f.Args, t.CmpDesc)
	}
	c.args(t.Name, asList(m["inputFields"]), t.Inputs, t.CmpDesc)
	inames := []string{}
	for _, x := range asList(m["interfaces"]) {
		r, bad := projRef(x)
		if bad != "" || len(r.W) > 0 {
			c.diff("%s interfaces: not a named type (%s %s)", w, r, bad)
		}
		inames = append(inames, r.N)
	}
	c.namesOnce(w+" interfaces", inames, t.Ifaces)
	pnames := []string{}
	for _, x := range asList(m["possibleTypes"]) {
		r, bad := projRef(x)
		if bad != "" || len(r.W) > 0 {
			c.diff("%s possibleTypes: not a named type (%s %s)", w, r, bad)
		}
		pnames = append(pnames, r.N)
	}
	c.possible(w+" possibleTypes", pnames, t)
	vnames := make([]string, 0, len(t.Values))
	vby := map[string]valueImage{}
	for _, v := range t.Values {
		vnames = append(vnames, v.Name)
		vby[v.Name] = v
	}
	c.namesOnce(w+" enumValues", namesOf(asList(m["enumValues"])), vnames)
	for _, x := range asList(m["enumValues"]) {
		vm := asMap(x)
		v, ok := vby[asStr(vm["name"])]
		if !ok {
			continue
		}
		vw := t.Name + "." + v.Name
		c.desc(vw, vm["description"], v.Desc, t.CmpDesc)
		if dep, _ := vm["isDeprecated"].(bool); dep != v.Dep {
			c.diff("%s: isDeprecated %v, configured %v", vw, dep, v.Dep)
		}
		if got := asStr(vm["deprecationReason"]); got != v.Reason {
			c.diff("%s: deprecationReason %q, configured %q", vw, got, v.Reason)
		}
	}
}

const c10Partial = `
fragment R on __Type { kind name ofType { kind name ofType { kind name ofType { kind name ofType { kind name ofType { kind name ofType { kind name } } } } } } }
fragment P on __Type {
  kind name description
  fDefault: fields { name }
  fLive: fields(includeDeprecated: false) { name }
  fAll: fields(includeDeprecated: true) { name isDeprecated type { ...R } args { name type { ...R } defaultValue } }
  vDefault: enumValues { name }
  vLive: enumValues(includeDeprecated: false) { name }
  vAll: enumValues(includeDeprecated: true) { name isDeprecated }
  interfaces { name }
  possibleTypes { name }
  inputFields { name type { ...R } defaultValue }
}
`

const c10Typenames = `{
  __schema { __typename
    types { __typename
      fields(includeDeprecated: true) { __typename args { __typename type { __typename } } type { __typename ofType { __typename } } }
      interfaces { __typename } possibleTypes { __typename }
      enumValues(includeDeprecated: true) { __typename }
      inputFields { __typename type { __typename } } }
    queryType { __typename } mutationType { __typename } subscriptionType { __typename }
    directives { __typename args { __typename type { __typename } } } }
  __type(name: "String") { __typename }
}`

// walkTypenames checks __typename at every composite position of an introspection result.
func (c *c10Checker) walkTypenames(x interface{}, typ string, table map[string]string, path string) {
	switch v := x.(type) {
	case []interface{}:
		for _, it := range v {
			c.walkTypenames(it, typ, table, path)
		}
	case map[string]interface{}:
		if got := asStr(v["__typename"]); got != typ {
			c.diff("__typename at %s is %q, the object type there is %s", path, got, typ)
		}
		for k, sub := range v {
			if k == "__typename" || sub == nil {
				continue
			}
			exp, ok := table[typ+"."+k]
			if !ok {
				c.diff("no __typename expectation for %s.%s", typ, k)
				continue
			}
			c.walkTypenames(sub, exp, table, path+"."+k)
		}
	}
}

func deepTypename(x interface{}) (string, bool) {
	switch v := x.(type) {
	case []interface{}:
		if len(v) == 0 {
			return "", false
		}
		return deepTypename(v[0])
	case map[string]interface{}:
		s, ok := v["__typename"].(string)
		return s, ok
	}
	return "", false
}

func (c *c10Checker) do(s graphql.Schema, q string, ctx context.Context) (data map[string]interface{}) {
	data, errs := c.doRaw(s, q, ctx)
	if len(errs) > 0 {
		c.diff("errors answering %.80q: %v", q, errs[0])
	}
	return data
}

// doRaw runs one request and returns the data (as a client sees it) and the error messages.
func (c *c10Checker) doRaw(s graphql.Schema, q string, ctx context.Context) (data map[string]interface{}, errs []string) {
	c.execs++
	var res *graphql.Result
	pan := ""
	func() {
		defer func() {
			if r := recover(); r != nil {
				pan = fmt.Sprint(r)
			}
		}()
		res = graphql.Do(graphql.Params{Schema: s, RequestString: q, Context: ctx})
	}()
	if pan != "" {
		c.diff("panic while answering %.60q: %s", q, pan)
		return nil, nil
	}
	if res == nil {
		c.diff("nil result for %.60q", q)
		return nil, nil
	}
	for _, e := range res.Errors {
		errs = append(errs, e.Message)
	}
	// normalise through JSON (what a client sees)
	b, err := json.Marshal(res.Data)
	if err != nil {
		c.diff("result of %.60q is not JSON: %v", q, err)
		return nil, errs
	}
	var out map[string]interface{}
	json.Unmarshal(b, &out)
	return out, errs
}

func replayC10(raw []byte, st *Stats, wk *worker) {
	var v c10Vector
	if err := json.Unmarshal(raw, &v); err != nil {
		st.Mismatch(Mismatch{What: "infra: bad C10 vector: " + err.Error()})
		return
	}
	st.Add("vectors", 1)
	label := edsLabel(v.Eds)
	c := &c10Checker{known: map[string]bool{}}
	fail := func(what string) {
		st.Mismatch(Mismatch{What: "C10 " + what, Detail: map[string]interface{}{"configuration": label, "differences": c.diffs},
			Vector: raw})
	}
	b := abs.NewGBuilt(&v.Cfg)
	out := buildSchema(b, false, nil)
	if out.St != "ok" {
		c.diff("step %d: %s: %s", out.Step, out.St, out.Msg)
		fail("a valid configuration is not built (" + out.St + ")")
		return
	}
	s := out.Schema
	ctx := context.Background()
	img := &v.Image
	bi, _ := wk.cache["c10.builtin"].(*c10Builtin)
	if bi == nil || len(bi.Builtin) == 0 {
		// `bin/check C10 --replay <file>` re-runs one stored vector without MC_C10's SCHEMA line:
		// the built-in types are then compared by name only
		bi = &c10Builtin{byName: map[string]typeImage{}}
		st.Note("no SCHEMA line of MC_C10: descriptions of built-in types and introspection __typename positions not compared")
	}
	timg := map[string]typeImage{}
	for _, t := range img.Types {
		timg[t.Name] = t
	}
	for _, n := range img.Names {
		if t, ok := bi.byName[n]; ok {
			timg[n] = t
		}
	}
	if len(bi.Builtin) > 0 {
		for _, n := range img.Names {
			if _, ok := timg[n]; !ok {
				st.Mismatch(Mismatch{What: "infra: image lists type " + n + " without a description"})
				return
			}
		}
	}

	// 1. the full introspection query
	if data := c.do(s, testutil.IntrospectionQuery, ctx); data != nil {
		sch := asMap(data["__schema"])
		rootName := func(k string) string { return asStr(asMap(sch[k])["name"]) }
		if rootName("queryType") != img.Query || rootName("mutationType") != img.Mutation ||
			rootName("subscriptionType") != img.Subscription {
			c.diff("root operation types %q/%q/%q, configured %q/%q/%q", rootName("queryType"), rootName("mutationType"),
				rootName("subscriptionType"), img.Query, img.Mutation, img.Subscription)
		}
		types := asList(sch["types"])
		c.namesOnce("__schema.types", namesOf(types), img.Names)
		for _, x := range types {
			m := asMap(x)
			if t, ok := timg[asStr(m["name"])]; ok {
				c.typeFull(m, t)
			}
		}
		dnames := make([]string, 0, len(img.Directives))
		dby := map[string]dirImage{}
		for _, d := range img.Directives {
			dnames = append(dnames, d.Name)
			dby[d.Name] = d
		}
		c.namesOnce("__schema.directives", namesOf(asList(sch["directives"])), dnames)
		for _, x := range asList(sch["directives"]) {
			m := asMap(x)
			d, ok := dby[asStr(m["name"])]
			if !ok {
				continue
			}
			w := "@" + d.Name
			c.desc(w, m["description"], d.Desc, d.CmpDesc)
			locs := []string{}
			for _, l := range asList(m["locations"]) {
				locs = append(locs, asStr(l))
			}
			c.namesOnce(w+" locations", locs, d.Locs)
			c.args(w, asList(m["args"]), d.Args, d.CmpDesc)
		}
	}

	// 2. partial queries: every type by name, includeDeprecated default / false / true; an unknown name
	var sb strings.Builder
	sb.WriteString("{ nope: __type(name: \"NoSuchType\") { name }\n")
	// every user-defined type; of the built-in ones (whose descriptions do not depend on the
	// configuration) all in the base configuration, otherwise two representatives
	names := []string{}
	for _, n := range img.Names {
		if _, described := timg[n]; !described {
			continue
		}
		if _, builtin := bi.byName[n]; !builtin || len(v.Eds) == 0 || n == "__Type" || n == "String" {
			names = append(names, n)
		}
	}
	sort.Strings(names)
	for i, n := range names {
		fmt.Fprintf(&sb, " t%d: __type(name: %q) { ...P }\n", i, n)
	}
	sb.WriteString("}\n" + c10Partial)
	if data := c.do(s, sb.String(), ctx); data != nil {
		if data["nope"] != nil {
			c.diff("__type(name: \"NoSuchType\") is not null")
		}
		for i, n := range names {
			m := asMap(data[fmt.Sprintf("t%d", i)])
			t := timg[n]
			w := "__type(" + n + ")"
			if m == nil {
				c.diff("%s is null", w)
				continue
			}
			if asStr(m["name"]) != n || asStr(m["kind"]) != t.Kind {
				c.diff("%s: kind/name %s %q, configured %s", w, asStr(m["kind"]), asStr(m["name"]), t.Kind)
			}
			c.desc(w, m["description"], t.Desc, t.CmpDesc)
			all := make([]string, 0, len(t.Fields))
			fby := map[string]fieldImage{}
			for _, f := range t.Fields {
				all = append(all, f.Name)
				fby[f.Name] = f
			}
			c.namesOnce(w+" fields (default)", namesOf(asList(m["fDefault"])), t.Live)
			c.namesOnce(w+" fields(includeDeprecated:false)", namesOf(asList(m["fLive"])), t.Live)
			c.namesOnce(w+" fields(includeDeprecated:true)", namesOf(asList(m["fAll"])), all)
			for _, x := range asList(m["fAll"]) {
				fm := asMap(x)
				f, ok := fby[asStr(fm["name"])]
				if !ok {
					continue
				}
				fw := w + "." + f.Name
				if r, bad := projRef(fm["type"]); bad != "" || !sameRef(r, f.Type) {
					c.diff("%s: type %s %s, configured %s", fw, r, bad, f.Type)
				}
				if dep, _ := fm["isDeprecated"].(bool); dep != f.Dep {
					c.diff("%s: isDeprecated %v, configured %v", fw, dep, f.Dep)
				}
				c.args(fw, asList(fm["args"]), f.Args, false)
			}
			allv := make([]string, 0, len(t.Values))
			for _, ev := range t.Values {
				allv = append(allv, ev.Name)
			}
			c.namesOnce(w+" enumValues (default)", namesOf(asList(m["vDefault"])), t.LiveValues)
			c.namesOnce(w+" enumValues(includeDeprecated:false)", namesOf(asList(m["vLive"])), t.LiveValues)
			c.namesOnce(w+" enumValues(includeDeprecated:true)", namesOf(asList(m["vAll"])), allv)
			c.namesOnce(w+" interfaces", namesOf(asList(m["interfaces"])), t.Ifaces)
			c.possible(w+" possibleTypes", namesOf(asList(m["possibleTypes"])), t)
			c.args(w, asList(m["inputFields"]), t.Inputs, false)
		}
	}

	// 3. __typename at composite positions
	table := map[string]string{}
	for _, e := range bi.Typenames {
		table[e.On+"."+e.F] = e.Exp
	}
	if len(table) > 0 {
		if data := c.do(s, c10Typenames, ctx); data != nil {
			c.walkTypenames(data["__schema"], table[".__schema"], table, "__schema")
			c.walkTypenames(data["__type"], table[".__type"], table, "__type")
		}
	}
	for _, e := range img.Typenames {
		switch {
		case e.On == "" && (e.F == "query" || e.F == "mutation"):
			q := "{ __typename }"
			if e.F == "mutation" {
				q = "mutation { __typename }"
			}
			if data := c.do(s, q, ctx); data != nil && asStr(data["__typename"]) != e.Exp {
				c.diff("%s: __typename %q, the root object type is %s", q, asStr(data["__typename"]), e.Exp)
			}
		case e.On == img.Query:
			q := "{ " + e.F + " { __typename } }"
			data, errs := c.doRaw(s, q, abs.WithRuntimeType(ctx, e.Rt))
			got, ok := deepTypename(data[e.F])
			if len(errs) == 0 && ok && got == e.Exp {
				break
			}
			explained := false
			for _, d := range e.Dev {
				if d.Exp == "error" && len(errs) > 0 && !ok && devsListed(d.D) {
					for _, n := range d.D {
						c.known[n] = true
					}
					explained = true
				}
			}
			if !explained {
				c.diff("%s with runtime type %s: __typename %q, errors %v", q, e.Rt, got, errs)
			}
		}
	}

	st.Add("executions", c.execs)
	if len(c.diffs) > 0 {
		fail("introspection differs from the schema's image: " + c.diffs[0])
		return
	}
	for d := range c.known {
		st.KnownHit(d)
	}
	if len(v.Eds) > 0 {
		st.Distinct("distinct_nontrivial", label)
	}
	if len(v.Eds) >= 1 && (v.Eds[0].S == "Q.g.x" || v.Eds[0].S == "xC") {
		st.Sample(map[string]interface{}{"configuration": label, "types": len(img.Names), "queries": c.execs,
			"known": sortedBoolKeys(c.known)})
	}
}

func sortedBoolKeys(m map[string]bool) []string {
	out := []string{}
	for k := range m {
		out = append(out, k)
	}
	sort.Strings(out)
	return out
}

// c10Builtin is the SCHEMA line of MC_C10: the images of the built-in types and the
// __typename table of the introspection schema (both independent of the configuration).
type c10Builtin struct {
	Builtin   []typeImage `json:"builtin"`
	Typenames []tnImage   `json:"typenames"`
	byName    map[string]typeImage
}

func init() {
	handlers["C10"] = func(fs *flag.FlagSet) handler {
		return func(tag string, raw []byte, st *Stats, wk *worker) {
			switch tag {
			case "SCHEMA":
				var bi c10Builtin
				if err := json.Unmarshal(raw, &bi); err != nil {
					st.Mismatch(Mismatch{What: "infra: bad C10 SCHEMA line: " + err.Error()})
					return
				}
				bi.byName = map[string]typeImage{}
				for _, t := range bi.Builtin {
					bi.byName[t.Name] = t
				}
				wk.cache["c10.builtin"] = &bi
			case "VEC":
				replayC10(raw, st, wk)
			}
		}
	}
}
