package main

import (
	"bufio"
	"context"
	"encoding/json"
	"errors"
	"flag"
	"fmt"
	"hash/fnv"
	"math/rand"
	"os"
	"regexp"
	"sort"
	"strconv"
	"strings"
	"sync"
	"time"

	"gqlverif/abs"

	"github.com/graphql-go/graphql"
	"github.com/graphql-go/graphql/gqlerrors"
)

// C17: extension hooks are balanced, ordered and fault-isolated.
//
// Vectors of MC_C17.tla: a scenario (extensions, request class, panic placement) with the
// observables of every run of the machine of Extensions.tla (exp: intended design, dev: under
// named deviations).  The harness registers logging extensions that panic on cue, runs the
// request through graphql.Do, projects the recorded log onto the same observables and looks
// the observation up among the expected ones.  The full interleaved logs are also written as
// NDJSON for Trace_C17.tla.  Nothing here knows what a legal log looks like.

type c17Pan struct {
	X int    `json:"x"`
	H string `json:"h"`
	F string `json:"f"`
	C string `json:"c"`
}

type c17Field struct {
	P   string `json:"p"`
	Par int    `json:"par"`
	Out string `json:"out"`
}

type c17Sc struct {
	Names  []int      `json:"names"`
	Hasres []bool     `json:"hasres"`
	Req    string     `json:"req"`
	Fields []c17Field `json:"fields"`
	Pan    []c17Pan   `json:"pan"`
}

type c17Ment struct {
	X int    `json:"x"`
	H string `json:"h"`
	F string `json:"f"`
}

// c17Obs is the abstract observable of one request (see Obs in MC_C17.tla).
type c17Obs struct {
	W    []string   `json:"w"`  // per extension: its events without resolve notifications
	R    [][]string `json:"r"`  // per extension, per field: its resolve notifications
	R0   []string   `json:"r0"` // per field: "res" if the resolver ran
	Esc  bool       `json:"esc"`
	Data string     `json:"data"`
	Oerr bool       `json:"oerr"`
	Ment []c17Ment  `json:"ment"`
}

type c17Dev struct {
	D   []string `json:"d"`
	Exp []c17Obs `json:"exp"`
}

type c17Vec struct {
	Sc   c17Sc          `json:"sc"`
	Q    string         `json:"q"`
	Outs []abs.OutEntry `json:"outs"`
	Exp  []c17Obs       `json:"exp"`
	Dev  []c17Dev       `json:"dev"`
}

// ---- the recording extension

type c17Ev struct {
	X int    `json:"x"`
	H string `json:"h"`
	F string `json:"f"`
	O string `json:"o"`
	P string `json:"p"`
}

type c17Log struct {
	mu  sync.Mutex
	evs []c17Ev
}

func (l *c17Log) add(e c17Ev) {
	l.mu.Lock()
	l.evs = append(l.evs, e)
	l.mu.Unlock()
}

type c17Other struct{ Tok string } // a panic value that is neither an error nor a string

func c17Token(x int, h, f string) string { return fmt.Sprintf("PANIC[x%d:%s:%s]", x, h, f) }

var c17TokRe = regexp.MustCompile(`PANIC\[x(\d+):([A-Za-z]+):([^\]]*)\]`)

type hookExt struct {
	idx  int
	name string
	has  bool
	pan  map[string]string // hook|field -> panic class
	log  *c17Log
}

// fire logs one hook invocation and panics if the scenario says so.
func (e *hookExt) fire(h, f, o string) {
	cls := e.pan[h+"|"+f]
	e.log.add(c17Ev{X: e.idx, H: h, F: f, O: o, P: cls})
	tok := c17Token(e.idx, h, f)
	switch cls {
	case "err":
		panic(errors.New(tok))
	case "str":
		panic(tok)
	case "oth":
		panic(c17Other{Tok: tok})
	}
}

func okErr(bad bool) string {
	if bad {
		return "err"
	}
	return "ok"
}

func (e *hookExt) Init(ctx context.Context, p *graphql.Params) context.Context {
	e.fire("init", "", "")
	return ctx
}
func (e *hookExt) Name() string { return e.name }
func (e *hookExt) ParseDidStart(ctx context.Context) (context.Context, graphql.ParseFinishFunc) {
	e.fire("pS", "", "")
	return ctx, func(err error) { e.fire("pF", "", okErr(err != nil)) }
}
func (e *hookExt) ValidationDidStart(ctx context.Context) (context.Context, graphql.ValidationFinishFunc) {
	e.fire("vS", "", "")
	return ctx, func(errs []gqlerrors.FormattedError) { e.fire("vF", "", okErr(len(errs) > 0)) }
}
func (e *hookExt) ExecutionDidStart(ctx context.Context) (context.Context, graphql.ExecutionFinishFunc) {
	e.fire("eS", "", "")
	return ctx, func(r *graphql.Result) {
		o := "nil"
		if r != nil {
			o = okErr(c17OtherErrors(r.Errors))
		}
		e.fire("eF", "", o)
	}
}
func c17Path(info *graphql.ResolveInfo) string {
	if info == nil || info.Path == nil {
		return "?"
	}
	arr := info.Path.AsArray()
	parts := make([]string, 0, len(arr))
	for _, k := range arr {
		parts = append(parts, fmt.Sprint(k))
	}
	return strings.Join(parts, "/")
}
func (e *hookExt) ResolveFieldDidStart(ctx context.Context, info *graphql.ResolveInfo) (context.Context, graphql.ResolveFieldFinishFunc) {
	f := c17Path(info)
	e.fire("rS", f, "")
	return ctx, func(v interface{}, err error) { e.fire("rF", f, okErr(err != nil)) }
}
func (e *hookExt) HasResult() bool {
	o := "f"
	if e.has {
		o = "t"
	}
	e.fire("hasR", "", o)
	return e.has
}
func (e *hookExt) GetResult(context.Context) interface{} {
	e.fire("getR", "", "")
	return e.idx
}

// c17OtherErrors: is there an error that does not report a hook's panic value?
func c17OtherErrors(errs []gqlerrors.FormattedError) bool {
	for _, e := range errs {
		if !strings.Contains(e.Message, "PANIC[") {
			return true
		}
	}
	return false
}

func c17Extensions(sc *c17Sc, log *c17Log) []graphql.Extension {
	exts := make([]graphql.Extension, 0, len(sc.Names))
	for i, n := range sc.Names {
		h := &hookExt{idx: i + 1, name: "ext" + strconv.Itoa(n), has: sc.Hasres[i], pan: map[string]string{}, log: log}
		for _, p := range sc.Pan {
			if p.X == i+1 {
				h.pan[p.H+"|"+p.F] = p.C
			}
		}
		exts = append(exts, h)
	}
	return exts
}

// c17Return describes what the call returned (the "ret" event).
type c17Return struct {
	Esc  bool
	Data string
	Oerr bool
	Ment []c17Ment
	Msgs []string
	Pan  string
}

func c17Run(schema graphql.Schema, sc *c17Sc, q string, ctx context.Context, log *c17Log) c17Return {
	schema.AddExtensions(c17Extensions(sc, log)...) // schema is this call's own copy
	res, pan := guard(func() *graphql.Result {
		return graphql.Do(graphql.Params{Schema: schema, RequestString: q, RootObject: rootObject, Context: ctx})
	})
	ret := c17Return{Ment: []c17Ment{}}
	switch {
	case pan != "":
		ret.Esc, ret.Data, ret.Pan = true, "esc", pan
	case res == nil:
		ret.Data = "nilresult"
	default:
		ret.Data = "some"
		if res.Data == nil {
			ret.Data = "none"
		}
		ret.Oerr = c17OtherErrors(res.Errors)
		seen := map[c17Ment]bool{}
		for _, e := range res.Errors {
			ret.Msgs = append(ret.Msgs, e.Message)
			for _, m := range c17TokRe.FindAllStringSubmatch(e.Message, -1) {
				x, _ := strconv.Atoi(m[1])
				k := c17Ment{X: x, H: m[2], F: m[3]}
				if !seen[k] {
					seen[k] = true
					ret.Ment = append(ret.Ment, k)
				}
			}
		}
	}
	return ret
}

func c17Tok(e c17Ev) string {
	s := e.H
	if e.O != "" {
		s += "=" + e.O
	}
	if e.P != "" {
		s += "!" + e.P
	}
	return s
}

// c17Project: the recorded log as the observables of MC_C17.tla (a pure regrouping).
func c17Project(sc *c17Sc, evs []c17Ev, ret c17Return) c17Obs {
	n := len(sc.Names)
	fidx := map[string]int{}
	for j, f := range sc.Fields {
		fidx[f.P] = j
	}
	w := make([][]string, n)
	r := make([][][]string, n)
	for x := range r {
		r[x] = make([][]string, len(sc.Fields))
	}
	r0 := make([][]string, len(sc.Fields))
	var stray []string
	for _, e := range evs {
		j, known := fidx[e.F]
		switch {
		case e.X == 0 && e.H == "res" && known:
			r0[j] = append(r0[j], c17Tok(e))
		case e.X >= 1 && e.X <= n && (e.H == "rS" || e.H == "rF") && known:
			r[e.X-1][j] = append(r[e.X-1][j], c17Tok(e))
		case e.X >= 1 && e.X <= n && e.F == "":
			w[e.X-1] = append(w[e.X-1], c17Tok(e))
		default:
			stray = append(stray, fmt.Sprintf("x%d:%s(%s)", e.X, c17Tok(e), e.F))
		}
	}
	o := c17Obs{W: make([]string, n), R: make([][]string, n), R0: make([]string, len(sc.Fields)),
		Esc: ret.Esc, Data: ret.Data, Oerr: ret.Oerr, Ment: ret.Ment}
	for x := 0; x < n; x++ {
		o.W[x] = strings.Join(w[x], " ")
		o.R[x] = make([]string, len(sc.Fields))
		for j := range sc.Fields {
			o.R[x][j] = strings.Join(r[x][j], " ")
		}
	}
	for j := range sc.Fields {
		o.R0[j] = strings.Join(r0[j], " ")
	}
	if len(stray) > 0 && n > 0 {
		o.W[0] += " STRAY:" + strings.Join(stray, ",") // events about fields the request does not have
	}
	return o
}

func (o c17Obs) key() string {
	ms := make([]string, 0, len(o.Ment))
	for _, m := range o.Ment {
		ms = append(ms, fmt.Sprintf("%d:%s:%s", m.X, m.H, m.F))
	}
	sort.Strings(ms)
	rs := make([]string, 0, len(o.R))
	for _, r := range o.R {
		rs = append(rs, strings.Join(r, ";"))
	}
	return strings.Join(o.W, "|") + "#" + strings.Join(rs, "|") + "#" + strings.Join(o.R0, ";") +
		fmt.Sprintf("#%v#%s#%v#", o.Esc, o.Data, o.Oerr) + strings.Join(ms, ",")
}

// c17Judge: nil = an observable of the intended design; otherwise the smallest listed deviation
// set predicting the observation; ok=false when nothing predicts it.
func c17Judge(v *c17Vec, obs c17Obs) (devs []string, ok bool) {
	k := obs.key()
	for _, e := range v.Exp {
		if e.key() == k {
			return nil, true
		}
	}
	best := -1
	for i, d := range v.Dev {
		if !devsListed(d.D) {
			continue
		}
		for _, e := range d.Exp {
			if e.key() == k && (best < 0 || len(d.D) < len(v.Dev[best].D)) {
				best = i
			}
		}
	}
	if best < 0 {
		return nil, false
	}
	return v.Dev[best].D, true
}

func c17TraceLines(sc *c17Sc, q string, evs []c17Ev, ret c17Return) []interface{} {
	fields := sc.Fields
	if fields == nil {
		fields = []c17Field{}
	}
	pan := sc.Pan
	if pan == nil {
		pan = []c17Pan{}
	}
	lines := []interface{}{map[string]interface{}{"t": "tree", "names": sc.Names, "hasres": sc.Hasres, "req": sc.Req,
		"fields": fields, "pan": pan, "q": q}}
	for i, e := range evs {
		lines = append(lines, map[string]interface{}{"t": "ev", "i": i + 1, "x": e.X, "h": e.H, "f": e.F, "o": e.O, "p": e.P})
	}
	lines = append(lines, map[string]interface{}{"t": "ev", "i": len(evs) + 1, "x": 0, "h": "ret", "f": "", "o": ret.Data, "p": "",
		"esc": ret.Esc, "data": ret.Data, "oerr": ret.Oerr, "ment": ret.Ment})
	return lines
}

func init() {
	handlers["C17"] = func(fs *flag.FlagSet) handler {
		traceOut := fs.String("trace-out", "", "NDJSON trace for Trace_C17")
		capLines := fs.Int("trace-cap", 60000, "max trace lines")
		traceMod := fs.Int("trace-mod", 1, "trace every scenario without panic and 1 in N (by hash) of the others")
		reps := fs.Int("reps", 2, "executions per scenario (map iteration order varies)")
		appendTo := fs.Bool("trace-append", false, "append to an existing trace file (several families, one validation)")
		var tw *traceWriter
		var once sync.Once
		return func(tag string, raw []byte, st *Stats, wk *worker) {
			once.Do(func() {
				if *traceOut != "" {
					if *appendTo {
						if f, err := os.OpenFile(*traceOut, os.O_APPEND|os.O_CREATE|os.O_WRONLY, 0o644); err == nil {
							tw = &traceWriter{w: bufio.NewWriterSize(f, 1<<20), f: f, cap: *capLines}
						}
					} else {
						tw = openTrace(*traceOut, *capLines)
					}
					if tw != nil {
						atExit = append(atExit, func() { tw.close(map[string]string{"t": "end"}) })
					}
				}
			})
			switch tag {
			case "SCHEMA":
				handleSchemaLine(raw, st, wk)
			case "VEC":
				replayC17(raw, st, wk, tw, *reps, *traceMod)
			}
		}
	}
	recorders["C17"] = recordC17
}

func replayC17(raw []byte, st *Stats, wk *worker, tw *traceWriter, reps, traceMod int) {
	var v c17Vec
	if err := json.Unmarshal(raw, &v); err != nil {
		st.Mismatch(Mismatch{What: "infra: bad C17 vector: " + err.Error()})
		return
	}
	b := builtFor(wk)
	if b == nil {
		st.Mismatch(Mismatch{What: "infra: vector before SCHEMA"})
		return
	}
	if len(v.Exp) == 0 {
		st.Mismatch(Mismatch{What: "infra: C17 vector without expectation"})
		return
	}
	st.Add("vectors", 1)
	sc := &v.Sc
	nontrivial := len(sc.Pan) > 0
	for i := range sc.Names {
		for j := 0; j < i; j++ {
			nontrivial = nontrivial || sc.Names[i] == sc.Names[j]
		}
	}
	scKey, _ := json.Marshal(sc)
	if nontrivial {
		st.Distinct("distinct_nontrivial", string(scKey))
	}
	credited := map[string]bool{}
	for rep := 0; rep < reps; rep++ {
		log := &c17Log{}
		rc := &abs.RunCtx{Outs: v.Outs, Built: b, Root: rootObject, RootTag: "r"}
		rc.OnCall = func(tn, fn string, p graphql.ResolveParams) {
			log.add(c17Ev{X: 0, H: "res", F: c17Path(&p.Info)})
		}
		ret := c17Run(b.Schema, sc, v.Q, abs.WithRun(context.Background(), rc), log)
		st.Add("executions", 1)
		// direction B first: the trace is written whatever direction A thinks of the run
		if tw != nil && rep == 0 {
			h := fnv.New32a()
			h.Write(scKey)
			if len(sc.Pan) == 0 || traceMod <= 1 || int(h.Sum32()%uint32(traceMod)) == 0 {
				lines := c17TraceLines(sc, v.Q, log.evs, ret)
				if tw.put(lines) {
					st.Add("traced_requests", 1)
					st.Add("trace_lines", int64(len(lines)))
				}
			}
		}
		obs := c17Project(sc, log.evs, ret)
		devs, ok := c17Judge(&v, obs)
		if !ok {
			st.Add("mismatch/"+sc.Req, 1)
			st.Mismatch(Mismatch{What: "C17 Do: the recorded hook log is not a run of the extension pipeline specification " +
				"(neither of the intended design nor under a listed deviation)",
				Detail: map[string]interface{}{"query": v.Q, "scenario": sc, "observed": obs, "log": log.evs,
					"result_errors": ret.Msgs, "escaped_panic": ret.Pan, "intended": v.Exp},
				Vector: raw})
			return
		}
		if devs == nil {
			st.Add("agree", 1)
		} else {
			st.Add("explained_by_known_finding", 1)
			for _, d := range devs {
				if !credited[d] {
					credited[d] = true
					st.KnownHit(d)
				}
			}
		}
		if ret.Esc {
			st.Add("escaped_panics", 1)
		}
		if rep == 0 && len(sc.Pan) == 2 && len(sc.Names) >= 2 {
			st.Sample(map[string]interface{}{"query": v.Q, "names": sc.Names, "panics": sc.Pan, "observed": obs,
				"deviations_needed": devs})
		}
	}
}

// ---- direction B beyond the enumerated bounds: seeded random scenarios on a larger request,
// up to 5 extensions and 6 panicking hooks; only Trace_C17.tla judges them.

type c17RecReq struct {
	req    string
	q      string
	fields []c17Field
	fail   map[string]bool // Type.field whose resolver fails
}

var c17RecReqs = []c17RecReq{
	{"success", "{ a b o { x y z { x } } n { y } }", []c17Field{{"a", 0, "ok"}, {"b", 0, "ok"}, {"o", 0, "ok"}, {"o/x", 3, "ok"},
		{"o/y", 3, "ok"}, {"o/z", 3, "ok"}, {"o/z/x", 6, "ok"}, {"n", 0, "ok"}, {"n/y", 8, "ok"}}, nil},
	{"fielderr", "{ a o { x z { y x } } b }", []c17Field{{"a", 0, "ok"}, {"o", 0, "ok"}, {"o/x", 2, "ok"}, {"o/z", 2, "err"}, {"b", 0, "ok"}},
		map[string]bool{"O.z": true}},
	{"fielderr", "{ b a }", []c17Field{{"b", 0, "err"}, {"a", 0, "ok"}}, map[string]bool{"Q.b": true}},
	{"syntax", "{ a o { x ", nil, nil},
	{"validation", "{ a o }", nil, nil},
	{"variable", "query($v: Int!) { a(i: $v) o { x } }", nil, nil}, // $v is not provided
}

func c17RecSchema(failing func(ctx context.Context, tf string) bool, onCall func(ctx context.Context, p graphql.ResolveParams)) (graphql.Schema, error) {
	leaf := func(tn, fn string, t graphql.Output, val interface{}) *graphql.Field {
		return &graphql.Field{Type: t, Args: graphql.FieldConfigArgument{"i": &graphql.ArgumentConfig{Type: graphql.Int}},
			Resolve: func(p graphql.ResolveParams) (interface{}, error) {
				onCall(p.Context, p)
				if failing(p.Context, tn+"."+fn) {
					return nil, errors.New("boom " + tn + "." + fn)
				}
				return val, nil
			}}
	}
	var o *graphql.Object
	o = graphql.NewObject(graphql.ObjectConfig{Name: "O", Fields: graphql.FieldsThunk(func() graphql.Fields {
		return graphql.Fields{"x": leaf("O", "x", graphql.String, "x"), "y": leaf("O", "y", graphql.String, "y"),
			"z": leaf("O", "z", o, map[string]interface{}{})}
	})})
	q := graphql.NewObject(graphql.ObjectConfig{Name: "Q", Fields: graphql.Fields{
		"a": leaf("Q", "a", graphql.Int, 1), "b": leaf("Q", "b", graphql.Int, 2),
		"o": leaf("Q", "o", o, map[string]interface{}{}), "n": leaf("Q", "n", o, map[string]interface{}{})}})
	return graphql.NewSchema(graphql.SchemaConfig{Query: q})
}

type c17RecKey struct{}
type c17RecCtx struct {
	log  *c17Log
	fail map[string]bool
}

func recordC17(args []string) int {
	fs := flag.NewFlagSet("record C17", flag.ExitOnError)
	out := fs.String("out", "", "NDJSON trace")
	summary := fs.String("summary", "-", "summary JSON")
	seed := fs.Int64("seed", 1, "seed")
	tier := fs.String("tier", "quick", "tier")
	fs.Parse(args)
	t0 := time.Now()
	st := newStats()
	n := 300
	if *tier != "quick" {
		n = 3000
	}
	schema, err := c17RecSchema(
		func(ctx context.Context, tf string) bool {
			c, _ := ctx.Value(c17RecKey{}).(*c17RecCtx)
			return c != nil && c.fail[tf]
		},
		func(ctx context.Context, p graphql.ResolveParams) {
			if c, _ := ctx.Value(c17RecKey{}).(*c17RecCtx); c != nil {
				c.log.add(c17Ev{X: 0, H: "res", F: c17Path(&p.Info)})
			}
		})
	if err != nil {
		fmt.Fprintln(os.Stderr, "record C17: schema:", err)
		return 2
	}
	reqs := c17RecReqs
	tw := openTrace(*out, 1<<30)
	if tw == nil {
		fmt.Fprintln(os.Stderr, "record C17: cannot create", *out)
		return 2
	}
	rng := rand.New(rand.NewSource(*seed))
	classes := []string{"err", "str", "oth"}
	for it := 0; it < n; it++ {
		rq := reqs[rng.Intn(len(reqs))]
		ne := 1 + rng.Intn(5)
		sc := c17Sc{Req: rq.req, Fields: rq.fields}
		for i := 0; i < ne; i++ {
			sc.Names = append(sc.Names, 1+rng.Intn(ne)) // equal names happen
			sc.Hasres = append(sc.Hasres, rng.Intn(2) == 0)
		}
		// the hook sites this request class can reach
		type site struct{ h, f string }
		sites := []site{{"init", ""}, {"pS", ""}, {"pF", ""}}
		if rq.req != "syntax" {
			sites = append(sites, site{"vS", ""}, site{"vF", ""})
		}
		if rq.req != "syntax" && rq.req != "validation" {
			sites = append(sites, site{"eS", ""}, site{"eF", ""}, site{"hasR", ""}, site{"getR", ""})
			for _, f := range rq.fields {
				sites = append(sites, site{"rS", f.P}, site{"rF", f.P})
			}
		}
		np := rng.Intn(7)
		used := map[string]bool{}
		for k := 0; k < np; k++ {
			x := 1 + rng.Intn(ne)
			s := sites[rng.Intn(len(sites))]
			key := fmt.Sprintf("%d|%s|%s", x, s.h, s.f)
			if used[key] || (s.h == "getR" && !sc.Hasres[x-1]) {
				continue
			}
			used[key] = true
			sc.Pan = append(sc.Pan, c17Pan{X: x, H: s.h, F: s.f, C: classes[rng.Intn(3)]})
		}
		log := &c17Log{}
		ctx := context.WithValue(context.Background(), c17RecKey{}, &c17RecCtx{log: log, fail: rq.fail})
		ret := c17Run(schema, &sc, rq.q, ctx, log)
		st.Add("executions", 1)
		st.Add("vectors", 1)
		if ret.Esc {
			st.Add("escaped_panics", 1)
		}
		if len(sc.Pan) > 0 {
			k, _ := json.Marshal(sc)
			st.Distinct("distinct_nontrivial", string(k))
		}
		lines := c17TraceLines(&sc, rq.q, log.evs, ret)
		tw.put(lines)
		st.Add("trace_lines", int64(len(lines)))
		if it < 2 {
			st.Sample(map[string]interface{}{"query": rq.q, "names": sc.Names, "panics": sc.Pan, "events": len(log.evs), "escaped": ret.Esc})
		}
	}
	tw.close(map[string]string{"t": "end"})
	sum := &Summary{Property: "C17", Mode: "record", Counters: st.Counters, Known: st.Known, Samples: st.Samples,
		Mismatches: st.Mismatches, NMismatch: st.nMismatch, Notes: st.Notes, WallS: time.Since(t0).Seconds()}
	normalize(sum)
	writeSummary(*summary, sum)
	return 0
}
