package main

// C11: schema construction never yields an inconsistent type system.
//
// A vector of MC_C11.tla is [eds, cfg, defects, order, exp, dev]: a configuration (valid or
// with injected defects) and an order of the AppendType calls.  The handler constructs
// fresh type objects twice and
//   up: calls NewSchema with every type supplied up front,
//   ap: calls NewSchema with the supplied types, then AppendType for the late types in the
//       prescribed order,
// both inside recover().  A panic is a violation ("never panics") unless the vector's
// deviated expectation allows it and the deviation is a listed known finding.  The
// post-condition on the returned schemas is NOT decided here: the views extracted through
// the public API are written as NDJSON lines which Trace_C11.tla accepts or rejects
// (Consistent(view), same error status, same view up front and appended).

import (
	"encoding/json"
	"flag"
	"fmt"
	"hash/fnv"
	"sync"

	"gqlverif/abs"
)

type c11Vector struct {
	Eds     []genEdit   `json:"eds"`
	Cfg     abs.GConfig `json:"cfg"`
	Defects []string    `json:"defects"`
	Order   []int       `json:"order"`
	Exp     string      `json:"exp"`
	Dev     []devExpS   `json:"dev"`
}

type c11Outcome struct {
	St      string    `json:"st"`
	View    *abs.View `json:"view,omitempty"`
	Same    bool      `json:"same"`    // ap only: the view is textually identical to up's and is not repeated
	Step    int       `json:"step"`    // 0 = NewSchema, k = the k-th AppendType call (where an error was returned)
	PreKeys []string  `json:"prekeys"` // type map keys before that AppendType call
}

type c11Line struct {
	T     string      `json:"t"`
	ID    string      `json:"id"`
	NLate int         `json:"nlate"`
	Up    c11Outcome  `json:"up"`
	Ap    *c11Outcome `json:"ap,omitempty"`
}

type c11State struct {
	tw    *traceWriter
	mu    sync.Mutex
	seen  map[uint64]bool
	lines int
}

func viewGuard(out *buildOutcome) (v *abs.View, pan string) {
	defer func() {
		if r := recover(); r != nil {
			pan = fmt.Sprint(r)
		}
	}()
	vv := abs.ViewOf(&out.Schema)
	return &vv, ""
}

func replayC11(raw []byte, st *Stats, wk *worker, cs *c11State) {
	var v c11Vector
	if err := json.Unmarshal(raw, &v); err != nil {
		st.Mismatch(Mismatch{What: "infra: bad C11 vector: " + err.Error()})
		return
	}
	st.Add("vectors", 1)
	label := edsLabel(v.Eds)
	if len(v.Order) > 1 {
		label += fmt.Sprintf(" order=%v", v.Order)
	}
	nlate := len(v.Cfg.Appended)
	outs := []buildOutcome{buildSchema(abs.NewGBuilt(&v.Cfg), true, nil)}
	st.Add("executions", 1)
	if nlate > 0 {
		order := v.Order
		if len(order) != nlate {
			st.Mismatch(Mismatch{What: "infra: C11 vector order does not match the late types", Vector: raw})
			return
		}
		outs = append(outs, buildSchema(abs.NewGBuilt(&v.Cfg), false, order))
		st.Add("executions", 1)
	}
	// never panics
	for i, o := range outs {
		if o.St != "panic" {
			continue
		}
		how := []string{"all types up front", "supplied types, then AppendType"}[i]
		allowed := false
		for _, d := range v.Dev {
			if d.Exp == "panic" && devsListed(d.D) {
				for _, n := range d.D {
					st.KnownHit(n)
				}
				allowed = true
			}
		}
		if !allowed {
			st.Mismatch(Mismatch{What: "C11 schema construction panicked (" + how + ")", Detail: map[string]interface{}{
				"configuration": label, "step": o.Step, "panic": o.Msg}, Vector: raw})
		}
		return
	}
	line := c11Line{T: "ev", ID: label, NLate: nlate}
	for i := range outs {
		oc := c11Outcome{St: outs[i].St, PreKeys: []string{}}
		if outs[i].St == "err" {
			oc.Step = outs[i].Step
			if outs[i].PreKeys != nil {
				oc.PreKeys = outs[i].PreKeys
			}
		}
		if outs[i].St == "ok" {
			view, pan := viewGuard(&outs[i])
			if pan != "" {
				st.Mismatch(Mismatch{What: "C11 the public API of a built schema panicked", Detail: map[string]interface{}{
					"configuration": label, "panic": pan}, Vector: raw})
				return
			}
			oc.View = view
			st.Add("schemas_built", 1)
		} else {
			st.Add("errors_returned", 1)
		}
		if i == 0 {
			line.Up = oc
		} else {
			if oc.View != nil && line.Up.View != nil {
				a, _ := json.Marshal(line.Up.View)
				b, _ := json.Marshal(oc.View)
				if string(a) == string(b) {
					oc.View, oc.Same = nil, true
				}
			}
			line.Ap = &oc
		}
	}
	if len(v.Defects) > 0 {
		st.Distinct("distinct_nontrivial", label)
	}
	if cs.tw == nil {
		return
	}
	// identical observations are validated once
	key := line
	key.ID = ""
	kb, _ := json.Marshal(key)
	h := fnv.New64a()
	h.Write(kb)
	cs.mu.Lock()
	dup := cs.seen[h.Sum64()]
	cs.seen[h.Sum64()] = true
	cs.mu.Unlock()
	if dup {
		st.Add("trace_duplicates", 1)
		return
	}
	if cs.tw.put([]interface{}{line}) {
		cs.mu.Lock()
		cs.lines++
		cs.mu.Unlock()
		st.Add("trace_lines", 1)
		if line.Up.St == "ok" && len(v.Defects) > 0 {
			st.Sample(map[string]interface{}{"configuration": label, "defects": v.Defects, "up_front": line.Up.St,
				"types_in_map": len(line.Up.View.Types)})
		}
	} else {
		st.Add("trace_overflow", 1)
	}
}

func init() {
	handlers["C11"] = func(fs *flag.FlagSet) handler {
		traceOut := fs.String("trace-out", "", "NDJSON trace for Trace_C11")
		capLines := fs.Int("trace-cap", 200000, "max trace lines")
		cs := &c11State{seen: map[uint64]bool{}}
		var once sync.Once
		return func(tag string, raw []byte, st *Stats, wk *worker) {
			once.Do(func() {
				if *traceOut != "" {
					cs.tw = openTrace(*traceOut, *capLines)
					atExit = append(atExit, func() {
						cs.tw.close(map[string]interface{}{"t": "end", "n": cs.lines})
					})
				}
			})
			if tag == "VEC" {
				replayC11(raw, st, wk, cs)
			}
		}
	}
}
