package main

import (
	"bufio"
	"encoding/json"
	"flag"
	"os"
	"strings"
	"sync"

	"gqlverif/abs"
)

// C13: mutation documents x thunk placements (MC_C01 family F13).  Each run is executed
// through Do several times; the response is compared as for C01 and the event log recorded
// by harness resolvers/thunks is written as a trace for Trace_C13.tla (ExecSteps!NextSerial).

type traceWriter struct {
	mu    sync.Mutex
	w     *bufio.Writer
	f     *os.File
	lines int
	cap   int
}

func openTrace(path string, capLines int) *traceWriter {
	f, err := os.Create(path)
	if err != nil {
		return nil
	}
	return &traceWriter{w: bufio.NewWriterSize(f, 1<<20), f: f, cap: capLines}
}

func (t *traceWriter) put(lines []interface{}) bool {
	t.mu.Lock()
	defer t.mu.Unlock()
	if t.lines+len(lines) > t.cap {
		return false
	}
	for _, l := range lines {
		b, _ := json.Marshal(l)
		t.w.Write(b)
		t.w.WriteByte('\n')
	}
	t.lines += len(lines)
	return true
}

func (t *traceWriter) close(final interface{}) {
	t.mu.Lock()
	defer t.mu.Unlock()
	if final != nil {
		b, _ := json.Marshal(final)
		t.w.Write(b)
		t.w.WriteByte('\n')
	}
	t.w.Flush()
	t.f.Close()
}

func stripIdx(p []string) []string {
	for len(p) > 0 && strings.HasPrefix(p[len(p)-1], "#") {
		p = p[:len(p)-1]
	}
	return p
}

// forestOf builds the forest of expected invocations from the specification's call list:
// node i+1 = calls[i]; parent = the call whose path is the enclosing field's path.
func forestOf(calls []abs.Call, outs []abs.OutEntry) (parent []int, thunk []bool, byPath map[string]int) {
	byPath = map[string]int{}
	for i, c := range calls {
		byPath[pathKey(c.P)] = i + 1
	}
	for _, c := range calls {
		pp := stripIdx(c.P[:len(c.P)-1])
		par := 0
		// the enclosing field may itself sit under list indices: try the stripped path first
		if id, ok := byPath[pathKey(c.P[:len(c.P)-1])]; ok {
			par = id
		} else if id, ok := byPath[pathKey(pp)]; ok {
			par = id
		} else {
			// element of a list: the parent call is the list field (path without the index)
			q := c.P[:len(c.P)-1]
			for len(q) > 0 {
				q = q[:len(q)-1]
				if id, ok := byPath[pathKey(q)]; ok {
					par = id
					break
				}
			}
		}
		parent = append(parent, par)
		th := false
		for _, e := range outs {
			if e.T == c.Pt && e.F == c.F && (e.Src == "" || e.Src == "*" || e.Src == c.Src) {
				th = e.O.K == "thunk" || e.O.K == "thunkerr"
				break
			}
		}
		thunk = append(thunk, th)
	}
	return
}

func init() {
	handlers["C13"] = func(fs *flag.FlagSet) handler {
		traceOut := fs.String("trace-out", "", "NDJSON trace for Trace_C13")
		capLines := fs.Int("trace-cap", 40000, "max trace lines")
		reps := fs.Int("reps", 3, "repetitions per run (map iteration order varies per range)")
		var tw *traceWriter
		var once sync.Once
		return func(tag string, raw []byte, st *Stats, wk *worker) {
			once.Do(func() {
				if *traceOut != "" {
					tw = openTrace(*traceOut, *capLines)
					atExit = append(atExit, func() { tw.close(map[string]string{"t": "end"}) })
				}
			})
			switch tag {
			case "SCHEMA":
				handleSchemaLine(raw, st, wk)
			case "VEC":
				replayC13(raw, st, wk, tw, *reps)
			}
		}
	}
}

func replayC13(raw []byte, st *Stats, wk *worker, tw *traceWriter, reps int) {
	var v execVector
	if err := json.Unmarshal(raw, &v); err != nil {
		st.Mismatch(Mismatch{What: "infra: bad vector: " + err.Error()})
		return
	}
	b := builtFor(wk)
	st.Add("vectors", 1)
	pr := abs.Print(&v.Doc, abs.DefaultLayout)
	doc, err := parseDoc(pr.Text)
	if err != nil {
		st.Mismatch(Mismatch{What: "generated document does not parse: " + err.Error(), Detail: pr.Text})
		return
	}
	_ = doc
	for ri := range v.Runs {
		run := &v.Runs[ri]
		outs := v.Outs[run.Oi-1]
		for rep := 0; rep < reps; rep++ {
			rc := newRunFor(b, &v, outs, pr)
			rc.LogEvents = true
			obs := runDo(b, pr.Text, v.OpName, varsMap(run.Inputs), rc)
			if len(obs.Errs) > 0 && strings.Contains(strings.Join(obs.Msgs, " "), "conflict") && obs.NoData {
				st.Add("skipped_invalid", 1)
				return
			}
			st.Add("executions", 1)
			if why, devs := judge(run, obs, false); why != "" {
				st.Mismatch(Mismatch{What: "C13 Do: " + why, Detail: map[string]interface{}{"query": pr.Text, "outs": outs,
					"observed_data": obs.Data.Canon(), "observed_errs": obs.Errs, "observed_msgs": obs.Msgs}, Vector: raw})
				return
			} else if devs != nil {
				for _, d := range devs {
					st.KnownHit(d)
				}
			}
			// Serial is a statement about mutations only
			isMutation := false
			for _, o := range v.Doc.Ops {
				if (o.Name == v.OpName || (v.OpName == "" && len(v.Doc.Ops) == 1)) && o.Kind == "mutation" {
					isMutation = true
				}
			}
			if !isMutation {
				continue
			}
			parent, thunk, byPath := forestOf(run.Exp.Calls, outs)
			if len(parent) == 0 {
				continue
			}
			nontrivial := 0
			tops := 0
			for i, p := range parent {
				if p == 0 {
					tops++
				}
				if thunk[i] {
					nontrivial++
				}
			}
			lines := []interface{}{map[string]interface{}{"t": "tree", "parent": parent, "thunk": thunk, "q": pr.Text}}
			for _, ev := range rc.Events {
				i := strings.Index(ev, ":")
				n := byPath[strings.ReplaceAll(ev[i+1:], "/", "/")]
				lines = append(lines, map[string]interface{}{"t": "ev", "e": ev[:i], "n": n})
			}
			if tw != nil && tw.put(lines) {
				st.Add("traced_requests", 1)
				st.Add("trace_lines", int64(len(lines)))
			}
			if tops >= 2 && nontrivial >= 1 {
				b, _ := json.Marshal(outs)
				st.Distinct("distinct_nontrivial", pr.Text+string(b))
			}
			if rep == 0 && ri == 1 {
				st.Sample(map[string]interface{}{"mutation": pr.Text, "thunks": outs, "events": rc.Events})
			}
		}
	}
}
