package main

import (
	"context"
	"encoding/json"
	"flag"
	"fmt"
	"reflect"
	"sort"
	"strings"
	"sync"

	"gqlverif/abs"

	"github.com/graphql-go/graphql"
	"github.com/graphql-go/graphql/gqlerrors"
)

// ---- verif hook dispatcher: plan-cache events are logged per cache, in lock order ----

type cacheEvent struct {
	E      string
	Key    string
	Schema *graphql.Schema
	Out    string
	Len    int
}

type cacheLog struct {
	mu  sync.Mutex
	evs []cacheEvent
}

var (
	cacheLogs   sync.Map // *graphql.PlanCache -> *cacheLog
	hookOnce    sync.Once
	extraHooks  []func(ev string, args ...interface{})
	extraHookMu sync.RWMutex
)

func installHook() {
	hookOnce.Do(func() {
		graphql.SetVerifHook(func(ev string, args ...interface{}) {
			switch ev {
			case "cache.lookup", "cache.store", "cache.evict", "cache.reset":
				c, _ := args[0].(*graphql.PlanCache)
				if v, ok := cacheLogs.Load(c); ok {
					cl := v.(*cacheLog)
					ce := cacheEvent{E: ev[len("cache."):]}
					if len(args) > 1 {
						ce.Key, _ = args[1].(string)
					}
					if len(args) > 2 {
						ce.Schema, _ = args[2].(*graphql.Schema)
					}
					if len(args) > 3 {
						ce.Out, _ = args[3].(string)
					}
					if len(args) > 4 {
						ce.Len, _ = args[4].(int)
					}
					// the hook runs under the cache mutex: the log order is the lock order
					cl.mu.Lock()
					cl.evs = append(cl.evs, ce)
					cl.mu.Unlock()
				}
			}
			extraHookMu.RLock()
			hs := extraHooks
			extraHookMu.RUnlock()
			for _, h := range hs {
				h(ev, args...)
			}
		})
	})
}

// ---- vectors of MC_C06.tla ----

type c06Obs struct {
	Out string `json:"out"`
	Len int    `json:"len"`
}

type c06Step struct {
	O      string `json:"o"`
	S      string `json:"s"`
	Q      int    `json:"q"`
	Text   string `json:"text"`
	Op     string `json:"op"`
	Cls    string `json:"cls"`
	Vars   string `json:"vars"`
	X      c06Obs `json:"x"`
	C      c06Obs `json:"c"`
	MayHit bool   `json:"mayhit"`
}

type c06Vector struct {
	Max   int       `json:"max"`
	Steps []c06Step `json:"steps"`
}

// c06Locations renders the locations of a list of errors (sorted by message, so that the order of errors is free).
func c06Locations(errs []gqlerrors.FormattedError) string {
	var out []string
	for _, e := range errs {
		l := ""
		for _, loc := range e.Locations {
			l += fmt.Sprintf("%d:%d ", loc.Line, loc.Column)
		}
		out = append(out, strings.SplitN(e.Message, "\n", 2)[0]+" @ "+strings.TrimSpace(l))
	}
	sort.Strings(out)
	return strings.Join(out, "; ")
}

func c06Vars(tag string) map[string]interface{} {
	switch tag {
	case "v5":
		return map[string]interface{}{"v": 5}
	case "vt":
		return map[string]interface{}{"v": true}
	}
	return map[string]interface{}{}
}

// twoSchemas: two instances of the same schema (same shape, different pointers).
func twoSchemas(wk *worker) map[string]*abs.Built {
	if m, ok := wk.cache["two"].(map[string]*abs.Built); ok {
		return m
	}
	b1 := builtFor(wk)
	if b1 == nil {
		return nil
	}
	b2, err := abs.Build(b1.Abs)
	if err != nil {
		return nil
	}
	m := map[string]*abs.Built{"s1": b1, "s2": b2}
	wk.cache["two"] = m
	return m
}

// exactSeen: the same (operation name, text) was requested on the same schema instance earlier in the
// history with no reset in between.
func exactSeen(v *c06Vector, i int) bool {
	for j := i - 1; j >= 0; j-- {
		if v.Steps[j].O == "reset" {
			return false
		}
		if v.Steps[j].Text == v.Steps[i].Text && v.Steps[j].Op == v.Steps[i].Op && v.Steps[j].S == v.Steps[i].S {
			return true
		}
	}
	return false
}

func callsKey(cs []abs.Call) map[string]int {
	m := map[string]int{}
	for _, c := range cs {
		m[c.Key()]++
	}
	return m
}

func init() {
	handlers["C06"] = func(fs *flag.FlagSet) handler {
		traceOut := fs.String("trace-out", "", "NDJSON trace for Trace_C06")
		capLines := fs.Int("trace-cap", 60000, "max trace lines")
		var tw *traceWriter
		var once sync.Once
		return func(tag string, raw []byte, st *Stats, wk *worker) {
			once.Do(func() {
				installHook()
				if *traceOut != "" {
					tw = openTrace(*traceOut, *capLines)
					atExit = append(atExit, func() { tw.close(map[string]string{"t": "end"}) })
				}
			})
			switch tag {
			case "SCHEMA":
				handleSchemaLine(raw, st, wk)
			case "VEC":
				replayC06(raw, st, wk, tw)
			}
		}
	}
}

func replayC06(raw []byte, st *Stats, wk *worker, tw *traceWriter) {
	var v c06Vector
	if err := json.Unmarshal(raw, &v); err != nil {
		st.Mismatch(Mismatch{What: "infra: bad vector: " + err.Error()})
		return
	}
	schemas := twoSchemas(wk)
	if schemas == nil {
		st.Mismatch(Mismatch{What: "infra: no schema"})
		return
	}
	st.Add("vectors", 1)
	nontrivial := false
	for _, s := range v.Steps {
		if s.X.Out == "hit" || s.C.Out == "hit" || s.X.Out == "stale" {
			nontrivial = true
		}
	}
	if nontrivial {
		st.Distinct("distinct_nontrivial", string(raw))
	}
	for _, mode := range []string{"plain", "normalize", "nil", "oversize"} {
		if why, detail := runC06History(&v, mode, schemas, st, tw); why != "" {
			st.Mismatch(Mismatch{What: "C06 [" + mode + "] " + why, Detail: detail, Vector: raw})
			return
		}
	}
	if len(v.Steps) > 0 {
		st.Sample(map[string]interface{}{"max": v.Max, "history": func() []string {
			var out []string
			for _, s := range v.Steps {
				if s.O == "reset" {
					out = append(out, "Reset")
				} else {
					out = append(out, fmt.Sprintf("Get(%s, %q, op=%q)", s.S, s.Text, s.Op))
				}
			}
			return out
		}()})
	}
}

func runC06History(v *c06Vector, mode string, schemas map[string]*abs.Built, st *Stats, tw *traceWriter) (string, interface{}) {
	var cache *graphql.PlanCache
	switch mode {
	case "plain":
		cache = graphql.NewPlanCache(graphql.PlanCacheOptions{MaxEntries: v.Max})
	case "normalize":
		cache = graphql.NewPlanCache(graphql.PlanCacheOptions{MaxEntries: v.Max, Normalize: true})
	case "oversize":
		cache = graphql.NewPlanCache(graphql.PlanCacheOptions{MaxEntries: v.Max, MaxQueryBytes: 3})
	case "nil":
		cache = nil
	}
	cl := &cacheLog{}
	if cache != nil {
		cacheLogs.Store(cache, cl)
		defer cacheLogs.Delete(cache)
	}
	keyNames := map[string]string{}
	keyName := func(k string) string {
		if n, ok := keyNames[k]; ok {
			return n
		}
		n := fmt.Sprintf("k%d", len(keyNames)+1)
		keyNames[k] = n
		return n
	}
	schemaName := func(p *graphql.Schema) string {
		for n, b := range schemas {
			if p == &b.Schema {
				return n
			}
		}
		return "s?"
	}
	lines := []interface{}{map[string]interface{}{"t": "new", "max": v.Max, "mode": mode}}
	createdBy := map[string]string{} // cache key -> the request text its entry was planned from (store events)
	for i := range v.Steps {
		s := &v.Steps[i]
		detail := func(extra interface{}) interface{} {
			return map[string]interface{}{"step": i, "mode": mode, "history": v.Steps[:i+1], "observed": extra}
		}
		cl.mu.Lock()
		cl.evs = cl.evs[:0]
		cl.mu.Unlock()
		if s.O == "reset" {
			cache.Reset()
			if cache != nil && mode != "nil" {
				lines = append(lines, map[string]interface{}{"t": "ev", "e": "reset"})
			}
			continue
		}
		b := schemas[s.S]
		h0, m0 := cache.HitsMisses()
		var pr graphql.PlanResult
		var pan string
		func() {
			defer func() {
				if r := recover(); r != nil {
					pan = fmt.Sprint(r)
				}
			}()
			pr = cache.Get(&b.Schema, s.Text, s.Op)
		}()
		if pan != "" {
			return "PlanCache.Get panicked: " + pan, detail(nil)
		}
		h1, m1 := cache.HitsMisses()
		st.Add("executions", 1)
		// cache mechanics
		cl.mu.Lock()
		evs := append([]cacheEvent(nil), cl.evs...)
		cl.mu.Unlock()
		obsOut, obsLen := "none", -1
		creator := s.Text
		for _, e := range evs {
			switch e.E {
			case "lookup":
				obsOut, obsLen = e.Out, e.Len
				if t, ok := createdBy[e.Key]; ok && e.Out == "hit" {
					creator = t
				}
				lines = append(lines, map[string]interface{}{"t": "ev", "e": "lookup", "k": keyName(e.Key), "s": schemaName(e.Schema),
					"out": e.Out, "len": e.Len, "sem": s.Op + "|" + s.Cls})
			case "evict":
				lines = append(lines, map[string]interface{}{"t": "ev", "e": "evict", "k": keyName(e.Key)})
			case "store":
				obsLen = e.Len
				createdBy[e.Key] = s.Text
				lines = append(lines, map[string]interface{}{"t": "ev", "e": "store", "k": keyName(e.Key), "s": schemaName(e.Schema), "len": e.Len})
			}
		}
		switch mode {
		case "nil", "oversize":
			if h1 != h0 || m1 != m0 || len(evs) != 0 {
				return "a bypassing Get touched the cache", detail(evs)
			}
		case "plain":
			// The property does not prescribe the replacement policy: a hit must be PERMITTED (the very same
			// request was served on this schema instance since the last reset), the bound must hold and the
			// counters must tell the truth.  (Whether the LRU model would have hit is only counted.)
			if obsOut == "hit" && s.X.Out != "hit" && !exactSeen(v, i) {
				return "a hit was served for a request that was not made before on this schema instance", detail(evs)
			}
			if obsLen > v.Max {
				return fmt.Sprintf("cache retains %d entries, MaxEntries is %d", obsLen, v.Max), detail(evs)
			}
			if obsOut != s.X.Out {
				st.Add("plain_differs_from_lru_model", 1)
			}
			if (obsOut == "hit") != (h1 == h0+1) || (obsOut != "hit") != (m1 == m0+1) {
				return "hit/miss counters do not match the lookup outcome", detail([]uint64{h0, m0, h1, m1})
			}
		case "normalize":
			if obsOut == "hit" && !s.MayHit {
				return "a hit was served although no request of the same class and schema preceded it (entries conflated)", detail(evs)
			}
			if obsLen > v.Max {
				return fmt.Sprintf("cache retains %d entries, MaxEntries is %d", obsLen, v.Max), detail(evs)
			}
			if obsOut != "hit" && s.C.Out == "hit" {
				st.Add("normalize_extra_miss", 1)
			}
			if h1+m1 != h0+m0+1 {
				return "hits+misses did not advance by one", detail([]uint64{h0, m0, h1, m1})
			}
		}
		// normalisation must not modify the document it is given
		if mode == "normalize" {
			d1, e1 := parseDoc(s.Text)
			d2, e2 := parseDoc(s.Text)
			if e1 == nil && e2 == nil {
				func() {
					defer func() { recover() }()
					graphql.VerifNormalize(&b.Schema, d1, s.Op)
				}()
				if !reflect.DeepEqual(d1, d2) {
					return "normalisation modified the caller's document", detail(s.Text)
				}
			}
		}
		// transparency: same response as the from-scratch path
		vars := c06Vars(s.Vars)
		rcF := &abs.RunCtx{Built: b, Root: rootObject, RootTag: "r", MutateArgs: true}
		fresh := runDo(b, s.Text, s.Op, vars, rcF)
		// ... including WHERE its errors point: into the text of this request
		sameLocations := func(got []gqlerrors.FormattedError) string {
			if len(got) == 0 || cache == nil || (mode != "plain" && mode != "normalize") {
				return ""
			}
			own := c06Locations(graphql.Do(graphql.Params{Schema: b.Schema, RequestString: s.Text, OperationName: s.Op,
				RootObject: rootObject, VariableValues: vars, Context: abs.WithRun(context.Background(), &abs.RunCtx{Built: b, Root: rootObject, RootTag: "r"})}).Errors)
			if c06Locations(got) == own {
				return ""
			}
			if mode == "normalize" && obsOut == "hit" && creator != s.Text {
				first := c06Locations(graphql.Do(graphql.Params{Schema: b.Schema, RequestString: creator, OperationName: s.Op,
					RootObject: rootObject, VariableValues: vars, Context: abs.WithRun(context.Background(), &abs.RunCtx{Built: b, Root: rootObject, RootTag: "r"})}).Errors)
				if c06Locations(got) == first {
					st.KnownHit("D_C06_normalized_locations_of_first_text")
					return ""
				}
			}
			return fmt.Sprintf("[%s] the errors of the response served through the cache are located at %s, the from-scratch response to the same text locates them at %s", mode, c06Locations(got), own)
		}
		if len(pr.Errors) > 0 {
			if pr.Plan != nil {
				return "PlanResult carries both a plan and errors", detail(nil)
			}
			if !(fresh.NoData && len(fresh.Errs) > 0) {
				return "the cache path refuses the request (" + pr.Errors[0].Message + ") but the from-scratch path answers " + fresh.Data.Canon(), detail(nil)
			}
			if why := sameLocations(pr.Errors); why != "" {
				return why, detail(s.Text)
			}
			continue
		}
		if pr.Plan == nil {
			return "PlanResult has neither plan nor errors", detail(nil)
		}
		args := map[string]interface{}{}
		for k, x := range vars {
			args[k] = x
		}
		for k, x := range pr.SynthArgs {
			args[k] = x
		}
		// resolvers mutate the Args map they are given: a plan served again from the cache must not remember it
		rcC := &abs.RunCtx{Built: b, Root: rootObject, RootTag: "r", MutateArgs: true}
		res, pan2 := guard(func() *graphql.Result {
			return graphql.ExecutePlan(pr.Plan, graphql.ExecuteParams{Schema: b.Schema, Root: rootObject, Args: args,
				Context: abs.WithRun(context.Background(), rcC)})
		})
		cached := projectResult(res, rcC)
		if pan2 != "" {
			return "ExecutePlan panicked: " + pan2, detail(nil)
		}
		if cached.Data.Canon() != fresh.Data.Canon() {
			return "response through the cache " + cached.Data.Canon() + fmt.Sprint(cached.Msgs) + " differs from the from-scratch response " + fresh.Data.Canon() + fmt.Sprint(fresh.Msgs), detail(nil)
		}
		if len(cached.Errs) != len(fresh.Errs) {
			return fmt.Sprintf("errors through the cache %v differ from from-scratch errors %v", cached.Msgs, fresh.Msgs), detail(nil)
		}
		if res != nil {
			if why := sameLocations(res.Errors); why != "" {
				return why, detail(s.Text)
			}
		}
		if !reflect.DeepEqual(callsKey(cached.Calls), callsKey(fresh.Calls)) {
			return fmt.Sprintf("resolvers saw different parameters through the cache: %v vs from scratch %v", callsKey(cached.Calls), callsKey(fresh.Calls)), detail(nil)
		}
		st.Add("agree", 1)
	}
	if tw != nil && (mode == "plain" || mode == "normalize") && len(lines) > 1 {
		if tw.put(lines) {
			st.Add("trace_lines", int64(len(lines)))
		}
	}
	return "", nil
}
