package main

// C14E: the editing half of the visitor contract (spec/VisitorEdit.tla, generator spec/MC_C14E.tla).
//
// TLC emits, per (tree, open policy prefix), the abstract tree and one case per final decision; per
// case and mode ("policy": the policy alone; "printer": every leave the policy does not decide is
// answered with a text made from the node handed to the callback, the way the library's printer
// uses the visitor) the events the reference prescribes, the result (the edited tree / a text /
// "deleted" / "unedited" / unspecified after a break) and, for every set of recorded deviations
// that changes the outcome, the deviated outcome (result and the state the ORIGINAL is left in).
//
// This file BUILDS the real AST for the abstract tree (every node carries its abstract id in
// Loc.Start, which survives the library's conversion of nodes to maps), runs the REAL
// visitor.Visit with callbacks that answer according to the policy and record what they are told,
// projects the returned value and the original back to the abstract form and compares.  It knows
// nothing about edit semantics: builders, projections, a structural comparison.

import (
	"bytes"
	"encoding/json"
	"flag"
	"fmt"
	"reflect"
	"sort"
	"strconv"
	"strings"

	"github.com/graphql-go/graphql/language/ast"
	"github.com/graphql-go/graphql/language/visitor"
)

// ---- abstract trees: [id, kind, label, [[key, list, [nodes]]]] ----

type eSlot struct {
	Key   string
	List  bool
	Nodes []*eNode
}

type eNode struct {
	ID    int
	Kind  string
	Label string
	Slots []eSlot
}

func (n *eNode) UnmarshalJSON(b []byte) error {
	var t []json.RawMessage
	if err := json.Unmarshal(b, &t); err != nil {
		return err
	}
	if len(t) != 4 {
		return fmt.Errorf("node tuple of length %d", len(t))
	}
	if err := json.Unmarshal(t[0], &n.ID); err != nil {
		return err
	}
	if err := json.Unmarshal(t[1], &n.Kind); err != nil {
		return err
	}
	if err := json.Unmarshal(t[2], &n.Label); err != nil {
		return err
	}
	var ss []json.RawMessage
	if err := json.Unmarshal(t[3], &ss); err != nil {
		return err
	}
	for _, raw := range ss {
		var st []json.RawMessage
		if err := json.Unmarshal(raw, &st); err != nil {
			return err
		}
		if len(st) != 3 {
			return fmt.Errorf("slot tuple of length %d", len(st))
		}
		var s eSlot
		if err := json.Unmarshal(st[0], &s.Key); err != nil {
			return err
		}
		if err := json.Unmarshal(st[1], &s.List); err != nil {
			return err
		}
		if err := json.Unmarshal(st[2], &s.Nodes); err != nil {
			return err
		}
		n.Slots = append(n.Slots, s)
	}
	return nil
}

func (n *eNode) String() string {
	if n == nil {
		return "nil"
	}
	if n.Kind == "#str" {
		return strconv.Quote(n.Label)
	}
	var sb strings.Builder
	fmt.Fprintf(&sb, "%d:%s", n.ID, n.Kind)
	if n.Label != "" {
		fmt.Fprintf(&sb, "%q", n.Label)
	}
	if len(n.Slots) > 0 {
		sb.WriteString("(")
		ss := append([]eSlot{}, n.Slots...)
		sort.Slice(ss, func(i, j int) bool { return ss[i].Key < ss[j].Key })
		for i, s := range ss {
			if i > 0 {
				sb.WriteString(" ")
			}
			sb.WriteString(s.Key + "=")
			if s.List {
				sb.WriteString("[")
			}
			for j, c := range s.Nodes {
				if j > 0 {
					sb.WriteString(",")
				}
				sb.WriteString(c.String())
			}
			if s.List {
				sb.WriteString("]")
			}
		}
		sb.WriteString(")")
	}
	return sb.String()
}

// eDiff compares two abstract trees: slots as an unordered table key -> (list?, nodes), the nodes
// of a slot in order.  "" = equal.
func eDiff(want, got *eNode, at string) string {
	if want == nil || got == nil {
		if want == got {
			return ""
		}
		return fmt.Sprintf("%s: expected %s, observed %s", at, want, got)
	}
	if want.ID != got.ID || want.Kind != got.Kind || want.Label != got.Label {
		return fmt.Sprintf("%s: expected node %d %s %q, observed node %d %s %q", at, want.ID, want.Kind, want.Label, got.ID, got.Kind, got.Label)
	}
	gs := map[string]*eSlot{}
	for i := range got.Slots {
		gs[got.Slots[i].Key] = &got.Slots[i]
	}
	for i := range want.Slots {
		w := &want.Slots[i]
		g := gs[w.Key]
		where := fmt.Sprintf("%s/%d.%s", at, want.ID, w.Key)
		if g == nil {
			return fmt.Sprintf("%s: expected %d child(ren), observed none", where, len(w.Nodes))
		}
		delete(gs, w.Key)
		if w.List != g.List {
			return fmt.Sprintf("%s: expected list=%v, observed list=%v", where, w.List, g.List)
		}
		if len(w.Nodes) != len(g.Nodes) {
			return fmt.Sprintf("%s: expected %d child(ren) %v, observed %d %v", where, len(w.Nodes), w.Nodes, len(g.Nodes), g.Nodes)
		}
		for j := range w.Nodes {
			if d := eDiff(w.Nodes[j], g.Nodes[j], where); d != "" {
				return d
			}
		}
	}
	for k, g := range gs {
		return fmt.Sprintf("%s/%d.%s: expected no child, observed %v", at, want.ID, k, g.Nodes)
	}
	return ""
}

// ---- building the real AST ----

var eNew = map[string]func() ast.Node{
	"Name":                func() ast.Node { return ast.NewName(nil) },
	"Document":            func() ast.Node { return ast.NewDocument(nil) },
	"OperationDefinition": func() ast.Node { return ast.NewOperationDefinition(nil) },
	"FragmentDefinition":  func() ast.Node { return ast.NewFragmentDefinition(nil) },
	"VariableDefinition":  func() ast.Node { return ast.NewVariableDefinition(nil) },
	"Variable":            func() ast.Node { return ast.NewVariable(nil) },
	"SelectionSet":        func() ast.Node { return ast.NewSelectionSet(nil) },
	"Field":               func() ast.Node { return ast.NewField(nil) },
	"Argument":            func() ast.Node { return ast.NewArgument(nil) },
	"FragmentSpread":      func() ast.Node { return ast.NewFragmentSpread(nil) },
	"InlineFragment":      func() ast.Node { return ast.NewInlineFragment(nil) },
	"IntValue":            func() ast.Node { return ast.NewIntValue(nil) },
	"FloatValue":          func() ast.Node { return ast.NewFloatValue(nil) },
	"StringValue":         func() ast.Node { return ast.NewStringValue(nil) },
	"BooleanValue":        func() ast.Node { return ast.NewBooleanValue(nil) },
	"EnumValue":           func() ast.Node { return ast.NewEnumValue(nil) },
	"ListValue":           func() ast.Node { return ast.NewListValue(nil) },
	"ObjectValue":         func() ast.Node { return ast.NewObjectValue(nil) },
	"ObjectField":         func() ast.Node { return ast.NewObjectField(nil) },
	"Directive":           func() ast.Node { return ast.NewDirective(nil) },
	"Named":               func() ast.Node { return ast.NewNamed(nil) },
	"List":                func() ast.Node { return ast.NewList(nil) },
	"NonNull":             func() ast.Node { return ast.NewNonNull(nil) },
}

// kinds whose label is the struct field Value (a string, or a bool for BooleanValue)
var eValueLabel = map[string]bool{"Name": true, "IntValue": true, "FloatValue": true, "StringValue": true,
	"BooleanValue": true, "EnumValue": true}

// eBuild materialises an abstract tree; order[id] receives the node's slot keys in the order of
// the abstract tree (used only to lay out the text a printing callback produces).
func eBuild(n *eNode, order map[int][]string) (node ast.Node, err error) {
	defer func() {
		if p := recover(); p != nil {
			err = fmt.Errorf("cannot build %s node %d: %v", n.Kind, n.ID, p)
		}
	}()
	mk := eNew[n.Kind]
	if mk == nil {
		return nil, fmt.Errorf("no builder for kind %q", n.Kind)
	}
	node = mk()
	v := reflect.ValueOf(node).Elem()
	v.FieldByName("Loc").Set(reflect.ValueOf(&ast.Location{Start: n.ID, End: n.ID}))
	switch {
	case n.Kind == "BooleanValue":
		v.FieldByName("Value").SetBool(n.Label == "true")
	case eValueLabel[n.Kind]:
		v.FieldByName("Value").SetString(n.Label)
	case n.Kind == "OperationDefinition":
		v.FieldByName("Operation").SetString(n.Label)
	}
	keys := make([]string, 0, len(n.Slots))
	for _, s := range n.Slots {
		keys = append(keys, s.Key)
		f := v.FieldByName(s.Key)
		if !f.IsValid() {
			return nil, fmt.Errorf("%s has no field %s", n.Kind, s.Key)
		}
		if s.List {
			if f.Kind() != reflect.Slice {
				return nil, fmt.Errorf("%s.%s is not a list", n.Kind, s.Key)
			}
			sl := reflect.MakeSlice(f.Type(), len(s.Nodes), len(s.Nodes))
			for i, c := range s.Nodes {
				cn, err := eBuild(c, order)
				if err != nil {
					return nil, err
				}
				sl.Index(i).Set(reflect.ValueOf(cn))
			}
			f.Set(sl)
		} else {
			if len(s.Nodes) != 1 {
				return nil, fmt.Errorf("%s.%s: single slot with %d nodes", n.Kind, s.Key, len(s.Nodes))
			}
			cn, err := eBuild(s.Nodes[0], order)
			if err != nil {
				return nil, err
			}
			f.Set(reflect.ValueOf(cn))
		}
	}
	if order != nil {
		order[n.ID] = keys
	}
	return node, nil
}

// ---- projecting real values back to the abstract form ----

func eLocID(loc interface{}) int {
	switch l := loc.(type) {
	case *ast.Location:
		if l != nil {
			return l.Start
		}
	case map[string]interface{}:
		if s, ok := l["Start"].(int); ok {
			return s
		}
	}
	return -1
}

// eIdent: the abstract id and the kind of a value handed to a callback (an AST struct or the map
// the library converts a node to).
func eIdent(x interface{}) (id int, kind string) {
	switch t := x.(type) {
	case map[string]interface{}:
		kind, _ = t["Kind"].(string)
		return eLocID(t["Loc"]), kind
	case ast.Node:
		if c14NilNode(t) {
			return -1, ""
		}
		return eLocID(t.GetLoc()), t.GetKind()
	}
	return -1, fmt.Sprintf("%T", x)
}

// eChildren lists the children of a real value as an unordered table key -> value, where a value
// is a single child or a slice.
func eChildren(x interface{}) map[string]interface{} {
	out := map[string]interface{}{}
	switch t := x.(type) {
	case map[string]interface{}:
		kind, _ := t["Kind"].(string)
		for k, v := range t {
			if k == "Kind" || k == "Loc" || k == "Operation" || (k == "Value" && eValueLabel[kind]) {
				continue
			}
			out[k] = v
		}
	case ast.Node:
		for _, kid := range c14Kids(t) {
			if kid.List {
				out[kid.Key] = kid.Many
			} else if kid.One != nil {
				out[kid.Key] = kid.One
			}
		}
	}
	return out
}

func eAbsent(v interface{}) bool {
	if v == nil {
		return true
	}
	rv := reflect.ValueOf(v)
	switch rv.Kind() {
	case reflect.Ptr, reflect.Map, reflect.Interface:
		return rv.IsNil()
	case reflect.Slice:
		return rv.Len() == 0
	}
	return false
}

func eProject(x interface{}) *eNode {
	switch t := x.(type) {
	case string:
		return &eNode{Kind: "#str", Label: t}
	case map[string]interface{}:
		n := &eNode{}
		n.ID, n.Kind = eIdent(t)
		switch {
		case eValueLabel[n.Kind]:
			n.Label = fmt.Sprint(t["Value"])
		case n.Kind == "OperationDefinition":
			n.Label = fmt.Sprint(t["Operation"])
		}
		eProjectKids(n, t)
		return n
	case ast.Node:
		if c14NilNode(t) {
			return nil
		}
		n := &eNode{Label: c14Label(t)}
		n.ID, n.Kind = eIdent(t)
		eProjectKids(n, t)
		return n
	}
	return &eNode{ID: -1, Kind: fmt.Sprintf("#%T", x)}
}

func eProjectKids(n *eNode, x interface{}) {
	for k, v := range eChildren(x) {
		if eAbsent(v) {
			continue
		}
		rv := reflect.ValueOf(v)
		if rv.Kind() == reflect.Slice {
			s := eSlot{Key: k, List: true}
			for i := 0; i < rv.Len(); i++ {
				s.Nodes = append(s.Nodes, eProject(rv.Index(i).Interface()))
			}
			n.Slots = append(n.Slots, s)
		} else {
			n.Slots = append(n.Slots, eSlot{Key: k, Nodes: []*eNode{eProject(v)}})
		}
	}
}

// ePrinted: what a printing visitor puts in place of the node it is handed: the node's id and the
// texts its children have been replaced by ("?" for a child that is not a text), the children in
// the slot order of the abstract node.
func ePrinted(x interface{}, id int, order []string) string {
	kids := eChildren(x)
	var sb strings.Builder
	sb.WriteString("(" + strconv.Itoa(id))
	text := func(v interface{}) string {
		if s, ok := v.(string); ok {
			return s
		}
		return "?"
	}
	for _, k := range order {
		v, ok := kids[k]
		if !ok || eAbsent(v) {
			continue
		}
		sb.WriteString(" " + k + "=")
		rv := reflect.ValueOf(v)
		if rv.Kind() == reflect.Slice {
			parts := make([]string, rv.Len())
			for i := range parts {
				parts[i] = text(rv.Index(i).Interface())
			}
			sb.WriteString("[" + strings.Join(parts, ",") + "]")
		} else {
			sb.WriteString(text(v))
		}
	}
	sb.WriteString(")")
	return sb.String()
}

// ---- vectors ----

type eDec struct {
	I int      `json:"i"`
	P string   `json:"p"`
	A string   `json:"a"`
	V []*eNode `json:"v"`
}

type eEv struct {
	Leave bool
	ID    int
	Key   string
	Anc   []int
	Kids  []int // ids of the children of the node handed to the callback, ascending, 0 = a text
}

func (e *eEv) UnmarshalJSON(b []byte) error {
	var t []json.RawMessage
	if err := json.Unmarshal(b, &t); err != nil {
		return err
	}
	if len(t) != 5 {
		return fmt.Errorf("event tuple of length %d", len(t))
	}
	var ph int
	if err := json.Unmarshal(t[0], &ph); err != nil {
		return err
	}
	e.Leave = ph == 1
	if err := json.Unmarshal(t[1], &e.ID); err != nil {
		return err
	}
	if err := json.Unmarshal(t[2], &e.Key); err != nil {
		return err
	}
	if err := json.Unmarshal(t[3], &e.Anc); err != nil {
		return err
	}
	return json.Unmarshal(t[4], &e.Kids)
}

// eKidIDs: the ids of the children of a real value (an AST struct or a map), ascending, each once; a
// text counts as 0.
func eKidIDs(x interface{}) []int {
	seen := map[int]bool{}
	add := func(v interface{}) {
		if eAbsent(v) {
			return
		}
		if _, ok := v.(string); ok {
			seen[0] = true
			return
		}
		id, _ := eIdent(v)
		seen[id] = true
	}
	for _, v := range eChildren(x) {
		if eAbsent(v) {
			continue
		}
		if rv := reflect.ValueOf(v); rv.Kind() == reflect.Slice {
			for i := 0; i < rv.Len(); i++ {
				add(rv.Index(i).Interface())
			}
		} else {
			add(v)
		}
	}
	ids := make([]int, 0, len(seen))
	for id := range seen {
		ids = append(ids, id)
	}
	sort.Ints(ids)
	return ids
}

func (e eEv) String() string {
	ph := "+"
	if e.Leave {
		ph = "-"
	}
	return fmt.Sprintf("%s%d@%s%v", ph, e.ID, e.Key, e.Anc)
}

type eRes struct {
	K string   `json:"k"` // "tree" | "deleted" | "unedited" | "unspec"
	T []*eNode `json:"t"`
}

type eAlt struct {
	Devs  []string          `json:"devs"`
	Ev    []eEv             `json:"ev"`   // empty: the first nev specified events
	Res   []eRes            `json:"res"`  // empty: as specified
	Orig  []json.RawMessage `json:"orig"` // ["same"] | ["res"] | ["tree", node]
	Nev   int               `json:"nev"`
	Panic bool              `json:"panic"`
}

type eRunExp struct {
	Mode string `json:"mode"`
	Ev   []eEv  `json:"ev"`
	Res  eRes   `json:"res"`
	Alts []eAlt `json:"alts"`
}

type eCase struct {
	D    []eDec    `json:"d"`
	Runs []eRunExp `json:"runs"`
}

type eVec struct {
	Fam   string   `json:"fam"`
	Tn    int      `json:"tn"`
	Tree  *eNode   `json:"tree"`
	Pre   []eDec   `json:"pre"`
	Modes []string `json:"modes"`
	Cases []eCase  `json:"cases"`
}

// ---- one execution ----

type eObs struct {
	ev     []eEv
	kinds  []string
	notes  []string
	result interface{}
	pan    string
}

type ePolKey struct {
	id    int
	leave bool
}

var eFormKinds = []string{"Name", "Document", "OperationDefinition", "FragmentDefinition", "VariableDefinition", "Variable",
	"SelectionSet", "Field", "Argument", "FragmentSpread", "InlineFragment", "IntValue", "FloatValue", "StringValue",
	"BooleanValue", "EnumValue", "ListValue", "ObjectValue", "ObjectField", "Directive", "Named", "List", "NonNull"}

// eOptions registers the two callbacks in one of three visitor forms.
func eOptions(form int, enter, leave visitor.VisitFunc) *visitor.VisitorOptions {
	switch form % 3 {
	case 1:
		o := &visitor.VisitorOptions{KindFuncMap: map[string]visitor.NamedVisitFuncs{}}
		for _, k := range eFormKinds {
			o.KindFuncMap[k] = visitor.NamedVisitFuncs{Enter: enter, Leave: leave}
		}
		return o
	case 2:
		o := &visitor.VisitorOptions{EnterKindMap: map[string]visitor.VisitFunc{}, LeaveKindMap: map[string]visitor.VisitFunc{}}
		for _, k := range eFormKinds {
			o.EnterKindMap[k] = enter
			o.LeaveKindMap[k] = leave
		}
		return o
	}
	return &visitor.VisitorOptions{Enter: enter, Leave: leave}
}

func eRun(root ast.Node, pol map[ePolKey]*eDec, printer bool, order map[int][]string, form int, maxEvents int) *eObs {
	o := &eObs{}
	cb := func(leave bool) visitor.VisitFunc {
		return func(p visitor.VisitFuncParams) (string, interface{}) {
			id, kind := eIdent(p.Node)
			e := eEv{Leave: leave, ID: id, Key: keyString(p.Key), Kids: eKidIDs(p.Node)}
			for _, a := range p.Ancestors {
				if !c14NilNode(a) {
					aid, _ := eIdent(a)
					e.Anc = append(e.Anc, aid)
				}
			}
			if !c14NilNode(p.Parent) {
				pid, _ := eIdent(p.Parent)
				e.Anc = append(e.Anc, pid)
			}
			if len(o.ev) > maxEvents {
				panic(fmt.Sprintf("traversal does not end: more than %d callbacks", maxEvents))
			}
			o.ev = append(o.ev, e)
			o.kinds = append(o.kinds, kind)
			if d := pol[ePolKey{id, leave}]; d != nil {
				switch d.A {
				case "skip":
					return visitor.ActionSkip, nil
				case "break":
					return visitor.ActionBreak, nil
				case "delete":
					return visitor.ActionUpdate, nil
				case "update":
					n, err := eBuild(d.V[0], order)
					if err != nil {
						o.notes = append(o.notes, "infra: "+err.Error())
						return visitor.ActionBreak, nil
					}
					return visitor.ActionUpdate, n
				}
			}
			if printer && leave {
				return visitor.ActionUpdate, ePrinted(p.Node, id, order[id])
			}
			return visitor.ActionNoChange, nil
		}
	}
	o.pan = c14Guard(func() { o.result = visitor.Visit(root, eOptions(form, cb(false), cb(true)), nil) })
	return o
}

func eSameInts(a, b []int) bool {
	if len(a) != len(b) {
		return false
	}
	for i := range a {
		if a[i] != b[i] {
			return false
		}
	}
	return true
}

// what is expected of one execution: the first nev events of the specified sequence, the result,
// the state of the original, whether a panic escapes
type eExpect struct {
	ev    []eEv
	res   eRes
	orig  *eNode // the abstract tree the original must project to
	same  bool   // ... and the original must be deep-equal to a fresh build
	panic bool
}

func eJudge(x *eExpect, o *eObs, tree *eNode, orig ast.Node, fresh ast.Node, kindOf func(int) string) string {
	for _, n := range o.notes {
		return n
	}
	if x.panic != (o.pan != "") {
		if o.pan != "" {
			return "panic escaped from visitor.Visit: " + o.pan
		}
		return "no panic"
	}
	evs := func(es []eEv) string {
		parts := make([]string, len(es))
		for i, e := range es {
			parts[i] = e.String()
		}
		return strings.Join(parts, " ")
	}
	if len(o.ev) != len(x.ev) {
		return fmt.Sprintf("event sequence differs: expected %d events [%s], observed %d [%s]", len(x.ev), evs(x.ev), len(o.ev), evs(o.ev))
	}
	for i := range x.ev {
		w, g := x.ev[i], o.ev[i]
		if w.Leave != g.Leave || w.ID != g.ID {
			return fmt.Sprintf("event %d differs: expected %s, observed %s (expected [%s], observed [%s])", i+1, w, g, evs(x.ev), evs(o.ev))
		}
		if k := kindOf(w.ID); k != o.kinds[i] {
			return fmt.Sprintf("event %d (%s): the callback was handed a node of kind %q, node %d is a %s", i+1, w, o.kinds[i], w.ID, k)
		}
		if w.Key != g.Key {
			return fmt.Sprintf("event %d (%s): Key is %q, expected %q", i+1, w, g.Key, w.Key)
		}
		if !eSameInts(w.Anc, g.Anc) {
			return fmt.Sprintf("event %d (%s): non-nil Ancestors followed by Parent are nodes %v, the enclosing nodes are %v", i+1, w, g.Anc, w.Anc)
		}
		if !eSameInts(w.Kids, g.Kids) {
			return fmt.Sprintf("event %d (%s): the node handed to the callback has the children %v, expected %v (the edits of its children applied)", i+1, w, g.Kids, w.Kids)
		}
	}
	if !x.panic {
		switch x.res.K {
		case "unspec":
		case "deleted":
			if !ifaceNil(o.result) {
				return fmt.Sprintf("the root was removed, Visit returned %s", eProject(o.result))
			}
		case "unedited":
			// what is returned when nothing was edited (the root or nothing) is left open
			if !ifaceNil(o.result) {
				if d := eDiff(tree, eProject(o.result), "result"); d != "" {
					return "no edit was requested, Visit returned something that is not the tree it was given: " + d
				}
			}
		case "tree":
			if ifaceNil(o.result) {
				return fmt.Sprintf("Visit returned nil, expected the edited tree %s", x.res.T[0])
			}
			if d := eDiff(x.res.T[0], eProject(o.result), "result"); d != "" {
				return "the returned tree differs from the original by other than the requested edits: " + d
			}
		}
	}
	if d := eDiff(x.orig, eProject(orig), "original"); d != "" {
		return "the ORIGINAL tree was modified by the traversal: " + d
	}
	if x.same && !reflect.DeepEqual(orig, fresh) {
		return "the ORIGINAL tree is no longer deep-equal to a fresh build of the same tree"
	}
	return ""
}

func eIndexKinds(n *eNode, m map[int]string) {
	m[n.ID] = n.Kind
	for _, s := range n.Slots {
		for _, c := range s.Nodes {
			eIndexKinds(c, m)
		}
	}
}

func eEdits(ds ...[]eDec) (n int) {
	for _, d := range ds {
		for _, x := range d {
			if x.A == "update" || x.A == "delete" {
				n++
			}
		}
	}
	return
}

func ePolString(ds ...[]eDec) string {
	var parts []string
	for _, d := range ds {
		for _, x := range d {
			s := x.A + "@" + x.P + strconv.Itoa(x.I)
			if x.A == "update" {
				s += "->" + x.V[0].String()
			}
			parts = append(parts, s)
		}
	}
	return strings.Join(parts, ", ")
}

func replayC14E(raw []byte, st *Stats, wk *worker) {
	var v eVec
	if err := json.Unmarshal(raw, &v); err != nil {
		st.Mismatch(Mismatch{What: "infra: bad C14E vector: " + err.Error()})
		return
	}
	st.Add("vectors", 1)
	nExec := 0
	for ci := range v.Cases {
		c := &v.Cases[ci]
		st.Add("cases", 1)
		pol := map[ePolKey]*eDec{}
		kinds := map[int]string{}
		eIndexKinds(v.Tree, kinds)
		for _, ds := range [][]eDec{v.Pre, c.D} {
			for i := range ds {
				d := &ds[i]
				pol[ePolKey{d.I, d.P == "leave"}] = d
				if d.A == "update" {
					if len(d.V) != 1 {
						st.Mismatch(Mismatch{What: "infra: C14E update decision without a replacement"})
						return
					}
					eIndexKinds(d.V[0], kinds)
				}
			}
		}
		kindOf := func(id int) string { return kinds[id] }
		polStr := ePolString(v.Pre, c.D)
		if eEdits(v.Pre, c.D) > 0 {
			st.Distinct("distinct_nontrivial", v.Tree.String()+"|"+polStr)
		}
		for ri := range c.Runs {
			r := &c.Runs[ri]
			// three visitor forms, rotating with the case number
			form := ci + ri
			order := map[int][]string{}
			orig, err := eBuild(v.Tree, order)
			if err != nil {
				st.Mismatch(Mismatch{What: "infra: C14E cannot build the tree: " + err.Error()})
				return
			}
			fresh, _ := eBuild(v.Tree, nil)
			if d := eDiff(v.Tree, eProject(orig), "built"); d != "" {
				st.Mismatch(Mismatch{What: "infra: C14E the built AST does not project back to the abstract tree: " + d})
				return
			}
			o := eRun(orig, pol, r.Mode == "printer", order, form, 8*len(r.Ev)+64)
			nExec++
			ideal := &eExpect{ev: r.Ev, res: r.Res, orig: v.Tree, same: true}
			fail := eJudge(ideal, o, v.Tree, orig, fresh, kindOf)
			if strings.HasPrefix(fail, "infra:") {
				st.Mismatch(Mismatch{What: fail})
				return
			}
			if fail != "" {
				// the outcome under each set of LISTED deviations that has a say in this case (smallest first);
				// never a pattern on inputs: the specification computed these outcomes
				for ai := range r.Alts {
					a := &r.Alts[ai]
					if !devsListed(a.Devs) || a.Nev > len(r.Ev) || len(a.Orig) == 0 {
						continue
					}
					x := &eExpect{ev: r.Ev[:a.Nev], res: r.Res, panic: a.Panic}
					if len(a.Ev) > 0 {
						x.ev = a.Ev
					}
					if len(a.Res) == 1 {
						x.res = a.Res[0]
					}
					var how string
					json.Unmarshal(a.Orig[0], &how)
					switch how {
					case "same":
						x.orig, x.same = v.Tree, true
					case "res":
						if x.res.K != "tree" {
							continue
						}
						x.orig = x.res.T[0]
					case "tree":
						var t eNode
						if len(a.Orig) != 2 || json.Unmarshal(a.Orig[1], &t) != nil {
							continue
						}
						x.orig = &t
					default:
						continue
					}
					if eJudge(x, o, v.Tree, orig, fresh, kindOf) == "" {
						for _, d := range a.Devs {
							st.KnownHit(d)
						}
						fail = ""
						break
					}
				}
			}
			if fail != "" {
				st.Mismatch(Mismatch{What: "C14 edits (" + r.Mode + "): " + fail,
					Detail: map[string]interface{}{"tree": v.Tree.String(), "tree_number": v.Tn, "family": v.Fam, "mode": r.Mode,
						"policy (answer@phase node id -> replacement)": polStr, "case": ci,
						"returned": eProject(o.result).String(), "original_after": eProject(orig).String()},
					Vector: c14eMinimal(raw, ci)})
				st.Add("executions", int64(nExec))
				return
			}
		}
	}
	st.Add("executions", int64(nExec))
	if len(v.Cases) > 1 {
		c := v.Cases[len(v.Cases)/2]
		st.Sample(map[string]interface{}{"tree": v.Tree.String(), "family": v.Fam, "policy": ePolString(v.Pre, c.D),
			"expected_events": len(c.Runs[0].Ev), "expected_result": c.Runs[0].Res.K})
	}
}

// c14eMinimal keeps only the failing case in the stored vector.
func c14eMinimal(raw []byte, ci int) json.RawMessage {
	var m map[string]json.RawMessage
	if json.Unmarshal(raw, &m) != nil {
		return raw
	}
	var cases []json.RawMessage
	if json.Unmarshal(m["cases"], &cases) != nil || ci >= len(cases) {
		return raw
	}
	m["cases"], _ = json.Marshal(cases[ci : ci+1])
	b, err := json.Marshal(m)
	if err != nil {
		return raw
	}
	return b
}

// an edit vector carries its tree number under the key "tn" (a C14 vector has no such key; inside a
// JSON string the quotes would be escaped).  Stored violations of the C14E stages are replayed by
// `bin/check C14 --replay`, which addresses the handler "C14".
func isC14EVector(raw []byte) bool {
	return bytes.Contains(raw, []byte(`"tn":`))
}

func init() {
	handlers["C14E"] = func(fs *flag.FlagSet) handler {
		return func(tag string, raw []byte, st *Stats, wk *worker) {
			if tag == "VEC" {
				replayC14E(raw, st, wk)
			}
		}
	}
	// (package initialisation runs the files in name order: c14.go has registered "C14")
	if prev := handlers["C14"]; prev != nil {
		handlers["C14"] = func(fs *flag.FlagSet) handler {
			h := prev(fs)
			return func(tag string, raw []byte, st *Stats, wk *worker) {
				if tag == "VEC" && isC14EVector(raw) {
					replayC14E(raw, st, wk)
					return
				}
				h(tag, raw, st, wk)
			}
		}
	}
}
