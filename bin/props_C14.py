"""C14 - AST traversal visits every node once, in order, honouring skip and break.

Specification: spec/Visitor.tla (reference walk, stack machine, parallel views, visitor forms,
TreeOf with static typing, type tracker); generator and families: spec/MC_C14.tla; binding:
harness/cmd/gqlv/c14.go.

The editing half of the contract (a callback answers ActionUpdate): specification spec/VisitorEdit.tla
(reference semantics, small-step machine shaped like the library's loop, recorded deviations), generator
spec/MC_C14E.tla, binding harness/cmd/gqlv/c14e.go (stages *_C14E_* / Spec_VisitorEdit_* below)."""
import os

from props import tlc_replay, tlc_check, VERIF

# The harness reads the same known-findings file as bin/check's verdict printer (the one of this
# checkout).  C14_KNOWN / C14_GQLV exist for mutation testing of the check itself: a scratch
# findings file, a gqlv binary built against a mutated copy of the library.
KNOWN = os.environ.get("C14_KNOWN", os.path.join(VERIF, "known_findings.json"))
GQLV = os.environ.get("C14_GQLV")


def consts(fams, spec="SpecAll", leafs="NoSel", comps="NoSel", inlines="NoSel", frags="NoFrags", spread="NoSpread",
           dirs="DirsNone", maxsel=2, maxnodes=2, maxdepth=2, ngen=1, maxdec=0, mdocs="{}"):
    return {"Sch": "<- S1", "Frags": "<- " + frags, "OpKind": '"query"', "MaxSel": maxsel, "MaxNodes": maxnodes,
            "MaxDepth": maxdepth, "DirSet": "<- " + dirs, "Leafs": "<- " + leafs, "Comps": "<- " + comps,
            "Inlines": "<- " + inlines, "SpreadOK": "<- " + spread, "Fams": "<- " + fams, "NGen": ngen,
            "MaxDec": maxdec, "MDocIds": mdocs}


def family(name, fams, spec="SpecAll", timeout=900, **kw):
    st = tlc_replay("MC_C14_" + name, "MC_C14", "C14",
                    dict(spec=spec, constants=consts(fams, **kw), invariants=["Emit"]),
                    workers=8, timeout=timeout, replay_args=["--known", KNOWN],
                    java_opts="-Xss64m -XX:ParallelGCThreads=4")
    if GQLV:
        st["gqlv"] = GQLV
    return st


def machine(name, ngen, maxdec, mdocs, timeout=900):
    return tlc_check("Spec_Visitor_" + name, "MC_C14",
                     dict(spec="SpecMachine", constants=consts("FamsGenK1", ngen=ngen, maxdec=maxdec, mdocs=mdocs),
                          invariants=["MRefines", "GenericNumbered"]),
                     workers=8, timeout=timeout, java_opts="-Xss64m -XX:ParallelGCThreads=4")


def edit_consts(fams="FamsQuick", ngen=1, maxdec=0, mtrees="{}"):
    return {"Fams": "<- " + fams, "NGen": ngen, "MaxDec": maxdec, "MTrees": mtrees}


def edit_family(name, fams, timeout=1800):
    """MC_C14E: (tree, lazily enumerated edit policy) cases replayed into the real visitor.Visit (handler C14E)."""
    st = tlc_replay("MC_C14E_" + name, "MC_C14E", "C14E",
                    dict(spec="SpecGenE", constants=edit_consts(fams), invariants=["Emit"]),
                    workers=8, timeout=timeout, replay_args=["--known", KNOWN],
                    java_opts="-Xss64m -XX:ParallelGCThreads=4")
    if GQLV:
        st["gqlv"] = GQLV
    # C14 quantifies over policies of continue / skip / break; the editing half of the visitor contract is coverage
    # of the system beyond the property's statement: bound to the code on every run, reported, never a verdict
    st["beyond"] = True
    return st


def edit_machine(name, ngen, maxdec, mtrees, timeout=1800):
    """VisitorEdit.tla: the small-step machine (frames, edits lists, index offsets) refines the reference walk."""
    return tlc_check("Spec_VisitorEdit_" + name, "MC_C14E",
                     dict(spec="SpecEMachine", constants=edit_consts(ngen=ngen, maxdec=maxdec, mtrees=mtrees),
                          invariants=["ERefines"]),
                     workers=8, timeout=timeout, java_opts="-Xss64m -XX:ParallelGCThreads=4")


# generator alphabets (MC_C14.tla): V0 small trees; V1 aliases, arguments of every value shape, nested
# selection sets, a variable-driven directive; V2 named / inline fragments, abstract types, __typename
V0 = dict(leafs="V0_Leafs", comps="V0_Comps", inlines="V0_Inlines")
V1 = dict(leafs="V1_Leafs", comps="V1_Comps", dirs="DirsOne")
V2 = dict(leafs="V2_Leafs", comps="V2_Comps", inlines="V2_Inlines", frags="FragsF", spread="SpreadLater", dirs="DirsOne")


def stages(tier, seed):
    # measured wall times with 8 TLC workers on a 16-core machine that was shared (load 15-30) while
    # measuring: quick 75-115 s in all (machine_q 13 s, quick 60-95 s); thorough about 11 min in all
    # (machine_t 27 s, machine_t6 21 s, fixed_t 230 s, small 18 s, v1_k1 92 s, v2_k1 ~200 s, v1_k2 63 s)
    if tier == "quick":
        return [
            # all trees of <= 4 nodes x all policies, and { a }
            machine("machine_q", 4, 10, "{4}"),
            # fixed + type-system documents (K = 1..3, ALL policies on { a }), forms, parallel sets, sub-roots;
            # ~40 generated documents x every single decision
            family("quick", "FamsQuick", maxsel=2, maxnodes=2, maxdepth=2, **dict(V1, dirs="DirsNone")),
            # EDITS (measured, load 15-20: machine_q 25 200 states / 16-24 s; quick 329 states = 5170 cases = 6361
            # executions of the real visitor / 21-34 s).
            # all trees of <= 4 nodes x all answers (continue / skip / break / delete / update) with <= 2 decisions
            edit_machine("machine_q", 4, 2, "{1, 7}"),
            # 9 trees x every single edit decision (policy + printer mode), pairs on { a b c }, on a bare selection set
            # and on a bare field with alias and arguments, triples on { a }; result, events, what each callback is
            # handed and the state of the original compared with the real visitor
            edit_family("quick", "FamsQuick"),
        ]
    return [
        machine("machine_t", 5, 10, "{4, 5}"),
        machine("machine_t6", 6, 1, "{3}"),
        family("fixed_t", "FamsFixedThorough", spec="SpecFixed"),
        # small generated trees: all triples; 2 parallel visitors; partial / enter-only visitors with pairs
        family("small", "FamsGenSmall", maxsel=2, maxnodes=2, maxdepth=2, **V0),
        # 510 documents x every single decision, total and partial forms
        family("v1_k1", "FamsGenMix", maxsel=2, maxnodes=3, maxdepth=2, **V1),
        # 1228 documents with named / inline fragments x every single decision
        family("v2_k1", "FamsGenK1", maxsel=2, maxnodes=4, maxdepth=2, **V2),
        # every pair of decisions on every tree of the family
        family("v1_k2", "FamsGenK2", maxsel=1, maxnodes=2, maxdepth=2, **V1),
        # EDITS (measured at load 14-18 / at load 30-45: machine_t 1 034 261 states 50-70 s / 151 s, machine_t6 375 910
        # states 30 s / 114 s, thorough 2794 states = 56 225 cases = 83 122 executions of the real visitor 70 s / 214 s)
        edit_machine("machine_t", 5, 3, "{1, 2, 7}"),
        edit_machine("machine_t6", 6, 1, "{3, 4}"),
        # every pair of edit decisions on all 9 trees (policy + printer mode), every triple on 4 small trees
        edit_family("thorough", "FamsThorough"),
    ]


PROPS = {"C14": dict(
    stages=stages, level="model_checking",
    rule="(1) TLC checks that the iterative stack machine of Visitor.tla refines the recursive reference walk (MRefines) on "
         "ALL ordered trees of <= NGen nodes (every shape x every split of the children into single and list slots) with "
         "the visitor's answers chosen lazily at each delivered event (all policies), and on fixed documents; "
         "(2) TLC enumerates documents (GenDoc generator over schema S1: aliases, arguments of every value shape, "
         "directives, nested selection sets, named / inline fragments, variables; fixed executable documents covering "
         "every executable node kind, two operations, unknown names; two type-system documents covering every "
         "definition kind) and, per document, visitor policies lazily: every sequence of <= K non-continue decisions "
         "(skip / break at enter / leave) placed at events that are actually delivered - all single decisions, all "
         "pairs, all triples (K=3), ALL policies on the smallest documents - for one visitor in six visitor forms "
         "(generic, kind map, kind function, enter/leave kind maps, two mixed precedence forms), partially defined "
         "visitors (three forms), enter-only and leave-only visitors, and sets of 2-3 parallel visitors with "
         "independent policies; per case the specification prescribes the event sequence and, per node, key, path, "
         "enclosing nodes and the schema types in force; in-model theorems (full walk complete and pre-order, proper "
         "nesting, every walk a subsequence of the full walk, parallel view = walk alone, balanced type tracker = "
         "by-position typing, machine run = walk) are checked on the generated cases; "
         "(3) every case is replayed into the real visitor.Visit: plain, under VisitInParallel, under "
         "VisitWithTypeInfo, and under VisitWithTypeInfo(VisitInParallel). Non-trivial = (document, policy) with >= 1 "
         "non-continue decision or >= 2 visitors (distinct ones counted by the harness); "
         "(4) EDITS (VisitorEdit.tla): TLC checks that the small-step machine shaped like the library's loop (frames with "
         "index, keys, edits list, in-array flag; edits applied when a frame is left, array deletions by index minus the "
         "number removed) refines the recursive reference semantics (ERefines) on all trees of <= NGen nodes with the "
         "answers continue / skip / break / delete / update(copy) / update(trimmed copy) chosen lazily at each delivered "
         "event; MC_C14E enumerates, over 9 trees (documents with definition, selection, argument, variable-definition, "
         "list-value and directive lists, single children, values in interface-typed slots, nesting; a selection set and a "
         "field traversed on their own), every edit policy of <= K decisions placed lazily at delivered events including "
         "the events inside replacements (all singles on all trees, all pairs, triples on small trees), in policy mode and "
         "in printer mode (every other leave replaces the node by a text, as the library's printer does); per case TLC "
         "checks machine = reference (events, node handed to each callback, result), 'result = original with exactly the "
         "delivered edits substituted' (ExactlyTheEdits), original untouched, and - without edits - agreement with "
         "Visitor.tla's Walk; every case is replayed into the real visitor.Visit on an AST built for the tree (three "
         "visitor forms): event sequence, key, enclosing nodes, the children of the node handed to every callback, the "
         "returned tree / text and the state of the ORIGINAL tree must equal the specification's, or its prediction "
         "under a listed deviation",
    assumptions=[
        "the child order of every node kind is transcribed in Visitor.tla!TreeOf / MC_C14.tla from the GraphQL AST definition "
        "(source order of the children), not from the library's key table; the harness follows paths through an unordered "
        "child table and refuses (infra) when the abstract tree and the parsed document differ in shape",
        "this library's convention for list containers is accepted as the property's wording permits: only the non-nil "
        "entries of Ancestors followed by Parent are compared with the enclosing nodes; Path on leave is not asserted",
        "precedence between a generic enter/leave function and an enter/leave kind map for the same phase, and half-filled "
        "kind-specific entries, are not fixed by the property and not exercised",
        "the input type reported AT a list literal (list type or element type) is left open; descriptions of type-system "
        "definitions are not modelled (the documents carry none)",
        "type tracking is checked against schema S1 only; exhaustive only within the stated bounds",
        "edits (ActionUpdate, VisitorEdit.tla): semantics of the graphql-js reference visitor the library's documentation "
        "points to (replacement on enter is traversed, removal on enter is not; on leave the callback sees its children's "
        "edits applied; a leave replacement discards edits made below). NOT asserted (edition-dependent / left open): what "
        "Visit returns when no edit was requested (this library: nil; graphql-js: the root) and after a break; whether a copy "
        "is an AST struct or the generic map the library falls back to (only its content is compared); replacement by a "
        "non-node on enter, by a node the slot cannot hold, and edits requested by several parallel visitors / under "
        "VisitWithTypeInfo are not exercised",
        "replacement values are copies (fresh ids, new labels; whole or with every list cut to its first element) of the "
        "node the callback is handed; node identity is carried in Loc.Start, which survives the library's conversion to maps",
    ])}

MANIFEST_TEXT = {"C14": dict(
    text="Model checking: Visitor.tla defines the traversal as a recursive reference walk over abstract trees (events with "
         "key, path and enclosing nodes; skip suppresses exactly the subtree and its leave, break truncates), an iterative "
         "stack machine proved by TLC to refine it on all trees of the bound under all lazily chosen policies, the view of "
         "each parallel visitor, the visitor forms with their precedence, and a type tracker proved equal to by-position "
         "static typing. TLC generates documents x lazily enumerated policies (all sequences of <= K decisions at "
         "delivered events) x visitor forms x sets of parallel visitors and prescribes the callback sequence; every case is "
         "replayed into the real visitor.Visit / VisitInParallel / VisitWithTypeInfo on the AST produced by the real parser; "
         "sequence, key, path, ancestors, parent, selected function and TypeInfo getters at every callback must equal the "
         "specification's and the AST must be unchanged. Edits: VisitorEdit.tla gives the reference semantics of callbacks "
         "answering update / delete (result tree, events, original untouched), a small-step machine shaped like the "
         "library's loop proved by TLC to refine it, and the declarative theorem 'the result is the original with exactly "
         "the delivered edits substituted'; TLC-enumerated (tree, edit policy) cases in policy and printer mode are replayed "
         "into the real Visit on ASTs built for the trees and the returned tree, the events, what each callback is handed "
         "and the state of the original are compared.",
    note="Trusted: TLC, the transcription of the AST child order and of the reference TypeInfo algorithm in Visitor.tla, the "
         "harness path-following / projection code. Bounded: document families, K, NGen, schema S1. Two recorded defects are "
         "modelled as named deviations (root skip panics; VisitWithTypeInfo does not leave a skipped node). Edits: four "
         "recorded defects are modelled as named deviations of VisitorEdit.tla (edits applied in place to the original; a "
         "replacement for a child in an interface-typed field dropped; edits after the copy became a map dropped; removing "
         "the root on enter panics); every subset of them is computed by TLC per case, an observation is credited only to a "
         "set of listed deviations whose predicted outcome it equals as a whole.",
    technique="TLA+ reference walk + refinement-checked stack machine; TLC bounded-exhaustive (document, lazy policy) generation "
              "replayed into the real visitor")}
