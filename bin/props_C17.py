"""C17 - extension hooks are balanced, ordered and fault-isolated (spec/Extensions.tla)."""
import json
import os

from props import tlc_replay, tlc_check, trace, VERIF

DEVS = ["D_C17_nonerror_panic_escapes", "D_C17_early_return_skips_finish", "D_C17_same_name_overwrites"]
KNOWN = os.path.join(VERIF, "known_findings.json")
INV = ["OrderOK", "StartedIsFinished", "Nested", "FinishOutcome", "ResolveNotified", "PanicsReported", "NoEscape",
       "ResultCollected", "DataKept"]
ERR, ERRSTR = '{"err"}', '{"err", "str"}'


def listed():
    """Deviations of C17 listed as known findings (the trace spec may use exactly these)."""
    try:
        fs = json.load(open(KNOWN))["findings"]
    except Exception:
        return []
    return [f["deviation"] for f in fs if f.get("property") == "C17" and f.get("status") == "known" and f.get("deviation") in DEVS]


def consts(names, maxp, maxp3=None, classes="AllClasses", reqs="AllReqs", hrs="HRsA", dev=(), free=False, **extra):
    c = {"NameCfgs": "<- " + names, "Reqs": reqs if reqs.startswith("{") else "<- " + reqs,
         "Classes": classes if classes.startswith("{") else "<- " + classes, "HRs": "<- " + hrs, "MaxP": maxp,
         "MaxP3": maxp if maxp3 is None else maxp3,
         "Dev": "{" + ", ".join('"%s"' % d for d in dev) + "}", "Free": "TRUE" if free else "FALSE"}
    c.update(extra)
    return c


def model(name, names, maxp, terminates=False, **kw):
    """The intended design (Dev = {}) as a state machine: all properties on every scenario and decision."""
    return tlc_check("Spec_Ext_" + name, "Extensions",
                     dict(spec="Spec", constants=consts(names, maxp, **kw), invariants=INV + (["Terminates"] if terminates else [])),
                     workers=8, timeout=900)


def asis(name, dev, inv, names, maxp, **kw):
    """The design with one as-is deviation switched on must violate inv (the model discriminates)."""
    return tlc_check("Spec_Ext_asis_" + name, "Extensions",
                     dict(spec="Spec", constants=consts(names, maxp, dev=[dev], **kw), invariants=[inv]),
                     expect_violation=inv, workers=4, timeout=300)


def gen(name, names, maxp, reps, tracemod, cap, trace_file, append=False, **kw):
    st = tlc_replay("MC_C17_" + name, "MC_C17", "C17",
                    dict(spec="GenSpec", constants=consts(names, maxp, **kw), invariants=["Emit"]), workers=8, timeout=2400)
    st["trace_out"] = trace_file
    st["replay_args"] = ["--known", KNOWN, "--reps", str(reps), "--trace-mod", str(tracemod), "--trace-cap", str(cap)] + \
                        (["--trace-append"] if append else [])
    return st


def trace_cfg():
    return dict(spec="TraceSpec", invariants=["TraceInv"], postcondition="TraceAccepted",
                constants=consts("Names1", 0, Listed="{" + ", ".join('"%s"' % d for d in listed()) + "}"))


def tval(trace_file):
    return dict(kind="trace_validate", cfg="Trace_C17", module="Trace_C17", trace_file=trace_file, timeout=1500,
                cfgdict=trace_cfg())


def stages(tier, seed):
    big = tier != "quick"
    rec = trace("Trace_C17_rec", "Trace_C17", "C17", trace_cfg(), timeout=1500)
    tf = "c17.ndjson"
    if not big:
        return [
            # (the intended design is blind to the class of the panic value: Hook looks at it only under a deviation)
            model("pairs", "NamesDistinct", 2, classes=ERR),
            model("classes", "NamesDistinct", 1, terminates=True),
            model("free", "Names2", 1, classes='{"str"}', reqs='{"validation"}', free=True, terminates=True),
            asis("nonerror", DEVS[0], "NoEscape", "NamesUpTo2", 1),
            asis("early", DEVS[1], "StartedIsFinished", "NamesUpTo2", 1, classes=ERR),
            asis("samename", DEVS[2], "StartedIsFinished", "NamesUpTo2", 0),
            gen("pairs", "NamesUpTo2", 2, 2, 16, 8000, tf, classes=ERRSTR, reqs='{"syntax", "validation", "variable", "success"}'),
            gen("singles", "NamesUpTo3q", 1, 2, 3, 9000, tf, append=True),
            tval(tf),
            rec,
        ]
    return [
        model("pairs", "NamesDistinct", 2),
        model("triples", "NamesDistinct", 3, classes=ERR),
        model("free", "Names2", 1, classes='{"str"}', reqs='{"validation", "variable"}', free=True, terminates=True),
        model("free1", "Names1", 1, free=True, terminates=True),
        asis("nonerror", DEVS[0], "NoEscape", "NamesUpTo3", 1),
        asis("early", DEVS[1], "StartedIsFinished", "NamesUpTo3", 1, classes=ERR),
        asis("samename", DEVS[2], "StartedIsFinished", "NamesUpTo3", 0),
        gen("e2", "NamesUpTo2", 2, 3, 30, 20000, tf),
        gen("e3", "Names3q", 2, 3, 30, 20000, tf, append=True, classes=ERRSTR),
        gen("e3names", "Names3", 1, 3, 4, 25000, tf, append=True, hrs="HRsAB"),
        gen("e1x3", "Names1", 3, 3, 30, 15000, tf, append=True, classes=ERRSTR),
        gen("e2x3", "Names2d", 3, 3, 80, 15000, tf, append=True, classes=ERRSTR, reqs='{"success"}'),
        tval(tf),
        rec,
    ]


PROPS = {"C17": dict(
    stages=stages, level="model_checking",
    rule="(1) TLC explores the pipeline machine spec/Extensions.tla (one action per hook invocation) from every scenario = "
         "extension set-up (1..3 extensions) x request class (syntax / validation / variable / field error / success) x "
         "placement of <= 2 (thorough <= 3) panicking hooks (init, parse/validation/execution start and finish, resolve start and "
         "finish per field, HasResult, GetResult) x panic value class (error / string / other) x every decision the property "
         "leaves open, and checks order, started=>finished once, nesting, finish outcomes, resolve notifications, panics "
         "reported, no escape, result collection on the intended design; the three as-is deviations are each shown to violate "
         "their property (the intended design never looks at the class of the panic value, so the model runs with <= 2 panics "
         "in the quick tier and with 3 panics use one class; extensions and fields in canonical order, all orders in separate "
         "small configurations). (2) The generator part of the same machine emits every scenario once with the observables of "
         "all its runs (intended design + under each relevant deviation subset) and re-checks every property on every run of "
         "the intended design; the harness registers logging, panicking-on-cue extensions, runs graphql.Do (2-3 times: map "
         "iteration order varies) and looks the observed per-extension words / result up among them. Quick: 1-2 extensions "
         "(distinct and equal names) x <= 2 panics x {error, string} x 4 request classes, plus 1-3 extensions (distinct, two "
         "equal) x <= 1 panic x all classes x all 5 request classes. Thorough: 1-2 extensions x <= 2 panics x all classes; 3 "
         "extensions (distinct, two equal) x <= 2 panics x {error, string}; 3 extensions, all 5 name patterns, both HasResult "
         "patterns x <= 1 panic; 1 and 2 extensions x 3 panics x {error, string}. (3) A sample of the interleaved logs, and "
         "seeded random larger scenarios (<= 5 extensions, <= 6 panics, up to 9 fields), are validated by Trace_C17 against "
         "the same step function (any order of extensions and sibling fields). Non-trivial = scenario with a panicking hook "
         "or equal names",
    assumptions=[
        "spec/Extensions.tla was written from the property statement; what the statement leaves open (does a failed hook "
        "abandon the request; with what outcome phases are finished then; where a variable error is detected; order of "
        "different extensions' hooks and of sibling fields) is a nondeterministic choice of the machine, never asserted",
        "every hook of a stage is invoked even after another one failed, and HasResult/GetResult are collected after the "
        "execution phase only (as the library does); an implementation deciding otherwise would need the spec relaxed",
        "fixed small requests against schema S1 (3 executed fields, no lists, no deferred values); hooks panic on every "
        "invocation of the chosen (extension, hook, field) site; sequential execution of fields",
        "a panic counts as reported when an error message of the result contains the panic value's text",
        "known findings are credited only when the whole observation equals a run of the machine under exactly the listed deviations",
        "trace lines carry their position in the request's log and the trace spec checks it, so the driver's drop-one-event "
        "self-test is rejected by construction; that the trace spec constrains behaviour is shown by the mutation experiments",
    ])}

MANIFEST_TEXT = {"C17": dict(
    text="Model checking + trace validation: spec/Extensions.tla is a state machine of the request pipeline with E extensions "
         "whose every step is one hook invocation appending to an event log; TLC checks on all scenarios of the bound and all "
         "unspecified decisions that each extension's word is in init (pS pF (vS vF (eS (rS rF)* eF (hasR getR?)?)?)?)?, that every "
         "started phase is finished exactly once with its phase's outcome before the call returns, proper nesting, one resolve "
         "notification per executed field around the resolver, every panic reported as an error and none escaping, and that the "
         "modelled as-is behaviours (r.(error) recovery, early returns, finish functions keyed by name) violate them. Every "
         "scenario is replayed into graphql.Do with recording extensions that panic on cue; the observed log must be a run of "
         "the machine (exact set membership for the per-extension words and the result; full interleaving by Trace_C17).",
    note="Trusted: TLC, the reading of the property in Extensions.tla, the harness extensions and their outcome classification "
         "(ok/err, token search in error messages). Bounded: <= 3 extensions, <= 2/3 panicking hooks, 5 fixed requests; the "
         "recorder adds random larger scenarios judged by the trace spec only.",
    technique="TLA+ pipeline state machine model-checked by TLC; TLC-enumerated panic scenarios replayed into graphql.Do; recorded hook logs trace-validated")}
