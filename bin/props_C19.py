from props import tlc_check, trace


def corrupt_inflate(src, dst, seed):
    """Binding self-test: multiply one recorded measurement by 1000."""
    import json
    import random
    lines = open(src).read().splitlines()
    idx = [i for i, l in enumerate(lines) if '"t":"ev"' in l]
    i = random.Random(seed).choice(idx)
    e = json.loads(lines[i])
    e["work"] = e["work"] * 1000 + 100000
    lines[i] = json.dumps(e, separators=(",", ":"))
    open(dst, "w").write("\n".join(lines) + "\n")
    return "line %d work inflated" % (i + 1)


def stages(tier, seed):
    big = tier != "quick"
    return [
        tlc_check("Spec_Cost_memo", "Cost", dict(constants={"F": 3, "Memo": "TRUE"}, invariants=["StepsBound"],
                                                 properties=["Terminates"])),
        tlc_check("Spec_Cost_nomemo", "Cost", dict(constants={"F": 3, "Memo": "FALSE"}, invariants=["StepsBound"],
                                                   constraint="Cap"), expect_violation="StepsBound"),
    ] + ([tlc_check("Spec_Cost_memo4", "Cost", dict(constants={"F": 4, "Memo": "TRUE"}, invariants=["StepsBound"]),
                    timeout=1200)] if big else []) + [
        dict(trace("Trace_C19", "Trace_C19", "C19", dict(spec="TraceSpec", postcondition="TraceAccepted")),
             corrupt_fn=corrupt_inflate),
    ]


PROPS = {"C19": dict(
    stages=stages, level="model_checking",
    rule="(1) TLC runs the memoised pair-comparison machine of Cost.tla over ALL digraphs on 3 (thorough: 4) fragments, "
         "loops and cycles included: it terminates within F*F comparisons; without the memo table TLC exhibits a graph "
         "exceeding the bound; (2) the harness drives 12 scaled families (abstract nesting depth n x k implementers up to "
         "64/256; fragment chains with double spreads, fans, meshes, diamonds, parallel chains under exclusive and "
         "non-exclusive parents, wide selections with one key; validation, planning and the plan-cache fingerprint) through the real "
         "ValidateDocument / PlanQuery / ExecutePlan at n = 1..12 (thorough 24), reads the verif step counters, and TLC "
         "(Trace_C19) checks every measurement against Cost!Bound, independence from k and the growth ratio. "
         "Non-trivial = family instance with n >= 3",
    assumptions=["step counters (build tag verif) at field collection, merged-selection planning, findConflict, "
                 "fields-vs-fragment and fragment-vs-fragment comparisons, spread collection and variable-usage walks are "
                 "the measure of work; wall-clock is not used",
                 "bounds keep the measured polynomial degree with a constant factor of about four",
                 "growth is observed at finitely many sizes"])}

MANIFEST_TEXT = {"C19": dict(
    text="Model checking of the comparison machine (termination and F*F bound on all spread graphs with the memo table, "
         "counterexample without it) plus measured bounds: step counters of the real validator/planner on scaled families "
         "are recorded and every measurement is checked by TLC against the polynomial bound functions of Cost.tla, "
         "independence from the number of implementers and a growth-ratio limit.",
    note="Trusted: TLC, Cost.tla bound functions (calibrated to the pinned tree with a factor ~4), the counter hooks. "
         "A complexity statement over finitely many sizes, not a proof about the Go code.",
    technique="TLA+ cost machine model-checked by TLC + step-counter traces of scaled families validated against TLA+ bound functions")}
