import os
import subprocess

from props import tlc_replay, tlc_check

VERIF = os.path.dirname(os.path.dirname(os.path.abspath(__file__)))


def multi_process(run, st):
    """Run the pool in K fresh processes (different map seeds), appending observations to the trace."""
    import sys
    env = dict(os.environ, GOFLAGS="-mod=mod", GOPROXY="off", GOSUMDB="off", GOTOOLCHAIN="local")
    gq = os.path.join(VERIF, "bin", "gqlv")
    trace = os.path.join(run.scratch, st["trace_file"])
    pool = os.path.join(run.scratch, st["pool_file"])
    if not os.path.exists(pool):
        raise RuntimeError("pool file missing (the history stage did not run)")
    total = 0
    for k in range(1, st["procs"] + 1):
        p = subprocess.run(["timeout", "300", gq, "record", "C12", "--pool", pool, "--out", trace, "--proc", str(k),
                            "--reps", str(st["reps"])], capture_output=True, text=True, env=env)
        if p.returncode != 0:
            raise RuntimeError("C12 recorder process %d failed: %s" % (k, (p.stdout + p.stderr)[-1500:]))
        total += st["reps"]
    with open(trace, "a") as f:
        f.write('{"t":"end"}\n')
    run.evaluations += total
    run.exhaustive = False
    run.families.append({"config": "multi_process", "kind": "processes", "processes": st["procs"], "reps_each": st["reps"]})
    print("  %-28s processes=%d reps=%d" % ("C12 fresh processes", st["procs"], st["reps"]), file=sys.stderr)


def corrupt_hash(src, dst, seed):
    import random
    lines = open(src).read().splitlines()
    idx = [i for i, l in enumerate(lines) if '"t":"ev"' in l]
    # change the hash of a late observation (its request has certainly been seen before)
    i = idx[-1 - random.Random(seed).randrange(min(20, len(idx)))]
    lines[i] = lines[i].replace('"h":"', '"h":"ff').replace('"nh":"', '"nh":"ff')
    open(dst, "w").write("\n".join(lines) + "\n")
    return "hash of line %d changed" % (i + 1)


def stages(tier, seed):
    big = tier != "quick"
    pool = "{1,2,3,4,5,6,7,8,9,10,11,12,13,14,15,16,17,18,19,20,21,22,23,24,25,26,27,28,29}"
    hist = tlc_replay("MC_C12_hist", "MC_C12", "C12",
                      dict(constants={"HLen": 2, "PoolIds": pool}, invariants=["Emit"]))
    hist["trace_out"] = "c12.ndjson"
    hist["replay_args"] = ["--pool-out", None]  # filled below
    return [
        tlc_check("Spec_Determinism_fn", "Determinism", dict(constants={"Reqs": '{"r1","r2"}', "Leaky": "FALSE"},
                                                            invariants=["Functional"])),
        tlc_check("Spec_Determinism_leaky", "Determinism", dict(constants={"Reqs": '{"r1","r2"}', "Leaky": "TRUE"},
                                                               invariants=["Functional"]), expect_violation="Functional"),
        dict(hist, pool_out="c12pool.json"),
        dict(kind=multi_process, cfg="C12_processes", trace_file="c12.ndjson", pool_file="c12pool.json",
             procs=48 if big else 6, reps=20 if big else 4),
        dict(kind="trace_validate", cfg="Trace_C12", module="Trace_C12", trace_file="c12.ndjson", corrupt_fn=corrupt_hash,
             cfgdict=dict(spec="TraceSpec", postcondition="TraceAccepted"), timeout=1800),
    ]


PROPS = {"C12": dict(
    stages=stages, level="exploration",
    rule="TLC enumerates all histories of length 2 over a 29-request pool chosen to cross every map iteration that feeds "
         "output (did-you-mean ties, input-object messages, introspection lists, several deferred failures, several "
         "validation errors, full introspection); each history runs on a fresh schema through Do and through a normalising "
         "plan cache; the pool is additionally run in 6 (thorough 48) fresh processes x 4 (20) fresh schemas; Trace_C12 "
         "checks that the hash of the response bytes is a function of the request over the union of all observations. "
         "Non-trivial = every history (distinct histories counted); a probabilistic statement for low-probability orders",
    assumptions=["Go map iteration order cannot be enumerated: repetitions across ranges, schema builds and processes sample it",
                 "a listed known finding permits variation of the raw bytes only when the list-order-normalised hash is equal"])}

MANIFEST_TEXT = {"C12": dict(
    text="Exploration driven by the specification: Determinism.tla states the functional dependence request -> response "
         "bytes (TLC checks the statement on a tiny machine and shows that hidden state violates it); TLC-enumerated "
         "histories and many fresh processes/schemas produce observation logs from the real library, and TLC validates the "
         "dependence over the union (Trace_C12).",
    note="Probabilistic with respect to map iteration orders; the pool is hand-chosen from the mechanisms named in the "
         "property. Trusted: TLC, the hashing harness.",
    technique="TLA+ functional-dependence spec + TLC-enumerated histories and multi-process observation logs validated by TLC")}
