"""C10 - introspection describes the schema exactly (registration; see docs/BUILDING.md)."""
import os

from props import tlc_replay, VERIF

KNOWN = os.path.join(VERIF, "known_findings.json")


def fam(name, sites, k, **kw):
    return tlc_replay("MC_C10_" + name, "MC_C10", "C10",
                      dict(constants={"MaxEdits": k, "SiteIds": "<- " + sites}, invariants=["EmitAndCheck"]),
                      workers=8, replay_args=["--known", KNOWN], **kw)


def stages(tier, seed):
    if tier == "quick":
        return [fam("all_k1", "SitesAll", 1), fam("core_k2", "SitesCore", 2)]
    return [fam("all_k2", "SitesAll", 2, timeout=1500), fam("placement_k3", "SitesPlacement", 3, timeout=1500),
            fam("slots_k3", "SitesSlots", 3, timeout=1500), fam("types_k3", "SitesTypes", 3, timeout=1500)]


PROPS = {"C10": dict(
    stages=stages, level="model_checking",
    rule="TLC breadth-first enumeration of the generator state machine GenSchema.tla restricted to its VALID sites: a base "
         "schema (all six kinds of types, cyclic references, two interfaces, unions, deprecated members, defaults) and every "
         "combination of at most MaxEdits edits out of ~40 sites / ~130 alternatives (roots; 8 extra types supplied in "
         "SchemaConfig.Types or appended later with AppendType; every list/non-null wrapper of depth <= 3 and one of depth 5 "
         "on every kind of output type; 33 argument and 11 input-field type/default combinations incl. enums with int and "
         "non-name string internal values, lists, nested lists, input objects, nested input objects; deprecation reasons on "
         "fields, interface fields and enum values; thunked vs plain fields/interfaces/members; descriptions; custom "
         "directives). One vector [configuration, image] per configuration, each reached by exactly one behaviour. "
         "Non-trivial = every configuration other than the base (distinct edit lists counted by the harness).",
    assumptions=[
        "the image Introspect!Image(cfg) is a faithful transcription of the GraphQL introspection schema (checked by in-model "
        "theorems ClosureFixpoint, ImageClosed, PossibleIffDeclared, AppendOrderIndependent, DefaultLaw and calibrated on the "
        "library's own introspection types: every built-in type's description is compared as well)",
        "bounded: one base schema plus at most MaxEdits edits (quick: 1 over all sites, 2 over a core of 13 sites; thorough: "
        "2 over all sites, 3 over the placement/thunk sites, over the default-value slots with placement, and over the output-type "
        "slot with placement/roots/union members)",
        "a reported default value is accepted iff, parsed by the real parser, it is one of the literals Lits(type, default) "
        "which TLC proved to satisfy CoerceLit(type, literal) = configured default (plain rendering, list-of-one shorthand, "
        "Int literal for a whole Float)",
        "order of introspection lists, error messages, descriptions of built-in types, and the legacy onOperation/onFragment/"
        "onField booleans of __Directive are not compared; null and [] are not distinguished for lists that do not apply to a kind",
        "__typename on user types is exercised at the composite fields of the query root for every possible runtime type; "
        "at every composite position of the introspection schema",
    ])}

MANIFEST_TEXT = {"C10": dict(
    text="Model checking: TLC enumerates every schema configuration of the bounded generator GenSchema.tla (base schema plus "
         "edits: wrappers, defaults of every input kind, deprecation, thunks, supplied vs appended types, custom directives), "
         "computes with Introspect.tla the exact description introspection must return (type closure, kinds, fields, arguments "
         "with wrapped type references, interfaces, possible types each once, enum values, input fields, deprecation, roots, "
         "directives) and, per default value, the set of GraphQL literals that coerce back to it (law proved in the model with "
         "Coerce.tla on every configuration). Every configuration is materialised with real graphql-go types, NewSchema/"
         "AppendType are called, and the full introspection query, per-type partial queries (includeDeprecated default/false/"
         "true) and __typename queries are answered by the real executor; the projected JSON must equal the image as sets "
         "with 'each once', and every reported defaultValue, parsed by the real parser, must be an acceptable literal.",
    note="Trusted: TLC, the transcription of the introspection schema and of literal coercion (Introspect.tla, Coerce.tla), "
         "the harness builder/projection (abs/genschema.go, c10.go). Bounded: base schema + <= 2-3 edits. Known finding "
         "modelled as named deviation D_C10_default_untyped (enum/list/input-object defaults printed by Go kind).",
    technique="TLA+ image of a schema under introspection + TLC bounded-exhaustive schema generation, replayed into the real "
              "NewSchema/AppendType/Do")}
