"""C15 - a subscription delivers one correct result per source event, then closes.

spec/Subscription.tla (source / forwarder / per-event executors / consumer / canceller / releaser),
model-checked stand-alone (safety + liveness, intended and as-is designs), bound to graphql.Subscribe by
  A. MC_C15: TLC-generated scripts of environment moves, every legal behaviour per script,
     played against the real code by harness/cmd/gqlv/c15.go;
  B. Trace_C15: the event traces recorded during those plays validated against the same actions.
"""
import json
import os

from props import tlc_replay, tlc_check, VERIF

DEV = "D_C15_send_ignores_ctx"
DEV_HANDOFF = "D_C15_handoff_unbuffered"
CLASSES = '{"ok", "fail", "nil", "slow"}'
MODES = '{"ok", "parse", "validate", "suberr","subpanic"}'
KNOWN = os.path.join(VERIF, "known_findings.json")


def listed_devs():
    try:
        fs = json.load(open(KNOWN))["findings"]
    except Exception:
        return []
    return sorted(f["deviation"] for f in fs if f.get("property") == "C15" and f.get("status") == "known" and f.get("deviation"))


# Subscription.tla looks at a class only through Parks(c): for the stand-alone model one non-parking class
# stands for all of them (quick tier); the generator and the thorough tier use all four
CLASSES2 = '{"ok", "slow"}'


def consts(maxev, design="intended", cap=1, classes=CLASSES, **kw):
    c = {"MaxEv": maxev, "Classes": classes, "Modes": MODES, "Design": '"%s"' % design, "Cap": cap}
    c.update(kw)
    return c


def stages(tier, seed):
    big = tier != "quick"
    devset = "{" + ", ".join('"%s"' % d for d in listed_devs()) + "}"
    # measured (4 classes): K=6/MaxEv=2: 88 k states, 35 k vectors, 8.3 k scripts; K=6/MaxEv=3: 293 k states, 25 k scripts
    fam = tlc_replay(
        "MC_C15_K8" if big else "MC_C15_K6", "MC_C15", "C15",
        dict(spec="MCSpec", constants=consts(3 if big else 2, K=8 if big else 6), invariants=["Emit", "Theorems"]),
        workers=8, timeout=2400 if big else 300, trace_out="c15.ndjson",
        replay_args=["--known", KNOWN, "--seed", str(seed), "--reps", "1" if big else "2",
                     "--trace-cap", "50000" if big else "3500"])
    mcl = CLASSES if big else CLASSES2
    # measured: MaxEv=2: 3.6 k states (2 classes) / 11.8 k (4 classes); MaxEv=3, 4 classes: 191 k states, ~2 min
    st = [
        # the intended design (forwarder's send watches the context, hand-off capacity 1) satisfies safety
        # incl. RestAfterCancel, the action property and NoLeak for the forwarder AND all executors (weak
        # fairness of the forwarder and of every started executor only; source, consumer, canceller and
        # releaser are unconstrained; no state constraint)
        tlc_check("Spec_Subscription_intended", "Subscription",
                  dict(spec="Spec", constants=consts(3 if big else 2, classes=mcl), invariants=["Safety"],
                       properties=["AfterClose", "NoLeak"] + (["NoLeakFwd", "NoLeakReleased"] if big else [])),
                  workers=8 if big else 4, timeout=1200),
        # the as-is design (plain send) keeps the safety part but TLC exhibits the leak
        tlc_check("Spec_Subscription_asis", "Subscription",
                  dict(spec="Spec", constants=consts(2, design="asis", classes=mcl), invariants=["Safety"],
                       properties=["NoLeak"]), expect_violation="NoLeak", workers=2, timeout=600),
        # hand-off capacity 0 (the executor's send is a rendezvous): the functional safety part holds, but
        # TLC exhibits the state "context cancelled, nobody can step, an executor sits in its send"
        tlc_check("Spec_Subscription_cap0", "Subscription",
                  dict(spec="Spec", constants=consts(2 if big else 1, cap=0, classes=mcl),
                       invariants=["SafetyCore", "RestAfterCancel"]),
                  expect_violation="RestAfterCancel", workers=2, timeout=600),
        fam,
        dict(kind="trace_validate", cfg="Trace_C15", module="Trace_C15", trace_file="c15.ndjson", timeout=900,
             cfgdict=dict(spec="TraceSpec", constants=consts(9, Dev=devset), invariants=["TraceInv"],
                          postcondition="TraceAccepted")),
    ]
    if big:
        st.insert(1, tlc_check("Spec_Subscription_reader", "Subscription",
                               dict(spec="SpecRead", constants=consts(3), properties=["ClosesWhenRead"]),
                               workers=8, timeout=1200))
        # ... the liveness form of the same leak, and the functional safety part of the Cap = 0 design
        st.insert(4, tlc_check("Spec_Subscription_cap0_live", "Subscription",
                               dict(spec="Spec", constants=consts(2, cap=0), invariants=["SafetyCore"],
                                    properties=["NoLeak"]), expect_violation="NoLeak", workers=4, timeout=600))
        st.insert(5, tlc_check("Spec_Subscription_cap0_core", "Subscription",
                               dict(spec="Spec", constants=consts(2, cap=0), invariants=["SafetyCore"]),
                               workers=8, timeout=600))
    return st


PROPS = {"C15": dict(
    stages=stages, level="model_checking",
    rule="(1) TLC checks Subscription.tla stand-alone over ALL interleavings of source (<= MaxEv events, every "
         "combination of the payload classes ok / failing field resolution / nil / slow = the event's resolver parks "
         "until the environment releases it), forwarder, one EXECUTOR process per event (started by the forwarder's map "
         "step, runs the resolvers, hands its result over through a channel of capacity Cap; the forwarder waits for the "
         "hand-off OR the cancellation), consumer (prompt, slow, stops reading), canceller (any time, also before "
         "subscribing and while a resolver is parked) and releaser (any time or never) for valid requests and requests "
         "failing in parse / validate / subscribe: safety invariants (incl. RestAfterCancel: cancelled and nobody can step "
         "=> forwarder terminated and every executor terminated or held by the environment), the action property "
         "AfterClose and the liveness property NoLeak (cancelled ~> forwarder terminated and every executor terminated or "
         "held) under weak fairness of the forwarder and the started executors only, no state constraint; the as-is "
         "designs must fail: plain send violates NoLeak, Cap = 0 violates RestAfterCancel (and NoLeak, thorough tier). "
         "(2) MC_C15 enumerates every script of <= K environment moves (snd:class, cls, rcv, cancel, stall, release; "
         "context optionally cancelled before Subscribe) and, per script, every behaviour the specification allows "
         "(outcome of each move + goroutine observation after the environment stopped: na / no goroutine of the "
         "subscription left / forwarder blocked for ever / executor blocked for ever); each script is played against the "
         "real graphql.Subscribe and the observation must equal one of them. (3) the event traces recorded during the "
         "plays (incl. park / release observations) are validated by Trace_C15 (same actions, silent forwarder and "
         "executor steps). Non-trivial = script with >= 1 event and a cancellation",
    assumptions=[
        "the environment is sequential within one script: the harness issues one move at a time (the forwarder and the "
        "executors run concurrently); moves are synchronised by the channels themselves (a slow resolver signals its "
        "arrival at its gate; release = opening the gate), never by sleeping",
        "goroutines started for a subscription are identified in the goroutine profile by ancestry: created by a function "
        "of package graphql from the script's own goroutine, from the goroutine that ran the Subscribe resolver "
        "(forwarder) or an event resolver (executor), or from any such goroutine, transitively; a catch-all after the "
        "last script looks at every goroutine created by the library since the baseline dump",
        "absent from a dump = terminated. Blocked for ever = present and parked (chan send / chan receive / select / "
        "sync wait) in the same state at the same place in every one of >= 6 dumps spread over >= 2 s, after the context "
        "was cancelled and every resolver released; a goroutine missing from any later dump is not a leak; a reported "
        "disagreement must additionally reproduce on an immediate re-run of the script. (The forwarder parked in a "
        "plain `chan send` on the result channel nobody reads is stable and reported at once, as before.)",
        "the leak observation is made only when the model asks for it: context cancelled and no resolver held by the "
        "script (otherwise 'na'); independently, after EVERY script the harness cancels, releases every resolver, closes "
        "the source and drains the result channel to its close, and then all goroutines of the subscription must end "
        "(NoLeak + ClosesWhenRead with a fully co-operative environment)",
        "results are compared by shape (object carrying the event number / null+error / null / request error / "
        "context error) and byte-wise (JSON) with graphql.Execute(selection, root = event) (slow event: the same event "
        "without its gate)",
        "an event whose execution is overtaken by the cancellation yields the bare context error (C16 semantics); its "
        "executor is not waited for and must still end by itself",
        "the generator takes the always-enabled, environment-independent internal steps (setup, start of the executor, "
        "resolver start, close) eagerly: same vectors as the unreduced generator (compared for K=6, MaxEv=2)",
        "a single root field is subscribed (which field is chosen when several are selected depends on Go map order; "
        "noted, not exercised)",
        "exhaustive within K moves (6 quick / 8 thorough), MaxEv events (2 / 3), 4 payload classes, 4 request kinds; "
        "stand-alone model: MaxEv 2 / 3",
    ])}

MANIFEST_TEXT = {"C15": dict(
    text="Model checking + schedule replay + trace validation: Subscription.tla specifies source, forwarder, one executor "
         "per event, consumer, canceller and releaser with one action per channel operation (unbuffered channels as "
         "rendezvous, the executor's hand-off channel with capacity Cap). TLC proves on the bounded model that delivered "
         "results are the image of a prefix of the events in order, one per event, nothing lost unless cancelled, closed "
         "only after source close / cancel / the single error result, and that after cancellation no process stays "
         "blocked for ever: the forwarder terminates and every executor terminates once its resolver returns (safety "
         "RestAfterCancel, liveness NoLeak, weak fairness); for the as-is plain send and for a hand-off of capacity 0 TLC "
         "produces the leak counterexamples. TLC then enumerates every script of environment moves up to K steps "
         "(incl. slow events, cancellation while a resolver is parked, release) with every legal behaviour; the harness "
         "plays each against the real graphql.Subscribe using the channels and resolver gates as synchronisation and the "
         "goroutine profile for termination of ALL goroutines started for the subscription, and the recorded event "
         "traces are re-validated by TLC against the same actions.",
    note="Trusted: TLC, Subscription.tla, the harness' channel choreography and goroutine-profile reading. The as-is "
         "designs D_C15_send_ignores_ctx (forwarder blocked in chan send for ever after cancel with a stalled consumer; "
         "fixed in the library) and D_C15_handoff_unbuffered (executor blocked in its hand-off send after the forwarder "
         "left on ctx.Done; not a finding, the library buffers the channel) are modelled and credited only for exactly "
         "that observation and only when listed in known_findings.json.",
    technique="TLA+ process spec (safety + liveness by TLC), TLC-enumerated schedules replayed into graphql.Subscribe, "
              "recorded traces validated by a trace spec")}
