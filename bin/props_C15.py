"""C15 - a subscription delivers one correct result per source event, then closes.

spec/Subscription.tla (source / forwarder / consumer / canceller), model-checked stand-alone
(safety + liveness, intended and as-is design), bound to graphql.Subscribe by
  A. MC_C15: TLC-generated scripts of environment moves, every legal behaviour per script,
     played against the real code by harness/cmd/gqlv/c15.go;
  B. Trace_C15: the event traces recorded during those plays validated against the same actions.
"""
import json
import os

from props import tlc_replay, tlc_check, VERIF

DEV = "D_C15_send_ignores_ctx"
CLASSES = '{"ok", "fail", "nil"}'
MODES = '{"ok", "parse", "validate", "suberr"}'
KNOWN = os.path.join(VERIF, "known_findings.json")


def listed_devs():
    try:
        fs = json.load(open(KNOWN))["findings"]
    except Exception:
        return []
    return sorted(f["deviation"] for f in fs if f.get("property") == "C15" and f.get("status") == "known" and f.get("deviation"))


def consts(maxev, design="intended", **kw):
    c = {"MaxEv": maxev, "Classes": CLASSES, "Modes": MODES, "Design": '"%s"' % design}
    c.update(kw)
    return c


def stages(tier, seed):
    big = tier != "quick"
    devset = "{" + ", ".join('"%s"' % d for d in listed_devs()) + "}"
    # measured: K=6/MaxEv=3: 27 k vectors, 9.6 k scripts; K=9/MaxEv=4: 716 k vectors, 221 k scripts
    fam = tlc_replay(
        "MC_C15_K9" if big else "MC_C15_K6", "MC_C15", "C15",
        dict(spec="MCSpec", constants=consts(4 if big else 3, K=9 if big else 6), invariants=["Emit", "Theorems"]),
        workers=8, timeout=1500 if big else 300, trace_out="c15.ndjson",
        replay_args=["--known", KNOWN, "--seed", str(seed), "--reps", "1" if big else "2",
                     "--trace-cap", "50000" if big else "5000"])
    st = [
        # the intended design satisfies safety, the action property and NoLeak (weak fairness of the
        # forwarder only; source, consumer and canceller are unconstrained; no state constraint)
        tlc_check("Spec_Subscription_intended", "Subscription",
                  dict(spec="Spec", constants=consts(4 if big else 3), invariants=["Safety"],
                       properties=["AfterClose", "NoLeak"]), workers=8, timeout=600),
        # the as-is design (plain send) keeps the safety part but TLC exhibits the leak
        tlc_check("Spec_Subscription_asis", "Subscription",
                  dict(spec="Spec", constants=consts(2, design="asis"), invariants=["Safety"],
                       properties=["NoLeak"]), expect_violation="NoLeak", workers=8, timeout=600),
        fam,
        dict(kind="trace_validate", cfg="Trace_C15", module="Trace_C15", trace_file="c15.ndjson", timeout=900,
             cfgdict=dict(spec="TraceSpec", constants=consts(9, Dev=devset), invariants=["TraceInv"],
                          postcondition="TraceAccepted")),
    ]
    if big:
        st.insert(1, tlc_check("Spec_Subscription_reader", "Subscription",
                               dict(spec="SpecRead", constants=consts(4), properties=["ClosesWhenRead"]),
                               workers=8, timeout=600))
    return st


PROPS = {"C15": dict(
    stages=stages, level="model_checking",
    rule="(1) TLC checks Subscription.tla stand-alone over ALL interleavings of source (<= MaxEv events, every "
         "combination of the payload classes ok / failing field resolution / nil), forwarder, consumer (prompt, slow, "
         "stops reading) and canceller (any time, also before subscribing) for valid requests and requests failing in "
         "parse / validate / subscribe: safety invariants, the action property AfterClose and the liveness property "
         "NoLeak (cancelled ~> forwarder terminated) under weak fairness of the forwarder only, no state constraint; "
         "the as-is design (plain send) must violate NoLeak. (2) MC_C15 enumerates every script of <= K environment "
         "moves (snd:class, cls, rcv, cancel, stall; context optionally cancelled before Subscribe) and, per script, "
         "every behaviour the specification allows (outcome of each move + goroutine observation after the environment "
         "stopped); each script is played against the real graphql.Subscribe and the observation must equal one of them. "
         "(3) the event traces recorded during the plays are validated by Trace_C15 (same actions, silent forwarder "
         "steps). Non-trivial = script with >= 1 event and a cancellation",
    assumptions=[
        "the environment is sequential within one script: the harness issues one move at a time (the forwarder runs "
        "concurrently); moves are synchronised by the channels themselves, never by sleeping",
        "the forwarder goroutine is identified in the goroutine profile as 'created by graphql.ExecuteSubscription in "
        "goroutine <the script's goroutine>'; absent = terminated, parked in `chan send` in that function while the "
        "context is cancelled and nobody reads = blocked for ever (stable: nobody else can receive)",
        "results are compared by shape (object carrying the event number / null+error / null / request error / "
        "context error) and byte-wise (JSON) with graphql.Execute(selection, root = event)",
        "an event executed after cancellation may yield the bare context error (C16 semantics)",
        "a single root field is subscribed (which field is chosen when several are selected depends on Go map order; "
        "noted, not exercised)",
        "exhaustive within K moves (6 quick / 9 thorough), MaxEv events (3 / 4), 3 payload classes, 4 request kinds",
    ])}

MANIFEST_TEXT = {"C15": dict(
    text="Model checking + schedule replay + trace validation: Subscription.tla specifies source, forwarder, consumer and "
         "canceller with one action per channel operation (unbuffered channels as rendezvous). TLC proves on the bounded "
         "model that delivered results are the image of a prefix of the events in order, one per event, nothing lost "
         "unless cancelled, closed only after source close / cancel / the single error result, and that after "
         "cancellation the forwarder terminates (liveness, weak fairness); for the as-is plain send TLC produces the "
         "leak counterexample. TLC then enumerates every script of environment moves up to K steps with every legal "
         "behaviour; the harness plays each against the real graphql.Subscribe using the channels as synchronisation "
         "and the goroutine profile for termination, and the recorded event traces are re-validated by TLC against the "
         "same actions.",
    note="Trusted: TLC, Subscription.tla, the harness' channel choreography and goroutine-profile reading. Known finding "
         "D_C15_send_ignores_ctx (forwarder blocked in chan send for ever after cancel with a stalled consumer) is "
         "modelled as the as-is design and credited only for exactly that observation.",
    technique="TLA+ process spec (safety + liveness by TLC), TLC-enumerated schedules replayed into graphql.Subscribe, "
              "recorded traces validated by a trace spec")}
