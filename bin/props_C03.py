"""C03 (parser = grammar), C08 (print/parse round trip) and the clause-(a) stages of C18.

All three share spec/Syntax.tla (Lex / Parse / PrintAst / LineCol).  Generators:
spec/MC_C03.tla (token families, character families, simulation) and spec/MC_C08.tla
(AST generator).  Handlers: harness/cmd/gqlv/c03.go ("C03", "C08", "C18A").
"""
import os

from props import tlc_replay, VERIF

KNOWN = ["--known", os.path.join(VERIF, "known_findings.json")]
WORKERS = 8


def fam_stage(name, replay, fams, inv, **kw):
    return tlc_replay("MC_%s_%s" % (replay, name), "MC_C03", replay,
                      dict(constants={"Fams": "<- " + fams}, invariants=inv), workers=WORKERS, replay_args=KNOWN, **kw)


def syntax_stages(replay, tier, seed):
    """The generator stages of MC_C03, replayed by handler `replay` ("C03" or "C18A")."""
    big = tier != "quick"
    return [
        # (a) all token strings, grown token by token, not extended past errTok+1
        fam_stage("tok", replay, "FamsTokThorough" if big else "FamsTokQuick",
                  ["Emit", "RoundTripOK", "ErrTokInRange", "UnspecKnown"] + ([] if big else ["PrefixViable"])),
        # (b) all character strings inside the wrapper contexts
        fam_stage("chr", replay, "FamsChrThorough" if big else "FamsChrQuick", ["Emit", "LexSane", "UnspecKnown"]),
        # (c) simulation of long grammar-derived token strings
        fam_stage("sim", replay, "FamsSim", ["Emit", "RoundTripOK", "ErrTokInRange"],
                  simulate="num=%d" % (2000 if big else 30), depth=26, timeout=180 if big else 90),
    ]


def c03_stages(tier, seed):
    return syntax_stages("C03", tier, seed)


def c18a_stages(tier, seed):
    """Clause (a) of C18 (locations of syntax errors); to be included in the C18 check."""
    return syntax_stages("C18A", tier, seed)


def c08_stages(tier, seed):
    big = tier != "quick"
    return [
        tlc_replay("MC_C08_" + ("t" if big else "q"), "MC_C08", "C08",
                   dict(constants={"StrLen": 3 if big else 2, "ValDepth": 3 if big else 2}, invariants=["Emit", "RoundTripOK"]),
                   workers=WORKERS, replay_args=KNOWN),
    ]


SYNTAX_ASSUME = [
    "spec/Syntax.tla is a faithful transcription of the lexical grammar and of the productions the parser quotes in its "
    "comments (the edition: no null literal, `&` between interfaces, block strings, descriptions, `extend type`, schema and "
    "directive definitions); in-model theorems checked by TLC on every enumerated string: accepted strings re-print to "
    "strings that parse to the same AST, a viable string has viable prefixes, the byte-level lexer agrees with the "
    "code-point lexer up to the position map",
    "exhaustive only within the stated bounds (token alphabets and lengths, character alphabets and lengths inside fixed "
    "wrapper texts); one representative lexeme per token kind and one representative character per class",
    "inputs on which the editions disagree are marked Unspecified in the spec and only required not to panic: a number "
    "immediately followed by a digit, a name start or '.', empty {} lists in type-system definitions, a description before "
    "`directive` or after `extend`, enum values named true/false/null, variables inside type-system directive arguments",
    "error messages are not compared; a syntax-error location is accepted anywhere in the closed span of the offending token "
    "or malformed lexeme (EOF: from the end of the last token to the end of the text), columns in any of byte / code point / "
    "UTF-16 units",
]

PROPS = {
    "C03": dict(
        stages=c03_stages, level="model_checking",
        rule="(a) TLC enumerates EVERY token-kind string over the alphabet up to the length bound, grown token by token and "
             "not extended past the first non-viable token plus one (executable and type-system alphabets; variable- and "
             "field-definition contexts from a fixed prefix), each rendered by the harness in 8 ASCII layouts; (b) EVERY "
             "character-class string up to the bound inside 8 wrapper contexts (ignored position between names, document start, "
             "string body, \\u escape, three block-string bodies, number); (c) TLC -simulate random walks over viable "
             "continuations up to 24 tokens. Per case: accept/reject, the AST (kinds, names, values with decoded escapes and "
             "de-indented block strings, child order), Loc = text of the node's token span, tokens of lexer.Lex, Source.Body "
             "unchanged. Non-trivial = string accepted or rejected after its first token",
        assumptions=SYNTAX_ASSUME),
    "C08": dict(
        stages=c08_stages, level="model_checking",
        rule="TLC enumerates ASTs from the generator MC_C08 (every value kind nested to the depth bound in argument and "
             "default-value position, directives with arguments on every definition kind, every optional part of every "
             "type-system definition, string and description contents over the character classes up to the length bound) "
             "and checks Parse(PrintAst(a)) = a and print stability in the model; the harness renders each AST, parses it "
             "with the real parser, prints with printer.Print, re-parses, compares with the specification's AST, prints "
             "again and deep-compares the AST before/after printing. Non-trivial = every generated AST",
        assumptions=SYNTAX_ASSUME[:2] + ["locations are not compared after the round trip (the property excludes them)"]),
}

MANIFEST_TEXT = {
    "C03": dict(
        text="Model checking: spec/Syntax.tla defines Lex (ignored tokens, punctuators, names, Int/Float by longest match, "
             "strings with every escape, block strings with BlockStringValue), a predictive parser over the edition's "
             "productions that returns the AST with token spans or the first token at which the input stops being a viable "
             "prefix, and LineCol. TLC enumerates every token string and every character string within the bounds, checks "
             "the specification's own theorems on each, and every string is rendered and pushed through parser.Parse and "
             "lexer.Lex of the current tree; accept/reject, AST, token values, node locations and Source.Body must equal "
             "the specification's. Known defects are explained only by named deviations of the specification.",
        note="Trusted: TLC, the transcription of the grammar in Syntax.tla, the harness renderers (one lexeme per token kind, "
             "one byte sequence per character class) and AST projection. Bounded by token/character alphabets and lengths.",
        technique="TLA+ reference lexer/parser + TLC bounded-exhaustive token and character strings replayed into the real parser"),
    "C08": dict(
        text="Model checking: TLC generates ASTs covering every node kind, optional part, value nesting and string content "
             "class within the bounds, proves in the model that the specification's printer is a right inverse of its parser "
             "and stable, and each AST is rendered, parsed, printed by printer.Print, re-parsed and compared with the "
             "specification's AST; second print must equal the first, and printing must not change the AST.",
        note="Trusted: TLC, Syntax.tla, the harness renderer and projection. Bounded generator.",
        technique="TLA+ AST generator + in-model print/parse theorems, round trip replayed through the real printer and parser"),
}
