from props import tlc_replay, tlc_check


def corrupt_unlock(src, dst, seed):
    """Binding self-test: pretend one locked write happened without the lock."""
    import random
    lines = open(src).read().splitlines()
    idx = [i for i, l in enumerate(lines) if '"rw":"wr"' in l and '"lk":"x"' in l]
    if not idx:
        # no locked write recorded: claim that a read was an unlocked write by another goroutine
        idx = [i for i, l in enumerate(lines) if '"rw":"rd"' in l]
        if not idx:
            return None
        i = random.Random(seed).choice(idx)
        lines.insert(i + 1, lines[i].replace('"rw":"rd"', '"rw":"wr"').replace('"g":1', '"g":9').replace('"g":2', '"g":9'))
    else:
        i = random.Random(seed).choice(idx)
        # the same cell must have another goroutine's access for the corruption to matter: duplicate as foreign unlocked write
        lines.insert(i + 1, lines[i].replace('"lk":"x"', '"lk":"n"').replace('"g":1', '"g":9').replace('"g":2', '"g":9').replace('"g":3', '"g":9'))
    open(dst, "w").write("\n".join(lines) + "\n")
    return "inserted a foreign unlocked write after line %d" % (i + 1)


LZ = {"Procs": '{"g1","g2"}', "Cells": "<- MCCells"}


def stages(tier, seed):
    big = tier != "quick"
    fam = tlc_replay("MC_C07_sched", "MC_C07", "C07",
                     dict(constants={"K": 7 if big else 5, "Mixes": "<- MixesFull" if big else "<- MixesQuick"},
                          invariants=["Emit"]), replay_workers=1, timeout=3000)
    fam["trace_out"] = "c07.ndjson"
    race = dict(fam, cfg="MC_C07_race", gqlv_race=True)
    race["cfgdict"] = dict(constants={"K": 4 if big else 3, "Mixes": "<- MixesFull" if big else "<- MixesQuick"},
                           invariants=["Emit"])
    race["trace_out"] = "c07race.ndjson"
    return [
        tlc_check("Spec_Lazy_safe", "MC_Lazy", dict(constants=dict(LZ, Protocol="<- ProtoSafe"),
                                                   invariants=["NoRace", "AtMostOneBuilder"], properties=["NoDeadlock"])),
        tlc_check("Spec_Lazy_lru", "MC_Lazy", dict(constants=dict(LZ, Protocol="<- ProtoLRU"),
                                                  invariants=["NoRace", "AtMostOneBuilder"], properties=["NoDeadlock"])),
        tlc_check("Spec_Lazy_rwlru", "MC_Lazy", dict(constants=dict(LZ, Protocol="<- ProtoRWLRU"), invariants=["NoRace"]),
                  expect_violation="NoRace"),
        tlc_check("Spec_Lazy_racy", "MC_Lazy", dict(constants=dict(LZ, Protocol="<- ProtoRacy"), invariants=["NoRace"]),
                  expect_violation="NoRace"),
        fam,
        dict(kind="trace_validate", cfg="Trace_C07", module="Trace_C07", trace_file="c07.ndjson", corrupt_fn=corrupt_unlock,
             cfgdict=dict(spec="TraceSpec", postcondition="TraceAccepted")),
        race,
    ]


PROPS = {"C07": dict(
    stages=stages, level="model_checking", race=True,
    rule="(1) TLC checks NoRace/AtMostOneBuilder/NoDeadlock on Lazy.tla for the protected protocols and finds the race for "
         "an unprotected lazily filled cell; (2) TLC enumerates ALL gate schedules of length 5 (thorough 7) for each mix of "
         "2-3 concurrent requests (Do with enums, Do with interfaces/unions resolving to different runtime types, shared "
         "PlanCache.Get+ExecutePlan, shared prepared plan, Reset); the harness replays each on a cold schema/plan/cache by "
         "blocking request goroutines at the verif gates; every response must equal the request's response when run alone, "
         "nothing may panic or hang; (3) the recorded cell accesses (with TryLock-observed lock state) must be a behaviour "
         "of the intended protocol (Trace_C07); (4) the same schedules are replayed with a -race build of the harness and "
         "any Go race report is a violation. Non-trivial = schedule in which >= 2 requests touch lazily initialised cells",
    assumptions=["gates exist only at the instrumented cells (enum tables, possible-type tables, lazy abstract planning, plan "
                 "cache); other shared state is observed only through the race detector on the replayed schedules",
                 "a disagreement is reported only if it reproduces in a second fresh replay of the same schedule",
                 "the 20 s per-step watchdog turns a hang into a verdict only when reproduced"])}

MANIFEST_TEXT = {"C07": dict(
    text="Model checking + schedule replay + trace validation: Lazy.tla specifies lazily initialised cells under mutex / "
         "eager / unprotected protocols with a lockset happens-before invariant; TLC proves the protected protocols race-free "
         "and exhibits the race of the unprotected one; TLC-enumerated gate schedules are forced onto real goroutines sharing "
         "one cold schema, plan and cache; responses are compared with the sequential baseline, and the recorded accesses are "
         "validated against the protocol. The Go race detector rides on the same TLC-generated schedules as an auxiliary "
         "observation channel for state without hooks.",
    note="Trusted: TLC, Lazy.tla, the verif gate/access hooks (TryLock truthfulness), goroutine identification via "
         "runtime.Stack. Data races outside hooked cells are decided by the race detector, not by the specification.",
    technique="TLA+ lazy-init protocol spec (TLC) + TLC-enumerated gate schedules replayed on real goroutines + access-trace validation (+ -race)")}
