"""C11 - schema construction never yields an inconsistent type system (registration; see docs/BUILDING.md).

Stages: (1) the AppendType machine of SchemaBuild.tla model-checked for the mandated design (and the design that
re-appends implementers shown to violate EachOnce); (2) TLC-generated configurations x AppendType orders replayed into
NewSchema/AppendType (panics judged by the handler, views of the returned schemas recorded); (3) the recorded views
validated by Trace_C11.tla (Consistent, same outcome and same view up front / appended), in parallel shards, with a
binding self-test."""
import json
import os
import random
import re
import shutil
import subprocess
import sys
import time

from props import tlc_replay, tlc_check, cfg_text, VERIF

KNOWN = os.path.join(VERIF, "known_findings.json")

APPEND_CONSTS = {"GNames": "<- UNames", "GRefsOf": "<- URefsOf", "GDeclares": "<- UDeclares", "GRoots": "<- URoots",
                 "GExtras": "<- UExtras"}
DUMMY_CONSTS = {"GNames": "<- NoNames", "GRefsOf": "<- NoFun", "GDeclares": "<- NoFun", "GRoots": "<- NoNames",
                "GExtras": "<- NoNames", "MaxLate": 0, "Design": '"mandated"'}


def listed_devs():
    out = []
    for f in json.load(open(KNOWN))["findings"]:
        if f["property"] == "C11" and f["status"] == "known" and f.get("deviation"):
            out.append(f["deviation"])
    return sorted(out)


def corrupt_view(src, dst, seed):
    """Binding self-test: remove the registered type `Boolean` from one recorded view (closure must break)."""
    lines = open(src).read().splitlines()
    cands = [i for i, l in enumerate(lines) if '"t":"ev"' in l and '"up":{"st":"ok"' in l]
    if not cands:
        return None
    i = random.Random(seed).choice(cands)
    e = json.loads(lines[i])
    e["up"]["view"]["types"] = [t for t in e["up"]["view"]["types"] if t["key"] != "Boolean"]
    lines[i] = json.dumps(e, separators=(",", ":"))
    open(dst, "w").write("\n".join(lines) + "\n")
    return "type Boolean removed from the view of line %d (%s)" % (i + 1, e["id"][:60])


def stage_c11_trace(run, st):
    """Validate the views recorded by the C11 replay stage with Trace_C11.tla (direction B)."""
    drv = sys.modules["__main__"]          # bin/check
    Infra, tlc_cmd, parse_tlc_log, ENV, log = drv.Infra, drv.tlc_cmd, drv.parse_tlc_log, drv.ENV, drv.log
    d = run.specdir()
    name = st["cfg"]
    evs = []
    for tf in st["trace_files"]:
        trace = os.path.join(run.scratch, tf)
        if not os.path.exists(trace):
            raise Infra("trace file %s missing" % trace)
        lines = open(trace).read().splitlines()
        part = [l for l in lines if l.startswith('{"t":"ev"')]
        if len(part) < 3 or json.loads(lines[-1]).get("t") != "end":
            raise Infra("trace %s is empty or truncated (%d lines)" % (trace, len(lines)))
        if json.loads(lines[-1])["n"] != len(part):
            raise Infra("trace %s: end line counts %s events, file has %d" % (trace, lines[-1], len(part)))
        evs += part
    trace = os.path.join(run.scratch, name + ".all.ndjson")
    open(trace, "w").write("\n".join(evs) + '\n{"t":"end","n":%d}\n' % len(evs))
    listed = listed_devs()
    consts = dict(DUMMY_CONSTS, Listed="{%s}" % ", ".join('"%s"' % x for x in listed))
    cfg = cfg_text(spec="TraceSpec", constants=consts, postcondition="TraceAccepted")
    t0 = time.time()
    nshards = max(1, min(st.get("shards", 4), len(evs) // 300 + 1))

    def validate(ev_lines, tag):
        """Run one TLC per shard (each in its own copy of spec/), in parallel; return (accepted, known, unspec, detail)."""
        procs = []
        for k in range(nshards if tag == "real" else 1):
            part = ev_lines[k::nshards] if tag == "real" else ev_lines
            sd = os.path.join(run.scratch, "%s.%s.%d" % (name, tag, k))
            shutil.copytree(d, sd, ignore=shutil.ignore_patterns("*.ndjson", "states"))
            open(os.path.join(sd, "trace.ndjson"), "w").write(
                "\n".join(part) + '\n{"t":"end","n":%d}\n' % len(part))
            open(os.path.join(sd, name + ".cfg"), "w").write(cfg)
            logf = os.path.join(run.scratch, "%s.%s.%d.tlc.log" % (name, tag, k))
            cmd = ["timeout", str(st.get("timeout", 900))] + tlc_cmd(st["module"], name, 1, os.path.join(sd, "meta"))
            procs.append((k, part, sd, logf, subprocess.Popen(cmd, cwd=sd, stdout=open(logf, "w"), stderr=subprocess.STDOUT,
                                                                env=dict(ENV, JAVA_TOOL_OPTIONS="-Xss64m"))))
        accepted, known, unspec, detail, states = True, {}, 0, None, 0
        for k, part, sd, logf, p in procs:
            rc = p.wait()
            gen, dist, errors, finished, txt = parse_tlc_log(logf)
            shutil.rmtree(sd, ignore_errors=True)
            if rc == 124:
                raise Infra("TLC timed out validating the C11 trace (shard %d)" % k)
            if "Parsing or semantic analysis failed" in txt or "*** Errors" in txt:
                raise Infra("trace spec %s broken:\n%s" % (name, txt[-3000:]))
            states += dist
            for m in re.finditer(r'<<\s*"KNOWN",\s*"([A-Za-z0-9_]+)"', txt):
                known[m.group(1)] = known.get(m.group(1), 0) + 1
            unspec += len(re.findall(r'<<\s*"UNSPEC"', txt))
            if errors:
                m = re.search(r'REJECT at trace line",\s*(\d+)', txt)
                if not m:
                    raise Infra("TLC failed on %s without rejecting the trace:\n%s\n%s" % (name, "\n".join(errors[:6]), txt[-2500:]))
                accepted = False
                ln = int(m.group(1))
                bad = part[min(ln, len(part)) - 1]
                if detail is None:
                    detail = {"rejected_line": bad[:6000], "shard": k, "line_in_shard": ln}
        return accepted, known, unspec, detail, states

    accepted, known, unspec, detail, states = validate(evs, "real")
    run.states += states
    run.transitions += states
    run.traces += len(evs) if accepted else 0
    for kname, n in known.items():
        if kname not in listed:
            raise Infra("trace spec credited the unlisted deviation %s" % kname)
        run.known[kname] = run.known.get(kname, 0) + n
    if unspec:
        run.notes.append("%d recorded schemas contain a user type with a reserved (__) name: unspecified in the edition, "
                         "not asserted" % unspec)
    if not accepted:
        run.n_mismatch += 1
        keep = os.path.join(run.scratch, name + ".rejected.ndjson")
        open(keep, "w").write(detail["rejected_line"] + '\n{"t":"end","n":1}\n')
        e = json.loads(detail["rejected_line"]) if len(detail["rejected_line"]) < 6000 else {}
        run.mismatches.append({
            "what": "C11: a schema returned by NewSchema/AppendType is rejected by Trace_C11 (not Consistent, or up-front and "
                    "appended construction disagree): " + str(e.get("id", "?")),
            "detail": {"configuration": e.get("id"), "up_front": e.get("up", {}).get("st"),
                       "appended": (e.get("ap") or {}).get("st")},
            "trace_file": keep})
    else:
        corrupt = os.path.join(run.scratch, name + ".corrupt.ndjson")
        what = corrupt_view(trace, corrupt, run.seed)
        if what:
            cl = [l for l in open(corrupt).read().splitlines() if l.startswith('{"t":"ev"')]
            # validate only the neighbourhood of the corrupted line (the rest was just accepted)
            idx = next(i for i, l in enumerate(cl) if l != evs[i])
            ok2, _, _, _, _ = validate(cl[max(0, idx - 2):idx + 3], "corrupt")
            if ok2:
                raise Infra("binding self-test failed: Trace_C11 accepted a corrupted trace (%s)" % what)
            run.notes.append("binding self-test: Trace_C11 rejected the trace with " + what)
    run.families.append({"config": name, "kind": "trace", "trace_lines": len(evs), "accepted": accepted, "shards": nshards,
                         "tlc_states": states, "known": known, "wall_s": round(time.time() - t0, 1)})
    log("  %-28s trace lines=%d shards=%d accepted=%s known=%s  %.1fs" %
        (name, len(evs), nshards, accepted, known, time.time() - t0))


def gen(name, sites, k, maxlate=3, **kw):
    return tlc_replay("MC_C11_" + name, "MC_C11", "C11",
                      dict(constants={"MaxEdits": k, "MaxLate": maxlate, "SiteIds": "<- " + sites},
                           invariants=["Emit", "WellFormedCfg"]),
                      workers=8, trace_out=name + ".ndjson", replay_args=["--known", KNOWN], **kw)


def stages(tier, seed):
    big = tier != "quick"
    model = [
        tlc_check("Spec_SchemaBuild_append", "MC_SchemaBuild",
                  dict(spec="ASpec", constants=dict(APPEND_CONSTS, MaxLate=3, Design='"mandated"'),
                       invariants=["OrderIndependent", "ClosedAlways", "EachOnce"]), workers=4),
        tlc_check("Spec_SchemaBuild_reappend", "MC_SchemaBuild",
                  dict(spec="ASpec", constants=dict(APPEND_CONSTS, MaxLate=2, Design='"asis"'), invariants=["EachOnce"]),
                  expect_violation="EachOnce", workers=2),
    ]
    tr = dict(kind=stage_c11_trace, cfg="Trace_C11", module="Trace_C11", shards=4, timeout=1200)
    if not big:
        return model + [gen("c11_k2", "SitesC11", 2), gen("orders_k3", "SitesOrders", 3),
                        dict(tr, trace_files=["c11_k2.ndjson", "orders_k3.ndjson"])]
    return model + [gen("all_k2", "SitesEverything", 2, timeout=1500), gen("append_k3", "SitesAppend", 3, timeout=1500),
                    dict(tr, shards=6, trace_files=["all_k2.ndjson", "append_k3.ndjson"])]


PROPS = {"C11": dict(
    stages=stages, level="model_checking",
    rule="TLC breadth-first enumeration of the generator GenSchema.tla with DEFECT INJECTION: the base schema plus every "
         "combination of at most MaxEdits edits out of the valid sites (extra types supplied up front or appended, thunks, "
         "union members, ...) and 9 defect sites / ~135 defect alternatives (one name for two types across kinds incl. "
         "built-in names; illegal or empty type, field, argument, enum-value and input-field names; empty field/value/member "
         "sets; nil union member, interface, Types entry, appended type, field, argument, value, field/argument/input type; "
         "interface field missing / wrong or non-covariant type / wrong, missing or extra required argument on a reachable and "
         "on a late implementer, valid covariant variants; non-null of non-null at field, argument and input position; input "
         "types in output position and vice versa; missing query root), times EVERY ORDER of the AppendType calls (<= 3 late "
         "types). One vector per (configuration, order); each is built twice (all types up front / supplied + appended). "
         "Non-trivial = configuration with at least one injected defect (distinct edit lists counted by the harness). The "
         "AppendType machine of SchemaBuild.tla is model-checked for all choices of 7 extra types and all orders.",
    assumptions=[
        "Consistent(view) in spec/SchemaBuild.tla is a faithful transcription of the type-system rules the property lists "
        "(unique legal names, closure, built-ins, input/output positions, interface implementation, possible types)",
        "the post-condition is judged on the view obtainable through the public API (TypeMap, Type, Fields, Args, Interfaces, "
        "PossibleTypes, IsPossibleType, root types), projected by abs.ViewOf; 'error iff invalid' is NOT asserted",
        "identical recorded observations are validated once; names starting with __ on user types are unspecified in the "
        "edition (the reference implementation only warned): counted, not asserted",
        "bounded: one base schema plus <= 2 edits (quick: defect + placement sites, plus <= 3 placement edits with all 6 "
        "orders of 3 late types; thorough: all sites, and <= 3 edits over the placement / implementation / duplicate-name / "
        "nil sites)",
    ])}

MANIFEST_TEXT = {"C11": dict(
    text="Model checking + trace validation: TLC enumerates schema configurations with injected defects and every order of "
         "AppendType calls; each is built with real graphql-go constructors and handed to NewSchema/AppendType inside "
         "recover(): a panic is a violation; when no error is returned the type system observable through the public API "
         "is recorded and TLC evaluates on every record the specification's Consistent predicate (unique legal names, "
         "closure under every kind of reference, built-in types, input/output positions, interface implementation with "
         "covariance / argument identity / no extra required arguments, possible types <=> declarations) and that supplying "
         "types up front and appending them in any order succeed or fail together and give the same schema. The abstract "
         "AppendType machine is proved order-independent by TLC for every choice and order of late types.",
    note="Trusted: TLC, SchemaBuild.tla, the harness builder and view projection (abs/genschema.go). Known findings are "
         "modelled as named relaxations of single clauses (D_C11_*), credited only when a record needs exactly them.",
    technique="TLA+ consistency predicate over observed schema views (trace validation) + TLC defect-injection generator and "
              "AppendType order machine")}
