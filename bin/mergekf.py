import json,subprocess,sys
branch=sys.argv[1]
theirs=json.loads(subprocess.run(['git','-C','/verif','show',branch+':known_findings.json'],capture_output=True,text=True).stdout)
mine=json.loads(subprocess.run(['git','-C','/verif','show','HEAD:known_findings.json'],capture_output=True,text=True).stdout)
ids={f['id'] for f in mine['findings']}
for f in theirs['findings']:
    if f['id'] not in ids:
        mine['findings'].append(f); print('added',f['id'],f['status'])
json.dump(mine,open('/verif/known_findings.json','w'),indent=1)
