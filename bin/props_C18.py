"""C18: error locations and paths.  The three clauses are projections of other oracles under a
layout dimension: (a) syntax errors - stages built with C03 (props_C03.c18a_stages);
(b) validation errors - stages built with C02 (props_C02.c18b_stages, when present) and the
field-error locations of the execution families; (c) paths - the execution families."""
from props import c01_family, c04_stage, EXEC_ASSUME

try:
    from props_C03 import c18a_stages
except Exception:  # pragma: no cover
    c18a_stages = None
try:
    from props_C02 import c18b_stages
except Exception:  # pragma: no cover
    c18b_stages = None


def stages(tier, seed):
    big = tier != "quick"
    out = [
        c04_stage("c18_plain", "{1,2,3,4,6,7}", 2, "plain", replay="C18C"),
        c01_family("F20_c18", replay="C18C", fam="F20", leafs="F20_Leafs", comps="F20_Comps", inlines="F20_Inlines",
                   maxsel=2, maxnodes=5 if big else 4, maxdepth=3, dirs="DirsNone", outs="OT_Faults", inv=["Emit"]),
    ]
    def keep(st):
        # quick: the token-string family for (a) and the small document families for (b); thorough: everything
        if big:
            return True
        return any(k in st["cfg"] for k in ("tok", "chr", "V4", "V3d", "V1_1f", "V5"))
    if c18a_stages:
        out += [st for st in c18a_stages(tier, seed) if keep(st)]
    if c18b_stages:
        out += [st for st in c18b_stages(tier, seed) if keep(st)]
    return out


PROPS = {"C18": dict(
    stages=stages, level="model_checking",
    rule="(a) every token / character string of the C03 families, rendered in LF / CR / CRLF / mixed layouts with "
         "multi-byte comments and BOM: the reported line:column must lie in the closed span of the token (or malformed "
         "lexeme) at which Syntax.tla says the text stops being a viable prefix; (b) validation errors of the C02 "
         "families and field errors of the execution families: a reported location is the start of an offending node "
         "(positions are known because the harness printed the text); (c) fault tables of MC_C04 and list/abstract "
         "documents of family F20 under 6 layouts: every error path equals the response keys and list indices Exec.tla "
         "predicts and the data at the path or a prefix is null. Non-trivial = an error located on line >= 2",
    assumptions=EXEC_ASSUME + ["columns on lines containing non-ASCII characters are accepted in byte, code-point or UTF-16 units"])}

MANIFEST_TEXT = {"C18": dict(
    text="Model checking: the oracles of C03 (first non-viable token), C02 (offending nodes) and C01/C04 (failing field "
         "paths) are replayed under a layout dimension; the harness prints each abstract input itself in every layout and "
         "therefore knows every token's line and column; the reported locations and paths must be the ones the "
         "specifications designate.",
    note="Trusted: TLC, Syntax.tla / Validate.tla / Exec.tla, the harness printers. Bounded families as in C01-C04.",
    technique="TLA+ oracles of C03/C02/C01 replayed under generated layouts (LF/CR/CRLF, multi-byte, BOM)")}
