from props import tlc_replay, c01_family, ALL_ARGS


def corrupt_panic(src, dst, seed):
    import random
    lines = open(src).read().splitlines()
    idx = [i for i, l in enumerate(lines) if '"t":"ev"' in l and '"panic":false' in l]
    i = random.Random(seed).choice(idx)
    lines[i] = lines[i].replace('"panic":false', '"panic":true')
    open(dst, "w").write("\n".join(lines) + "\n")
    return "line %d marked as panicking" % (i + 1)


def fam(name, module, cfgdict, **kw):
    st = tlc_replay(name, module, "C09", cfgdict, **kw)
    st["trace_out"] = name + ".ndjson"
    return st


def tv(name):
    return dict(kind="trace_validate", cfg="Trace_C09_" + name, module="Trace_C09", trace_file=name + ".ndjson",
                corrupt_fn=corrupt_panic, cfgdict=dict(spec="TraceSpec", postcondition="TraceAccepted"))


def stages(tier, seed):
    big = tier != "quick"
    out = []
    toks = fam("MC_C09_tok", "MC_C09", dict(constants={"Mode": '"tok"', "L": 4 if big else 3}, invariants=["Emit"]), timeout=3000)
    chars = fam("MC_C09_char", "MC_C09", dict(constants={"Mode": '"char"', "L": 4 if big else 3}, invariants=["Emit"]), timeout=3000)
    wq = c01_family("W_query", replay="C09", inv=["EmitWild"], fam="W", frags="FragsW", leafs="W_Leafs", comps="W_Comps",
                    inlines="W_Inlines", spread="SpreadAny", maxsel=2, maxnodes=4 if big else 3, maxdepth=2, dirs="DirsOne")
    wq["trace_out"] = "MC_C01_W_query.ndjson"
    wm = c01_family("W_mut", replay="C09", inv=["EmitWild"], fam="W", op='"mutation"', frags="NoFrags", leafs="W_Leafs",
                    comps="W_Comps", inlines="W_Inlines", maxsel=2, maxnodes=3, maxdepth=2, dirs="DirsNone")
    wm["trace_out"] = "MC_C01_W_mut.ndjson"
    ws = c01_family("W_sub", replay="C09", inv=["EmitWild"], fam="W", op='"subscription"', frags="NoFrags", leafs="W_Leafs",
                    comps="W_Comps", inlines="W_Inlines", maxsel=2, maxnodes=2, maxdepth=1, dirs="DirsNone")
    ws["trace_out"] = "MC_C01_W_sub.ndjson"
    cyc = c01_family("W_cycles", replay="C09", inv=["EmitWild"], fam="W", frags="FragsCyc", leafs="Cyc_Leafs", comps="Cyc_Comps",
                     spread="SpreadAny", maxsel=2, maxnodes=7 if big else 6, maxdepth=3, dirs="DirsNone")
    cyc["trace_out"] = "MC_C01_W_cycles.ndjson"
    cyc1 = c01_family("W_cycles1", replay="C09", inv=["EmitWild"], fam="W", frags="FragsCyc1", leafs="Cyc_Leafs", comps="Cyc_Comps",
                      spread="SpreadAny", maxsel=2, maxnodes=7 if big else 6, maxdepth=3, dirs="DirsNone")
    cyc1["trace_out"] = "MC_C01_W_cycles1.ndjson"
    vals = fam("MC_C05_c09", "MC_C05", dict(constants={"ArgNames": ALL_ARGS, "Depth": 2 if big else 1}, invariants=["Emit"]))
    degen = fam("MC_C09_degen", "MC_C09", dict(constants={"Mode": '"degen"', "L": 1}, invariants=["Emit"]))
    subcyc = fam("MC_C09_subcyc", "MC_C09", dict(constants={"Mode": '"subcyc"', "L": 1}, invariants=["Emit"]))
    # the variable-definition / field-definition contexts of MC_C03 (a fixed prefix, then every token string up to the
    # bound, pruned at the first non-viable token): what the parser lets through there reaches validation and planning
    ctx = fam("MC_C09_ctx", "MC_C09ctx", dict(constants={"Fams": "<- FamsVarDef12" if big else "<- FamsVarDef"}, invariants=["Emit"]),
              timeout=3000)
    for st in (toks, chars, degen, subcyc, ctx, wq, wm, ws, cyc, cyc1, vals):
        st["fatal_is_violation"] = True
        out.append(st)
        out.append(tv(st["trace_out"][:-7]))
    return out


PROPS = {"C09": dict(
    stages=stages, level="exploration",
    rule="TLC enumerates input spaces -- ALL token sequences of length <= 3 (thorough 4) over a 33-token alphabet, ALL "
         "character sequences of length <= 3 (4) over a 23-class alphabet (bare and inside 4 lexical contexts), invalid "
         "\"wild\" documents from the document generator (unknown fields, leaf/composite mismatches, cyclic and ill-typed "
         "fragments; query, mutation and subscription operations), and the C05 value space as variable maps -- and every "
         "input is pushed through Parse, ValidateDocument, Do, Subscribe, PlanCache.Get+ExecutePlan (plain and normalising) "
         "and, unvalidated, through Execute, PlanQuery+ExecutePlan, ExecuteSubscription and printer.Print under a watchdog; "
         "the distinct observation shapes are checked by TLC against ResultShape (Trace_C09). Non-trivial = distinct inputs "
         "(counted by the harness); not coverage-guided",
    assumptions=["parse / validation verdicts used by ResultShape are the library's own (self-consistency of Do with its stages)",
                 "a 15 s watchdog per input stands for 'time bounded by the input size'",
                 "bounded spaces are exhausted; nothing is sampled beyond them in this check"])}

MANIFEST_TEXT = {"C09": dict(
    text="Exploration of specification-defined input spaces: TLC generates all bounded token/character sequences, invalid "
         "documents and variable values; every public entry point is run on each under recover() and a watchdog, and TLC "
         "evaluates the ResultShape predicate (no panic, returns, JSON-serialisable, no data after a parse/validation "
         "failure, an error whenever data is absent) on every distinct observation shape.",
    note="Exhaustive only within the stated bounds; not coverage-guided. Trusted: TLC, the harness battery.",
    technique="TLC-enumerated input spaces replayed into every entry point; ResultShape predicate evaluated by TLC on recorded observation shapes")}
