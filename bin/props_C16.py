"""C16 - cancellation and deadlines yield either the full response or the context error.

spec/Cancel.tla (caller / exec goroutine / context / gates), model-checked stand-alone (safety +
liveness; unbuffered-channel and plain-receive variants must fail), bound to graphql.Do and
graphql.ExecutePlan by MC_C16: TLC-generated schedules with the set of legal return values, replayed
by harness/cmd/gqlv/c16.go with gates in harness resolvers, and by Trace_C16: the events recorded
during those runs validated against the same actions.
"""
from props import tlc_replay, tlc_check


def consts(n, cap=2, caller="select"):
    return {"N": n, "Cap": cap, "CallerDesign": '"%s"' % caller}


def stages(tier, seed):
    big = tier != "quick"
    n = 4 if big else 3
    return [
        # caller and exec goroutine weakly fair, gates may stay shut for ever: safety + prompt return
        tlc_check("Spec_Cancel", "Cancel",
                  dict(spec="Spec", constants=consts(n), invariants=["Safety"], properties=["ReturnStable", "PromptReturn"]),
                  workers=8, timeout=600),
        # every gate eventually opened: the call returns and the background goroutine terminates
        tlc_check("Spec_Cancel_released", "Cancel",
                  dict(spec="SpecRel", constants=consts(n), invariants=["Safety"], properties=["CallReturns", "ExecTerminates"]),
                  workers=8, timeout=600),
        # the model discriminates: an unbuffered result channel leaks the background goroutine ...
        tlc_check("Spec_Cancel_unbuffered", "Cancel",
                  dict(spec="SpecRel", constants=consts(2, cap=0), invariants=["Safety"], properties=["CallReturns", "ExecTerminates"]),
                  expect_violation="ExecTerminates", workers=8, timeout=600),
        # ... and a plain receive instead of the select makes the call wait for a blocked resolver
        tlc_check("Spec_Cancel_plainrecv", "Cancel",
                  dict(spec="Spec", constants=consts(2, caller="recv"), invariants=["Safety"], properties=["PromptReturn"]),
                  expect_violation="PromptReturn", workers=8, timeout=600),
        tlc_replay("MC_C16_N%d" % n, "MC_C16", "C16",
                   dict(spec="MCFair", constants=consts(n), invariants=["Emit", "Theorems"], properties=["EventuallyFinal"]),
                   workers=8, timeout=900, trace_out="c16.ndjson",
                   replay_args=["--reps", "150" if big else "10", "--seed", str(seed),
                                "--trace-cap", "40000" if big else "2000"]),
        # direction B: the events recorded during those runs must be behaviours of Cancel.tla
        dict(kind="trace_validate", cfg="Trace_C16", module="Trace_C16", trace_file="c16.ndjson", timeout=900,
             cfgdict=dict(spec="TraceSpec", constants=consts(n), invariants=["TraceInv"], postcondition="TraceAccepted")),
    ]


PROPS = {"C16": dict(
    stages=stages, level="model_checking",
    rule="(1) TLC checks Cancel.tla stand-alone over ALL interleavings of caller, exec goroutine (variable coercion, then "
         "<= N resolvers, each blocked at a gate, each observing or ignoring the context), context (cancel or deadline at "
         "any step, also before the call) and gate openings: the caller returns the complete response or exactly the "
         "context's error (never a partial one), the result send never blocks, PromptReturn (context done ~> returned "
         "although no gate is ever opened), CallReturns and ExecTerminates once gates are opened; the unbuffered and "
         "plain-receive variants must violate ExecTerminates / PromptReturn. (2) MC_C16 enumerates every schedule = "
         "(n <= N resolvers) x (observe/ignore per resolver) x (cancel | deadline) x position (never, before the call, "
         "during variable coercion, while resolver k is blocked, after the last resolver, racing the last gate), under the "
         "harness' gate discipline, with every return value the specification allows; each schedule is replayed several "
         "times through graphql.Do and PlanQuery+ExecutePlan and the JSON of the returned result must be byte-equal to "
         "one of the legal ones. (3) the events recorded during a seed-dependent sample of those runs (open, fire, call, "
         "arrive at gate, return value, background goroutine gone; per-run sequence numbers) are validated by Trace_C16 "
         "against the actions of Cancel.tla. Non-trivial = schedule in which the context fires",
    assumptions=[
        "gates are channels in harness resolvers / in a custom scalar's ParseValue; gates not opened up front are opened "
        "only after the call returned, so 'returns before the blocked gate is released' is enforced structurally",
        "the complete response for given resolver outcomes is precomputed by running the same request to completion "
        "without cancellation (resolvers scripted to those outcomes); the context-error response is {data: null, errors: "
        "[the context's error]}",
        "mid-execution deadlines use a context whose deadline passes at a logical point (Done closed, Err = "
        "DeadlineExceeded); before-the-call deadlines use a real context.WithDeadline in the past",
        "a hang is reported only for the stable condition 'caller parked in a plain chan receive in ExecutePlan while the "
        "exec goroutine is parked at a harness gate' or after the whole bound, and only if it reproduces; ExecutePlan's "
        "goroutine is identified in the goroutine profile by 'created by graphql.ExecutePlan in goroutine <caller>'",
        "top-level fields of a query are resolved sequentially in document order (so 'the k-th resolver' is well defined)",
    ])}

MANIFEST_TEXT = {"C16": dict(
    text="Model checking + schedule replay: Cancel.tla specifies the caller's select between context and result, the "
         "background execution (coercion, gated resolvers, publish into a buffered channel) and the context. TLC proves "
         "TwoOutcomes (complete response or exactly the context error), that the publish never blocks, prompt return and "
         "termination of both goroutines under fairness, and finds the counterexamples for an unbuffered result channel "
         "and for a plain receive. TLC then enumerates all cancellation / deadline schedules relative to the gates with "
         "their legal return values; the harness replays each against graphql.Do and ExecutePlan with gates in resolvers "
         "and a custom scalar, requires byte-equality with the precomputed full response or the context error, return "
         "before the blocked gate is released, and disappearance of the background goroutine afterwards; the event logs of a sample of those runs are "
         "re-validated by TLC against the same actions (Trace_C16).",
    note="Trusted: TLC, Cancel.tla, the harness' gate choreography and goroutine-profile reading. Expected to hold on the "
         "current tree: regression guard.",
    technique="TLA+ process spec (safety + liveness by TLC), TLC-enumerated cancellation schedules replayed into Do / "
              "ExecutePlan with gated resolvers")}
