"""C02 - validation accepts exactly the documents that satisfy every validation rule
(and the clause (b) stages of C18: validation error locations)."""
import os

from props import tlc_replay, VERIF

KNOWN = ["--known", os.path.join(VERIF, "known_findings.json")]


def v1(name, replay, nf, nt, pays, types='{"Q"}', workers=8, timeout=1500, extra=None):
    """family V1 (MC_C02.tla): all spread graphs on nf fragments x payloads x spreads of the operation"""
    return tlc_replay("MC_C02_" + name, "MC_C02", replay,
                      dict(constants={"NF": nf, "NT": nt, "PayIds": pays, "FragTypes": types, "Fam": '"V1"'},
                           invariants=["TheoremsHold"]),
                      workers=workers, timeout=timeout, replay_args=KNOWN + (extra or []))


def stages_for(replay, tier, extra=None):
    if tier == "quick":
        return [
            v1("V1_1f", replay, 1, 2, "{1,2,3,4,5,6,7,8}", extra=extra),
            v1("V1_2f", replay, 2, 2, "{1,2,3,5,6}", extra=extra),
            v1("V1_2f_QM", replay, 2, 2, "{1,7}", types='{"Q","M"}', extra=extra),
        ]
    return [
        v1("V1_1f", replay, 1, 2, "{1,2,3,4,5,6,7,8}", extra=extra),
        v1("V1_2f", replay, 2, 3, "{1,2,3,4,5,6}", extra=extra),
        v1("V1_2f_QM", replay, 2, 2, "{1,2,5,7}", types='{"Q","M"}', extra=extra),
        v1("V1_3f", replay, 3, 3, "{1,2}", extra=extra),
    ]


def stages(tier, seed):
    return stages_for("C02", tier)


def c18b_stages(tier, seed):
    """C18 clause (b): the same vectors, every validation error must be located at the start of an
    offending node; layouts with LF, CR and CRLF line ends and comment lines."""
    return stages_for("C18b", tier, extra=["--layouts", "lf,cr,crlf,crlfcom"])


ASSUME = [
    "spec/Validate.tla is a faithful transcription of the validation section of the GraphQL specification in the "
    "edition the library implements (24 rules; in-model theorems of the generators check it against independent "
    "formulations on the generator's own graph)",
    "exhaustive only within the stated family bounds; schema S1 fixed",
    "an error location is accepted when it is the start of an offending node, of a part of it or of the node it is part of "
    "(argument / value / name / directive of the same selection)",
    "rules whose verdict the editions leave open on a document (Validate!Unspec) are not asserted on it",
    "error messages, the number and the order of errors are not compared",
]

PROPS = {
    "C02": dict(
        stages=stages, level="model_checking",
        rule="TLC breadth-first enumeration of the generator machines MC_C02*.tla: one vector per distinct document of the "
             "family bounds (V1: every spread graph on <=3 fragments x field payloads x spreads of the operation; V2 variables; "
             "V3 arguments and literals; V4 fields and types; V5 operations and directives), each judged by the 24 rules of "
             "Validate.tla; the harness runs every rule alone, all rules together and graphql.Do on the printed document in "
             "several layouts. Non-trivial = document violating >= 1 rule or with >= 2 fragments (distinct documents counted "
             "by the harness)",
        assumptions=ASSUME),
}

MANIFEST_TEXT = {
    "C02": dict(
        text="Model checking: the 24 validation rules are specified in TLA+ (spec/Validate.tla) as brute-force predicates "
             "written from the GraphQL specification - the overlap rule as FieldsInSetCanMerge/SameResponseShape over the fully "
             "expanded field set of every selection set, cycles and variable rules as reachability in the spread graph. TLC "
             "enumerates every document of the bounded families (all spread graphs on up to 3 fragments with conflicting "
             "payloads, variables, arguments and literals, fields and types, operations and directives), valid and invalid, "
             "and computes for each rule the set of offending nodes; every document is printed, parsed by the real parser and "
             "validated by each exported rule alone, by the specified rules together and through graphql.Do: a rule must "
             "report an error exactly when the specification says it is violated, located at an offending node; the document "
             "is refused (no data, no resolver invoked) exactly when some rule is violated.",
        note="Trusted: TLC, the transcription of the rules in Validate.tla, the harness printer (which records node "
             "positions). Bounded families over one schema; edition-ambiguous cases are listed in Validate!Unspec and not "
             "asserted.",
        technique="TLA+ declarative validation rules + TLC bounded-exhaustive document generation, replayed rule by rule into the real validator"),
}
