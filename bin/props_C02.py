"""C02 - validation accepts exactly the documents that satisfy every validation rule
(and the clause (b) stages of C18: validation error locations)."""
import os

from props import tlc_replay, trace, VERIF

KNOWN = ["--known", os.path.join(VERIF, "known_findings.json")]
# few GC threads and a large young generation: the generators allocate many short-lived values and the
# default (one GC thread per core) thrashes when the machine is shared (measured: 200 -> 500-800 vectors/s)
JAVA = "-Xss64m -XX:ParallelGCThreads=2 -Xmn1g"


def v1(name, replay, nf, nt, pays, types='{"Q"}', shape="flat", workers=6, timeout=1500, extra=None):
    """family V1 (MC_C02.tla): all spread graphs on nf fragments x payloads x spreads of the operation"""
    return tlc_replay("MC_C02_" + name, "MC_C02", replay,
                      dict(constants={"NF": nf, "NT": nt, "PayIds": pays, "FragTypes": types, "Shape": '"%s"' % shape,
                                      "Fam": '"V1"'},
                           invariants=["TheoremsHold"]),
                      workers=workers, timeout=timeout, java_opts=JAVA, replay_args=KNOWN + (extra or []))


def g(name, replay, fam, decor="none", leafs="NoSel", comps="NoSel", inlines="NoSel", dirs="DirsNone", frags="NoFrags",
      spread="NoSpread", maxsel=2, maxnodes=3, maxdepth=2, workers=6, timeout=1500, extra=None):
    """families V2-V5 (MC_C02G.tla): documents grown by GenDoc.tla from alphabets with wrong choices, decorated"""
    consts = {"Sch": "<- S1", "Frags": "<- " + frags, "OpKind": '"query"', "MaxSel": maxsel, "MaxNodes": maxnodes,
              "MaxDepth": maxdepth, "DirSet": "<- " + dirs, "Leafs": "<- " + leafs, "Comps": "<- " + comps,
              "Inlines": "<- " + inlines, "SpreadOK": "<- " + spread, "Fam": '"%s"' % fam, "Decor": '"%s"' % decor}
    return tlc_replay("MC_C02_" + name, "MC_C02G", replay, dict(constants=consts, invariants=["TheoremsHold"]),
                      workers=workers, timeout=timeout, java_opts=JAVA, replay_args=KNOWN + (extra or []))


def stages_for(replay, tier, extra=None):
    if tier == "quick":
        return [
            g("V4", replay, "V4", leafs="V4_Leafs", comps="V4_Comps", inlines="V4_Inlines", maxsel=2, maxnodes=3, maxdepth=3,
              extra=extra),
            g("V4i", replay, "V4", leafs="V4i_Leafs", comps="V4i_Comps", inlines="V4i_Inlines", maxsel=2, maxnodes=5, maxdepth=3,
              extra=extra),
            g("V3", replay, "V3", leafs="V3_Leafs", comps="V3_Comps", maxsel=2, maxnodes=2, maxdepth=2, extra=extra),
            g("V3d", replay, "V3", leafs="V3_Leafs", dirs="V3_Dirs", maxsel=1, maxnodes=1, maxdepth=1, extra=extra),
            g("V3s", replay, "V3", leafs="V3s_Leafs", dirs="V3s_Dirs", maxsel=2, maxnodes=2, maxdepth=1, extra=extra),
            g("V2", replay, "V2", decor="vdefs", leafs="V2_Leafs", dirs="V2_Dirs", frags="FragsF", spread="SpreadAny",
              maxsel=2, maxnodes=2, maxdepth=1, extra=extra),                               # 3 654 documents
            g("V5", replay, "V5", decor="ops", leafs="V5_Leafs", inlines="V5_Inlines", dirs="V5_Dirs", frags="FragsF",
              spread="SpreadAny", maxsel=2, maxnodes=2, maxdepth=2, extra=extra),
            v1("V1_1f", replay, 1, 2, "{1,2,5,7}", types='{"Q","M"}', extra=extra),         # 722
            v1("V1_2f", replay, 2, 3, "{1,2,5}", extra=extra),                              # 29 791
            v1("V1_nest", replay, 2, 2, "{11,12}", types='{"O"}', shape="nested", extra=extra),   # 5 324
            v1("V1_twin", replay, 2, 2, "{11,12}", types='{"O"}', shape="twin", extra=extra),     # 14 641
            v1("V1_deep", replay, 2, 3, "{11,12}", types='{"O"}', shape="deep", extra=extra),
        ]
    return [
        g("V4", replay, "V4", leafs="V4_Leafs", comps="V4_Comps", inlines="V4_Inlines", maxsel=2, maxnodes=4, maxdepth=3,
          extra=extra),
        g("V4i", replay, "V4", leafs="V4i_Leafs", comps="V4i_Comps", inlines="V4i_Inlines", maxsel=3, maxnodes=6, maxdepth=4,
          timeout=3000, extra=extra),
        g("V3", replay, "V3", leafs="V3_Leafs", comps="V3_Comps", maxsel=2, maxnodes=3, maxdepth=2, extra=extra),
        g("V3d", replay, "V3", leafs="V3_Leafs", dirs="V3_Dirs", maxsel=1, maxnodes=1, maxdepth=1, extra=extra),
        g("V3s", replay, "V3", leafs="V3s_Leafs", dirs="V3s_Dirs", maxsel=3, maxnodes=3, maxdepth=1, extra=extra),
        g("V2", replay, "V2", decor="vdefs", leafs="V2_Leafs", dirs="V2_Dirs", frags="FragsF", spread="SpreadAny",
          maxsel=2, maxnodes=2, maxdepth=1, extra=extra),                                   # 3 654
        g("V2n3", replay, "V2", decor="vdefs", leafs="V2_Leafs", frags="FragsF", spread="SpreadAny",
          maxsel=2, maxnodes=3, maxdepth=1, extra=extra),                                   # 17 458
        g("V5", replay, "V5", decor="ops", leafs="V5_Leafs", inlines="V5_Inlines", dirs="V5_Dirs", frags="FragsF",
          spread="SpreadAny", maxsel=2, maxnodes=3, maxdepth=2, extra=extra),
        v1("V1_1f", replay, 1, 2, "{1,2,3,4,5,6,7,8}", extra=extra),                        # 1 225
        v1("V1_2f", replay, 2, 3, "{1,2,3,5,6,7}", timeout=3000, extra=extra),              # 166 375
        v1("V1_2f_QM", replay, 2, 2, "{1,2,5,7}", types='{"Q","M"}', extra=extra),          # 28 899
        v1("V1_3f", replay, 3, 3, "{1,2}", timeout=3000, extra=extra),                      # 279 841
        v1("V1_nest", replay, 2, 2, "{11,12,15}", types='{"O"}', shape="nested", extra=extra),
        v1("V1_twin", replay, 2, 3, "{11,12,15}", types='{"O"}', shape="twin", timeout=3000, extra=extra),
        v1("V1_deep", replay, 3, 3, "{11,12}", types='{"O"}', shape="deep", timeout=3000, extra=extra),
    ]


def flip_observed(src, dst, seed):
    """binding self-test of Trace_C02: the same fixtures with every observed verdict inverted must be rejected"""
    lines = open(src).read().splitlines()
    out = [l.replace('"obs":true', '"obs":FLIP').replace('"obs":false', '"obs":true').replace('"obs":FLIP', '"obs":false')
           for l in lines]
    open(dst, "w").write("\n".join(out) + "\n")
    return "every observed verdict inverted"


def calibration():
    """DESIGN 4.8: the repository's own rule fixtures (green on this tree) must be accepted by the specification"""
    return trace("Trace_C02", "Trace_C02", "C02",
                 dict(spec="TraceSpec", constants={"Listed": "{}"}, postcondition="TraceAccepted"),
                 corrupt_fn=flip_observed, timeout=600)


def only(sts):
    """C02_ONLY=V1_2f,V4 restricts a run to the named configurations (development aid)"""
    want = [w for w in os.environ.get("C02_ONLY", "").split(",") if w]
    return [s for s in sts if not want or s["cfg"].replace("MC_C02_", "") in want]


def stages(tier, seed):
    return only([calibration()] + stages_for("C02", tier))


def c18b_stages(tier, seed):
    """C18 clause (b): the same vectors, every validation error must be located at the start of an
    offending node; layouts with LF, CR and CRLF line ends and comment lines."""
    return only(stages_for("C18b", tier, extra=["--layouts", "lf,cr,crlf,crlfcom"]))


ASSUME = [
    "spec/Validate.tla is a faithful transcription of the validation section of the GraphQL specification in the "
    "edition the library implements (24 rules; in-model theorems of the generators check it against independent "
    "formulations on the generator's own graph)",
    "exhaustive only within the stated family bounds; schema S1 fixed",
    "an error location is accepted when it is the start of an offending node, of a part of it or of the node it is part of "
    "(argument / value / name / directive of the same selection)",
    "rules whose verdict the editions leave open on a document (Validate!Unspec) are not asserted on it",
    "error messages, the number and the order of errors are not compared",
]

PROPS = {
    "C02": dict(
        stages=stages, level="model_checking",
        rule="TLC breadth-first enumeration of the generator machines MC_C02*.tla: one vector per distinct document of the "
             "family bounds (V1: every spread graph on <=3 fragments x field payloads x spreads of the operation; V2 variables; "
             "V3 arguments and literals; V4 fields and types; V5 operations and directives), each judged by the 24 rules of "
             "Validate.tla; the harness runs every rule alone, all rules together and graphql.Do on the printed document in "
             "several layouts. Non-trivial = document violating >= 1 rule or with >= 2 fragments (distinct documents counted "
             "by the harness)",
        assumptions=ASSUME),
}

# stand-alone run of clause (b) of C18 (`bin/check C18b`); the C18 check includes c18b_stages
PROPS["C18b"] = dict(
    stages=c18b_stages, level="model_checking",
    rule="the vectors of C02; every error of every violated rule must carry a location that is the (line, column) of the "
         "start of an offending node, in layouts with LF, CR, CRLF line ends and comment lines; non-trivial = document "
         "violating >= 1 rule",
    assumptions=ASSUME + ["line/column are counted by the harness' printer while it writes the text (ASCII only)"])

MANIFEST_TEXT = {
    "C02": dict(
        text="Model checking: the 24 validation rules are specified in TLA+ (spec/Validate.tla) as brute-force predicates "
             "written from the GraphQL specification - the overlap rule as FieldsInSetCanMerge/SameResponseShape over the fully "
             "expanded field set of every selection set, cycles and variable rules as reachability in the spread graph. TLC "
             "enumerates every document of the bounded families (all spread graphs on up to 3 fragments with conflicting "
             "payloads, variables, arguments and literals, fields and types, operations and directives), valid and invalid, "
             "and computes for each rule the set of offending nodes; every document is printed, parsed by the real parser and "
             "validated by each exported rule alone, by the specified rules together and through graphql.Do: a rule must "
             "report an error exactly when the specification says it is violated, located at an offending node; the document "
             "is refused (no data, no resolver invoked) exactly when some rule is violated.",
        note="Trusted: TLC, the transcription of the rules in Validate.tla, the harness printer (which records node "
             "positions). Bounded families over one schema; edition-ambiguous cases are listed in Validate!Unspec and not "
             "asserted.",
        technique="TLA+ declarative validation rules + TLC bounded-exhaustive document generation, replayed rule by rule into the real validator"),
}
