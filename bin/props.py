"""Registry of properties: which TLC configurations and bindings each tier runs.

Configuration files are generated into the scratch copy of spec/ from the dictionaries
below (one source of truth for bounds; DESIGN.md appendix A.3 naming)."""
import json
import os
import subprocess

VERIF = os.path.dirname(os.path.dirname(os.path.abspath(__file__)))


def cfg_text(spec="Spec", constants=None, invariants=(), properties=(), constraint=None, view=None,
             postcondition=None, deadlock=False, init=None, next_=None, action_constraint=None):
    out = []
    if init:
        out += ["INIT " + init, "NEXT " + next_]
    else:
        out.append("SPECIFICATION " + spec)
    if constants:
        out.append("CONSTANTS")
        for k, v in constants.items():
            if isinstance(v, str) and v.startswith("<-"):
                out.append("  %s <- %s" % (k, v[2:].strip()))
            else:
                out.append("  %s = %s" % (k, v))
    if invariants:
        out.append("INVARIANTS " + " ".join(invariants))
    if properties:
        out.append("PROPERTIES " + " ".join(properties))
    if constraint:
        out.append("CONSTRAINT " + constraint)
    if action_constraint:
        out.append("ACTION_CONSTRAINT " + action_constraint)
    if view:
        out.append("VIEW " + view)
    if postcondition:
        out.append("POSTCONDITION " + postcondition)
    out.append("CHECK_DEADLOCK " + ("TRUE" if deadlock else "FALSE"))
    return "\n".join(out) + "\n"


def with_cfg(kindfn):
    """Wrap a stage function so that st['cfgdict'] is materialised first."""
    def run(run_, st):
        d = run_.specdir()
        if "cfgdict" in st:
            open(os.path.join(d, st["cfg"] + ".cfg"), "w").write(cfg_text(**st["cfgdict"]))
        return kindfn(run_, st)
    return run


def tlc_replay(cfg, module, replay, cfgdict, **kw):
    return dict(kind="tlc_replay", cfg=cfg, module=module, replay=replay, cfgdict=cfgdict, **kw)


def tlc_check(cfg, module, cfgdict, **kw):
    return dict(kind="tlc_check", cfg=cfg, module=module, cfgdict=cfgdict, **kw)


def trace(cfg, module, record, cfgdict, **kw):
    return dict(kind="trace", cfg=cfg, module=module, record=record, cfgdict=cfgdict, **kw)


# --------------------------------------------------------------------------- C01
def gen_consts(fam, frags="NoFrags", op='"query"', maxsel=2, maxnodes=3, maxdepth=1, dirs="DirsFull",
               leafs="NoSel", comps="NoSel", inlines="NoSel", spread="NoSpread", outs="OT_AllVal"):
    return {"Sch": "<- S1", "Frags": "<- " + frags, "OpKind": op, "MaxSel": maxsel, "MaxNodes": maxnodes,
            "MaxDepth": maxdepth, "DirSet": "<- " + dirs, "Leafs": "<- " + leafs, "Comps": "<- " + comps,
            "Inlines": "<- " + inlines, "SpreadOK": "<- " + spread, "Fam": '"%s"' % fam, "OutTables": "<- " + outs}


C01_INV = ["Emit", "KeyPresence", "WellFormedRoot"]


def c01_family(name, replay="C01", inv=C01_INV, timeout=900, **kw):
    return tlc_replay("MC_C01_" + name, "MC_C01", replay, dict(constants=gen_consts(**kw), invariants=inv), timeout=timeout)


def ops_family(name, replay, tables="OT_OpsThunks"):
    return tlc_replay("MC_Ops_" + name, "MC_Ops", replay, dict(constants={"Tables": "<- " + tables}, invariants=["Emit"]))


def c01_sim(num, depth, maxnodes):
    st = c01_family("FX_sim", fam="FX", frags="FragsFG", leafs="FX_Leafs", comps="FX_Comps", inlines="FX_Inlines",
                    spread="SpreadLater", maxsel=4, maxnodes=maxnodes, maxdepth=4, dirs="DirsFull", outs="OT_Abstract",
                    inv=["Emit", "WellFormedRoot"], timeout=600)
    st["simulate"] = "num=%d" % num
    st["depth"] = depth
    return st


def default_resolve(tier):
    """DefaultResolve.tla: every source shape of the bounded space read by fields without resolver."""
    big = tier != "quick"
    return tlc_replay("MC_DefaultResolve", "MC_DefaultResolve", "C01D",
                      dict(constants={"MaxFields": 3 if big else 2, "Big": "FALSE"}, invariants=["Emit", "Theorems"]),
                      timeout=1800)


def c01_stages(tier, seed):
    if tier == "quick":
        return [
            default_resolve(tier),
            c01_sim(300, 30, 10),
            ops_family("c01", "C01"),
            c01_family("F1_q", fam="F1", leafs="F1_Leafs", maxsel=3, maxnodes=3),
            c01_family("F2_q", fam="F2", leafs="F2_Leafs", comps="F2_Comps", maxsel=2, maxnodes=5, maxdepth=2, dirs="DirsOne"),
            c01_family("F3_q", fam="F3", frags="FragsF", leafs="F3_Leafs", inlines="F3_Inlines", spread="SpreadLater",
                       maxsel=2, maxnodes=4, maxdepth=2, dirs="DirsOne"),
            c01_family("F4_q", fam="F4", leafs="F4_Leafs", comps="F4_Comps", inlines="F4_Inlines", maxsel=2, maxnodes=4,
                       maxdepth=3, dirs="DirsNone", outs="OT_Abstract"),
            c01_family("F5_q", fam="F5", leafs="F5_Leafs", maxsel=2, maxnodes=2, dirs="DirsNone"),
            c01_family("F7_q", fam="F7", frags="FragsGO", leafs="F7_Leafs", comps="F7_Comps", spread="SpreadLater",
                       maxsel=2, maxnodes=7, maxdepth=3, dirs="DirsNone"),
        ]
    return [
        default_resolve(tier),
        c01_sim(20000, 40, 14),
        ops_family("c01", "C01"),
        c01_family("F1_t", fam="F1", leafs="F1_Leafs", maxsel=4, maxnodes=4),
        c01_family("F2_t", fam="F2", leafs="F2_Leafs", comps="F2_Comps", maxsel=3, maxnodes=5, maxdepth=3, dirs="DirsDyn",
                   timeout=3000),
        c01_family("F3_t", fam="F3", frags="FragsFG", leafs="F3_Leafs", inlines="F3_Inlines", spread="SpreadLater",
                   maxsel=3, maxnodes=5, maxdepth=2, dirs="DirsOne", timeout=3000),
        c01_family("F4_t", fam="F4", leafs="F4_Leafs", comps="F4_Comps", inlines="F4_Inlines", maxsel=3, maxnodes=5,
                   maxdepth=3, dirs="DirsOne", outs="OT_Abstract", timeout=3000),
        c01_family("F5_t", fam="F5", leafs="F5_Leafs", maxsel=3, maxnodes=3, dirs="DirsOne"),
        c01_family("F7_t", fam="F7", frags="FragsGO", leafs="F7_Leafs", comps="F7_Comps", spread="SpreadLater",
                   maxsel=3, maxnodes=8, maxdepth=4, dirs="DirsNone", timeout=3000),
    ]


def c04_stage(name, docs, maxf, alpha, replay="C04"):
    return tlc_replay("MC_C04_" + name, "MC_C04", replay,
                      dict(constants={"DocIds": docs, "MaxFaults": maxf, "Alpha": '"%s"' % alpha},
                           invariants=["Emit", "WellFormedAlways", "SiblingsUnaffected"]))


def c04_stages(tier, seed):
    if tier == "quick":
        return [c04_stage("small2", "{1,2,3,4,5,6,7,8,9,10,11}", 2, "small"), c04_stage("full1", "{1,2,3,4,5,6,7,8,9,10,11}", 1, "full")]
    return [c04_stage("small3", "{1,2,3,4,5,6,7,8,9,10,11}", 3, "small"), c04_stage("full3", "{1,2,3,4,5,6,7,8,9,10,11}", 3, "full")]


ALL_ARGS = '{"i","ni","fl","st","bo","id","e","ne","cu","li","lni","nli","lli","le","in","nin","lin","in2","in3"}'


def c05_stages(tier, seed):
    if tier == "quick":
        return [tlc_replay("MC_C05_d1", "MC_C05", "C05",
                           dict(constants={"ArgNames": ALL_ARGS, "Depth": 1}, invariants=["Emit", "LitVarAgree"])),
                c01_family("F5_c05q", replay="C05", fam="F5", leafs="F5_Leafs", maxsel=2, maxnodes=2, dirs="DirsNone")]
    return [tlc_replay("MC_C05_d2", "MC_C05", "C05",
                       dict(constants={"ArgNames": ALL_ARGS, "Depth": 2}, invariants=["Emit", "LitVarAgree"])),
            c01_family("F5_c05", replay="C05", fam="F5", leafs="F5_Leafs", maxsel=3, maxnodes=3, dirs="DirsNone")]


def c13_stages(tier, seed):
    big = tier != "quick"
    fam = c01_family("F13_t" if big else "F13_q", replay="C13", fam="F13", op='"mutation"', leafs="F13_Leafs",
                     comps="F13_Comps", frags="FragsM" if big else "NoFrags", spread="SpreadLater" if big else "NoSpread",
                     maxsel=3, maxnodes=6 if big else 5, maxdepth=3 if big else 2, dirs="DirsNone", outs="OT_Thunks",
                     inv=["Emit"])
    fam["trace_out"] = "c13.ndjson"
    fam["replay_args"] = ["--reps", "5" if big else "3", "--trace-cap", "400000" if big else "60000"]
    return [
        tlc_check("Spec_ExecSteps_serial", "ExecSteps",
                  dict(spec="SpecSerial", constants={"N": 5 if big else 4}, invariants=["Serial", "OnceAndCausal"])),
        tlc_check("Spec_ExecSteps_live", "ExecSteps",
                  dict(spec="FairSerial", constants={"N": 3}, properties=["Terminates"])),
        tlc_check("Spec_ExecSteps_asis", "ExecSteps",
                  dict(spec="SpecDeferAll", constants={"N": 3}, invariants=["Serial"]), expect_violation="Serial"),
        fam,
        dict(ops_family("c13", "C13"), trace_out="c13ops.ndjson", replay_args=["--reps", "3"]),
        dict(kind="trace_validate", cfg="Trace_C13_ops", module="Trace_C13", trace_file="c13ops.ndjson",
             cfgdict=dict(spec="TraceSpec", constants={"N": 1}, invariants=["TraceInv"], postcondition="TraceAccepted")),
        dict(kind="trace_validate", cfg="Trace_C13", module="Trace_C13", trace_file="c13.ndjson",
             cfgdict=dict(spec="TraceSpec", constants={"N": 1}, invariants=["TraceInv"], postcondition="TraceAccepted")),
    ]


def c20_stages(tier, seed):
    big = tier != "quick"
    return [
        c01_family("F20_t" if big else "F20_q", replay="C20", fam="F20", leafs="F20_Leafs", comps="F20_Comps",
                   inlines="F20_Inlines", maxsel=3 if big else 2, maxnodes=6 if big else 5, maxdepth=3, dirs="DirsNone",
                   outs="OT_C20"),
        c01_family("F4_c20", replay="C20", fam="F4", leafs="F4_Leafs", comps="F4_Comps", inlines="F4_Inlines",
                   maxsel=3 if big else 2, maxnodes=5 if big else 4, maxdepth=3, dirs="DirsNone", outs="OT_Abstract"),
        c01_family("F5_c20", replay="C20", fam="F5", leafs="F5_Leafs", maxsel=3 if big else 2, maxnodes=3 if big else 2,
                   dirs="DirsNone"),
        c01_family("F7_c20", replay="C20", fam="F7", frags="FragsGO", leafs="F7_Leafs", comps="F7_Comps", spread="SpreadLater",
                   maxsel=2, maxnodes=8 if big else 7, maxdepth=3, dirs="DirsNone"),
        c04_stage("c20_faults", "{2,3,4}", 2, "plain", replay="C20"),
    ]


EXEC_ASSUME = [
    "the reference semantics in spec/Exec.tla + Coerce.tla is a faithful transcription of the GraphQL execution algorithm (checked by in-model theorems KeyPresence/WellFormedRoot and by hand against the specification text)",
    "exhaustive only within the stated bounds (families, selections per set, nodes, depth); schema S1 fixed",
    "documents the real validator rejects are skipped and counted (validity is C02's business)",
    "error messages and the order of errors/keys are not compared",
]

PROPS = {
    "C01": dict(
        stages=c01_stages, level="model_checking",
        rule="TLC breadth-first enumeration of the generator state machine GenDoc.tla: one vector per distinct "
             "complete document within the family bounds, each with every variable assignment and outcome table; "
             "non-trivial = document with a repeated response key, a variable-driven directive or a fragment "
             "(distinct printed texts counted by the harness)",
        assumptions=EXEC_ASSUME),
    "C04": dict(
        stages=c04_stages, level="model_checking",
        rule="fault enumeration by TLC: the machine MC_C04 walks the resolver invocation sites of 5 fixed documents "
             "spanning the nullability lattice of S1 and assigns every combination of at most MaxFaults adversarial "
             "outcomes from the site alphabets (one vector per outcome table); non-trivial = table with >= 1 "
             "non-natural outcome (distinct tables counted by the harness)",
        assumptions=EXEC_ASSUME + ["a site is (type, field, source); outcomes per site from the alphabet in MC_C04.tla"]),
    "C13": dict(
        stages=c13_stages, level="model_checking",
        rule="(1) TLC checks Serial/OnceAndCausal on ExecSteps!SpecSerial for ALL forests of N nodes x all thunk placements "
             "and all interleavings, and shows that the defer-all design violates Serial; (2) TLC enumerates mutation "
             "documents (family F13: <=3 top-level fields, aliases, duplicate keys, nested selections, lists, fragments) x 6 "
             "thunk placements; the harness executes each several times and records res/force events; (3) every recorded "
             "log must be a behaviour of ExecSteps!NextSerial (Trace_C13). Non-trivial = request with >= 2 top-level fields "
             "and >= 1 thunk",
        assumptions=EXEC_ASSUME + ["events are logged by harness resolvers/thunks (no library hook)",
                                   "order inside one top-level field's subtree is not constrained"]),
    "C20": dict(
        stages=c20_stages, level="model_checking",
        rule="TLC enumerates documents of family F20 (lists, lists of lists, abstract lists, merged occurrences, literal and "
             "variable arguments), F4 (abstract dispatch), F5 (arguments) and fault tables of MC_C04; Exec.tla predicts the "
             "multiset of resolver / type-resolver invocations with path, parent runtime type, field, source, coerced "
             "arguments, declared return type, occurrences and coerced variables; the harness replays each through Do, "
             "Execute, ExecutePlan and a reuse history (same plan, two rounds over all runs, distinct roots and contexts, "
             "argument-mutating resolvers). Non-trivial = document with an invocation under a list/abstract type or with "
             "arguments",
        assumptions=EXEC_ASSUME + ["harness callbacks themselves check Info.Schema/RootValue/Operation/Fragments/context identity"]),
    "C05": dict(
        stages=c05_stages, level="model_checking",
        rule="TLC enumerates every (argument of Q.g, route in {literal, variable, variable default}, value) triple over "
             "18 input type shapes and the JSON-like / literal value spaces of MC_C05.tla (atoms incl. number classes, "
             "lists, input objects with unknown/missing/defaulted fields, nested at depth 2 in the thorough tier); "
             "non-trivial = every triple (distinct (document, inputs) pairs counted by the harness)",
        assumptions=EXEC_ASSUME + ["numbers by equivalence class with one representative each",
                                   "inputs whose status differs between editions are marked unspec and only required not to crash"]),
}


def replay_file(run, prop, path, STAGES):
    """Re-run one stored violation (vector) through the harness."""
    m = json.load(open(path))
    if not m.get("vector"):
        print("replay file has no vector; see its detail field")
        print(json.dumps(m.get("detail"), indent=1)[:4000])
        return 2
    gq = os.path.join(VERIF, "bin", "gqlv")
    lines = ""
    if m.get("schema"):
        lines += '<<"SCHEMA", "%s">>\n' % json.dumps(m["schema"]).replace("\\", "\\\\").replace('"', '\\"')
    else:
        # regenerate the SCHEMA line from the specification
        d = run.specdir()
        open(os.path.join(d, "Emit.tla"), "w").write(
            "---- MODULE Emit ----\nEXTENDS SchemaS1, Json, TLC\nASSUME PrintT(<<\"SCHEMA\", ToJson(S1)>>)\n"
            "VARIABLE x\nSpec == x = 0 /\\ [][UNCHANGED x]_x\n====\n")
        open(os.path.join(d, "Emit.cfg"), "w").write("SPECIFICATION Spec\n")
        out = subprocess.run(["tlc", "-metadir", os.path.join(run.scratch, "m"), "Emit.tla"], cwd=d, capture_output=True,
                             text=True).stdout
        lines += "\n".join(l for l in out.splitlines() if l.startswith('<<"SCHEMA"')) + "\n"
    vec = json.dumps(m["vector"]) if not isinstance(m["vector"], str) else m["vector"]
    lines += '<<"VEC", "%s">>\n' % vec.replace("\\", "\\\\").replace('"', '\\"')
    p = subprocess.run([gq, "replay", m.get("replay_id", run.pid), "--summary", "-"], input=lines, capture_output=True, text=True)
    print(p.stdout[-6000:])
    s = json.loads(p.stdout)
    if s["n_mismatch"] > 0:
        print("VIOLATION property=%s replay=%s" % (run.pid, path))
        return 1
    print("replay: no disagreement on the current tree")
    return 0


# --------------------------------------------------------------- manifest texts
MANIFEST_TEXT = {
    "C01": dict(
        text="Model checking: TLC enumerates every document of the bounded families F1-F5 (duplicate keys x directive "
             "placement, merged object fields, named/inline fragments, abstract dispatch, arguments) over schema S1, "
             "evaluates the reference execution semantics Exec.tla (transcribed from the GraphQL specification) for every "
             "variable assignment and outcome table, checks in-model theorems about that oracle, and every vector is "
             "replayed into Do, Execute and PlanQuery+ExecutePlan (with plan reuse across assignments) of the library "
             "built from the current tree; data, error paths and resolver calls must equal the specification's.",
        note="Trusted: TLC, the transcription of the execution algorithm in spec/Exec.tla+Coerce.tla, the harness "
             "printers/projections. Bounded: families and sizes listed in evidence.coverage.families; one fixed schema.",
        technique="TLA+ reference semantics + TLC bounded-exhaustive generation, vectors replayed into the real executor"),
}

MANIFEST_TEXT["C04"] = dict(
    text="Model checking as fault enumeration: TLC assigns every combination of up to 2 (quick) / 3 (thorough) adversarial "
         "outcomes (nil, typed nil, NaN, error, value+error, panic with error/string, thunk, failing thunk, wrong-signature "
         "thunk, wrong Go kind, out-of-range int, unknown enum value, nil list element, non-possible / unresolvable runtime "
         "type) to the resolver invocation sites of documents spanning the nullability lattice, proves in the model that the "
         "reference response is WellFormed and that siblings are unaffected for every table, and each table is replayed into "
         "Do/Execute/ExecutePlan; the real data tree, error paths and resolver calls must equal the specification's.",
    note="Trusted: TLC, Exec.tla (null propagation, completion), harness resolvers that act out the outcome table. Bounded: "
         "5 documents, fault count, one schema.",
    technique="TLA+ fault-enumeration machine + WellFormed theorem checked by TLC, tables replayed into the real executor")

MANIFEST_TEXT["C05"] = dict(
    text="Model checking: TLC enumerates all (argument type, route, value) triples of the bounded value spaces, computes with "
         "Coerce.tla (input coercion transcribed from the specification) whether the request must be refused (errors, no data, "
         "no resolver invoked) or which argument map the resolver must receive, checks the theorem 'literal and variable routes "
         "agree on every type-conformant value' on the whole bound, and every triple is replayed into Do/Execute/ExecutePlan; "
         "the resolver's Args and Info.VariableValues and the resolver invocation count must equal the specification's.",
    note="Trusted: TLC, Coerce.tla, harness value conversion (class representatives for numbers). Edition-dependent inputs "
         "(numeric strings/booleans/fractions for Int, etc.) are not asserted.",
    technique="TLA+ coercion semantics + TLC exhaustive (type, value, route) enumeration replayed into the real executor")

MANIFEST_TEXT["C13"] = dict(
    text="Model checking + trace validation: ExecSteps.tla specifies the small-step order of resolver runs and thunk forcing; "
         "TLC proves Serial for the mandated design over all forests/thunk placements/interleavings of the bound and exhibits "
         "the counterexample for the defer-all design; TLC-generated mutation documents x thunk placements are executed by the "
         "real library and each recorded event log is accepted only if it is a behaviour of the mandated design "
         "(Trace_C13), with Serial re-checked on every prefix.",
    note="Trusted: TLC, ExecSteps.tla, harness event logging in resolvers and thunks. Bounded document family; repeated runs "
         "sample Go's map iteration orders.",
    technique="TLA+ small-step spec (ExecSteps) model-checked by TLC + trace validation of recorded resolver/thunk event logs")

MANIFEST_TEXT["C20"] = dict(
    text="Model checking: for every TLC-enumerated document/variables/outcome table the reference semantics predicts exactly "
         "which resolvers and type resolvers are invoked and with which parameters; instrumented callbacks of the real "
         "library record ResolveParams/ResolveTypeParams, which must match as a multiset (at most once per path, exactly "
         "once outside nulled subtrees) through Do, Execute, ExecutePlan and plan-reuse histories with changing roots, "
         "contexts and argument-mutating resolvers.",
    note="Trusted: TLC, Exec.tla's calls/tcalls bookkeeping, harness callbacks. IsTypeOf parameters are exercised only "
         "through the default type resolution family when present.",
    technique="TLA+ reference semantics predicting the resolver-call multiset, replayed with instrumented callbacks and plan-reuse histories")

NOT_APPLICABLE = {}


# ------------------------------------------------------------------ plug-ins
# bin/props_<ID>.py files contribute PROPS / MANIFEST_TEXT / NOT_APPLICABLE entries.
def _load_plugins():
    import glob
    import importlib.util
    import sys
    sys.modules.setdefault("props", sys.modules[__name__])
    for f in sorted(glob.glob(os.path.join(VERIF, "bin", "props_*.py"))):
        spec = importlib.util.spec_from_file_location(os.path.basename(f)[:-3], f)
        mod = importlib.util.module_from_spec(spec)
        spec.loader.exec_module(mod)
        PROPS.update(getattr(mod, "PROPS", {}))
        MANIFEST_TEXT.update(getattr(mod, "MANIFEST_TEXT", {}))
        NOT_APPLICABLE.update(getattr(mod, "NOT_APPLICABLE", {}))


_load_plugins()
