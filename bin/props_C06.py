from props import tlc_replay, tlc_check, EXEC_ASSUME


def c06_family(name, pool, hlen, mx):
    st = tlc_replay("MC_C06_" + name, "MC_C06", "C06",
                    dict(constants={"PoolIds": pool, "HLen": hlen, "MaxE": mx}, invariants=["Emit", "ModelBound"]))
    st["trace_out"] = "c06_%s.ndjson" % name
    return st


def corrupt_flip_outcome(src, dst, seed):
    """Binding self-test: flip the logged outcome of one lookup (hit <-> miss)."""
    import random
    lines = open(src).read().splitlines()
    idx = [i for i, l in enumerate(lines) if '"e":"lookup"' in l and ('"out":"hit"' in l or '"out":"miss"' in l)]
    if not idx:
        return None
    i = random.Random(seed).choice(idx)
    l = lines[i]
    lines[i] = l.replace('"out":"hit"', '"out":"MISS"').replace('"out":"miss"', '"out":"hit"').replace('"out":"MISS"', '"out":"miss"')
    open(dst, "w").write("\n".join(lines) + "\n")
    return "line %d outcome flipped: %s" % (i + 1, l[:90])


def c06_trace(name):
    return dict(kind="trace_validate", cfg="Trace_C06_" + name, module="Trace_C06", trace_file="c06_%s.ndjson" % name,
                corrupt_fn=corrupt_flip_outcome,
                cfgdict=dict(spec="TraceSpec", invariants=["TraceInv"], postcondition="TraceAccepted"))


PC_CONST = {"Keys": '{"k1","k2","k3"}', "Schemas": '{"s1","s2"}', "Max": 2, "Procs": '{"g1","g2"}', "Sems": "<- MCSems"}


def stages(tier, seed):
    big = tier != "quick"
    out = [
        tlc_check("Spec_PlanCache_sound", "MC_PlanCache",
                  dict(constants=dict(PC_CONST, KeyOf="<- KeySound"),
                       invariants=["Bound", "LRUWellFormed", "CountersInv", "Transparent"], constraint="StateBound")),
        tlc_check("Spec_PlanCache_conflating", "MC_PlanCache",
                  dict(constants=dict(PC_CONST, KeyOf="<- KeyConflating"), invariants=["Transparent"],
                       constraint="StateBound"), expect_violation="Transparent"),
    ]
    fams = [("litdir", "{1,2,3,4,22}", 4 if big else 3, 1), ("litdir2", "{1,2,3,4}", 4 if big else 3, 2),
            ("defaults", "{5,6,7,8,23}", 4 if big else 3, 2), ("opsenum", "{9,10,11,12,13}", 4 if big else 3, 2),
            ("values", "{14,15,17,18,26,27}", 3, 2), ("frags", "{16,19,20,21,24,25}", 3, 2),
            ("dyn", "{28,29,1,2}", 4 if big else 3, 1), ("invalidlit", "{30,31,32}", 4 if big else 3, 2), ("sametext", "{33,34,35,1}", 4 if big else 3, 2),
            ("respread", "{36,37,38,39}", 4 if big else 3, 2), ("selfres", "{40,41,1}", 4 if big else 3, 2),
            ("layout", "{1,42,16,43}", 4 if big else 3, 2), ("locations", "{44,45,46,47}", 4 if big else 3, 2),
            ("noop", "{9,48,49,50}", 4 if big else 3, 2), ("optype", "{51,52,53,54}", 4 if big else 3, 2)]
    for name, pool, hlen, mx in fams:
        out.append(c06_family(name, pool, hlen, mx))
        out.append(c06_trace(name))
    return out


PROPS = {"C06": dict(
    stages=stages, level="model_checking",
    rule="(1) TLC checks Bound/LRUWellFormed/CountersInv/Transparent on PlanCache.tla for 2 goroutines, 3 keys, 2 schemas, "
         "MaxEntries 2 with a sound key function, and exhibits the Transparent violation for a conflating one; (2) TLC "
         "enumerates ALL histories of Get/Reset of length 3-4 over sub-pools of a 54-query pool (pairs differing in one "
         "literal, directive, default value, alias, argument name/order, operation name, enum/string/list/object literals, "
         "literals inside fragments, an invalid query) x 2 schema instances with MaxEntries 1-2; the harness plays each "
         "history with Normalize off, on, a nil cache and an over-size limit, compares hit/miss/stale/length with the LRU "
         "model (exactly without normalisation; hits only where the ideal class permits with it), and every response, error "
         "set and resolver-call multiset with the from-scratch graphql.Do; (3) the lookup/store/evict/reset events logged "
         "by the verif hooks under the cache mutex are validated against the LRU machine (Trace_C06). Non-trivial = history "
         "with a hit or a stale eviction",
    assumptions=EXEC_ASSUME[1:] + ["ideal normalisation classes of the pool are assigned in MC_C06.tla",
                                   "with normalisation an implementation may split classes (extra misses are counted, not flagged)"])}

MANIFEST_TEXT = {"C06": dict(
    text="Model checking + trace validation + differential: PlanCache.tla specifies the cache as a concurrent LRU state "
         "machine with a schema guard and an abstract key function; TLC proves its invariants for the bound and shows that a "
         "conflating key breaks transparency; TLC-enumerated histories are replayed into the real PlanCache (4 "
         "configurations) where hit/miss permission, entry counts, returned synthetic arguments and the response must agree "
         "with the model and with from-scratch execution; hook events recorded under the cache mutex must be a behaviour of "
         "the LRU machine.",
    note="Trusted: TLC, PlanCache.tla, the hand-assigned ideal classes of the 54 pool queries, the verif hooks in "
         "plan_cache.go (lock-order logging). Bounded history length and pool.",
    technique="TLA+ LRU state machine (TLC) + exhaustive Get/Reset histories replayed differentially + hook-event trace validation")}
