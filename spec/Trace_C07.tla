------------------------------ MODULE Trace_C07 ------------------------------
(***************************************************************************)
(* Trace specification for C07: the accesses to lazily initialised cells   *)
(* recorded by the `verif` hooks while TLC-chosen schedules were replayed  *)
(* on a cold schema / plan / cache.                                        *)
(*   {"t":"new", ...}                           a fresh world              *)
(*   {"t":"ev","g":G,"c":CELL,"rw":"rd|wr","lk":"x|s|n"}                   *)
(* `lk` is what TryLock/TryRLock observed at the instrumentation point     *)
(* (held exclusively, held shared, not held), so a removed Lock() shows as *)
(* an unprotected access and a look-up moved under the shared side of a    *)
(* reader/writer lock as a shared one.  Each access must keep              *)
(* Lazy!NoRace and Lazy!AtMostOneBuilder true of the accesses seen so far  *)
(* in this world; otherwise the line is not a step of the intended         *)
(* protocol and the trace is rejected.                                     *)
(***************************************************************************)
EXTENDS Naturals, Sequences, FiniteSets, TLC, Json

TraceLog == ndJsonDeserialize("trace.ndjson")
VARIABLES l, acc
tvars == <<l, acc>>

Line == TraceLog[l]
Conflict(a, b) == a.c = b.c /\ a.g # b.g /\ (a.rw = "wr" \/ b.rw = "wr")
Ordered(a, b) == (a.lk = "x" /\ b.lk # "n") \/ (b.lk = "x" /\ a.lk # "n")      \* Lazy!Ordered

TInit == l = 1 /\ acc = {}

New == l <= Len(TraceLog) /\ Line.t = "new" /\ acc' = {} /\ l' = l + 1

Access ==
  /\ l <= Len(TraceLog) /\ Line.t = "ev"
  /\ LET a == [g |-> Line.g, c |-> Line.c, rw |-> Line.rw, lk |-> Line.lk] IN
     /\ \A b \in acc : Conflict(a, b) => Ordered(a, b)                        \* NoRace
     /\ (a.rw = "wr" /\ a.lk = "n") => \A b \in acc : ~(b.c = a.c /\ b.rw = "wr")  \* one unlocked builder at most
     /\ acc' = acc \cup {a}
  /\ l' = l + 1

End == l <= Len(TraceLog) /\ Line.t = "end" /\ l' = l + 1 /\ UNCHANGED acc

TNext == New \/ Access \/ End
TraceSpec == TInit /\ [][TNext]_tvars

TraceAccepted ==
  LET d == TLCGet("stats").diameter IN
  IF d - 1 = Len(TraceLog) THEN TRUE
  ELSE /\ PrintT(<<"REJECT at trace line", d>>) /\ FALSE
=============================================================================
