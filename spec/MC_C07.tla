------------------------------- MODULE MC_C07 -------------------------------
(***************************************************************************)
(* Schedules for C07: N requests of given kinds run concurrently on one    *)
(* cold schema / plan / cache; a schedule is the sequence of request       *)
(* indices allowed to pass their next gate (the harness blocks each        *)
(* request goroutine at every lock-free instrumentation point).  TLC       *)
(* enumerates ALL schedules of length K for every listed request mix.      *)
(***************************************************************************)
EXTENDS Naturals, Sequences, FiniteSets, TLC, Json, SchemaS1

CONSTANTS K,           \* schedule length
          Mixes        \* set of request-kind tuples

VARIABLES mix, sched
vars == <<mix, sched>>

MixesQuick == { <<"R1", "R1">>, <<"R2", "R2">>, <<"R3", "R3">>, <<"R6", "R1">>, <<"R4", "R4">>, <<"R3", "R5">>, <<"R7", "R7">>, <<"R8", "R9">> }
MixesFull == MixesQuick \cup { <<"R1", "R6", "R1">>, <<"R3", "R4", "R2">>, <<"R3", "R3", "R5">>, <<"R6", "R6">>, <<"R2", "R4">>, <<"R7", "R3", "R5">>, <<"R7", "R6">>, <<"R9", "R8", "R9">>, <<"R8", "R2">> }

Init == mix \in Mixes /\ sched = <<>>
Next == Len(sched) < K /\ \E g \in 1..Len(mix) : sched' = Append(sched, g) /\ UNCHANGED mix
Spec == Init /\ [][Next]_vars
Complete == Len(sched) = K

Emit == Complete => PrintT(<<"VEC", ToJson([reqs |-> mix, sched |-> sched])>>)
ASSUME PrintT(<<"SCHEMA", ToJson(S1)>>)
=============================================================================
