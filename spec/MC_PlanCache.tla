----------------------------- MODULE MC_PlanCache -----------------------------
(* Bounded instances of PlanCache.tla: a sound (injective) key function, for   *)
(* which every property holds, and a conflating one (two semantics, one key),  *)
(* for which TLC must report the Transparent violation.                        *)
EXTENDS PlanCache

MCSems == {"m1", "m2", "m3"}
KeySound == [m \in MCSems |-> CASE m = "m1" -> "k1" [] m = "m2" -> "k2" [] OTHER -> "k3"]
KeyConflating == [m \in MCSems |-> CASE m = "m1" -> "k1" [] m = "m2" -> "k1" [] OTHER -> "k3"]
=============================================================================
