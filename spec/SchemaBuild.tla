----------------------------- MODULE SchemaBuild -----------------------------
(***************************************************************************)
(* C11: what it means for a built schema to be a consistent type system,   *)
(* written from the GraphQL specification, section "Type System" (names,   *)
(* "Objects: type validation" items on interface implementation, input and *)
(* output types, unions, "Schema: all types must have unique names"), as a *)
(* predicate over the OBSERVED view of a schema (what the public API       *)
(* returns, projected by harness/abs/genschema.go ViewOf):                 *)
(*                                                                         *)
(*  view  [types |-> <<TypeView>>, query, mutation, subscription: Ref,     *)
(*         hasMutation, hasSub]                                            *)
(*  TypeView [key, name, nc, kind, builtin, lookup, fields, ifaces, poss,  *)
(*            isposs, inputs, values]                                      *)
(*      key     the key in TypeMap(); name = Name(); nc = its characters   *)
(*      kind    SCALAR OBJECT INTERFACE UNION ENUM INPUT_OBJECT, or        *)
(*              LIST / NON_NULL / NIL when something else is registered    *)
(*      builtin one of the library's own introspection/scalar objects      *)
(*      lookup  Type(key) returns this entry                               *)
(*      poss    PossibleTypes(t) as listed; isposs: the objects o of the   *)
(*              map with IsPossibleType(t, o)                              *)
(*  Ref   [w, n, k, same]  wrappers outermost first, name and kind of the  *)
(*        named type at the bottom (k = "NIL": a wrapper of nothing), same *)
(*        = the type map's entry called n is this very type object         *)
(*                                                                         *)
(* Named deviations switch one clause to what the code does (D \subseteq   *)
(* DevNames); Consistent(v) = ConsistentD(v, {}).                          *)
(*                                                                         *)
(* Second part: a small state machine of NewSchema followed by AppendType  *)
(* calls in every order over a reference graph, with the invariant that    *)
(* the final type map and implementation lists do not depend on the order  *)
(* and equal those of supplying the types up front.                        *)
(***************************************************************************)
EXTENDS Naturals, Sequences, FiniteSets, TLC

DevNames == { "D_C11_input_names_unchecked", "D_C11_io_positions_unchecked", "D_C11_nonnull_of_nonnull",
              "D_C11_failed_type_accepted", "D_C11_append_duplicates_impls", "D_C11_possible_cache_stale",
              "D_C11_append_checks_stale_possible" }

NamedKinds  == {"SCALAR", "OBJECT", "INTERFACE", "UNION", "ENUM", "INPUT_OBJECT"}
OutputKinds == {"SCALAR", "OBJECT", "INTERFACE", "UNION", "ENUM"}
InputKinds  == {"SCALAR", "ENUM", "INPUT_OBJECT"}

Builtins == {"__Schema", "__Type", "__TypeKind", "__Field", "__InputValue", "__EnumValue", "__Directive",
             "__DirectiveLocation", "String", "Boolean"}

\* ------------------------------------------------------------------ names
Letters == {"a", "b", "c", "d", "e", "f", "g", "h", "i", "j", "k", "l", "m", "n", "o", "p", "q", "r", "s", "t", "u",
            "v", "w", "x", "y", "z", "A", "B", "C", "D", "E", "F", "G", "H", "I", "J", "K", "L", "M", "N", "O", "P",
            "Q", "R", "S", "T", "U", "V", "W", "X", "Y", "Z"}
Digits == {"0", "1", "2", "3", "4", "5", "6", "7", "8", "9"}

\* Name :: /[_A-Za-z][_0-9A-Za-z]*/
LegalName(nc) ==
  /\ Len(nc) > 0
  /\ nc[1] \in Letters \cup {"_"}
  /\ \A i \in 1..Len(nc) : nc[i] \in Letters \cup Digits \cup {"_"}

\* names starting with "__" are reserved for the introspection system.  The reference
\* implementation of the edition only warned about them: NOT asserted (Unspecified), counted.
Reserved(nc) == Len(nc) >= 2 /\ nc[1] = "_" /\ nc[2] = "_"

\* --------------------------------------------------------------- look-ups
SeqRange(s) == { s[i] : i \in 1..Len(s) }
Keys(v) == { v.types[i].key : i \in 1..Len(v.types) }
TypeAt(v, k) == v.types[CHOOSE i \in 1..Len(v.types) : v.types[i].key = k]
NoDup(s) == \A i, j \in 1..Len(s) : i # j => s[i] # s[j]
Names(refs) == { refs[i].n : i \in 1..Len(refs) }
Objects(v) == { i \in 1..Len(v.types) : v.types[i].kind = "OBJECT" }

WrapOK(w) == \A i \in 1..(Len(w) - 1) : ~(w[i] = "NN" /\ w[i + 1] = "NN")
IsNNRef(r) == r.w # <<>> /\ r.w[1] = "NN"
TailRef(r) == [r EXCEPT !.w = Tail(r.w)]

\* D_C11_nonnull_of_nonnull: NewNonNull(NewNonNull(T)) is an erroneous wrapper of nothing
\* whose error is not surfaced where it is used as an argument / input-field type or
\* under a list; it is registered in the type map under the name "<nil>!".
IsNilNN(r) == r.k = "NIL" /\ r.w # <<>> /\ r.w[Len(r.w)] = "NN"

\* D_C11_failed_type_accepted: a type whose constructor recorded an error (it then has no
\* name) is only refused where Error() is consulted - roots, Types, interfaces, members and
\* the direct type of a field.  As an argument or input-field type (or below a list) it is
\* accepted; the reference dangles: the failed type is unnamed and is not registered.
IsFailedType(r) == r.k \in NamedKinds /\ r.n = ""

\* a reference is closed: it reaches a registered named type, which is that very type
RefOKK(K, r, D) ==     \* K = Keys(v)
  \/ /\ r.k \in NamedKinds /\ r.n \in K /\ r.same /\ WrapOK(r.w)
  \/ /\ "D_C11_nonnull_of_nonnull" \in D /\ IsNilNN(r) /\ "<nil>!" \in K
  \/ /\ "D_C11_failed_type_accepted" \in D /\ IsFailedType(r) /\ WrapOK(r.w)
RefOK(v, r, D) == RefOKK(Keys(v), r, D)

PosOK(r, kinds, D) ==
  \/ r.k \in kinds
  \/ "D_C11_io_positions_unchecked" \in D
  \/ "D_C11_nonnull_of_nonnull" \in D /\ IsNilNN(r)

\* ------------------------------------------------------------ the clauses
\* every named type is unique and legally named
UniqueLegal(v, D) ==
  /\ Cardinality(Keys(v)) = Len(v.types)
  /\ \A i \in 1..Len(v.types) :
       LET t == v.types[i] IN
       \/ /\ t.kind \in NamedKinds
          /\ t.key = t.name
          /\ t.lookup
          /\ \/ LegalName(t.nc)
             \/ "D_C11_input_names_unchecked" \in D /\ t.kind = "INPUT_OBJECT"
       \/ /\ "D_C11_nonnull_of_nonnull" \in D
          /\ t.kind = "NON_NULL" /\ t.key = "<nil>!" /\ t.name = "<nil>!"

\* the type map is closed under reference and includes the built-in introspection types
Closed(v, D) ==
  LET K == Keys(v) IN
  /\ Builtins \subseteq K
  /\ RefOKK(K, v.query, D) /\ v.query.k = "OBJECT" /\ v.query.w = <<>>
  /\ v.hasMutation => (RefOKK(K, v.mutation, D) /\ v.mutation.k = "OBJECT" /\ v.mutation.w = <<>>)
  /\ v.hasSub => (RefOKK(K, v.subscription, D) /\ v.subscription.k = "OBJECT" /\ v.subscription.w = <<>>)
  /\ \A i \in 1..Len(v.types) :
       LET t == v.types[i] IN
       /\ \A f \in SeqRange(t.fields) : RefOKK(K, f.type, D) /\ \A a \in SeqRange(f.args) : RefOKK(K, a.type, D)
       /\ \A a \in SeqRange(t.inputs) : RefOKK(K, a.type, D)
       /\ \A r \in SeqRange(t.ifaces) : RefOKK(K, r, D) /\ r.w = <<>>
       /\ \A r \in SeqRange(t.poss) : RefOKK(K, r, D) /\ r.w = <<>>

\* fields have output types, arguments and input fields have input types; interfaces are
\* interfaces and possible types are objects
Positions(v, D) ==
  \A i \in 1..Len(v.types) :
    LET t == v.types[i] IN
    /\ \A f \in SeqRange(t.fields) : PosOK(f.type, OutputKinds, D) /\ \A a \in SeqRange(f.args) : PosOK(a.type, InputKinds, D)
    /\ \A a \in SeqRange(t.inputs) : PosOK(a.type, InputKinds, D)
    /\ \A r \in SeqRange(t.ifaces) : r.k = "INTERFACE"
    /\ \A r \in SeqRange(t.poss) : r.k = "OBJECT"

\* covariant result types ("Objects: type validation" 2.a.i-iv)
PossNames(v, a) == IF a \in Keys(v) THEN Names(TypeAt(v, a).poss) ELSE {}

RECURSIVE SubType(_,_,_)
SubType(v, sub, sup) ==
  IF IsNNRef(sup) THEN IsNNRef(sub) /\ SubType(v, TailRef(sub), TailRef(sup))
  ELSE IF IsNNRef(sub) THEN SubType(v, TailRef(sub), sup)
  ELSE IF sup.w # <<>> THEN sub.w # <<>> /\ SubType(v, TailRef(sub), TailRef(sup))
  ELSE IF sub.w # <<>> THEN FALSE
  ELSE \/ sub.n = sup.n /\ sub.k = sup.k
       \/ sup.k \in {"INTERFACE", "UNION"} /\ sub.k = "OBJECT" /\ sub.n \in PossNames(v, sup.n)

SameType(a, b) == a.w = b.w /\ a.n = b.n /\ a.k = b.k

\* every object really implements each interface it declares
Implements(v) ==
  \A i \in Objects(v) :
    LET o == v.types[i] IN
    \A r \in SeqRange(o.ifaces) :
      (r.k = "INTERFACE" /\ r.n \in Keys(v)) =>
        \A fi \in SeqRange(TypeAt(v, r.n).fields) :
          \E fo \in SeqRange(o.fields) :
            /\ fo.name = fi.name
            /\ SubType(v, fo.type, fi.type)
            /\ \A ai \in SeqRange(fi.args) : \E ao \in SeqRange(fo.args) : ao.name = ai.name /\ SameType(ao.type, ai.type)
            /\ \A ao \in SeqRange(fo.args) :
                 (\A ai \in SeqRange(fi.args) : ai.name # ao.name) => ~IsNNRef(ao.type)

\* possible-type membership is consistent with interface declarations and union members
Declaring(v, iname) == { v.types[i].name : i \in { j \in Objects(v) : iname \in Names(v.types[j].ifaces) } }

PossibleConsistent(v, D) ==
  \A i \in 1..Len(v.types) :
    LET t == v.types[i] IN
    /\ t.kind = "INTERFACE" =>
         /\ Names(t.poss) = Declaring(v, t.name)
         /\ NoDup(t.poss) \/ "D_C11_append_duplicates_impls" \in D
         /\ SeqRange(t.isposs) = Declaring(v, t.name) \/ "D_C11_possible_cache_stale" \in D
    /\ t.kind = "UNION" =>
         /\ NoDup(t.poss)
         /\ SeqRange(t.isposs) = Names(t.poss)

ConsistentD(v, D) ==
  /\ UniqueLegal(v, D)
  /\ Closed(v, D)
  /\ Positions(v, D)
  /\ Implements(v)
  /\ PossibleConsistent(v, D)

Consistent(v) == ConsistentD(v, {})

\* the deviations a view needs (the relaxations are independent and monotone)
Needed(v, L) == { d \in L : ~ConsistentD(v, L \ {d}) }

\* user-defined types carrying a reserved name (Unspecified; counted, not asserted)
ReservedUserTypes(v) == { v.types[i].key : i \in { j \in 1..Len(v.types) : ~v.types[j].builtin /\ Reserved(v.types[j].nc) } }

\* ---- "appending types afterwards gives the same schema as supplying them up front"
BagEq(s, t) == \A x \in SeqRange(s) \cup SeqRange(t) :
                 Cardinality({ i \in 1..Len(s) : s[i] = x }) = Cardinality({ i \in 1..Len(t) : t[i] = x })

SameType2(a, b, D) ==
  /\ a.key = b.key /\ a.name = b.name /\ a.kind = b.kind /\ a.lookup = b.lookup
  /\ a.fields = b.fields /\ a.inputs = b.inputs /\ a.values = b.values    \* sorted by name by the projection
  /\ SeqRange(a.ifaces) = SeqRange(b.ifaces)
  /\ IF "D_C11_append_duplicates_impls" \in D /\ a.kind = "INTERFACE"
     THEN SeqRange(a.poss) = SeqRange(b.poss) ELSE BagEq(a.poss, b.poss)
  /\ SeqRange(a.isposs) = SeqRange(b.isposs) \/ "D_C11_possible_cache_stale" \in D

SameViewD(a, b, D) ==
  /\ Keys(a) = Keys(b)
  /\ Len(a.types) = Len(b.types)
  /\ \A k \in Keys(a) : SameType2(TypeAt(a, k), TypeAt(b, k), D)
  /\ a.query = b.query /\ a.mutation = b.mutation /\ a.subscription = b.subscription

NeededSame(a, b, L) == { d \in L : ~SameViewD(a, b, L \ {d}) }

\* D_C11_append_checks_stale_possible: AppendType checks interface implementations against
\* the possible-type table computed at the end of the previous NewSchema/AppendType.  A
\* covariant field (object type where the interface declares an interface type i) is then
\* refused when i was already registered but the field's object type only enters the type
\* map with this very AppendType call - although the same types supplied up front are
\* accepted.  `up` is the up-front view, prekeys the type map keys before the failing call.
StaleCheckExplains(up, prekeys) ==
  \E n \in Objects(up) :
    LET o == up.types[n] IN
    \E r \in SeqRange(o.ifaces) :
      /\ r.n \in Keys(up)
      /\ \E fi \in SeqRange(TypeAt(up, r.n).fields) : \E fo \in SeqRange(o.fields) :
           /\ fo.name = fi.name
           /\ fi.type.k = "INTERFACE" /\ fo.type.k = "OBJECT" /\ fo.type.n # fi.type.n
           /\ fi.type.n \in SeqRange(prekeys)
           /\ fo.type.n \notin SeqRange(prekeys)

\* ======================= the AppendType machine ===========================
\* A reference graph: Names, RefsOf[n] (field, argument, input-field, interface and
\* member types of n), Declares[o] (interfaces object o declares), the roots, and the
\* types handed in: Supplied up front, Late through AppendType in some order.
CONSTANTS GNames, GRefsOf, GDeclares, GRoots, GExtras, MaxLate,
          Design      \* "mandated": implementation lists are recomputed as sets
                      \* "asis":     every AppendType appends every implementer again

VARIABLES tm,      \* the type map (set of names)
          impls,   \* interface -> sequence of implementers
          sup,     \* the types supplied up front
          todo,    \* late types not appended yet
          late     \* all late types of this behaviour
avars == <<tm, impls, sup, todo, late>>

RECURSIVE GClose(_)
GClose(X) == LET Y == X \cup UNION { GRefsOf[n] : n \in X } IN IF Y = X THEN X ELSE GClose(Y)

GIfaces == UNION { GDeclares[o] : o \in DOMAIN GDeclares }
ImplSet(T, i) == { o \in T \cap DOMAIN GDeclares : i \in GDeclares[o] }

\* some enumeration of a set as a sequence
RECURSIVE SetToSeq(_)
SetToSeq(X) == IF X = {} THEN <<>> ELSE LET x == CHOOSE y \in X : TRUE IN <<x>> \o SetToSeq(X \ {x})

UpFrontTM == GClose(GRoots \cup sup \cup late)

AInit ==
  /\ sup \in SUBSET GExtras
  /\ late \in { L \in SUBSET (GExtras \ sup) : Cardinality(L) <= MaxLate }
  /\ todo = late
  /\ tm = GClose(GRoots \cup sup)
  /\ impls = [i \in GIfaces |-> SetToSeq(ImplSet(GClose(GRoots \cup sup), i))]

AAppend(t) ==
  /\ t \in todo
  /\ todo' = todo \ {t}
  /\ tm' = GClose(tm \cup {t})
  /\ impls' = IF Design = "mandated"
              THEN [i \in GIfaces |-> SetToSeq(ImplSet(tm', i))]
              ELSE [i \in GIfaces |-> impls[i] \o SetToSeq(ImplSet(tm', i))]
  /\ UNCHANGED <<sup, late>>

ANext == \E t \in todo : AAppend(t)
ASpec == AInit /\ [][ANext]_avars

\* whatever the order, the final type map is the up-front one ...
OrderIndependent == todo = {} => tm = UpFrontTM
\* ... at every moment it is closed and contains exactly what has been handed in so far
ClosedAlways == GClose(tm) = tm /\ tm = GClose(GRoots \cup sup \cup (late \ todo))
\* ... and every implementer is listed exactly once
EachOnce == \A i \in GIfaces : NoDup(impls[i]) /\ SeqRange(impls[i]) = ImplSet(tm, i)

=============================================================================
