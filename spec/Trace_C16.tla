------------------------------ MODULE Trace_C16 ------------------------------
(***************************************************************************)
(* Binding B for C16: the events recorded while the harness replays the    *)
(* schedules of MC_C16 against the real graphql.Do / ExecutePlan must be   *)
(* behaviours of Cancel.tla.  The file concatenates many runs:             *)
(*   {"t":"sched","n":..,"obs":[..]}      a new request                    *)
(*   {"t":"ev","q":..,"e":..,"g":..,"c":..,"r":..,"o":[..]}  one event,    *)
(*        q = per-run sequence number (one atomic counter per run, taken   *)
(*        by the goroutine that performs the step, BEFORE a step whose     *)
(*        effects others can see (open, fire, call) and AFTER the step for *)
(*        observations (arrive, ret, gone))                                *)
(*      e = "open"   the harness opens gate g                              *)
(*          "fire"   the context is cancelled / its deadline passes (c)    *)
(*          "call"   the call is made                                      *)
(*          "arrive" the exec goroutine arrived at gate g (0 = coercion)   *)
(*          "ret"    the call returned r = "ctx" | "full" with resolver    *)
(*                   outcomes o (as classified by byte-comparison)         *)
(*          "gone"   ExecutePlan's goroutine is no longer in the profile   *)
(*   {"t":"end"}                                                           *)
(* The exec goroutine's own steps (Coerce, Resolve, Publish) are silent.   *)
(* Acceptance: high-water mark of the consumed line in TLC register 1.     *)
(***************************************************************************)
EXTENDS Cancel, Json

ASSUME TLCSet(1, 0)

TraceLog == ndJsonDeserialize("trace.ndjson")

VARIABLES l, seq, fdone
tvars == <<vars, l, seq, fdone>>

Line == TraceLog[l]
IsEv(e) == l <= Len(TraceLog) /\ Line.t = "ev" /\ Line.e = e /\ Line.q = seq + 1 /\ ~fdone
Step == l' = l + 1 /\ seq' = seq + 1 /\ UNCHANGED fdone

TInit ==
  /\ l = 1 /\ seq = 0 /\ fdone = TRUE
  /\ n = 1 /\ obs = <<FALSE>> /\ ctx = "live" /\ open = {}
  /\ cpc = "idle" /\ ret = NoRet /\ epc = "off" /\ k = 0 /\ out = <<>> /\ chan = <<>>

LoadSched ==
  /\ l <= Len(TraceLog) /\ Line.t = "sched"
  /\ fdone
  /\ n' = Line.n /\ obs' = Line.obs
  /\ ctx' = "live" /\ open' = {}
  /\ cpc' = "idle" /\ ret' = NoRet /\ epc' = "off" /\ k' = 0 /\ out' = <<>> /\ chan' = <<>>
  /\ l' = l + 1 /\ seq' = 0 /\ fdone' = FALSE

Silent == l <= Len(TraceLog) /\ ~fdone /\ (Coerce \/ Resolve \/ Publish) /\ UNCHANGED <<l, seq, fdone>>

EvOpen == IsEv("open") /\ Release(Line.g) /\ Step
EvFire == IsEv("fire") /\ Fire(Line.c) /\ Step
EvCall == IsEv("call") /\ Call /\ Step

EvArrive ==
  /\ IsEv("arrive")
  /\ IF Line.g = 0 THEN epc = "coerce" ELSE epc = "res" /\ k = Line.g
  /\ UNCHANGED vars
  /\ Step

EvRet ==
  /\ IsEv("ret")
  /\ CallerDone \/ CallerRecv
  /\ ret'.t = Line.r /\ ret'.out = Line.o
  /\ Step

EvGone ==
  /\ IsEv("gone")
  /\ epc = "done" /\ cpc = "ret"
  /\ UNCHANGED vars
  /\ l' = l + 1 /\ seq' = seq + 1 /\ fdone' = TRUE

End == l <= Len(TraceLog) /\ Line.t = "end" /\ fdone /\ UNCHANGED <<vars, seq, fdone>> /\ l' = l + 1

TNext == LoadSched \/ Silent \/ EvOpen \/ EvFire \/ EvCall \/ EvArrive \/ EvRet \/ EvGone \/ End
TraceSpec == TInit /\ [][TNext]_tvars

TraceInv ==
  /\ TLCSet(1, IF TLCGet(1) < l THEN l ELSE TLCGet(1))
  /\ TwoOutcomes /\ PublishedComplete /\ PublishNeverBlocks /\ FullOnlyWhenFinished

TraceAccepted ==
  IF TLCGet(1) = Len(TraceLog) + 1 THEN TRUE
  ELSE /\ PrintT(<<"REJECT at trace line", TLCGet(1)>>)    \* no behaviour of Cancel explains this line
       /\ FALSE
=============================================================================
