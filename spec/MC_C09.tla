------------------------------- MODULE MC_C09 -------------------------------
(***************************************************************************)
(* Input spaces for C09 (crash-freedom and result shape):                  *)
(*   Mode "tok"  : ALL token sequences up to length L over the punctuator  *)
(*                 / keyword / literal alphabet (rendered with spaces)     *)
(*   Mode "char" : ALL character sequences up to length L over a character *)
(*                 class alphabet (multi-byte, BOM, control, quotes, ...)  *)
(* Every sequence is handed as RequestString to Do / Subscribe /           *)
(* PlanCache.Get and, when it parses, as an UNVALIDATED document to        *)
(* ValidateDocument / PlanQuery / Execute / printer.Print.  The predicate  *)
(* every observed call must satisfy is ResultShape (checked by TLC on the  *)
(* recorded observation shapes, Trace_C09).                                *)
(***************************************************************************)
EXTENDS Naturals, Sequences, FiniteSets, TLC, Json, SchemaS1

CONSTANTS Mode, L

TokAlphabet ==
  << "{", "}", "(", ")", "[", "]", ":", "$v", "@skip", "...", "!", "=", "|",
     "query", "mutation", "subscription", "fragment", "on", "a", "o", "Q", "F",
     "1", "1.5", "\"s\"", "\"\"\"b\"\"\"", "true", "null", "type", "schema", "extend", "Int", "$" >>

CharAlphabet ==
  << "a", "1", "{", "}", "\"", "\\", "#", " ", ",", "\n", "\r", "\t", "BOM", "E9", "U1F600", "BEL", "DEL",
     "-", ".", "e", "u", "$", "@" >>

Alphabet == IF Mode = "tok" THEN TokAlphabet ELSE CharAlphabet

VARIABLE seq
Init == seq = <<>>
Next == Len(seq) < L /\ \E i \in 1..Len(Alphabet) : seq' = Append(seq, Alphabet[i])
Spec == Init /\ [][Next]_seq

Emit == PrintT(<<"VEC", ToJson([mode |-> Mode, seq |-> seq])>>)
ASSUME PrintT(<<"SCHEMA", ToJson(S1)>>)
=============================================================================
