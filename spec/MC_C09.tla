------------------------------- MODULE MC_C09 -------------------------------
(***************************************************************************)
(* Input spaces for C09 (crash-freedom and result shape):                  *)
(*   Mode "tok"  : ALL token sequences up to length L over the punctuator  *)
(*                 / keyword / literal alphabet (rendered with spaces)     *)
(*   Mode "char" : ALL character sequences up to length L over a character *)
(*                 class alphabet (multi-byte, BOM, control, quotes, ...)  *)
(*   Mode "degen": nil / zero-valued PARAMETERS: every entry point called    *)
(*                 with every combination of a proper, a nil and a zero     *)
(*                 schema; a proper, a nil and an empty (zero-valued)       *)
(*                 document; nil variables;                                 *)
(*                 a nil context; a missing operation name (at least one    *)
(*                 parameter degenerate)                                    *)
(*   Mode "subcyc": subscription documents whose ROOT selection spreads     *)
(*                 fragments that spread one another - directly, through    *)
(*                 typed / untyped / directive-carrying inline fragments -  *)
(*                 in every combination of two fragment bodies of <= 2      *)
(*                 pieces (cycles of length 1 and 2 included), run against  *)
(*                 S1 with M as subscription root: the root selection of a  *)
(*                 subscription is collected by its own routine             *)
(* Every sequence is handed as RequestString to Do / Subscribe /           *)
(* PlanCache.Get and, when it parses, as an UNVALIDATED document to        *)
(* ValidateDocument / PlanQuery / Execute / printer.Print.  The predicate  *)
(* every observed call must satisfy is ResultShape (checked by TLC on the  *)
(* recorded observation shapes, Trace_C09).                                *)
(***************************************************************************)
EXTENDS Naturals, Sequences, FiniteSets, TLC, Json, SchemaS1

CONSTANTS Mode, L

TokAlphabet ==
  << "{", "}", "(", ")", "[", "]", ":", "$v", "@skip", "...", "!", "=", "|",
     "query", "mutation", "subscription", "fragment", "on", "a", "o", "Q", "F",
     "1", "1.5", "\"s\"", "\"\"\"b\"\"\"", "true", "null", "type", "schema", "extend", "Int", "$" >>

CharAlphabet ==
  << "a", "1", "{", "}", "\"", "\\", "#", " ", ",", "\n", "\r", "\t", "BOM", "E9", "U1F600", "BEL", "DEL",
     "-", ".", "e", "u", "$", "@" >>

Alphabet == IF Mode = "tok" THEN TokAlphabet ELSE CharAlphabet

DegenEntries == {"Do", "Subscribe", "ValidateDocument", "PlanQuery", "Execute", "ExecuteSubscription", "ExecutePlan",
                 "CacheGet", "Print", "Parse"}
DegenCases ==
  { c \in [entry : DegenEntries, schema : {"ok", "nil", "zero"}, doc : {"ok", "nil", "empty"},
           vars : {"ok", "nil"}, ctx : {"ok", "nil"}, op : {"", "Nope"}] :
      c.schema # "ok" \/ c.doc # "ok" \/ c.vars # "ok" \/ c.ctx # "ok" \/ c.op # "" }

SubPieces == <<"...A", "...B", "... on M { ...A }", "... on M { ...B }", "... { ...A }",
               "... @include(if: true) { ...B }", "a">>
SubBodies == { <<SubPieces[i]>> : i \in 1..Len(SubPieces) }
             \cup { <<SubPieces[i], SubPieces[j]>> : i, j \in 1..Len(SubPieces) }

VARIABLE seq
Init == IF Mode = "subcyc" THEN seq \in { <<x, y>> : x \in SubBodies, y \in SubBodies } ELSE
        IF Mode = "degen" THEN seq \in { <<c>> : c \in DegenCases } ELSE seq = <<>>
Next == Mode \notin {"degen", "subcyc"} /\ Len(seq) < L /\ \E i \in 1..Len(Alphabet) : seq' = Append(seq, Alphabet[i])
Spec == Init /\ [][Next]_seq

Emit == IF Mode = "subcyc" THEN PrintT(<<"VEC", ToJson([mode |-> Mode, a |-> seq[1], b |-> seq[2]])>>) ELSE
        IF Mode = "degen" THEN PrintT(<<"VEC", ToJson([mode |-> Mode, case |-> seq[1]])>>)
        ELSE PrintT(<<"VEC", ToJson([mode |-> Mode, seq |-> seq])>>)
ASSUME PrintT(<<"SCHEMA", ToJson(S1)>>)
=============================================================================
