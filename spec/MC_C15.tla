------------------------------- MODULE MC_C15 -------------------------------
(***************************************************************************)
(* Binding A for C15: TLC enumerates SCRIPTS = bounded interleavings of    *)
(* the environment's moves against Subscription.tla and emits, for every   *)
(* script, every behaviour the specification allows as one vector          *)
(*                                                                         *)
(*   [mode, pre, script = <<[m, c, o, i, s]>>, leak, who, dev]             *)
(*                                                                         *)
(*   m  move    "snd" the source sends an event of class c (class "slow":  *)
(*                    the event's resolver parks until it is released)     *)
(*              "cls" the source closes its channel                        *)
(*              "rcv" the consumer receives from the result channel        *)
(*              "cancel" the context is cancelled (also while resolvers    *)
(*                    are parked)                                          *)
(*              "stall" the consumer stops reading for ever                *)
(*              "release" the parked resolver of the oldest parked event   *)
(*                    (number i) returns                                   *)
(*   o  outcome snd: "acc" (the forwarder took it, it is event number i)   *)
(*                   "ref" (the forwarder is gone, nobody takes it)        *)
(*              rcv: "val" (result of event i, class c, response shape s)  *)
(*                   "closed"                                              *)
(*   pre        the context was cancelled before Subscribe was called      *)
(*   leak, who  observation after the environment stopped, about EVERY     *)
(*              process started for the subscription (the forwarder and    *)
(*              all executors):                                            *)
(*              "na"  the context is not cancelled (a parked forwarder is  *)
(*                    legitimate) or the environment still holds a parked  *)
(*                    resolver;                                            *)
(*              "no"  cancelled, nothing held: the forwarder and every     *)
(*                    executor must be gone;                               *)
(*              "yes" cancelled, nothing held, and a process is blocked    *)
(*                    for ever: who = "fwd" the forwarder in its send      *)
(*                    (only under deviation D_C15_send_ignores_ctx), who = *)
(*                    "exec" the forwarder is gone and an executor is      *)
(*                    blocked in its hand-off send (only under deviation   *)
(*                    D_C15_handoff_unbuffered = Cap 0)                    *)
(*                                                                         *)
(* The steps of the forwarder and of the executors (Tau) are interleaved   *)
(* freely but are not part of the script, so one script can have several   *)
(* legal outcome sequences (after cancellation the forwarder's selects may *)
(* go either way).  The harness groups the vectors by script shape (mode,  *)
(* pre, moves) and accepts an observation iff it equals one of the emitted *)
(* behaviours of that shape.  All bounds are on the SHAPE (number of moves,*)
(* number of snd moves), never on outcomes, so the set of legal outcomes   *)
(* of every emitted shape is complete.                                     *)
(*                                                                         *)
(* Vectors are emitted in states where every process is at rest, i.e. what *)
(* is observable once the environment stops.  The generator runs the       *)
(* intended design (Cap >= 1).  The as-is designs are at rest in           *)
(* additional states: plain send (send pending, context cancelled), and    *)
(* Cap = 0 (an executor in its hand-off send that the forwarder no longer  *)
(* waits for): those are emitted with dev set, leak = "yes".               *)
(***************************************************************************)
EXTENDS Subscription, C15Bind, Json

CONSTANT K            \* number of environment moves per script

VARIABLES script, pre
mcvars == <<vars, script, pre>>

Move(m, c, o, i) == [m |-> m, c |-> c, o |-> o, i |-> i, s |-> Shape(c)]
Log(mv) == script' = Append(script, mv)

NSnd == Cardinality({j \in 1..Len(script) : script[j].m = "snd"})

MCInit ==
  /\ mode \in Modes
  /\ pre \in BOOLEAN
  /\ cancelled = pre
  /\ sent = <<>> /\ srcClosed = FALSE
  /\ fpc = "start" /\ cur = None /\ last = FALSE
  /\ delivered = <<>> /\ outClosed = FALSE /\ cstop = FALSE /\ seenClosed = FALSE
  /\ epc = [i \in Evs |-> "idle"] /\ hbuf = [i \in Evs |-> FALSE]
  /\ script = <<>>

Tau == (FwdInternal \/ \E i \in Evs : ExecStep(i)) /\ UNCHANGED <<script, pre>>

MinOf(S) == CHOOSE x \in S : \A y \in S : x <= y
\* started executors whose resolver has not been released yet (parked, or about to park)
Held == {i \in Evs : epc[i] = "parked" \/ (epc[i] = "run" /\ Parks(sent[i]))}

EnvMove ==
  /\ Len(script) < K
  /\ UNCHANGED pre
  \* a request that fails to parse / validate / subscribe never gets a source: no source moves
  /\ \/ \E c \in Classes :
          /\ mode = "ok" /\ NSnd < MaxEv /\ ~srcClosed
          /\ \/ SrcEmit(c) /\ Log(Move("snd", c, "acc", Len(sent) + 1))
             \/ fpc = "done" /\ UNCHANGED vars /\ Log(Move("snd", c, "ref", 0))
     \/ mode = "ok" /\ SrcClose /\ Log(Move("cls", "-", "-", 0))
     \/ Deliver /\ Log(Move("rcv", cur.c, "val", cur.i))
     \/ /\ outClosed /\ ~cstop
        /\ seenClosed' = TRUE
        /\ UNCHANGED <<mode, cancelled, sent, srcClosed, fpc, cur, last, delivered, outClosed, cstop, xvars>>
        /\ Log(Move("rcv", "-", "closed", 0))
     \/ Cancel /\ Log(Move("cancel", "-", "-", 0))
     \/ ConsumerStop /\ Log(Move("stall", "-", "-", 0))
     \* the environment sees which resolvers are parked; it lets them return in event order (it waits
     \* for the oldest resolver it has not released yet to park)
     \/ Held # {} /\ Release(MinOf(Held)) /\ Log(Move("release", "-", "-", MinOf(Held)))

\* Reduction (keeps the set of emitted vectors, shrinks the interleavings): FwdSetup, FwdMap, FwdClose
\* and ExecRun are always enabled in their control state, their effect does not depend on anything the
\* environment or another process changes, they disable no move and no step, and a state in which
\* one of them is enabled is not a rest state (nothing is emitted there).  Every behaviour is
\* therefore equivalent (same script, same outcomes, same rest states) to one in which they are
\* taken as soon as they are enabled; only those are generated.  (ExecSend is NOT treated this way:
\* the state before it is the rest state of the Cap = 0 design.)
Eager == fpc \in {"start", "map", "exit"} \/ \E i \in Evs : epc[i] = "run"
TauEager == (FwdSetup \/ FwdMap \/ FwdClose \/ \E i \in Evs : ExecRun(i)) /\ UNCHANGED <<script, pre>>

MCNext == IF Eager THEN TauEager ELSE (Tau \/ EnvMove)
MCSpec == MCInit /\ [][MCNext]_mcvars
\* the unreduced generator (thorough tier cross-check: must emit the same vectors)
MCNextFull == Tau \/ EnvMove
MCSpecFull == MCInit /\ [][MCNextFull]_mcvars

Vec(dev, leak, who) ==
  [mode |-> mode, pre |-> pre, n |-> Len(script), script |-> script, leak |-> leak, who |-> who, dev |-> dev]

\* every process is at rest under forwarder design d and hand-off capacity cap
Rest(d, cap) == ~FwdCanStep(d) /\ \A i \in Evs : ~ExecCanStepC(i, cap)
\* the observation is asked for: the context is cancelled and the environment holds no resolver
Asked == cancelled /\ Parked = {}

Emit ==
  /\ Rest("intended", 1) =>
        PrintT(<<"VEC", ToJson(Vec("-", IF Asked THEN "no" ELSE "na", "-"))>>)
  /\ (Rest("asis", 1) /\ ~Rest("intended", 1) /\ Asked) =>
        PrintT(<<"VEC", ToJson(Vec("D_C15_send_ignores_ctx", "yes", "fwd"))>>)
  \* (a rest state of the Cap = 0 design is met here before the stuck executors take the step that
  \* only Cap >= 1 allows them; no executor has put a result into a buffer nobody reads)
  /\ (Rest("intended", 0) /\ ~Rest("intended", 1) /\ Asked /\ \A i \in Evs : ~hbuf[i]) =>
        PrintT(<<"VEC", ToJson(Vec("D_C15_handoff_unbuffered", "yes", "exec"))>>)

\* in-model theorems about the oracle, checked on every generated state
Theorems ==
  /\ Safety
  \* the script's accepted sends / received values are exactly sent / delivered
  /\ LET acc == SelectSeq(script, LAMBDA x : x.m = "snd" /\ x.o = "acc")
         val == SelectSeq(script, LAMBDA x : x.m = "rcv" /\ x.o = "val")
     IN /\ Len(acc) = Len(sent) /\ \A j \in 1..Len(acc) : acc[j].c = sent[j] /\ acc[j].i = j
        /\ Len(val) = Len(delivered)
        /\ \A j \in 1..Len(val) : [i |-> val[j].i, c |-> val[j].c] = delivered[j]
  \* a rest state of the intended design in which the observation is asked for shows no process at all
  /\ (Rest("intended", 1) /\ Asked) => AllGone
  \* the deviations only ever add the blocked-for-ever observation
  /\ (Rest("asis", 1) /\ ~Rest("intended", 1)) => (fpc = "send" /\ cancelled)
  /\ (Rest("intended", 0) /\ ~Rest("intended", 1)) =>
        (cancelled /\ fpc = "done" /\ \E i \in Evs : epc[i] = "send")
  \* releases happen in event order and only for slow events that were taken
  /\ LET rel == SelectSeq(script, LAMBDA x : x.m = "release")
     IN \A j \in 1..Len(rel) : /\ rel[j].i \in 1..Len(sent) /\ Parks(sent[rel[j].i])
                               /\ \A k \in 1..(j - 1) : rel[k].i < rel[j].i
=============================================================================
