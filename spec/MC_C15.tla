------------------------------- MODULE MC_C15 -------------------------------
(***************************************************************************)
(* Binding A for C15: TLC enumerates SCRIPTS = bounded interleavings of    *)
(* the environment's moves against Subscription.tla and emits, for every   *)
(* script, every behaviour the specification allows as one vector          *)
(*                                                                         *)
(*   [mode, pre, script = <<[m, c, o, i, s]>>, leak, dev]                  *)
(*                                                                         *)
(*   m  move    "snd" the source sends an event of class c                 *)
(*              "cls" the source closes its channel                        *)
(*              "rcv" the consumer receives from the result channel        *)
(*              "cancel" the context is cancelled                          *)
(*              "stall" the consumer stops reading for ever                *)
(*   o  outcome snd: "acc" (the forwarder took it, it is event number i)   *)
(*                   "ref" (the forwarder is gone, nobody takes it)        *)
(*              rcv: "val" (result of event i, class c, response shape s)  *)
(*                   "closed"                                              *)
(*   pre        the context was cancelled before Subscribe was called      *)
(*   leak       observation after the environment stopped: "na" (context   *)
(*              not cancelled: a parked forwarder is legitimate), "no"     *)
(*              (cancelled: the forwarder goroutine must be gone), "yes"   *)
(*              (cancelled and the forwarder is blocked in its send for    *)
(*              ever: only under deviation dev = D_C15_send_ignores_ctx)   *)
(*                                                                         *)
(* The forwarder's own steps (FwdInternal) are interleaved freely but are  *)
(* not part of the script, so one script can have several legal outcome    *)
(* sequences (after cancellation the forwarder's select may go either      *)
(* way).  The harness groups the vectors by script shape (mode, pre,       *)
(* moves) and accepts an observation iff it equals one of the emitted      *)
(* behaviours of that shape.  All bounds are on the SHAPE (number of moves,*)
(* number of snd moves), never on outcomes, so the set of legal outcomes   *)
(* of every emitted shape is complete.                                     *)
(*                                                                         *)
(* Vectors are emitted in states where the forwarder is at rest, i.e. what *)
(* is observable once the environment stops.  The as-is design (plain      *)
(* send) is at rest in additional states (send pending, context cancelled):*)
(* those are emitted with dev set, leak = "yes".                           *)
(***************************************************************************)
EXTENDS Subscription, C15Bind, Json

CONSTANT K            \* number of environment moves per script

VARIABLES script, pre
mcvars == <<vars, script, pre>>

Move(m, c, o, i) == [m |-> m, c |-> c, o |-> o, i |-> i, s |-> Shape(c)]
Log(mv) == script' = Append(script, mv)

NSnd == Cardinality({j \in 1..Len(script) : script[j].m = "snd"})

MCInit ==
  /\ mode \in Modes
  /\ pre \in BOOLEAN
  /\ cancelled = pre
  /\ sent = <<>> /\ srcClosed = FALSE
  /\ fpc = "start" /\ cur = None /\ last = FALSE
  /\ delivered = <<>> /\ outClosed = FALSE /\ cstop = FALSE /\ seenClosed = FALSE
  /\ script = <<>>

Tau == FwdInternal /\ UNCHANGED <<script, pre>>

EnvMove ==
  /\ Len(script) < K
  /\ UNCHANGED pre
  \* a request that fails to parse / validate / subscribe never gets a source: no source moves
  /\ \/ \E c \in Classes :
          /\ mode = "ok" /\ NSnd < MaxEv /\ ~srcClosed
          /\ \/ SrcEmit(c) /\ Log(Move("snd", c, "acc", Len(sent) + 1))
             \/ fpc = "done" /\ UNCHANGED vars /\ Log(Move("snd", c, "ref", 0))
     \/ mode = "ok" /\ SrcClose /\ Log(Move("cls", "-", "-", 0))
     \/ Deliver /\ Log(Move("rcv", cur.c, "val", cur.i))
     \/ /\ outClosed /\ ~cstop
        /\ seenClosed' = TRUE
        /\ UNCHANGED <<mode, cancelled, sent, srcClosed, fpc, cur, last, delivered, outClosed, cstop>>
        /\ Log(Move("rcv", "-", "closed", 0))
     \/ Cancel /\ Log(Move("cancel", "-", "-", 0))
     \/ ConsumerStop /\ Log(Move("stall", "-", "-", 0))

MCNext == Tau \/ EnvMove
MCSpec == MCInit /\ [][MCNext]_mcvars

Vec(dev, leak) == [mode |-> mode, pre |-> pre, n |-> Len(script), script |-> script, leak |-> leak, dev |-> dev]

Emit ==
  /\ ~FwdCanStep("intended") =>
        PrintT(<<"VEC", ToJson(Vec("-", IF cancelled THEN "no" ELSE "na"))>>)
  /\ (~FwdCanStep("asis") /\ FwdCanStep("intended")) =>
        PrintT(<<"VEC", ToJson(Vec("D_C15_send_ignores_ctx", "yes"))>>)

\* in-model theorems about the oracle, checked on every generated state
Theorems ==
  /\ Safety
  \* the script's accepted sends / received values are exactly sent / delivered
  /\ LET acc == SelectSeq(script, LAMBDA x : x.m = "snd" /\ x.o = "acc")
         val == SelectSeq(script, LAMBDA x : x.m = "rcv" /\ x.o = "val")
     IN /\ Len(acc) = Len(sent) /\ \A j \in 1..Len(acc) : acc[j].c = sent[j] /\ acc[j].i = j
        /\ Len(val) = Len(delivered)
        /\ \A j \in 1..Len(val) : [i |-> val[j].i, c |-> val[j].c] = delivered[j]
  \* the deviation only ever adds the blocked-for-ever observation
  /\ (~FwdCanStep("asis") /\ FwdCanStep("intended")) => (fpc = "send" /\ cancelled)
=============================================================================
