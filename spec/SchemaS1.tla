------------------------------ MODULE SchemaS1 ------------------------------
(***************************************************************************)
(* The execution schema used by the C01/C04/C05/C13/C18/C20 families.      *)
(* The Go harness builds the real graphql.Schema from the JSON image of    *)
(* this very definition (emitted by TLC as a SCHEMA line), so there is one *)
(* source of truth.                                                        *)
(*                                                                         *)
(*  type Q { a:Int b:Int c:Int s:String nn:Int! o:O n:O! l:[O] ln:[O!]     *)
(*           lnn:[O!]! i:I u:U il:[I] e:E ll:[[O]]                         *)
(*           f(x:Int=7, y:Int, z:[Int], in:In, en:E):Int }                 *)
(*  type O { x:String y:String z:O w:Int! }                                *)
(*  interface I { x:String }   type A implements I { x:String p:String }   *)
(*  type B implements I { x:String q:String }   union U = A | B            *)
(*  enum E { RED GREEN }  input In { k:Int=5 m:String r:Int! }             *)
(*  input In2 { n:In l:[Int] e:E }   scalar Cu                             *)
(*  input In3 { c:E=GREEN u:Cu="dflt" r:Int k:Int=5 }                      *)
(*  Q.g(i fl st bo id e cu li lni lli le in lin in2                        *)
(*      dflt=7 din={k:5,r:1} de=GREEN):Int                                 *)
(*  Q.gni(ni:Int!) gne(ne:E!) gnli(nli:[Int]!) gnin(nin:In!) : Int          *)
(*  type M { a:Int b:Int c:Int o:O l:[O] }                                 *)
(*  Q.d:D dl:[D]  type D { p:String q:Int r:String }  -- no resolvers: DefaultResolveFn on a map   *)
(*  Q.el:[E] eln:[E]!  Q.uo:UO  union UO = TB | TA (no ResolveType)                                *)
(*  Q.it:IT itl:[IT] ta:TA  interface IT (no ResolveType) { x }  TA, TB implement IT with IsTypeOf *)
(***************************************************************************)
EXTENDS GQLBase

\* isTypeOf: the object type has an IsTypeOf function (accepting exactly sources of its own runtime type)
\* noRT: the abstract type has no ResolveType (the default resolution tries the implementers' IsTypeOf)
\* plain: the object's fields have no resolver (DefaultResolveFn reads a map source by field name)
\* selfres: the object's fields have no resolver either, but its source values resolve their own fields
\*          (graphql.FieldResolver): for the specification an ordinary type - every field resolution is an
\*          invocation with source, arguments and info - reached through the default resolver
LOCAL Ty(kind) == [kind |-> kind, fields |-> <<>>, ifaces |-> <<>>, members |-> <<>>,
                   values |-> <<>>, inputs |-> <<>>, defrt |-> "",
                   isTypeOf |-> FALSE, noRT |-> FALSE, plain |-> FALSE, selfres |-> FALSE]
LOCAL F(n, t) == [name |-> n, type |-> t, args |-> <<>>]
LOCAL Arg(n, t) == [name |-> n, type |-> t, hasDef |-> FALSE, def |-> NullV]
LOCAL ArgD(n, t, d) == [name |-> n, type |-> t, hasDef |-> TRUE, def |-> d]
LOCAL N(n) == TNamed(n)

S1 ==
  [query |-> "Q", mutation |-> "M", subscription |-> "",
   types |->
    [Q |-> [Ty("OBJECT") EXCEPT !.fields =
              << F("a", N("Int")), F("b", N("Int")), F("c", N("Int")), F("s", N("String")),
                 F("nn", TNN(N("Int"))),
                 F("o", N("O")), F("n", TNN(N("O"))), F("l", TList(N("O"))),
                 F("ln", TList(TNN(N("O")))), F("lnn", TNN(TList(TNN(N("O"))))),
                 F("i", N("I")), F("u", N("U")), F("il", TList(N("I"))), F("e", N("E")),
                 F("ll", TList(TList(N("O")))),
                 F("d", N("D")), F("dl", TList(N("D"))), F("it", N("IT")), F("itl", TList(N("IT"))), F("ta", N("TA")),
                 F("el", TList(N("E"))), F("eln", TNN(TList(N("E")))), F("uo", N("UO")),
                 F("sr", N("SR")), F("srl", TList(N("SR"))),
                 F("ix", N("IX")),
                 \* leaves of the other built-in scalar types
                 F("fl", N("Float")), F("bo", N("Boolean")), F("idf", N("ID")), F("fnn", TNN(N("Float"))),
                 F("cuf", N("Cu")), F("cunn", TNN(N("Cu"))),
                 [name |-> "f", type |-> N("Int"),
                  args |-> << ArgD("x", N("Int"), IntV("7")), Arg("y", N("Int")),
                              Arg("z", TList(N("Int"))), Arg("in", N("In")), Arg("en", N("E")) >>],
                 \* g: one argument of every input type shape (C05)
                 [name |-> "g", type |-> N("Int"),
                  args |-> << Arg("i", N("Int")), Arg("fl", N("Float")),
                              Arg("st", N("String")), Arg("bo", N("Boolean")), Arg("id", N("ID")),
                              Arg("e", N("E")), Arg("cu", N("Cu")),
                              Arg("li", TList(N("Int"))), Arg("lni", TList(TNN(N("Int")))),
                              Arg("lli", TList(TList(N("Int")))),
                              Arg("le", TList(N("E"))),
                              Arg("in", N("In")), Arg("lin", TList(N("In"))),
                              Arg("in2", N("In2")), Arg("in3", N("In3")),
                              ArgD("dflt", N("Int"), IntV("7")),
                              ArgD("din", N("In"), ObjV(<<[n |-> "k", v |-> IntV("5")], [n |-> "r", v |-> IntV("1")]>>)),
                              ArgD("de", N("E"), [k |-> "eint", v |-> "green#1"]) >>],
                 \* required arguments, one per field
                 [name |-> "gni", type |-> N("Int"), args |-> << Arg("ni", TNN(N("Int"))) >>],
                 [name |-> "gne", type |-> N("Int"), args |-> << Arg("ne", TNN(N("E"))) >>],
                 [name |-> "gnli", type |-> N("Int"), args |-> << Arg("nli", TNN(TList(N("Int")))) >>],
                 [name |-> "gnin", type |-> N("Int"), args |-> << Arg("nin", TNN(N("In"))) >>] >>],
     O |-> [Ty("OBJECT") EXCEPT !.fields =
              << F("x", N("String")), F("y", N("String")), F("z", N("O")), F("w", TNN(N("Int"))) >>],
     I |-> [Ty("INTERFACE") EXCEPT !.fields = << F("x", N("String")) >>, !.defrt = "A"],
     A |-> [Ty("OBJECT") EXCEPT !.fields = << F("x", N("String")), F("p", N("String")) >>,
                                 !.ifaces = <<"I">>],
     B |-> [Ty("OBJECT") EXCEPT !.fields = << F("x", N("String")), F("q", N("String")) >>,
                                 !.ifaces = <<"I">>],
     SR |-> [Ty("OBJECT") EXCEPT !.fields = << F("p", N("String")),
                                               [name |-> "r", type |-> N("String"),
                                                args |-> << Arg("y", N("Int")), ArgD("d", N("Int"), IntV("7")), Arg("e", N("E")) >>] >>,
                                  !.selfres = TRUE],
     D |-> [Ty("OBJECT") EXCEPT !.fields = << F("p", N("String")), F("q", N("Int")), F("r", N("String")) >>,
                                 !.plain = TRUE],
     \* an interface NO object implements; its type resolver answers A, which is not a possible type
     IX |-> [Ty("INTERFACE") EXCEPT !.fields = << F("x", N("String")) >>, !.defrt = "A"],
     IT |-> [Ty("INTERFACE") EXCEPT !.fields = << F("x", N("String")) >>, !.defrt = "TA", !.noRT = TRUE],
     TA |-> [Ty("OBJECT") EXCEPT !.fields = << F("x", N("String")), F("p", N("String")) >>,
                                  !.ifaces = <<"IT">>, !.isTypeOf = TRUE],
     TB |-> [Ty("OBJECT") EXCEPT !.fields = << F("x", N("String")), F("q", N("String")) >>,
                                  !.ifaces = <<"IT">>, !.isTypeOf = TRUE],
     \* a union without ResolveType whose members are NOT declared alphabetically; a source whose runtime
     \* type is "*" is accepted by the IsTypeOf of every member: the first declared member wins
     UO |-> [Ty("UNION") EXCEPT !.members = <<"TB", "TA">>, !.defrt = "TB", !.noRT = TRUE],
     U |-> [Ty("UNION") EXCEPT !.members = <<"A", "B">>, !.defrt = "A"],
     E |-> [Ty("ENUM") EXCEPT !.values =
              << [name |-> "RED", internal |-> "red#0", deprecated |-> FALSE],
                 [name |-> "GREEN", internal |-> "green#1", deprecated |-> FALSE] >>],
     In |-> [Ty("INPUT_OBJECT") EXCEPT !.inputs =
              << ArgD("k", N("Int"), IntV("5")), Arg("m", N("String")), Arg("r", TNN(N("Int"))) >>],
     In2 |-> [Ty("INPUT_OBJECT") EXCEPT !.inputs =
              << Arg("n", N("In")), Arg("l", TList(N("Int"))), Arg("e", N("E")) >>],
     \* defaults whose internal value differs from their input form (enum, custom scalar)
     In3 |-> [Ty("INPUT_OBJECT") EXCEPT !.inputs =
              << ArgD("c", N("E"), [k |-> "eint", v |-> "green#1"]), ArgD("u", N("Cu"), [k |-> "cu", v |-> "dflt"]),
                 Arg("r", N("Int")), ArgD("k", N("Int"), IntV("5")) >>],
     Cu |-> Ty("SCALAR"),
     M |-> [Ty("OBJECT") EXCEPT !.fields =
              << F("a", N("Int")), F("b", N("Int")), F("c", N("Int")), F("o", N("O")), F("l", TList(N("O"))) >>],
     Int |-> Ty("SCALAR"), Float |-> Ty("SCALAR"), String |-> Ty("SCALAR"),
     Boolean |-> Ty("SCALAR"), ID |-> Ty("SCALAR")]]

=============================================================================
