------------------------------ MODULE PlanCache ------------------------------
(***************************************************************************)
(* The plan cache as a state machine (C06, C07): a bounded LRU of entries  *)
(* keyed by an opaque key, each bound to the schema it was planned for.    *)
(*                                                                         *)
(* One action per critical section of the implementation:                  *)
(*   Lookup(g,k,s)  under the mutex: hit / miss / stale-schema eviction    *)
(*   Store(g)       under the mutex: insert or overwrite, evict LRU tail   *)
(*   Reset          under the mutex: drop everything                       *)
(* Planning (Build) happens outside the mutex between a miss and the       *)
(* Store, so several goroutines may build the same key concurrently.       *)
(*                                                                         *)
(* What a key MEANS is a parameter: Sem(k) is the plan semantics a key     *)
(* stands for; a request carries the key it computes and the semantics it  *)
(* needs (req.sem).  With a sound key function Sem(req.key) = req.sem      *)
(* always; the deviation D_C06_fingerprint_drops models a key function     *)
(* that conflates requests with different semantics, for which TLC finds   *)
(* the Transparent violation.                                              *)
(***************************************************************************)
EXTENDS Naturals, Sequences, FiniteSets, TLC

CONSTANTS Keys,        \* opaque cache keys
          Schemas,     \* schema identities (pointers)
          Max,         \* MaxEntries
          Procs,       \* goroutines
          Sems,        \* plan semantics
          KeyOf        \* function Sems -> Keys: the key a request with that semantics computes

VARIABLES entries,     \* function: subset of Keys -> [schema, sem]
          order,       \* sequence of keys, most recently used first
          hits, misses, lookups,
          pc,          \* Procs -> "idle" | "build"
          pend,        \* Procs -> the request being built
          served       \* last hit: [want, got] semantics (ghost, for Transparent)
vars == <<entries, order, hits, misses, lookups, pc, pend, served>>

NoReq == [key |-> "none", schema |-> "none", sem |-> "none"]

Init ==
  /\ entries = <<>> /\ order = <<>>
  /\ hits = 0 /\ misses = 0 /\ lookups = 0
  /\ pc = [g \in Procs |-> "idle"] /\ pend = [g \in Procs |-> NoReq]
  /\ served = [want |-> "none", got |-> "none"]

Without(seq, k) == SelectSeq(seq, LAMBDA x : x # k)
ToFront(seq, k) == <<k>> \o Without(seq, k)
Drop(f, k) == [x \in DOMAIN f \ {k} |-> f[x]]
Put(f, k, v) == [x \in DOMAIN f \cup {k} |-> IF x = k THEN v ELSE f[x]]

\* the outcome of a lookup in the current state
Outcome(k, s) ==
  IF k \notin DOMAIN entries THEN "miss"
  ELSE IF entries[k].schema # s THEN "stale" ELSE "hit"

Lookup(g, sem, s) ==
  LET k == KeyOf[sem] IN
  /\ pc[g] = "idle"
  /\ lookups' = lookups + 1
  /\ CASE Outcome(k, s) = "hit" ->
            /\ order' = ToFront(order, k)
            /\ hits' = hits + 1
            /\ served' = [want |-> sem, got |-> entries[k].sem]
            /\ UNCHANGED <<entries, misses, pc, pend>>
       [] Outcome(k, s) = "stale" ->
            /\ entries' = Drop(entries, k) /\ order' = Without(order, k)
            /\ misses' = misses + 1
            /\ pc' = [pc EXCEPT ![g] = "build"]
            /\ pend' = [pend EXCEPT ![g] = [key |-> k, schema |-> s, sem |-> sem]]
            /\ UNCHANGED <<hits, served>>
       [] OTHER ->
            /\ misses' = misses + 1
            /\ pc' = [pc EXCEPT ![g] = "build"]
            /\ pend' = [pend EXCEPT ![g] = [key |-> k, schema |-> s, sem |-> sem]]
            /\ UNCHANGED <<entries, order, hits, served>>

\* victims of inserting a fresh key: the tail beyond Max, oldest first
Victims(ord) == IF Len(ord) > Max THEN [i \in 1..(Len(ord) - Max) |-> ord[Len(ord) + 1 - i]] ELSE <<>>

StoreEffect(k, s, sem) ==
  IF k \in DOMAIN entries
  THEN /\ entries' = [entries EXCEPT ![k] = [schema |-> s, sem |-> sem]]
       /\ order' = ToFront(order, k)
  ELSE LET ord2 == <<k>> \o order
           keep == SubSeq(ord2, 1, IF Len(ord2) > Max THEN Max ELSE Len(ord2))
           ent2 == Put(entries, k, [schema |-> s, sem |-> sem])
       IN /\ order' = keep
          /\ entries' = [x \in { keep[i] : i \in 1..Len(keep) } |-> ent2[x]]

Store(g) ==
  /\ pc[g] = "build"
  /\ StoreEffect(pend[g].key, pend[g].schema, pend[g].sem)
  /\ pc' = [pc EXCEPT ![g] = "idle"]
  /\ pend' = [pend EXCEPT ![g] = NoReq]
  /\ UNCHANGED <<hits, misses, lookups, served>>

Reset ==
  /\ entries' = <<>> /\ order' = <<>>
  /\ UNCHANGED <<hits, misses, lookups, pc, pend, served>>

Next ==
  \/ \E g \in Procs, sem \in Sems, s \in Schemas : Lookup(g, sem, s)
  \/ \E g \in Procs : Store(g)
  \/ Reset

Spec == Init /\ [][Next]_vars

\* ---------------------------------------------------------------- properties
Bound == Len(order) <= Max
LRUWellFormed ==
  /\ \A i, j \in 1..Len(order) : order[i] = order[j] => i = j
  /\ { order[i] : i \in 1..Len(order) } = DOMAIN entries
CountersInv == hits + misses = lookups
\* a served plan is the plan the request needs
Transparent == served.want = served.got

\* bound the counters for exhaustive checking
StateBound == lookups <= 5
=============================================================================
