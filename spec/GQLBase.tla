------------------------------ MODULE GQLBase ------------------------------
(***************************************************************************)
(* Abstract data model shared by every specification in /verif/spec.       *)
(*                                                                         *)
(* Everything that crosses the TLC <-> Go boundary is built from strings,  *)
(* booleans, sequences and non-empty records (DESIGN.md section 3).        *)
(*                                                                         *)
(* Type reference   [w |-> <<"NN","L",...>>, n |-> "Int"]  outermost first *)
(* Schema           [types |-> [name -> TypeRec], query, mutation, sub]    *)
(* TypeRec          [kind, fields, ifaces, members, values, inputs]        *)
(* FieldDef         [name, type, args]   ArgDef [name, type, hasDef, def]  *)
(* Value            [k|->"null"] [k|->"bool",b] [k|->"int",v|->"7"]        *)
(*                  [k|->"str",v] [k|->"enum",v] [k|->"float",v]           *)
(*                  [k|->"list",items] [k|->"obj",fields|-><<[n,v]>>]      *)
(*                  [k|->"var",n]  (only inside documents)                 *)
(***************************************************************************)
EXTENDS Naturals, Sequences, FiniteSets, SequencesExt, Functions

\* ------------------------------------------------------------- sequences
RECURSIVE SeqConcat(_)
SeqConcat(ss) == IF ss = <<>> THEN <<>> ELSE Head(ss) \o SeqConcat(Tail(ss))

IsPrefixOf(p, q) == Len(p) <= Len(q) /\ \A i \in 1..Len(p) : p[i] = q[i]

\* index of the first element satisfying a name equality, 0 if none
IndexByName(s, nm) ==
  IF \E i \in 1..Len(s) : s[i].name = nm
  THEN CHOOSE i \in 1..Len(s) : s[i].name = nm /\ \A j \in 1..(i-1) : s[j].name # nm
  ELSE 0

HasName(s, nm) == \E i \in 1..Len(s) : s[i].name = nm
ByName(s, nm) == s[IndexByName(s, nm)]

\* ------------------------------------------------------- type references
TNamed(n) == [w |-> <<>>, n |-> n]
TNN(t)    == [w |-> <<"NN">> \o t.w, n |-> t.n]
TList(t)  == [w |-> <<"L">> \o t.w, n |-> t.n]
IsNN(t)   == t.w # <<>> /\ Head(t.w) = "NN"
IsListT(t) == t.w # <<>> /\ Head(t.w) = "L"
IsNamedT(t) == t.w = <<>>
Unwrap(t) == [w |-> Tail(t.w), n |-> t.n]
Nullable(t) == IF IsNN(t) THEN Unwrap(t) ELSE t

\* ----------------------------------------------------------------- values
NullV        == [k |-> "null"]
BoolV(b)     == [k |-> "bool", b |-> b]
IntV(s)      == [k |-> "int", v |-> s]
FloatV(s)    == [k |-> "float", v |-> s]
StrV(s)      == [k |-> "str", v |-> s]
EnumV(s)     == [k |-> "enum", v |-> s]
ListV(items) == [k |-> "list", items |-> items]
ObjV(fields) == [k |-> "obj", fields |-> fields]
VarRef(n)    == [k |-> "var", n |-> n]
IsNullV(v)   == v.k = "null"

\* --------------------------------------------------------- schema lookups
TypeRec(S, tn) == S.types[tn]
HasType(S, tn) == tn \in DOMAIN S.types
KindOf(S, tn) == S.types[tn].kind
IsLeafKind(k) == k \in {"SCALAR", "ENUM"}
IsCompositeKind(k) == k \in {"OBJECT", "INTERFACE", "UNION"}
IsAbstractKind(k) == k \in {"INTERFACE", "UNION"}
IsInputKind(k) == k \in {"SCALAR", "ENUM", "INPUT_OBJECT"}
IsOutputKind(k) == k \in {"SCALAR", "ENUM", "OBJECT", "INTERFACE", "UNION"}

TypenameField == [name |-> "__typename", type |-> TNN(TNamed("String")), args |-> <<>>]

HasField(S, tn, fn) ==
  \/ fn = "__typename" /\ IsCompositeKind(KindOf(S, tn))
  \/ HasName(S.types[tn].fields, fn)

FieldDef(S, tn, fn) ==
  IF fn = "__typename" THEN TypenameField ELSE ByName(S.types[tn].fields, fn)

ObjectTypes(S) == { tn \in DOMAIN S.types : S.types[tn].kind = "OBJECT" }

PossibleTypes(S, tn) ==
  CASE S.types[tn].kind = "OBJECT"    -> {tn}
    [] S.types[tn].kind = "UNION"     -> Range(S.types[tn].members)
    [] S.types[tn].kind = "INTERFACE" ->
         { o \in ObjectTypes(S) : tn \in Range(S.types[o].ifaces) }
    [] OTHER -> {}

\* does a fragment with type condition `cond` apply to an object of type ot
TypeApplies(S, cond, ot) == cond = "" \/ (HasType(S, cond) /\ ot \in PossibleTypes(S, cond))

TypesOverlap(S, a, b) == PossibleTypes(S, a) \cap PossibleTypes(S, b) # {}

\* ------------------------------------------------------------------ paths
IdxKey(i) == CASE i = 0 -> "#0" [] i = 1 -> "#1" [] i = 2 -> "#2" [] i = 3 -> "#3"
               [] i = 4 -> "#4" [] i = 5 -> "#5" [] OTHER -> "#n"

IsIdxKey(k) == k \in {"#0", "#1", "#2", "#3", "#4", "#5", "#n"}
RECURSIVE StripIdx(_)
\* the path of the enclosing field: trailing list indices removed
StripIdx(p) == IF p # <<>> /\ IsIdxKey(p[Len(p)]) THEN StripIdx(SubSeq(p, 1, Len(p) - 1)) ELSE p

=============================================================================
