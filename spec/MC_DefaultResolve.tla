-------------------------- MODULE MC_DefaultResolve --------------------------
(***************************************************************************)
(* Generator for DefaultResolve.tla: EVERY source of the bounded space is  *)
(* an initial state and a vector; the harness builds the Go value          *)
(* (reflect.StructOf / maps / a FieldResolver), lets a field without       *)
(* resolver read each name of QNames from it through graphql.Do and        *)
(* compares with Resolve.  The in-model theorems are checked on the whole  *)
(* space.                                                                  *)
(***************************************************************************)
EXTENDS DefaultResolve, Json, TLC

CONSTANTS MaxFields,    \* longest struct
          Big           \* BOOLEAN: full tag alphabets also for the longest structs

VARIABLE src
vars == <<src>>

QNames == <<"ab", "Ab", "AB", "cd", "CD">>

GoNames == {"Ab", "AB", "Cd", "CD", "Zz"}
JsonTags == {NoTag, "ab", "Ab", "cd", "-", ""}
GqlTags == {NoTag, "ab", "cd", "AB"}
GoSmall == {"Ab", "CD", "Zz"}
JsonSmall == {NoTag, "ab", "cd"}
GqlSmall == {NoTag, "ab", "CD"}

Fld(g, j, q, i) == [go |-> g, json |-> j, gql |-> q, v |-> "v" \o ToString(i)]
FullF(i) == { Fld(g, j, q, i) : g \in GoNames, j \in JsonTags, q \in GqlTags }
SmallF(i) == { Fld(g, j, q, i) : g \in GoSmall, j \in JsonSmall, q \in GqlSmall }
F(i, n) == IF n <= 2 \/ Big THEN FullF(i) ELSE SmallF(i)

DistinctGo(fs) == \A i, j \in 1..Len(fs) : i # j => fs[i].go # fs[j].go
Seq0 == { <<>> }
Seq1 == { <<a>> : a \in F(1, 1) }
Seq2 == { <<a, b>> : a \in F(1, 2), b \in F(2, 2) }
Seq3 == { <<a, b, c>> : a \in F(1, 3), b \in F(2, 3), c \in F(3, 3) }
Seqs == Seq0 \cup Seq1 \cup (IF MaxFields >= 2 THEN Seq2 ELSE {}) \cup (IF MaxFields >= 3 THEN Seq3 ELSE {})

Struct(fs, p, np) == [shape |-> "struct", ptr |-> p, nilp |-> np, fields |-> fs]
Structs ==
  { Struct(fs, 0, FALSE) : fs \in { s \in Seqs : DistinctGo(s) } }
  \cup { Struct(fs, p, FALSE) : fs \in Seq0 \cup Seq1, p \in {1, 2} }
  \cup { Struct(fs, 1, TRUE) : fs \in Seq1 }
  \cup { Struct(fs, 1, FALSE) : fs \in { s \in (IF MaxFields >= 2 THEN Seq2 ELSE {}) : DistinctGo(s) /\ s[1].json = NoTag /\ s[2].gql = NoTag } }

Ent(k, v) == [k |-> k, v |-> v]
EntsOf(typ, key) ==
  CASE typ \in {"any", "named"} -> { Ent("val", "m" \o key), Ent("fn", "f" \o key), Ent("nil", "") }
    [] typ = "str" -> { Ent("val", "m" \o key) }
    [] typ = "fn"  -> { Ent("fn", "f" \o key), Ent("nilfn", "") }
MapKeys == {"ab", "Ab", "cd"}
EntMaps(typ) == UNION { [ks -> UNION { EntsOf(typ, key) : key \in ks }] : ks \in SUBSET MapKeys }
WellKeyed(typ, m) == \A key \in DOMAIN m : m[key] \in EntsOf(typ, key)
MapsOK == UNION { { [shape |-> "map", typ |-> typ, ptr |-> p, ents |-> m] :
                       p \in {0, 1}, m \in { x \in EntMaps(typ) : WellKeyed(typ, x) } } : typ \in {"any", "named", "str", "fn"} }
MapSources == { s \in MapsOK : s.ptr = 1 => Cardinality(DOMAIN s.ents) <= 1 }

Resolvers == { [shape |-> "resolver", ptr |-> p, fails |-> f] : p \in {0, 1}, f \in BOOLEAN }
Others == { [shape |-> "other", kind |-> k] : k \in {"int", "string", "slice", "intmap", "chan"} }

Sources == Structs \cup MapSources \cup Resolvers \cup Others

Init == src \in Sources
Next == FALSE /\ UNCHANGED src
Spec == Init /\ [][Next]_vars

\* JSON image: map entries as a sequence (ToJson of a function with string domain is an object already)
Expected == [i \in 1..Len(QNames) |-> [name |-> QNames[i]] @@ Resolve(src, QNames[i])]
Emit == PrintT(<<"VEC", ToJson([src |-> src, exp |-> Expected])>>)

Theorems ==
  /\ \A n \in {"ab", "Ab", "AB", "cd", "CD"} : NothingInvented(src, n)
  /\ CaseInsensitiveByName(src, "ab", "AB") /\ CaseInsensitiveByName(src, "cd", "CD") /\ CaseInsensitiveByName(src, "Ab", "ab")
=============================================================================
