------------------------------ MODULE Validate ------------------------------
(***************************************************************************)
(* The validation section of the GraphQL specification, in the edition the *)
(* library implements (24 rules, the names exported by /repo/rules.go), as *)
(* brute-force declarative predicates: no visitor, no memoisation.         *)
(*                                                                         *)
(* Every rule is a set comprehension over a schema S (GQLBase) and an      *)
(* abstract document D                                                     *)
(*   D    = [ops |-> <<[kind, name, vdefs, sel (, dirs)]>>,                *)
(*           frags |-> <<[name, on, sel (, dirs)]>>]                        *)
(*   sel  = <<[k|->"field", id, alias, name, args, dirs, sel]               *)
(*          | [k|->"spread", id, name, dirs]                                *)
(*          | [k|->"inline", id, on, dirs, sel]>>      (sel = <<>>: none)   *)
(*   args = <<[n, v]>>   dirs = <<[n, v]>> (= @n(if: v)) or <<[n, v, args]>>*)
(*   vdef = [n, type, hasDef, def]                                         *)
(* yielding the set of OFFENDING NODE IDS.  A node id is the path of the   *)
(* node as a string:                                                       *)
(*   s<id>            selection <id>          s<id>.a<i>    its i-th arg    *)
(*   s<id>.a<i>.v     value of that argument  s<id>.d<j>    j-th directive  *)
(*   s<id>.d<j>.a<i>  directive argument      s<id>.on      type condition  *)
(*   s<id>.ss         selection set of a field                              *)
(*   <value>.<i>      i-th list item / i-th object field (its value: .v)   *)
(*   o<i>  o<i>.n  o<i>.v<j>  o<i>.v<j>.t  o<i>.v<j>.d  o<i>.d<j>           *)
(*   f<i>  f<i>.n  f<i>.on  f<i>.d<j>                                       *)
(* (the harness' printer records the source position of every such node).  *)
(*                                                                         *)
(* Use:  Judge(IndexSchema(S), D)  /  Viol(rule, S, D)  /  Valid(S, D).    *)
(* IndexSchema and Prep only turn the schema's field lists and the         *)
(* document's fragment list into look-up tables and give every selection   *)
(* the same record shape; they add no semantics.                           *)
(*                                                                         *)
(* Definedness guards (DESIGN.md 4.2): a rule is silent where the type     *)
(* information it needs does not exist (unknown parent type, field,        *)
(* argument, directive, type condition).  Inputs on which the edition is   *)
(* ambiguous are collected per rule in Unspec and are not asserted.        *)
(*                                                                         *)
(* dev is a set of NAMED DEVIATIONS (DESIGN.md section 5) that switch one  *)
(* operator to what the pinned implementation does; {} = the specification.*)
(***************************************************************************)
EXTENDS Coerce, TLC

Rules == << "ArgumentsOfCorrectType", "DefaultValuesOfCorrectType", "FieldsOnCorrectType",
            "FragmentsOnCompositeTypes", "KnownArgumentNames", "KnownDirectives",
            "KnownFragmentNames", "KnownTypeNames", "LoneAnonymousOperation", "NoFragmentCycles",
            "NoUndefinedVariables", "NoUnusedFragments", "NoUnusedVariables",
            "OverlappingFieldsCanBeMerged", "PossibleFragmentSpreads", "ProvidedNonNullArguments",
            "ScalarLeafs", "UniqueArgumentNames", "UniqueFragmentNames", "UniqueInputFieldNames",
            "UniqueOperationNames", "UniqueVariableNames", "VariablesAreInputTypes",
            "VariablesInAllowedPosition" >>
RuleSet == { Rules[i] : i \in 1..Len(Rules) }

ValDevs == {"D_C02_overlap_step_E", "D_C02_untyped_inline_in_wrapped_field"}

\* ---------------------------------------------------------------- directives
LOCAL DArg(n, t) == [name |-> n, type |-> t, hasDef |-> FALSE, def |-> NullV]
StdDirectives ==
  << [name |-> "skip", locs |-> {"FIELD", "FRAGMENT_SPREAD", "INLINE_FRAGMENT"},
      args |-> << DArg("if", TNN(TNamed("Boolean"))) >>],
     [name |-> "include", locs |-> {"FIELD", "FRAGMENT_SPREAD", "INLINE_FRAGMENT"},
      args |-> << DArg("if", TNN(TNamed("Boolean"))) >>],
     [name |-> "deprecated", locs |-> {"FIELD_DEFINITION", "ENUM_VALUE"},
      args |-> << [name |-> "reason", type |-> TNamed("String"), hasDef |-> TRUE,
                   def |-> StrV("No longer supported")] >>] >>
DirectivesOf(S) == IF "directives" \in DOMAIN S THEN S.directives ELSE StdDirectives

\* ------------------------------------------------------- look-up tables (schema)
\* fx[type][field] = field definition (with __typename on composite types),
\* ix[input object][field] = input field definition, dx[directive] = definition.
\* (Built with :> and @@, which TLC evaluates eagerly; a function constructor [x \in S |-> e]
\* is re-evaluated at every application.)
RECURSIVE NameMap(_,_), TypeMaps(_,_)
NameMap(defs, i) == IF i > Len(defs) THEN <<>> ELSE (defs[i].name :> defs[i]) @@ NameMap(defs, i + 1)
TypeMaps(S, tns) ==
  IF tns = {} THEN [fx |-> <<>>, ix |-> <<>>]
  ELSE LET tn == CHOOSE t \in tns : TRUE
           rest == TypeMaps(S, tns \ {tn})
           fm == NameMap(S.types[tn].fields, 1)
       IN [fx |-> (tn :> (IF IsCompositeKind(S.types[tn].kind) THEN fm @@ ("__typename" :> TypenameField) ELSE fm))
                  @@ rest.fx,
           ix |-> (tn :> NameMap(S.types[tn].inputs, 1)) @@ rest.ix]
IndexSchema(S) ==
  LET tm == TypeMaps(S, DOMAIN S.types) IN
  [query |-> S.query, mutation |-> S.mutation, subscription |-> S.subscription, types |-> S.types,
   fx |-> tm.fx, ix |-> tm.ix, dx |-> NameMap(DirectivesOf(S), 1)]

\* --------------------------------------------------- look-up tables (document)
ODirs(x) == IF "dirs" \in DOMAIN x THEN x.dirs ELSE <<>>
DArgs(d) == IF "args" \in DOMAIN d THEN d.args ELSE <<[n |-> "if", v |-> d.v]>>
RECURSIVE NormDirsFrom(_,_), NormSelsFrom(_,_), PrepOps(_,_), PrepFrags(_,_)
NormDirsFrom(ds, j) ==
  IF j > Len(ds) THEN <<>> ELSE << [n |-> ds[j].n, args |-> DArgs(ds[j])] >> \o NormDirsFrom(ds, j + 1)
NormDirs(ds) == NormDirsFrom(ds, 1)

\* every selection in one record shape
NormSelsFrom(sels, i) ==
  IF i > Len(sels) THEN <<>>
  ELSE LET s == sels[i] IN
       << [k |-> s.k, id |-> s.id,
           alias |-> IF s.k = "field" THEN s.alias ELSE "",
           name |-> IF s.k = "inline" THEN "" ELSE s.name,
           on |-> IF s.k = "inline" THEN s.on ELSE "",
           args |-> IF s.k = "field" THEN s.args ELSE <<>>,
           dirs |-> NormDirs(s.dirs),
           sel |-> IF s.k = "spread" THEN <<>> ELSE NormSelsFrom(s.sel, 1)] >>
       \o NormSelsFrom(sels, i + 1)
NormSels(sels) == NormSelsFrom(sels, 1)

PrepOps(ops, i) ==
  IF i > Len(ops) THEN <<>>
  ELSE << [kind |-> ops[i].kind, name |-> ops[i].name, vdefs |-> ops[i].vdefs,
           sel |-> NormSels(ops[i].sel), dirs |-> NormDirs(ODirs(ops[i]))] >> \o PrepOps(ops, i + 1)
PrepFrags(frs, i) ==
  IF i > Len(frs) THEN <<>>
  ELSE << [name |-> frs[i].name, on |-> frs[i].on,
           sel |-> NormSels(frs[i].sel), dirs |-> NormDirs(ODirs(frs[i]))] >> \o PrepFrags(frs, i + 1)

\* fnames: the fragment names; fmap[name] = a definition with that name
Prep(D) ==
  LET frs == PrepFrags(D.frags, 1) IN
  [ops |-> PrepOps(D.ops, 1), frags |-> frs,
   fnames |-> { D.frags[i].name : i \in 1..Len(D.frags) }, fmap |-> NameMap(frs, 1)]

RespKey(s) == IF s.alias # "" THEN s.alias ELSE s.name

\* node ids
SKey(s) == "s" \o ToString(s.id)
OKey(i) == "o" \o ToString(i)
FKey(i) == "f" \o ToString(i)
KT(p, tag, i) == p \o "." \o tag \o ToString(i)
KI(p, i) == p \o "." \o ToString(i)

\* ---------------------------------------------------------------------- types
KnownT(S, tn) == tn # "" /\ tn \in DOMAIN S.types
CompositeT(S, tn) == KnownT(S, tn) /\ IsCompositeKind(S.types[tn].kind)
ObjectT(S, tn) == KnownT(S, tn) /\ S.types[tn].kind = "OBJECT"
InputT(S, tn) == KnownT(S, tn) /\ IsInputKind(S.types[tn].kind)
LeafT(S, tn) == IsLeafKind(S.types[tn].kind)

\* parent types are names of composite types, "" = no type information
FieldKnown(S, pt, fn) == pt # "" /\ fn \in DOMAIN S.fx[pt]
FDef(S, pt, fn) == S.fx[pt][fn]
CondParent(S, on, pt) == IF on = "" THEN pt ELSE IF CompositeT(S, on) THEN on ELSE ""
OpRoot(S, op) == CASE op.kind = "query" -> S.query
                   [] op.kind = "mutation" -> S.mutation
                   [] OTHER -> S.subscription

\* optional type: [ok, t]
NoT == [ok |-> FALSE, t |-> TNamed("")]
YesT(t) == [ok |-> TRUE, t |-> t]
SubOf(S, T) == IF T.ok /\ CompositeT(S, T.t.n) THEN T.t.n ELSE ""
ItemT(T) == IF T.ok /\ IsListT(Nullable(T.t)) THEN YesT(Unwrap(Nullable(T.t))) ELSE NoT
InFieldT(S, T, fn) ==
  IF T.ok /\ KnownT(S, T.t.n) /\ fn \in DOMAIN S.ix[T.t.n] THEN YesT(S.ix[T.t.n][fn].type) ELSE NoT

\* "variable type is compatible with location type" of the edition (isTypeSubTypeOf on input types)
RECURSIVE SubTypeRef(_,_)
SubTypeRef(sub, sup) ==
  IF sub = sup THEN TRUE
  ELSE IF IsNN(sup) THEN (IsNN(sub) /\ SubTypeRef(Unwrap(sub), Unwrap(sup)))
  ELSE IF IsNN(sub) THEN SubTypeRef(Unwrap(sub), sup)
  ELSE IF IsListT(sup) THEN (IsListT(sub) /\ SubTypeRef(Unwrap(sub), Unwrap(sup)))
  ELSE FALSE

\* ------------------------------------------------------------------ fragments
\* (P is a prepared document)
FragOf(P, nm) == P.fmap[nm]
FragSelOf(P, nm) == IF nm \in P.fnames THEN FragOf(P, nm).sel ELSE <<>>
DupFragNames(P) == Cardinality(P.fnames) # Len(P.frags)

RECURSIVE DirectSpreads(_), DeepSpreads(_)
\* fragment names spread in a selection set itself (through inline fragments, not through fields)
DirectSpreads(sels) ==
  UNION { LET s == sels[i] IN
          CASE s.k = "spread" -> {s.name}
            [] s.k = "inline" -> DirectSpreads(s.sel)
            [] OTHER -> {}
          : i \in 1..Len(sels) }
\* fragment names spread anywhere below a selection set
DeepSpreads(sels) ==
  UNION { LET s == sels[i] IN
          CASE s.k = "spread" -> {s.name}
            [] OTHER -> DeepSpreads(s.sel)
          : i \in 1..Len(sels) }

RECURSIVE ClosureDirect(_,_,_), ClosureDeep(_,_,_)
ClosureDirect(P, todo, seen) ==
  LET new == todo \ seen IN
  IF new = {} THEN seen
  ELSE ClosureDirect(P, UNION { DirectSpreads(FragSelOf(P, nm)) : nm \in new }, seen \cup new)
ClosureDeep(P, todo, seen) ==
  LET new == todo \ seen IN
  IF new = {} THEN seen
  ELSE ClosureDeep(P, UNION { DeepSpreads(FragSelOf(P, nm)) : nm \in new }, seen \cup new)

\* fragments (names) an operation uses, directly or through other fragments
OpFrags(P, op) == ClosureDeep(P, DeepSpreads(op.sel), {})

\* ---------------------------------------------------------------------- sites
\* every selection with its parent type, the definition it belongs to, for a field whether its
\* definition exists (fk) and then its type and argument definitions, and (for one deviation
\* only) whether TypeInfo's current output type is a wrapped type there
RECURSIVE SitesIn(_,_,_,_,_)
SitesIn(S, sels, pt, def, wr) ==
  UNION { LET s == sels[i]
              fk == s.k = "field" /\ FieldKnown(S, pt, s.name)
              T == IF fk THEN YesT(FDef(S, pt, s.name).type) ELSE NoT
          IN {[s |-> s, pt |-> pt, def |-> def, wr |-> wr, fk |-> fk, T |-> T,
               fa |-> IF fk THEN FDef(S, pt, s.name).args ELSE <<>>]} \cup
             CASE s.k = "field" -> SitesIn(S, s.sel, SubOf(S, T), def, fk /\ T.t.w # <<>>)
               [] s.k = "inline" -> SitesIn(S, s.sel, CondParent(S, s.on, pt), def, IF s.on = "" THEN wr ELSE FALSE)
               [] OTHER -> {}
          : i \in 1..Len(sels) }

AllSites(S, P) ==
  UNION { SitesIn(S, P.ops[i].sel, OpRoot(S, P.ops[i]), OKey(i), FALSE) : i \in 1..Len(P.ops) }
  \cup
  UNION { SitesIn(S, P.frags[i].sel, CondParent(S, P.frags[i].on, ""), FKey(i), FALSE) : i \in 1..Len(P.frags) }

SelLoc(k) == CASE k = "field" -> "FIELD" [] k = "spread" -> "FRAGMENT_SPREAD" [] OTHER -> "INLINE_FRAGMENT"
OpLoc(kind) == CASE kind = "query" -> "QUERY" [] kind = "mutation" -> "MUTATION" [] OTHER -> "SUBSCRIPTION"

\* every directive: [key, n, args, loc, def, known]
DirOf(S, key, d, loc, def) ==
  [key |-> key, n |-> d.n, args |-> d.args, loc |-> loc, def |-> def, known |-> d.n \in DOMAIN S.dx]
DirSites(S, P, sites) ==
  UNION { { DirOf(S, KT(SKey(x.s), "d", j), x.s.dirs[j], SelLoc(x.s.k), x.def) : j \in 1..Len(x.s.dirs) }
          : x \in sites }
  \cup
  UNION { { DirOf(S, KT(OKey(i), "d", j), P.ops[i].dirs[j], OpLoc(P.ops[i].kind), OKey(i))
            : j \in 1..Len(P.ops[i].dirs) } : i \in 1..Len(P.ops) }
  \cup
  UNION { { DirOf(S, KT(FKey(i), "d", j), P.frags[i].dirs[j], "FRAGMENT_DEFINITION", FKey(i))
            : j \in 1..Len(P.frags[i].dirs) } : i \in 1..Len(P.frags) }

\* every argument: [key, hkey (its field / directive), own, n, v, known (holder has a definition), T, def]
ArgsOf(hkey, args, adefs, known, def, own) ==
  { [key |-> KT(hkey, "a", i), hkey |-> hkey, own |-> own, n |-> args[i].n, v |-> args[i].v, known |-> known,
     T |-> IF known /\ HasName(adefs, args[i].n) THEN YesT(ByName(adefs, args[i].n).type) ELSE NoT,
     def |-> def] : i \in 1..Len(args) }

ArgSites(S, sites, dsites) ==
  UNION { ArgsOf(SKey(x.s), x.s.args, x.fa, x.fk, x.def, "field") : x \in { y \in sites : y.s.args # <<>> } }
  \cup
  UNION { ArgsOf(d.key, d.args, IF d.known THEN S.dx[d.n].args ELSE <<>>, d.known, d.def, "dir") : d \in dsites }

\* --------------------------------------------------------------------- values
RECURSIVE ValVars(_,_,_,_), ValDupFields(_,_)
\* variable usages inside a literal at node k where type T is expected: [key, n, T]
ValVars(S, v, k, T) ==
  CASE v.k = "var" -> {[key |-> k, n |-> v.n, T |-> T]}
    [] v.k = "list" -> UNION { ValVars(S, v.items[i], KI(k, i), ItemT(T)) : i \in 1..Len(v.items) }
    [] v.k = "obj" -> UNION { ValVars(S, v.fields[i].v, KI(k, i) \o ".v", InFieldT(S, T, v.fields[i].n))
                              : i \in 1..Len(v.fields) }
    [] OTHER -> {}
\* object fields whose name occurs twice in the same object literal
ValDupFields(v, k) ==
  CASE v.k = "list" -> UNION { ValDupFields(v.items[i], KI(k, i)) : i \in 1..Len(v.items) }
    [] v.k = "obj" ->
         { KI(k, i) : i \in { i \in 1..Len(v.fields) :
                               \E j \in 1..Len(v.fields) : j # i /\ v.fields[j].n = v.fields[i].n } }
         \cup UNION { ValDupFields(v.fields[i].v, KI(k, i) \o ".v") : i \in 1..Len(v.fields) }
    [] OTHER -> {}
HasDupFields(v) == ValDupFields(v, "") # {}

\* ------------------------------------------------------------ variable usages
\* all usages of the document, tagged with the definition they occur in
Usages(S, asites) ==
  UNION { { [key |-> u.key, n |-> u.n, T |-> u.T, def |-> a.def] : u \in ValVars(S, a.v, a.key \o ".v", a.T) }
          : a \in asites }
\* the usages an operation is responsible for: its own and those of every fragment it uses
OpUsages(P, i, usages) ==
  IF usages = {} THEN {} ELSE
  LET fr == OpFrags(P, P.ops[i])
      defs == {OKey(i)} \cup { FKey(j) : j \in { j \in 1..Len(P.frags) : P.frags[j].name \in fr } }
  IN { u \in usages : u.def \in defs }
RECURSIVE OpUsSeq(_,_,_)
OpUsSeq(P, usages, i) == IF i > Len(P.ops) THEN <<>> ELSE << OpUsages(P, i, usages) >> \o OpUsSeq(P, usages, i + 1)
VarNames(op) == { op.vdefs[j].n : j \in 1..Len(op.vdefs) }
DupVarNames(op) == \E i, j \in 1..Len(op.vdefs) : i # j /\ op.vdefs[i].n = op.vdefs[j].n
VarDefOf(op, n) == op.vdefs[CHOOSE j \in 1..Len(op.vdefs) : op.vdefs[j].n = n]

\* --------------------------------------------- overlapping fields can be merged
\* FieldsInSetCanMerge / SameResponseShape of the specification over the FULLY EXPANDED field
\* set of a selection set: its own fields (inline fragments flattened) and the fields of every
\* fragment reachable through spreads, each tagged with its parent type, its declared type and
\* the fragment it comes from ("" = the set's own).
RECURSIVE OwnFields(_,_,_,_)
OwnFields(S, sels, pt, via) ==
  UNION { LET s == sels[i] IN
          CASE s.k = "field" ->
                 {[id |-> s.id, key |-> RespKey(s), name |-> s.name, args |-> s.args, pt |-> pt,
                   T |-> IF FieldKnown(S, pt, s.name) THEN YesT(FDef(S, pt, s.name).type) ELSE NoT,
                   sel |-> s.sel, via |-> via]}
            [] s.k = "inline" -> OwnFields(S, s.sel, CondParent(S, s.on, pt), via)
            [] OTHER -> {}
          : i \in 1..Len(sels) }

Expanded(S, P, sels, pt) ==
  OwnFields(S, sels, pt, "")
  \cup UNION { LET fr == FragOf(P, nm) IN OwnFields(S, fr.sel, CondParent(S, fr.on, ""), nm)
               : nm \in ClosureDirect(P, DirectSpreads(sels), {}) \cap P.fnames }

\* SameResponseShape on the declared types: wrappers must agree, leaf types must be identical
RECURSIVE ShapeConflict(_,_,_)
ShapeConflict(S, t1, t2) ==
  IF IsNN(t1) \/ IsNN(t2)
  THEN (IF IsNN(t1) /\ IsNN(t2) THEN ShapeConflict(S, Unwrap(t1), Unwrap(t2)) ELSE TRUE)
  ELSE IF IsListT(t1) \/ IsListT(t2)
  THEN (IF IsListT(t1) /\ IsListT(t2) THEN ShapeConflict(S, Unwrap(t1), Unwrap(t2)) ELSE TRUE)
  ELSE IF LeafT(S, t1.n) \/ LeafT(S, t2.n) THEN t1.n # t2.n
  ELSE FALSE

SameArgs(a1, a2) == { a1[i] : i \in 1..Len(a1) } = { a2[i] : i \in 1..Len(a2) }

\* The pairs of fields (ids) of two expanded sets that cannot be merged.  same: the two sets are
\* one selection set (every unordered pair once); otherwise the merged sub-selections of a pair of
\* fields (pairs inside one of the two are found when that set is judged on its own).
\* excl: the enclosing fields can never apply to the same object (only shapes must agree).
\* seen: pairs under comparison on this path (fragment cycles make the recursion circular;
\* a conflict is a finite derivation).
\*
\* D_C02_overlap_step_E: when a set's own fields are compared with a spread fragment, the
\* implementation descends into the fragments nested in that fragment with the FRAGMENT's fields
\* instead of the set's (step E passes the wrong collection): a set's own field is never compared
\* with a field of a fragment that is only reachable through two or more spreads.  (Fields of two
\* fragments below ONE spread are, by design, compared when that fragment's own selection set is
\* judged - as its own fields against ITS nested fragments, i.e. subject to the same loss.)
\* Checked against the implementation on every spread graph on 3 fragments (279 841 documents,
\* 36 252 of them affected): no other difference.
RECURSIVE ConflictPairs(_,_,_,_,_,_,_,_,_,_)
PairConflict(S, P, e1, e2, exclP, dev, seen) ==
  LET excl == exclP \/ (e1.pt # e2.pt /\ ObjectT(S, e1.pt) /\ ObjectT(S, e2.pt))
  IN \/ ~excl /\ (e1.name # e2.name \/ ~SameArgs(e1.args, e2.args))
     \/ e1.T.ok /\ e2.T.ok /\ ShapeConflict(S, e1.T.t, e2.T.t)
     \/ /\ e1.sel # <<>> /\ e2.sel # <<>>
        /\ <<e1.id, e2.id>> \notin seen
        /\ ConflictPairs(S, P, e1.sel, SubOf(S, e1.T), e2.sel, SubOf(S, e2.T), FALSE, excl, dev,
                         seen \cup {<<e1.id, e2.id>>, <<e2.id, e1.id>>}) # {}

ConflictPairs(S, P, sels1, pt1, sels2, pt2, same, excl, dev, seen) ==
  LET E1 == Expanded(S, P, sels1, pt1)
      E2 == IF same THEN E1 ELSE Expanded(S, P, sels2, pt2)
      d1 == DirectSpreads(sels1)
      d2 == IF same THEN d1 ELSE DirectSpreads(sels2)
      \* fragments reachable from one directly spread fragment (itself included)
      R(f) == ClosureDirect(P, {f}, {})
      \* under the deviation the implementation compares, at this point,
      \*  - the sets' own fields with each other and with the fields of DIRECTLY spread fragments;
      \*  - fields of two fragments only when they are reached from two DIFFERENT directly spread
      \*    fragments (one of each set); what lies below a single spread is left to the visit of
      \*    that fragment's own selection set - where the same rule applies
      missed(a, b) == /\ "D_C02_overlap_step_E" \in dev
                      /\ \/ a.via = "" /\ b.via # "" /\ b.via \notin d2
                         \/ b.via = "" /\ a.via # "" /\ a.via \notin d1
                         \/ /\ a.via # "" /\ b.via # ""
                            /\ ~\E f1 \in d1, f2 \in d2 : f1 # f2 /\ a.via \in R(f1) /\ b.via \in R(f2)
  IN { <<p[1].id, p[2].id>> :
         p \in { q \in E1 \X E2 :
                   /\ q[1].key = q[2].key
                   /\ IF same THEN q[1].id < q[2].id ELSE q[1].id # q[2].id
                   /\ ~missed(q[1], q[2])
                   /\ PairConflict(S, P, q[1], q[2], excl, dev, seen) } }

\* every selection set of the document with its parent type
SetVisits(S, P, sites) ==
  { [sels |-> P.ops[i].sel, pt |-> OpRoot(S, P.ops[i])] : i \in 1..Len(P.ops) }
  \cup { [sels |-> P.frags[i].sel, pt |-> CondParent(S, P.frags[i].on, "")] : i \in 1..Len(P.frags) }
  \cup { [sels |-> x.s.sel,
          pt |-> IF x.s.k = "field" THEN SubOf(S, x.T) ELSE CondParent(S, x.s.on, x.pt)]
         : x \in { y \in sites : y.s.sel # <<>> } }

OverlapViol(S, P, sites, dev) ==
  UNION { UNION { {"s" \o ToString(p[1]), "s" \o ToString(p[2])}
                  : p \in ConflictPairs(S, P, v.sels, v.pt, v.sels, v.pt, TRUE, FALSE, dev, {}) }
          : v \in SetVisits(S, P, sites) }

\* ---------------------------------------------------- possible fragment spreads
\* 5.5.2.3 the possible types of the fragment and of the parent must intersect
SpreadsViol(S, P, sites, dev) ==
  { SKey(x.s) : x \in { y \in sites :
       \/ /\ y.s.k = "spread" /\ y.s.name \in P.fnames /\ y.pt # ""
          /\ LET on == FragOf(P, y.s.name).on
             IN CompositeT(S, on) /\ ~TypesOverlap(S, on, y.pt)
       \/ /\ y.s.k = "inline" /\ y.s.on # "" /\ y.pt # ""
          /\ CompositeT(S, y.s.on) /\ ~TypesOverlap(S, y.s.on, y.pt)
       \* D_C02_untyped_inline_in_wrapped_field: an inline fragment WITHOUT type condition
       \* directly inside a field whose declared type is a list or non-null type is compared
       \* with that wrapped type instead of the parent type, and reported
       \/ /\ "D_C02_untyped_inline_in_wrapped_field" \in dev
          /\ y.s.k = "inline" /\ y.s.on = "" /\ y.pt # "" /\ y.wr } }

\* ----------------------------------------------------------------- the rules
\* what every rule looks at, computed once: selections, directives, arguments, variable usages
Ctx(S, P) ==
  LET sites  == AllSites(S, P)
      dsites == DirSites(S, P, sites)
      asites == ArgSites(S, sites, dsites)
  IN [sites |-> sites, dsites |-> dsites, asites |-> asites, usages |-> Usages(S, asites)]

\* One record: rule name -> set of offending node ids.  (S indexed, P prepared, C = Ctx(S, P))
ViolAllC(S, P, dev, C) ==
  LET sites   == C.sites
      fsites  == { x \in sites : x.s.k = "field" }
      dsites  == C.dsites
      asites  == C.asites
      usages  == C.usages
      nops    == Len(P.ops)
      nfr     == Len(P.frags)
      VDs     == UNION { { [i |-> i, j |-> j, d |-> P.ops[i].vdefs[j]] : j \in 1..Len(P.ops[i].vdefs) }
                         : i \in 1..nops }
      VKey(x) == KT(OKey(x.i), "v", x.j)
      OpUs    == OpUsSeq(P, usages, 1)
  IN
  [ ArgumentsOfCorrectType |->
      \* 5.6.1 Values of correct type, for arguments whose definition exists
      { a.key \o ".v" : a \in { b \in asites : b.T.ok /\ ~LitOK(S, b.T.t, b.v) } },

    DefaultValuesOfCorrectType |->
      \* default values must be literals of the variable's (input) type; in this edition a
      \* default on a non-null variable is itself an error
      { VKey(x) \o ".d" : x \in { y \in VDs : /\ y.d.hasDef /\ InputT(S, y.d.type.n)
                                                /\ (IsNN(y.d.type) \/ ~LitOK(S, y.d.type, y.d.def)) } },

    FieldsOnCorrectType |->
      \* 5.3.1 field selections must exist on the parent type (known composite)
      { SKey(x.s) : x \in { y \in fsites : y.pt # "" /\ ~y.fk } },

    FragmentsOnCompositeTypes |->
      \* 5.5.1.3 type conditions must name composite types (when the type exists)
      { FKey(i) \o ".on" : i \in { i \in 1..nfr : KnownT(S, P.frags[i].on) /\ ~CompositeT(S, P.frags[i].on) } }
      \cup { SKey(x.s) \o ".on" : x \in { y \in sites : y.s.k = "inline" /\ KnownT(S, y.s.on) /\ ~CompositeT(S, y.s.on) } },

    KnownArgumentNames |->
      \* 5.4.1 every argument of a known field / directive is defined by it
      { a.key : a \in { b \in asites : b.known /\ ~b.T.ok } },

    KnownDirectives |->
      \* 5.7.1 / 5.7.2 directives are defined and used in a location they declare
      { d.key : d \in { e \in dsites : ~e.known \/ e.loc \notin S.dx[e.n].locs } },

    KnownFragmentNames |->
      \* 5.5.2.1 spread targets are defined
      { SKey(x.s) : x \in { y \in sites : y.s.k = "spread" /\ y.s.name \notin P.fnames } },

    KnownTypeNames |->
      \* 5.5.1.2 (and variable types): referenced named types exist
      { VKey(x) \o ".t" : x \in { y \in VDs : ~KnownT(S, y.d.type.n) } }
      \cup { FKey(i) \o ".on" : i \in { i \in 1..nfr : ~KnownT(S, P.frags[i].on) } }
      \cup { SKey(x.s) \o ".on" : x \in { y \in sites : y.s.k = "inline" /\ y.s.on # "" /\ ~KnownT(S, y.s.on) } },

    LoneAnonymousOperation |->
      \* 5.2.2.1 an anonymous operation must be the only operation
      { OKey(i) : i \in { i \in 1..nops : nops > 1 /\ P.ops[i].name = "" } },

    NoFragmentCycles |->
      \* 5.5.2.2 the spread graph is acyclic: a spread inside fragment F of a fragment that
      \* reaches F (in zero or more steps) lies on a cycle
      { SKey(x.s) : x \in { y \in sites :
           /\ y.s.k = "spread" /\ y.s.name \in P.fnames
           /\ \E i \in 1..nfr : y.def = FKey(i) /\ P.frags[i].name \in ClosureDeep(P, {y.s.name}, {}) } },

    NoUndefinedVariables |->
      \* 5.8.3 every variable used by an operation (also through fragments) is defined by it
      UNION { { u.key : u \in { w \in OpUs[i] : w.n \notin VarNames(P.ops[i]) } } : i \in 1..nops },

    NoUnusedFragments |->
      \* 5.5.1.4 every fragment is used by some operation
      LET used == UNION { OpFrags(P, P.ops[k]) : k \in 1..nops }
      IN { FKey(i) : i \in { i \in 1..nfr : P.frags[i].name \notin used } },

    NoUnusedVariables |->
      \* 5.8.4 every variable an operation defines is used by it (also through fragments)
      { VKey(x) : x \in { y \in VDs : y.d.n \notin { u.n : u \in OpUs[y.i] } } },

    OverlappingFieldsCanBeMerged |-> OverlapViol(S, P, sites, dev),

    PossibleFragmentSpreads |-> SpreadsViol(S, P, sites, dev),

    ProvidedNonNullArguments |->
      \* 5.4.2.1 required (non-null) arguments of known fields and directives are provided
      { SKey(x.s) : x \in { y \in fsites :
           \E k \in 1..Len(y.fa) : IsNN(y.fa[k].type) /\ ~\E i \in 1..Len(y.s.args) : y.s.args[i].n = y.fa[k].name } }
      \cup
      { d.key : d \in { e \in dsites :
           /\ e.known
           /\ LET ad == S.dx[e.n].args
              IN \E k \in 1..Len(ad) : IsNN(ad[k].type) /\ ~\E i \in 1..Len(e.args) : e.args[i].n = ad[k].name } },

    ScalarLeafs |->
      \* 5.3.3 leaf fields have no sub-selection, composite fields have one
      { SKey(x.s) \o ".ss" : x \in { y \in fsites : y.fk /\ LeafT(S, y.T.t.n) /\ y.s.sel # <<>> } }
      \cup { SKey(x.s) : x \in { y \in fsites : y.fk /\ ~LeafT(S, y.T.t.n) /\ y.s.sel = <<>> } },

    UniqueArgumentNames |->
      \* 5.4.2 no two arguments of one field / directive share a name
      { a.key : a \in { b \in asites : \E c \in asites : c.hkey = b.hkey /\ c.key # b.key /\ c.n = b.n } },

    UniqueFragmentNames |->
      \* 5.5.1.1
      { FKey(i) \o ".n" : i \in { i \in 1..nfr : \E j \in 1..nfr : j # i /\ P.frags[j].name = P.frags[i].name } },

    UniqueInputFieldNames |->
      \* 5.6.3 in every object literal (arguments and default values)
      UNION { ValDupFields(a.v, a.key \o ".v") : a \in asites }
      \cup UNION { IF x.d.hasDef THEN ValDupFields(x.d.def, VKey(x) \o ".d") ELSE {} : x \in VDs },

    UniqueOperationNames |->
      \* 5.2.1.1 named operations have distinct names
      { OKey(i) \o ".n" : i \in { i \in 1..nops :
           P.ops[i].name # "" /\ \E j \in 1..nops : j # i /\ P.ops[j].name = P.ops[i].name } },

    UniqueVariableNames |->
      \* 5.8.1
      { VKey(x) : x \in { y \in VDs : \E z \in VDs : z.i = y.i /\ z.j # y.j /\ z.d.n = y.d.n } },

    VariablesAreInputTypes |->
      \* 5.8.2 (when the type exists)
      { VKey(x) \o ".t" : x \in { y \in VDs : KnownT(S, y.d.type.n) /\ ~InputT(S, y.d.type.n) } },

    VariablesInAllowedPosition |->
      \* 5.8.5 the (effective) type of a variable is compatible with the type expected where it
      \* is used; silent where the variable or the expected type is unknown
      UNION { { u.key : u \in { w \in OpUs[i] :
                  /\ w.T.ok /\ w.n \in VarNames(P.ops[i])
                  /\ LET vd == VarDefOf(P.ops[i], w.n)
                         eff == IF vd.hasDef /\ ~IsNN(vd.type) THEN TNN(vd.type) ELSE vd.type
                     IN KnownT(S, vd.type.n) /\ ~SubTypeRef(eff, w.T.t) } }
              : i \in 1..nops }
  ]

\* convenience forms on a plain schema and document
ViolAll(S, D, dev) == LET SX == IndexSchema(S)  P == Prep(D) IN ViolAllC(SX, P, dev, Ctx(SX, P))
Viol(r, S, D) == ViolAll(S, D, {})[r]
Valid(S, D) == \A r \in RuleSet : Viol(r, S, D) = {}

\* ------------------------------------------------------------------ unspecified
\* Rules whose verdict on D is NOT asserted when they report nothing certain (DESIGN 4.2):
\*  - two fragments share a name: which body a spread denotes is undefined;
\*  - an object literal repeats a field name: which value counts for literal validity;
\*  - a field repeats an argument name: "identical arguments" of the overlap rule;
\*  - an operation repeats a variable name: which definition types a usage;
\*  - an unknown type condition: the parent type of the fields below it (overlap rule);
\*  - a spread / inline fragment whose (existing) type condition is not composite: its
\*    possible types are not defined;
\*  - two anonymous operations: whether "" is an operation name;
\*  - arguments of an UNKNOWN directive on a field: the edition's reference implementation types
\*    them by the enclosing field's arguments of the same name;
\*  - a variable of type [Zzz] / Zzz! with Zzz unknown: whether a wrapper around nothing is a type;
\*  - a fragment spread in an operation whose root type the schema does not define (a
\*    subscription on a schema without subscriptions): there is no parent type to intersect with.
UnspecC(S, P, C) ==
  LET sites  == C.sites
      dsites == C.dsites
      asites == C.asites
      dupFr  == DupFragNames(P)
      dupObjArg == \E a \in asites : HasDupFields(a.v)
      dupObjDef == \E i \in 1..Len(P.ops) : \E j \in 1..Len(P.ops[i].vdefs) :
                      P.ops[i].vdefs[j].hasDef /\ HasDupFields(P.ops[i].vdefs[j].def)
      dupArgF == \E a, b \in asites : a.own = "field" /\ a.hkey = b.hkey /\ a.key # b.key /\ a.n = b.n
      dupVar == \E i \in 1..Len(P.ops) : DupVarNames(P.ops[i])
      unkCond == \/ \E i \in 1..Len(P.frags) : ~KnownT(S, P.frags[i].on)
                 \/ \E x \in sites : x.s.k = "inline" /\ x.s.on # "" /\ ~KnownT(S, x.s.on)
      leafCond == \/ \E x \in sites : x.s.k = "inline" /\ KnownT(S, x.s.on) /\ ~CompositeT(S, x.s.on)
                  \/ \E x \in sites : /\ x.s.k = "spread" /\ x.s.name \in P.fnames
                                      /\ LET on == FragOf(P, x.s.name).on
                                         IN KnownT(S, on) /\ ~CompositeT(S, on)
      anon2 == Cardinality({ i \in 1..Len(P.ops) : P.ops[i].name = "" }) > 1
      unkDirArgs == \E d \in dsites : ~d.known /\ d.args # <<>> /\ d.loc = "FIELD"
      wrapUnk == \E i \in 1..Len(P.ops) : \E j \in 1..Len(P.ops[i].vdefs) :
                    ~KnownT(S, P.ops[i].vdefs[j].type.n) /\ P.ops[i].vdefs[j].type.w # <<>>
      noRoot == \E i \in 1..Len(P.ops) : OpRoot(S, P.ops[i]) = "" /\ DeepSpreads(P.ops[i].sel) # {}
  IN (IF wrapUnk THEN {"VariablesAreInputTypes", "VariablesInAllowedPosition"} ELSE {}) \cup
     (IF noRoot THEN {"PossibleFragmentSpreads"} ELSE {}) \cup
(IF dupFr THEN {"NoFragmentCycles", "OverlappingFieldsCanBeMerged", "PossibleFragmentSpreads",
                     "NoUndefinedVariables", "NoUnusedVariables", "VariablesInAllowedPosition"} ELSE {})
     \cup (IF dupObjArg THEN {"ArgumentsOfCorrectType"} ELSE {})
     \cup (IF dupObjDef THEN {"DefaultValuesOfCorrectType"} ELSE {})
     \cup (IF dupArgF THEN {"OverlappingFieldsCanBeMerged"} ELSE {})
     \cup (IF dupVar THEN {"VariablesInAllowedPosition"} ELSE {})
     \cup (IF unkCond THEN {"OverlappingFieldsCanBeMerged"} ELSE {})
     \cup (IF leafCond THEN {"PossibleFragmentSpreads"} ELSE {})
     \cup (IF anon2 THEN {"UniqueOperationNames"} ELSE {})
     \cup (IF unkDirArgs THEN {"ArgumentsOfCorrectType", "VariablesInAllowedPosition"} ELSE {})

Unspec(S, D) == LET SX == IndexSchema(S)  P == Prep(D) IN UnspecC(SX, P, Ctx(SX, P))

\* -------------------------------------------------------------------- vectors
\* [rule, ids] for the rules that report something; deviated variants only where they differ.
\* (No LAMBDAs here: TLC evaluates a LAMBDA handed to a Java-implemented operator outside the
\* action's evaluation context, where nothing is cached.)
ViolSeq(v) == SetToSeq({ [r |-> r, ids |-> SetToSeq(v[r])] : r \in { q \in RuleSet : v[q] # {} } })

DevRule(d) == IF d = "D_C02_overlap_step_E" THEN "OverlappingFieldsCanBeMerged" ELSE "PossibleFragmentSpreads"

DevViol(S, P, sites, d) ==
  IF d = "D_C02_overlap_step_E" THEN OverlapViol(S, P, sites, {d}) ELSE SpreadsViol(S, P, sites, {d})

\* SX: an indexed schema.  v0: the specification's verdicts; dv: the deviated rule's verdict per deviation
Judge(SX, D) ==
  LET P == Prep(D)
      C == Ctx(SX, P)
      v0 == ViolAllC(SX, P, {}, C)
      dv == [D_C02_overlap_step_E |-> DevViol(SX, P, C.sites, "D_C02_overlap_step_E"),
             D_C02_untyped_inline_in_wrapped_field |-> DevViol(SX, P, C.sites, "D_C02_untyped_inline_in_wrapped_field")]
      alts == { d \in ValDevs : dv[d] # v0[DevRule(d)] }
  IN [v0 |-> v0, dv |-> dv, viol |-> ViolSeq(v0),
      dev |-> SetToSeq({ [d |-> d, r |-> DevRule(d), ids |-> SetToSeq(dv[d])] : d \in alts }),
      unspec |-> SetToSeq(UnspecC(SX, P, C))]

=============================================================================
