------------------------------- MODULE MC_C06 -------------------------------
(***************************************************************************)
(* Histories of the plan cache (C06): all sequences of length HLen of      *)
(*   get(q, s)  : PlanCache.Get for pool query q on schema instance s,     *)
(*                followed by ExecutePlan with the returned SynthArgs      *)
(*   reset      : PlanCache.Reset                                          *)
(* over a sub-pool of queries.  Each query carries its IDEAL normalisation *)
(* class `cls`: two requests may share an entry only if they have the same *)
(* class (equal after replacing extractable literal argument values by     *)
(* holes, same operation name) and the same schema instance.               *)
(*                                                                         *)
(* Per step the vector carries what the sequential LRU model predicts      *)
(*   x : with the exact key (operation name, text)   -- Normalize off      *)
(*   c : with the ideal class key                    -- Normalize on       *)
(* The harness asserts x exactly without normalisation; with normalisation *)
(* an implementation may split classes (extra misses) but never conflate:  *)
(* a hit is permitted only if `mayhit`.  Responses are compared with the   *)
(* from-scratch path (graphql.Do) by the harness (the property is this     *)
(* differential).                                                          *)
(***************************************************************************)
EXTENDS Naturals, Sequences, FiniteSets, TLC, Json, SchemaS1

CONSTANTS PoolIds,     \* set of pool indices used by this family
          HLen,        \* history length
          MaxE          \* MaxEntries of the cache

Q(text, op, cls, vars) == [text |-> text, op |-> op, cls |-> cls, vars |-> vars]

Pool ==
  << Q("{ f(x: 1) }", "", "A", "-"),                                      \*  1
     Q("{ f(x: 2) }", "", "A", "-"),                                      \*  2 differs in one literal
     Q("{ f(x: 1) b @skip(if: true) }", "", "B", "-"),                    \*  3 directive
     Q("{ f(x: 1) b }", "", "C", "-"),                                    \*  4
     Q("query($v: Int = 1) { f(x: $v) }", "", "D", "-"),                  \*  5 variable default
     Q("query($v: Int = 2) { f(x: $v) }", "", "E", "-"),                  \*  6
     Q("{ g: f(x: 1) }", "", "F", "-"),                                   \*  7 alias
     Q("{ f(y: 1) }", "", "G", "-"),                                      \*  8 argument name
     Q("query A { a } query B { b }", "A", "H", "-"),                     \*  9 operation name
     Q("query A { a } query B { b }", "B", "I", "-"),                     \* 10
     Q("{ j: f(en: RED) }", "", "J", "-"),                                \* 11 enum literal
     Q("{ j: f(en: GREEN) }", "", "J", "-"),                              \* 12
     Q("{ f(x: 1) f(x: 1) }", "", "K", "-"),                              \* 13 repeated field
     Q("{ g(st: \"a\") }", "", "L", "-"),                                 \* 14 string literal
     Q("{ g(st: \"b\") }", "", "L", "-"),                                 \* 15
     Q("{ zz }", "", "M", "-"),                                           \* 16 invalid
     Q("{ f(in: {r: 1}) }", "", "N", "-"),                                \* 17 input object literal
     Q("{ f(in: {r: 2, k: 3}) }", "", "N", "-"),                          \* 18
     Q("{ o { x } ... on Q { f(x: 1) } }", "", "O", "-"),                 \* 19 literal inside inline fragment
     Q("{ ...F } fragment F on Q { f(x: 1) }", "", "P", "-"),             \* 20 literal inside a fragment
     Q("{ ...F } fragment F on Q { f(x: 2) }", "", "P", "-"),             \* 21
     Q("{ f(x: 1) b @include(if: false) }", "", "R", "-"),                \* 22 another directive
     Q("query($v: Int = 1) { f(x: $v) }", "", "D", "v5"),                 \* 23 same as 5, variable supplied
     Q("{ f(x: 1, y: 2) }", "", "S", "-"),                                \* 24
     Q("{ f(y: 2, x: 1) }", "", "S", "-"),                                \* 25 argument order
     Q("{ f(z: [1, 2]) }", "", "T", "-"),                                 \* 26 list literal
     Q("{ f(z: [3]) }", "", "T", "-"),                                    \* 27
     Q("query($v: Boolean!) { a @skip(if: $v) }", "", "U", "vt"),         \* 28 variable directive
     Q("query($v: Boolean!) { a @include(if: $v) }", "", "V", "vt"),      \* 29
     Q("{ g(li: [1]) }", "", "W", "-"),                                   \* 30
     Q("{ g(li: true) }", "", "X", "-"),                                  \* 31 invalid literal of the same shape
     Q("{ g(li: [2, 3]) }", "", "W", "-"),                                \* 32
     Q("{ f(x: 1) g(fl: 1) }", "", "Y", "-"),                             \* 33 the same literal at an Int and a Float argument
     Q("{ g(i: 7) gni(ni: 7) }", "", "Z", "-"),                           \* 34 ... at Int and Int!
     Q("{ f(x: 2) g(fl: 3) }", "", "Y", "-"),                             \* 35 same shape as 33
     \* documents that differ only in a REPEATED spread of one fragment (its presence, its directives)
     Q("{ o { ...G } n { y ...G } } fragment G on O { x }", "", "AA", "-"),                     \* 36
     Q("{ o { ...G } n { y } } fragment G on O { x }", "", "AB", "-"),                          \* 37
     Q("{ o { ...G } n { y ...G @skip(if: true) } } fragment G on O { x }", "", "AC", "-"),     \* 38
     Q("{ o { ...G ...G } n { y } } fragment G on O { x }", "", "AD", "-"),                     \* 39
     \* fields resolved by their source value (graphql.FieldResolver), literal arguments
     Q("{ srl { r(y: 2) } }", "", "AE", "-"),                                                   \* 40
     Q("{ srl { r(e: RED) p } sr { r(e: RED) } }", "", "AF", "-"),                              \* 41
     \* the same documents under another layout (same ideal class, other text) and requests that fail, so that the
     \* locations of their errors are observable
     Q("\n\n   { f(x: 1) }", "", "A", "-"),                                                     \* 42 = 1 padded
     Q("   { zz }\n", "", "M", "-"),                                                            \* 43 = 16 padded
     Q("{ f(x: 1) zz }", "", "AG", "-"),                                                        \* 44 invalid after a literal
     Q("{ f(x: 1000) zz }", "", "AG", "-"),                                                     \* 45 ... of another length
     Q("{ f(x: 1) o { qq } }", "", "AH", "-"),                                                  \* 46
     Q("{\n  f(x: 22)\n  o { qq }\n}", "", "AH", "-"),                                          \* 47
     \* one text, operation names that select nothing (each request has its own error)
     Q("query A { a } query B { b }", "Zz", "AI", "-"),                                         \* 48
     Q("query A { a } query B { b }", "Yy", "AJ", "-"),                                         \* 49
     Q("query A { a } query B { b }", "", "AK", "-"),                                           \* 50
     \* the same selection under another operation type
     Q("query { a b }", "", "AL", "-"),                                                         \* 51
     Q("mutation { a b }", "", "AM", "-"),                                                      \* 52
     Q("query X { a b }", "X", "AN", "-"),                                                      \* 53
     Q("mutation X { a b }", "X", "AO", "-")                                                    \* 54
  >>

Schemas == {"s1", "s2"}
Ops == { [o |-> "get", q |-> q, s |-> s] : q \in PoolIds, s \in Schemas } \cup { [o |-> "reset", q |-> 0, s |-> "-"] }

VARIABLE hist
Init == hist = <<>>
Next == Len(hist) < HLen /\ \E op \in Ops : hist' = Append(hist, op)
Spec == Init /\ [][Next]_hist
Complete == Len(hist) = HLen

\* ------------------------------------------------ sequential LRU model
Without(seq, k) == SelectSeq(seq, LAMBDA x : x # k)
ToFront(seq, k) == <<k>> \o Without(seq, k)

\* cache state: sequence of [k, s], most recent first
RECURSIVE Run(_,_,_,_)
\* returns the per-step observations for history h from position i in cache state st;
\* mode selects the key: "exact" = (operation name, text), "class" = (operation name, ideal class)
Run(h, i, st, mode) ==
  IF i > Len(h) THEN <<>>
  ELSE
    LET op == h[i] IN
    IF op.o = "reset" THEN <<[out |-> "reset", len |-> 0, by |-> 0]>> \o Run(h, i + 1, <<>>, mode)
    ELSE
      LET k == IF mode = "exact" THEN <<Pool[op.q].op, Pool[op.q].text>> ELSE <<Pool[op.q].op, Pool[op.q].cls>>
          ix == { j \in 1..Len(st) : st[j].k = k }
          out == IF ix = {} THEN "miss"
                 ELSE IF st[CHOOSE j \in ix : TRUE].s # op.s THEN "stale" ELSE "hit"
          rest == SelectSeq(st, LAMBDA e : e.k # k)
          \* an entry remembers the request whose text it was planned from (`by`): a hit serves THAT plan
          by == IF out = "hit" THEN st[CHOOSE j \in ix : TRUE].by ELSE op.q
          st1 == <<[k |-> k, s |-> op.s, by |-> by]>> \o rest
          st2 == IF Len(st1) > MaxE THEN SubSeq(st1, 1, MaxE) ELSE st1
      IN <<[out |-> out, len |-> Len(st2), by |-> by]>> \o Run(h, i + 1, st2, mode)

ExactKey(q) == <<Pool[q].op, Pool[q].text>>
ClassKey(q) == <<Pool[q].op, Pool[q].cls>>

\* a hit at step i is permitted iff the same class was requested with the same schema
\* earlier, with no reset in between
MayHit(h, i) ==
  h[i].o = "get" /\
  \E j \in 1..(i-1) :
     /\ h[j].o = "get" /\ ClassKey(h[j].q) = ClassKey(h[i].q) /\ h[j].s = h[i].s
     /\ \A m \in (j+1)..(i-1) : h[m].o # "reset"

\* LOCATIONS.  Transparency includes the locations of the errors of a response: they point into the text of THIS
\* request.  With the exact key a hit is a request with the same text, so nothing can differ.  With the class key
\* the served plan (or the cached validation errors) was built from the text of request `by`, which may differ in
\* layout and in the length of its literals:
\*   intended                                  locations of step i = those of the from-scratch run of text(i)
\*   D_C06_normalized_locations_of_first_text   ... = those of the from-scratch run of text(by)   (as-is design)
\* The harness checks the first and credits the second only to the entry's real creator (read from the hook events).
Vector ==
  LET x == Run(hist, 1, <<>>, "exact")
      c == Run(hist, 1, <<>>, "class")
  IN [max |-> MaxE,
      steps |-> [i \in 1..Len(hist) |->
                   [o |-> hist[i].o, s |-> hist[i].s, q |-> hist[i].q,
                    text |-> IF hist[i].o = "get" THEN Pool[hist[i].q].text ELSE "-",
                    op |-> IF hist[i].o = "get" THEN Pool[hist[i].q].op ELSE "",
                    cls |-> IF hist[i].o = "get" THEN Pool[hist[i].q].cls ELSE "-",
                    vars |-> IF hist[i].o = "get" THEN Pool[hist[i].q].vars ELSE "-",
                    x |-> x[i], c |-> c[i], mayhit |-> MayHit(hist, i)]]]

Emit == Complete => PrintT(<<"VEC", ToJson(Vector)>>)
ASSUME PrintT(<<"SCHEMA", ToJson(S1)>>)

\* theorems on the model: neither cache exceeds MaxE, and every model hit is a permitted hit
ModelBound ==
  Complete =>
    LET x == Run(hist, 1, <<>>, "exact")
        c == Run(hist, 1, <<>>, "class")
    IN \A i \in 1..Len(hist) : c[i].len <= MaxE /\ x[i].len <= MaxE
       /\ (x[i].out = "hit" => MayHit(hist, i)) /\ (c[i].out = "hit" => MayHit(hist, i))
=============================================================================
