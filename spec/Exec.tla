-------------------------------- MODULE Exec --------------------------------
(***************************************************************************)
(* Reference semantics of GraphQL execution (big-step), transcribed from   *)
(* the specification: CollectFields, ExecuteSelectionSet, ExecuteField,    *)
(* CompleteValue, null propagation -- NOT from the Go code.                *)
(*                                                                         *)
(* Environment record E (threaded through every operator):                 *)
(*   S      schema (GQLBase)                                               *)
(*   frags  function fragment name -> [on, sel]                            *)
(*   V      function variable name -> coerced value                        *)
(*   outs   sequence of [t, f, o] : outcome o of resolver f on type t      *)
(*   dev    set of named deviations (DESIGN.md section 5); {} = the spec   *)
(*                                                                         *)
(* Selections                                                              *)
(*   [k|->"field", id, alias, name, args, dirs, sel]                       *)
(*   [k|->"spread", id, name, dirs]     [k|->"inline", id, on, dirs, sel]  *)
(*   directive [n |-> "skip"|"include", v |-> [k|->"bool",b] | [k|->"var",n]]*)
(*                                                                         *)
(* Resolver outcomes o = [k |-> kind, ...]                                 *)
(*   "val"      the field's natural value (ValueFor)                       *)
(*   "nil"      Go nil            "err"  (nil, error)                      *)
(*   "valerr"   (value, error)    "panic" panic(error)  "panics" panic(str)*)
(*   "thunk"    deferred value    "thunkerr" deferred error                *)
(*   "badthunk" a func of the wrong signature                              *)
(*   "wrong"    a value of the wrong Go kind for the position              *)
(*   "typednil" typed nil pointer "nan" NaN   "big" an Int out of range    *)
(*   "badenum"  an internal value no enum value has                        *)
(*   "goint"    the integer 5 (or 3000000000 if big) as Go type g          *)
(*   "nilitem"  the natural list with its second element nil               *)
(*   "wrongitem" ... with its second element a value of a foreign kind     *)
(*   "goleaf"   the abstract leaf value val (int 5, float 1.5, a boolean,  *)
(*              the string "sv", or null = a nil pointer) delivered in the *)
(*              Go representation g (float32, *bool, uint16, *string ...): *)
(*              the serialisation depends on the value, not on the carrier *)
(*   "titems"   the natural list, every ITEM delivered as a deferred value *)
(*              (transparent: the response is that of the plain list)      *)
(*   rt |-> runtime type name for abstract positions ("" = unresolvable),  *)
(*   rts |-> <<...>> per list element, len |-> list length                 *)
(***************************************************************************)
EXTENDS GQLBase, Coerce

\* ------------------------------------------------------------ directives
DirBool(v, V) == IF v.k = "var" THEN V[v.n].b ELSE v.b

StaticSkip(dirs) ==
  \E i \in 1..Len(dirs) :
     /\ dirs[i].v.k # "var"
     /\ \/ (dirs[i].n = "skip" /\ dirs[i].v.b)
        \/ (dirs[i].n = "include" /\ ~dirs[i].v.b)

DynInc(dirs, V) ==
  \A i \in 1..Len(dirs) :
     dirs[i].v.k = "var" =>
        /\ (dirs[i].n = "skip" => ~DirBool(dirs[i].v, V))
        /\ (dirs[i].n = "include" => DirBool(dirs[i].v, V))

\* the specification's test: not skipped and included
Included(dirs, V) == ~StaticSkip(dirs) /\ DynInc(dirs, V)

RespKey(f) == IF f.alias # "" THEN f.alias ELSE f.name

\* ------------------------------------------------------------ collection
\* groups: sequence of [key, occs, inc]; inc is TRUE in the specification
\* (excluded occurrences never join); only a deviation makes it FALSE.
AddOcc(groups, f, inc) ==
  LET key == RespKey(f)
      ix == { i \in 1..Len(groups) : groups[i].key = key }
  IN IF ix = {} THEN Append(groups, [key |-> key, occs |-> <<f>>, inc |-> inc])
     ELSE LET i == CHOOSE j \in ix : TRUE
          IN [groups EXCEPT ![i].occs = Append(@, f)]

DPlan(E) == "D_C01_plan_time_directives" \in E.dev

RECURSIVE Collect(_,_,_,_,_)
\* acc = [g |-> groups, vis |-> visited fragment names]
Collect(E, ot, sels, acc, pinc) ==
  IF sels = <<>> THEN acc
  ELSE
    LET s == Head(sels)
        rest == Tail(sels)
        di == DynInc(s.dirs, E.V)
        inc2 == pinc /\ di
    IN
    IF StaticSkip(s.dirs) \/ (~DPlan(E) /\ ~di)
    THEN Collect(E, ot, rest, acc, pinc)
    ELSE
      CASE s.k = "field" ->
             Collect(E, ot, rest, [acc EXCEPT !.g = AddOcc(@, s, inc2)], pinc)
        [] s.k = "inline" ->
             IF ~TypeApplies(E.S, s.on, ot)
             THEN Collect(E, ot, rest, acc, pinc)
             ELSE Collect(E, ot, rest, Collect(E, ot, s.sel, acc, inc2), pinc)
        [] s.k = "spread" ->
             IF s.name \in acc.vis \/ s.name \notin DOMAIN E.frags
             THEN Collect(E, ot, rest, acc, pinc)
             ELSE LET acc2 == [acc EXCEPT !.vis = @ \cup {s.name}]
                      fr == E.frags[s.name]
                  IN IF ~TypeApplies(E.S, fr.on, ot)
                     THEN Collect(E, ot, rest, acc2, pinc)
                     ELSE Collect(E, ot, rest, Collect(E, ot, fr.sel, acc2, inc2), pinc)

\* CollectFields over the merged selection sets of a group of occurrences
CollectSets(E, ot, selsets) ==
  Collect(E, ot, SeqConcat(selsets), [g |-> <<>>, vis |-> {}], TRUE).g

MergedSels(g) == [i \in 1..Len(g.occs) |-> g.occs[i].sel]

\* --------------------------------------------------------------- outcomes
DefaultOutcome == [k |-> "val"]
\* entries [t, f, src, o]; src = "*" matches every source, otherwise the source tag;
\* the first matching entry wins
Outcome(E, tn, fn, tag) ==
  LET ix == { i \in 1..Len(E.outs) : E.outs[i].t = tn /\ E.outs[i].f = fn
                                      /\ (E.outs[i].src = "*" \/ E.outs[i].src = tag) }
  IN IF ix = {} THEN DefaultOutcome
     ELSE E.outs[CHOOSE i \in ix : \A j \in ix : i <= j].o

OcLen(oc) == IF "len" \in DOMAIN oc THEN oc.len ELSE 2
OcRt(S, oc, tn, i) ==      \* runtime type of the i-th (0 = scalar position) value
  IF i > 0 /\ "rts" \in DOMAIN oc THEN oc.rts[i]
  ELSE IF "rt" \in DOMAIN oc THEN oc.rt
  ELSE IF ~IsAbstractKind(KindOf(S, tn)) THEN tn
  ELSE S.types[tn].defrt

\* natural value of field fn (declared type t) resolved on source tag
\* leaves: String -> tag.fn ; Int -> a fixed numeral per field ; Boolean TRUE
LeafInt(fn) == CASE fn = "a" -> "1" [] fn = "b" -> "2" [] fn = "c" -> "3" [] fn = "nn" -> "4"
                 [] fn = "w" -> "5" [] fn = "f" -> "6" [] OTHER -> "9"
RECURSIVE ValueFor(_,_,_,_,_)
ValueFor(S, t, tag, fn, oc) ==
  IF IsNN(t) THEN ValueFor(S, Unwrap(t), tag, fn, oc)
  ELSE IF IsListT(t) THEN
    ListV([i \in 1..OcLen(oc) |->
             ValueFor(S, Unwrap(t), tag \o IdxKey(i - 1), fn,
                      IF "rts" \in DOMAIN oc /\ IsNamedT(Nullable(Unwrap(t)))
                      THEN [k |-> "val", rt |-> oc.rts[i]] ELSE oc)])
  ELSE LET kd == KindOf(S, t.n) IN
    CASE kd = "SCALAR" ->
           CASE t.n = "Int" -> IntV(LeafInt(fn))
             [] t.n = "Boolean" -> BoolV(TRUE)
             [] t.n = "Float" -> FloatV("1.5")
             [] OTHER -> StrV(tag)
      [] kd = "ENUM" -> [k |-> "eint", v |-> S.types[t.n].values[1].internal]
      [] OTHER -> [k |-> "src", tag |-> tag, rt |-> OcRt(S, oc, t.n, 0)]

\* ------------------------------------------------------- leaf completion
\* serialisation of an internal value at a leaf position; NullV when the
\* value is not serialisable for the type (no error is *required* for that)
SerializeLeaf(S, tn, rv) ==
  LET kd == KindOf(S, tn) IN
  IF kd = "ENUM" THEN
     IF rv.k = "eint" /\ \E i \in 1..Len(S.types[tn].values) : S.types[tn].values[i].internal = rv.v
     THEN StrV(S.types[tn].values[CHOOSE i \in 1..Len(S.types[tn].values) :
                                     S.types[tn].values[i].internal = rv.v].name)
     ELSE NullV
  ELSE
    CASE tn = "Int"     -> IF rv.k = "int" /\ InInt32(rv.v) THEN rv ELSE NullV
      [] tn = "Float"   -> IF rv.k \in {"int", "float"} THEN FloatV(rv.v) ELSE NullV
      [] tn = "String"  -> IF rv.k = "str" THEN rv ELSE NullV
      [] tn = "Boolean" -> IF rv.k = "bool" THEN rv ELSE NullV
      [] tn = "ID"      -> IF rv.k \in {"str", "int"} THEN StrV(rv.v) ELSE NullV
      [] OTHER          -> IF rv.k = "str" THEN rv ELSE NullV

\* ----------------------------------------------------------- execution
\* Every operator returns a record R:
\*   val   completed value (NullV when null)
\*   errs  sequence of error paths, in sequential execution order
\*   opt   sequence of paths at which an error is permitted but not required
\*   calls sequence of resolver invocations
\*   errd  TRUE iff val is null because of an error already recorded
\*   bub   TRUE iff val is null at a non-null position (parent must be nulled)
\*   tcalls sequence of type-resolver invocations [p, v]: the info path of the
\*          field being completed (list indices are not part of it) and the value's tag
\*   esc   error paths of failures that nulled a non-null field whose value was DEFERRED
\*         (a thunk); plain bookkeeping in the specification, used only by the deviation
\*         D_C04_deferred_nonnull_nulls_data
\*   all   every error that some legal execution order can raise: the errors of a
\*         non-aborting execution of the same selection (siblings of a failed non-null
\*         field are still run).  errs is the sub-sequence raised by the sequential order.
R0 == [val |-> NullV, errs |-> <<>>, opt |-> <<>>, calls |-> <<>>, tcalls |-> <<>>, esc |-> <<>>,
       all |-> <<>>, errd |-> FALSE, bub |-> FALSE]
Fail(path, nn) == [R0 EXCEPT !.errs = <<path>>, !.all = <<path>>, !.errd = TRUE, !.bub = nn]

RECURSIVE ExecGroups(_,_,_,_,_,_,_), CompleteV(_,_,_,_,_), CompleteItems(_,_,_,_,_,_,_)

ExecSel(E, ot, selsets, src, path) ==
  ExecGroups(E, ot, CollectSets(E, ot, selsets), 1, src, path,
             [fields |-> <<>>, errs |-> <<>>, opt |-> <<>>, calls |-> <<>>, tcalls |-> <<>>, esc |-> <<>>,
              all |-> <<>>, dead |-> FALSE])

ExecField(E, ot, g, src, path) ==
  LET f1 == g.occs[1]
      fn == f1.name
  IN
  IF fn = "__typename" THEN [R0 EXCEPT !.val = StrV(ot)]
  ELSE IF E.S.types[ot].plain THEN
    \* no resolver: the default resolver reads the (map) source by field name; no invocation is logged
    LET fd == FieldDef(E.S, ot, fn)
    IN CompleteV(E, fd.type, g, ValueFor(E.S, fd.type, src.tag \o "." \o fn, fn, DefaultOutcome), path)
  ELSE
    LET fd == FieldDef(E.S, ot, fn)
        oc == Outcome(E, ot, fn, src.tag)
        call == [p |-> path, pt |-> ot, f |-> fn, src |-> src.tag, rt |-> fd.type,
                 args |-> ArgValues(E.S, fd.args, f1.args, E.V),
                 occ |-> [i \in 1..Len(g.occs) |-> g.occs[i].id]]
        ctag == src.tag \o "." \o fn
        r == CASE oc.k \in {"err", "valerr", "panic", "panics", "thunkerr", "badthunk"} ->
                    Fail(path, IsNN(fd.type))
               [] oc.k \in {"nil", "typednil", "nan"} -> CompleteV(E, fd.type, g, NullV, path)
               [] oc.k = "wrong" -> CompleteV(E, fd.type, g, [k |-> "wrong"], path)
               [] oc.k = "big" -> CompleteV(E, fd.type, g, IntV("over32"), path)
               \* an integer delivered in another Go representation (int8 ... uint64, float, pointer):
               \* 5, or 3000000000 when big; a nil pointer is null
               [] oc.k = "goint" -> CompleteV(E, fd.type, g, IF oc.g = "nilp" THEN NullV
                                                                  ELSE IntV(IF oc.big THEN "over32" ELSE "5"), path)
               [] oc.k = "goleaf" -> CompleteV(E, fd.type, g, oc.val, path)
               [] oc.k = "badenum" -> CompleteV(E, fd.type, g, [k |-> "eint", v |-> "nope"], path)
               [] oc.k = "wrongitem" ->
                    LET nv == ValueFor(E.S, fd.type, ctag, fn, oc)
                    IN CompleteV(E, fd.type, g,
                                 IF nv.k = "list" /\ Len(nv.items) >= 2
                                 THEN [nv EXCEPT !.items[2] = [k |-> "wrong"]] ELSE nv, path)
               [] oc.k = "nilitem" ->
                    LET nv == ValueFor(E.S, fd.type, ctag, fn, oc)
                    IN CompleteV(E, fd.type, g,
                                 IF nv.k = "list" /\ Len(nv.items) >= 2
                                 THEN [nv EXCEPT !.items[2] = NullV] ELSE nv, path)
               [] OTHER -> CompleteV(E, fd.type, g, ValueFor(E.S, fd.type, ctag, fn, oc), path)
        deferred == oc.k \in {"thunk", "thunkerr", "badthunk"}
        \* "titems": the deferred values are the items; an item of non-null type that fails kills the list,
        \* and that failure is the last required error of the list's completion
        lt == Nullable(fd.type)
        itemsDeferredNN == oc.k = "titems" /\ IsListT(lt) /\ IsNN(Unwrap(lt)) /\ r.errd /\ r.errs # <<>>
    IN [r EXCEPT !.calls = <<call>> \o @,
                 !.esc = IF (deferred /\ IsNN(fd.type) /\ r.bub) \/ itemsDeferredNN THEN Append(@, r.errs[Len(r.errs)]) ELSE @]

ExecGroups(E, ot, groups, i, src, path, acc) ==
  IF i > Len(groups)
  THEN IF acc.dead
       THEN [R0 EXCEPT !.errs = acc.errs, !.opt = acc.opt, !.calls = acc.calls, !.tcalls = acc.tcalls,
                       !.esc = acc.esc, !.all = acc.all, !.errd = TRUE]
       ELSE [R0 EXCEPT !.val = ObjV(acc.fields), !.errs = acc.errs, !.opt = acc.opt, !.calls = acc.calls,
                       !.tcalls = acc.tcalls, !.esc = acc.esc, !.all = acc.all]
  ELSE
    LET g == groups[i] IN
    IF ~g.inc \/ ~HasField(E.S, ot, g.occs[1].name)
    THEN ExecGroups(E, ot, groups, i + 1, src, path, acc)
    ELSE
      LET r == ExecField(E, ot, g, src, Append(path, g.key))
      IN IF acc.dead
         THEN \* the object is already null: later siblings only contribute potential errors
              ExecGroups(E, ot, groups, i + 1, src, path, [acc EXCEPT !.all = @ \o r.all])
         ELSE
           LET acc2 == [acc EXCEPT !.fields = Append(@, [n |-> g.key, v |-> r.val]),
                                   !.errs = @ \o r.errs, !.opt = @ \o r.opt, !.calls = @ \o r.calls,
                                   !.tcalls = @ \o r.tcalls, !.esc = @ \o r.esc, !.all = @ \o r.all]
           IN ExecGroups(E, ot, groups, i + 1, src, path, IF r.bub THEN [acc2 EXCEPT !.dead = TRUE] ELSE acc2)

CompleteItems(E, t, g, items, i, path, acc) ==
  IF i > Len(items)
  THEN IF acc.dead
       THEN [R0 EXCEPT !.errs = acc.errs, !.opt = acc.opt, !.calls = acc.calls, !.tcalls = acc.tcalls,
                       !.esc = acc.esc, !.all = acc.all, !.errd = TRUE]
       ELSE [R0 EXCEPT !.val = ListV(acc.items), !.errs = acc.errs, !.opt = acc.opt, !.calls = acc.calls,
                       !.tcalls = acc.tcalls, !.esc = acc.esc, !.all = acc.all]
  ELSE
    LET r == CompleteV(E, t, g, items[i], Append(path, IdxKey(i - 1)))
    IN IF acc.dead
       THEN CompleteItems(E, t, g, items, i + 1, path, [acc EXCEPT !.all = @ \o r.all])
       ELSE
         LET acc2 == [acc EXCEPT !.items = Append(@, r.val), !.errs = @ \o r.errs, !.opt = @ \o r.opt,
                                 !.calls = @ \o r.calls, !.tcalls = @ \o r.tcalls, !.esc = @ \o r.esc,
                                 !.all = @ \o r.all]
         IN CompleteItems(E, t, g, items, i + 1, path, IF r.bub THEN [acc2 EXCEPT !.dead = TRUE] ELSE acc2)

CompleteV(E, t, g, rv, path) ==
  IF IsNN(t) THEN
    LET r == CompleteV(E, Unwrap(t), g, rv, path) IN
    IF IsNullV(r.val)
    THEN [r EXCEPT !.errs = IF r.errd THEN @ ELSE Append(@, path),
                   !.all = IF r.errd THEN @ ELSE Append(@, path), !.errd = TRUE, !.bub = TRUE]
    ELSE r
  ELSE IF IsNullV(rv) THEN R0
  ELSE IF IsListT(t) THEN
    IF rv.k # "list" THEN Fail(path, FALSE)
    ELSE CompleteItems(E, Unwrap(t), g, rv.items, 1, path,
                       [items |-> <<>>, errs |-> <<>>, opt |-> <<>>, calls |-> <<>>, tcalls |-> <<>>, esc |-> <<>>, all |-> <<>>, dead |-> FALSE])
  ELSE LET kd == KindOf(E.S, t.n) IN
    IF IsLeafKind(kd) THEN
      LET sv == SerializeLeaf(E.S, t.n, rv)
      IN IF IsNullV(sv) THEN [R0 EXCEPT !.opt = <<path>>] ELSE [R0 EXCEPT !.val = sv]
    ELSE IF IsAbstractKind(kd) THEN
      \* the type resolver (or, without one, the implementers' IsTypeOf) is consulted with the
      \* value; it must name a possible type
      LET tc == IF E.S.types[t.n].noRT THEN <<>>
                ELSE <<[p |-> StripIdx(path), v |-> IF rv.k = "src" THEN rv.tag ELSE "?"]>> IN
      \* without a type resolver the implementers' IsTypeOf are tried in declaration order: a value every
      \* member accepts (runtime type "*") resolves to the first declared member of a union
      LET art == IF rv.k = "src" /\ rv.rt = "*" /\ E.S.types[t.n].noRT /\ kd = "UNION"
                 THEN E.S.types[t.n].members[1] ELSE (IF rv.k = "src" THEN rv.rt ELSE "") IN
      IF rv.k # "src" \/ art \notin PossibleTypes(E.S, t.n)
      THEN [Fail(path, FALSE) EXCEPT !.tcalls = tc]
      ELSE LET r == ExecSel(E, art, MergedSels(g), rv, path)
           IN [r EXCEPT !.tcalls = tc \o @]
    ELSE \* object type: any value is a source; a value of a foreign Go kind is tagged "?".
         \* An object type with IsTypeOf refuses values that are not of that type.
      IF E.S.types[t.n].isTypeOf /\ (rv.k # "src" \/ (rv.rt # t.n /\ rv.rt # "*")) THEN Fail(path, FALSE)
      ELSE ExecSel(E, t.n, MergedSels(g), IF rv.k = "src" THEN rv ELSE [k |-> "src", tag |-> "?", rt |-> t.n], path)

\* ------------------------------------------------------------- requests
\* D = [ops |-> <<[kind, name, vdefs, sel]>>, frags |-> <<[name, on, sel]>>]
FragMap(D) == [nm \in { D.frags[i].name : i \in 1..Len(D.frags) } |->
                 LET fr == D.frags[CHOOSE i \in 1..Len(D.frags) : D.frags[i].name = nm]
                 IN [on |-> fr.on, sel |-> fr.sel]]

RootSrc == [k |-> "src", tag |-> "r", rt |-> ""]

RootType(S, kind) == CASE kind = "query" -> S.query [] kind = "mutation" -> S.mutation
                       [] OTHER -> S.subscription

\* Response: data is a Value or [k |-> "absent"]; reqerr TRUE = request error
ExecuteOp(S, D, op, inputs, outs, dev) ==
  LET vv == VarValues(S, op.vdefs, inputs) IN
  IF vv.verdict # "accept"
  THEN [data |-> [k |-> "absent"], reqerr |-> (vv.verdict = "reject"), unspec |-> (vv.verdict = "unspec"),
        errs |-> <<>>, opt |-> <<>>, calls |-> <<>>, tcalls |-> <<>>, esc |-> <<>>, all |-> <<>>, vvals |-> <<>>]
  ELSE
    LET E == [S |-> S, frags |-> FragMap(D), V |-> vv.vals, outs |-> outs, dev |-> dev]
        r == ExecSel(E, RootType(S, op.kind), <<op.sel>>, RootSrc, <<>>)
    IN [data |-> r.val, reqerr |-> FALSE, unspec |-> FALSE,
        errs |-> r.errs, opt |-> r.opt, calls |-> r.calls, tcalls |-> r.tcalls, esc |-> r.esc,
        all |-> r.all,
        vvals |-> LET ns == SetToSeq(DOMAIN vv.vals)
                  IN [i \in 1..Len(ns) |-> [n |-> ns[i], v |-> vv.vals[ns[i]]]]]

\* GetOperation: the operation a request selects, if any
SelectOp(D, name) ==
  IF name = "" THEN (IF Len(D.ops) = 1 THEN [ok |-> TRUE, op |-> D.ops[1]] ELSE [ok |-> FALSE, op |-> D.ops[1]])
  ELSE IF \E i \in 1..Len(D.ops) : D.ops[i].name = name
       THEN [ok |-> TRUE, op |-> D.ops[CHOOSE i \in 1..Len(D.ops) : D.ops[i].name = name]]
       ELSE [ok |-> FALSE, op |-> D.ops[1]]

RequestError == [data |-> [k |-> "absent"], reqerr |-> TRUE, unspec |-> FALSE, errs |-> <<>>, opt |-> <<>>,
                 calls |-> <<>>, tcalls |-> <<>>, esc |-> <<>>, all |-> <<>>, vvals |-> <<>>]

\* ExecuteRequest: operation selection, then ExecuteOp
ExecuteRequest(S, D, name, inputs, outs, dev) ==
  LET so == SelectOp(D, name) IN
  IF so.ok THEN ExecuteOp(S, D, so.op, inputs, outs, dev) ELSE RequestError

\* ------------------------------------- well-formedness of a response (C04)
\* Independent of the executor above: it looks only at schema, document and
\* response.  Inclusion is ignored (StaticGroups collects every occurrence),
\* so it states "only selected keys", not "exactly the included ones".
AllInc(E) == [E EXCEPT !.dev = {"D_C01_plan_time_directives"},
                       !.V = [n \in DOMAIN E.V |-> E.V[n]]]

RECURSIVE AllFields(_,_,_,_)
\* every field occurrence reachable in sels for an object of type ot, directives ignored
AllFields(E, ot, sels, seen) ==
  IF sels = <<>> THEN <<>>
  ELSE LET s == Head(sels) IN
    (CASE s.k = "field" -> <<s>>
       [] s.k = "inline" -> IF TypeApplies(E.S, s.on, ot) THEN AllFields(E, ot, s.sel, seen) ELSE <<>>
       [] s.k = "spread" ->
            IF s.name \in seen \/ s.name \notin DOMAIN E.frags THEN <<>>
            ELSE IF TypeApplies(E.S, E.frags[s.name].on, ot)
                 THEN AllFields(E, ot, E.frags[s.name].sel, seen \cup {s.name}) ELSE <<>>)
    \o AllFields(E, ot, Tail(sels), seen)

LegalLeaf(S, tn, v) ==
  IF KindOf(S, tn) = "ENUM" THEN v.k = "str" /\ EnumHas(S, tn, v.v)
  ELSE CASE tn = "Int" -> v.k = "int" /\ InInt32(v.v)
         [] tn = "Float" -> v.k = "float"
         [] tn = "Boolean" -> v.k = "bool"
         [] OTHER -> v.k = "str"

RECURSIVE WFVal(_,_,_,_), WFObj(_,_,_,_)
WFObj(E, ot, selsets, v) ==
  /\ v.k = "obj"
  /\ LET fs == AllFields(E, ot, SeqConcat(selsets), {}) IN
     \A i \in 1..Len(v.fields) :
        /\ \A j \in 1..Len(v.fields) : v.fields[i].n = v.fields[j].n => i = j
        /\ \E j \in 1..Len(fs) :
             /\ RespKey(fs[j]) = v.fields[i].n
             /\ HasField(E.S, ot, fs[j].name)
             /\ WFVal(E, FieldDef(E.S, ot, fs[j].name).type,
                      [k \in { m \in 1..Len(fs) : RespKey(fs[m]) = v.fields[i].n } |-> fs[k].sel],
                      v.fields[i].v)

\* subs: function (any finite index set) -> selection sets of the occurrences of this key
WFVal(E, t, subs, v) ==
  IF IsNN(t) THEN ~IsNullV(v) /\ WFVal(E, Unwrap(t), subs, v)
  ELSE IF IsNullV(v) THEN TRUE
  ELSE IF IsListT(t) THEN v.k = "list" /\ \A i \in 1..Len(v.items) : WFVal(E, Unwrap(t), subs, v.items[i])
  ELSE LET kd == KindOf(E.S, t.n)
           selsets == LET ks == SetToSeq(DOMAIN subs) IN [i \in 1..Len(ks) |-> subs[ks[i]]]
       IN IF IsLeafKind(kd) THEN LegalLeaf(E.S, t.n, v)
          ELSE \E rt \in PossibleTypes(E.S, t.n) : WFObj(E, rt, selsets, v)

RECURSIVE AtPath(_,_)
\* the value at path p, or [k |-> "none"] when the path leaves the tree
AtPath(v, p) ==
  IF p = <<>> THEN v
  ELSE IF v.k = "obj" THEN
         (IF \E i \in 1..Len(v.fields) : v.fields[i].n = p[1]
          THEN AtPath(v.fields[CHOOSE i \in 1..Len(v.fields) : v.fields[i].n = p[1]].v, Tail(p))
          ELSE [k |-> "none"])
  ELSE IF v.k = "list" THEN
         (IF \E i \in 1..Len(v.items) : IdxKey(i - 1) = p[1]
          THEN AtPath(v.items[CHOOSE i \in 1..Len(v.items) : IdxKey(i - 1) = p[1]], Tail(p))
          ELSE [k |-> "none"])
  ELSE [k |-> "none"]

NullAtOrAbove(data, p) == \E n \in 0..Len(p) : IsNullV(AtPath(data, SubSeq(p, 1, n)))

\* C04's predicate over a response r = [data, errs, ...] of operation op
WellFormed(E, op, r) ==
  /\ IsNullV(r.data) \/ WFObj(E, RootType(E.S, op.kind), <<op.sel>>, r.data)
  /\ \A i \in 1..Len(r.errs) : NullAtOrAbove(r.data, r.errs[i])
  /\ IsNullV(r.data) => Len(r.errs) > 0

\* ---------------------------------------------- theorems about the oracle
\* Values reachable in a response
RECURSIVE WFValue(_,_,_)
WFValue(S, t, v) ==     \* v is a legal response value for declared type t (C04)
  IF IsNN(t) THEN ~IsNullV(v) /\ WFValue(S, Unwrap(t), v)
  ELSE IF IsNullV(v) THEN TRUE
  ELSE IF IsListT(t) THEN v.k = "list" /\ \A i \in 1..Len(v.items) : WFValue(S, Unwrap(t), v.items[i])
  ELSE IF IsLeafKind(KindOf(S, t.n)) THEN v.k \in {"int", "float", "str", "bool"}
  ELSE v.k = "obj"

=============================================================================
