------------------------------- MODULE GenDoc -------------------------------
(***************************************************************************)
(* Bounded generator of executable documents as a state machine.           *)
(*                                                                         *)
(* A document is built in pre-order: the fragment definitions listed in    *)
(* Frags first (in that order), the single operation last.  Each action    *)
(* appends one selection, opens a sub-selection or closes it, so every     *)
(* document within the bounds is reached by exactly one action sequence    *)
(* and TLC's breadth-first search enumerates each document exactly once.   *)
(* A state is Complete when the operation's selection set is closed and    *)
(* every fragment is used; invariants of the MC modules emit one vector    *)
(* per Complete state.                                                     *)
(***************************************************************************)
EXTENDS GQLBase, SequencesExt, TLC

CONSTANTS
  Sch,            \* schema
  Frags,          \* <<[name, on]>> fragments to build, in order
  OpKind,         \* "query" | "mutation"
  MaxSel,         \* max selections per selection set
  MaxNodes,       \* max selection nodes per document
  MaxDepth,       \* max nesting of selection sets
  DirSet,         \* set of directive sequences a node may carry
  Leafs(_),       \* parent type -> set of [alias, name, args] (no sub-selection)
  Comps(_),       \* parent type -> set of [alias, name, args] (with sub-selection)
  Inlines(_),     \* parent type -> set of type conditions ("" = none); {} = no inline fragments
  SpreadOK(_,_)   \* (section index, fragment index) -> may spread

VARIABLES sec, done, stack, nid
gvars == <<sec, done, stack, nid>>

NSec == Len(Frags) + 1
RootOf(kind) == CASE kind = "query" -> Sch.query [] kind = "mutation" -> Sch.mutation
                  [] OTHER -> Sch.subscription
SecType(i) == IF i <= Len(Frags) THEN Frags[i].on ELSE RootOf(OpKind)
RootFrame(i) == [hd |-> [k |-> "root"], pt |-> SecType(i), sels |-> <<>>]

GenInit == sec = 1 /\ done = <<>> /\ stack = <<RootFrame(1)>> /\ nid = 0

Top == stack[Len(stack)]
PushSel(s) == [stack EXCEPT ![Len(stack)].sels = Append(@, s)]
CanAdd == Len(Top.sels) < MaxSel /\ nid < MaxNodes

NamedOf(tn, fn) == FieldDef(Sch, tn, fn).type.n

AddLeaf ==
  /\ CanAdd
  /\ \E l \in Leafs(Top.pt), d \in DirSet :
       stack' = PushSel([k |-> "field", id |-> nid + 1, alias |-> l.alias, name |-> l.name,
                         args |-> l.args, dirs |-> d, sel |-> <<>>])
  /\ nid' = nid + 1 /\ UNCHANGED <<sec, done>>

AddSpread ==
  /\ CanAdd
  /\ \E j \in 1..Len(Frags), d \in DirSet :
       /\ SpreadOK(sec, j)
       /\ (IF HasType(Sch, Top.pt) THEN TypesOverlap(Sch, Frags[j].on, Top.pt) ELSE TRUE)
       /\ stack' = PushSel([k |-> "spread", id |-> nid + 1, name |-> Frags[j].name, dirs |-> d])
  /\ nid' = nid + 1 /\ UNCHANGED <<sec, done>>

OpenField ==
  /\ CanAdd /\ Len(stack) < MaxDepth /\ nid + 1 < MaxNodes
  /\ \E c \in Comps(Top.pt), d \in DirSet :
       stack' = Append(stack,
                  [hd |-> [k |-> "field", id |-> nid + 1, alias |-> c.alias, name |-> c.name,
                           args |-> c.args, dirs |-> d],
                   pt |-> NamedOf(Top.pt, c.name), sels |-> <<>>])
  /\ nid' = nid + 1 /\ UNCHANGED <<sec, done>>

OpenInline ==
  /\ CanAdd /\ Len(stack) < MaxDepth /\ nid + 1 < MaxNodes
  /\ \E on \in Inlines(Top.pt), d \in DirSet :
       stack' = Append(stack,
                  [hd |-> [k |-> "inline", id |-> nid + 1, on |-> on, dirs |-> d],
                   pt |-> IF on = "" THEN Top.pt ELSE on, sels |-> <<>>])
  /\ nid' = nid + 1 /\ UNCHANGED <<sec, done>>

Close ==
  /\ Len(stack) > 1 /\ Top.sels # <<>>
  /\ LET node == IF Top.hd.k = "field"
                 THEN [k |-> "field", id |-> Top.hd.id, alias |-> Top.hd.alias, name |-> Top.hd.name,
                       args |-> Top.hd.args, dirs |-> Top.hd.dirs, sel |-> Top.sels]
                 ELSE [k |-> "inline", id |-> Top.hd.id, on |-> Top.hd.on, dirs |-> Top.hd.dirs,
                       sel |-> Top.sels]
         below == SubSeq(stack, 1, Len(stack) - 1)
     IN stack' = [below EXCEPT ![Len(below)].sels = Append(@, node)]
  /\ UNCHANGED <<sec, done, nid>>

NextSec ==
  /\ Len(stack) = 1 /\ Top.sels # <<>> /\ sec < NSec
  /\ done' = Append(done, Top.sels)
  /\ sec' = sec + 1
  /\ stack' = <<RootFrame(sec + 1)>>
  /\ UNCHANGED nid

GenNext == AddLeaf \/ AddSpread \/ OpenField \/ OpenInline \/ Close \/ NextSec

\* ------------------------------------------------------------------------
RECURSIVE SelSpreads(_), SelVars(_), LitVars(_)
SelSpreads(sels) ==
  UNION { LET s == sels[i] IN
          CASE s.k = "spread" -> {s.name}
            [] OTHER -> SelSpreads(s.sel)
          : i \in 1..Len(sels) }

LitVars(v) ==
  CASE v.k = "var" -> {v.n}
    [] v.k = "list" -> UNION { LitVars(v.items[i]) : i \in 1..Len(v.items) }
    [] v.k = "obj" -> UNION { LitVars(v.fields[i].v) : i \in 1..Len(v.fields) }
    [] OTHER -> {}

DirVars(dirs) == UNION { LitVars(dirs[i].v) : i \in 1..Len(dirs) }
ArgVars(args) == UNION { LitVars(args[i].v) : i \in 1..Len(args) }

SelVars(sels) ==
  UNION { LET s == sels[i] IN
          DirVars(s.dirs) \cup
          CASE s.k = "field" -> ArgVars(s.args) \cup SelVars(s.sel)
            [] s.k = "inline" -> SelVars(s.sel)
            [] OTHER -> {}
          : i \in 1..Len(sels) }

FragSel(i) == IF i <= Len(done) THEN done[i] ELSE <<>>

\* fragments reachable from the operation (indices)
RECURSIVE ReachFrom(_,_)
ReachFrom(names, seen) ==
  LET new == names \ seen IN
  IF new = {} THEN seen
  ELSE ReachFrom(UNION { SelSpreads(FragSel(CHOOSE i \in 1..Len(Frags) : Frags[i].name = nm)) : nm \in new },
                 seen \cup new)

Complete ==
  /\ sec = NSec /\ Len(stack) = 1 /\ stack[1].sels # <<>>
  /\ ReachFrom(SelSpreads(stack[1].sels), {}) = { Frags[i].name : i \in 1..Len(Frags) }

AllVars == SelVars(stack[1].sels) \cup UNION { SelVars(FragSel(i)) : i \in 1..Len(Frags) }

\* the document of a Complete state (vdefs supplied by the MC module)
DocOf(vdefs) ==
  [ops |-> << [kind |-> OpKind, name |-> "", vdefs |-> vdefs, sel |-> stack[1].sels] >>,
   frags |-> [i \in 1..Len(Frags) |-> [name |-> Frags[i].name, on |-> Frags[i].on, sel |-> done[i]]]]

=============================================================================
