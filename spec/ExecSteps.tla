------------------------------ MODULE ExecSteps ------------------------------
(***************************************************************************)
(* Small-step view of the execution of one MUTATION: the order in which    *)
(* resolvers run and deferred values (thunks) are forced (C13).            *)
(*                                                                         *)
(* A request is a forest over nodes 1..N in pre-order: parent[n] < n,      *)
(* parent[n] = 0 for a top-level field.  thunk[n] says that the resolver   *)
(* of n returns a deferred value; the children of n can only run after n   *)
(* has been resolved and, if deferred, forced.                             *)
(*                                                                         *)
(* Events: [e |-> "res", n] the resolver of n runs                         *)
(*         [e |-> "force", n] the deferred value of n is forced            *)
(*                                                                         *)
(* NextSerial is the design the GraphQL specification mandates for         *)
(* mutations: everything belonging to top-level field i (its resolver, the *)
(* resolvers below it, the deferred work of all of them) happens before    *)
(* anything of top-level field i+1; inside one top-level field the order   *)
(* is free.  NextDeferAll is the design "run all resolvers, then force     *)
(* what was deferred", which TLC shows to violate Serial (cfg              *)
(* Spec_ExecSteps_asis expects the violation).                             *)
(***************************************************************************)
EXTENDS Naturals, Sequences, FiniteSets, TLC

CONSTANT N                 \* number of nodes
VARIABLES parent, thunk, resd, forced, log
vars == <<parent, thunk, resd, forced, log>>

Nodes == DOMAIN parent      \* 1..N once Init has chosen a forest (a trace may load any forest)

RECURSIVE TopOf(_,_)
TopOf(p, n) == IF p[n] = 0 THEN n ELSE TopOf(p, p[n])
Top(n) == TopOf(parent, n)

Forests == { p \in [1..N -> 0..(N-1)] : \A n \in 1..N : p[n] < n }

Init ==
  /\ parent \in Forests
  /\ thunk \in [1..N -> BOOLEAN]
  /\ resd = {} /\ forced = {} /\ log = <<>>

Available(n) ==     \* the value n's resolver needs (its parent's) exists
  \/ parent[n] = 0
  \/ parent[n] \in resd /\ (thunk[parent[n]] => parent[n] \in forced)

SubtreeDone(t) ==
  \A n \in Nodes : Top(n) = t => (n \in resd /\ (thunk[n] => n \in forced))

\* the top-level field currently being executed
Cur == IF \E n \in Nodes : ~SubtreeDone(Top(n))
       THEN CHOOSE t \in { Top(n) : n \in Nodes } :
              ~SubtreeDone(t) /\ \A u \in { Top(n) : n \in Nodes } : (u < t => SubtreeDone(u))
       ELSE 0

Res(n) == /\ n \notin resd /\ Available(n)
          /\ resd' = resd \cup {n}
          /\ log' = Append(log, [e |-> "res", n |-> n])
          /\ UNCHANGED <<parent, thunk, forced>>

Force(n) == /\ n \in resd /\ thunk[n] /\ n \notin forced
            /\ forced' = forced \cup {n}
            /\ log' = Append(log, [e |-> "force", n |-> n])
            /\ UNCHANGED <<parent, thunk, resd>>

NextSerial == \E n \in Nodes : Top(n) = Cur /\ (Res(n) \/ Force(n))

\* as-is design: resolvers first (whatever is available without forcing), deferred work afterwards
NoResEnabled == \A n \in Nodes : ~(n \notin resd /\ Available(n))
NextDeferAll == \E n \in Nodes : Res(n) \/ (NoResEnabled /\ Force(n))

SpecSerial == Init /\ [][NextSerial]_vars
SpecDeferAll == Init /\ [][NextDeferAll]_vars
\* with weak fairness every request runs to completion (Terminates)
FairSerial == SpecSerial /\ WF_vars(NextSerial)

\* C13: nothing of a later top-level field before everything of every earlier one
Serial ==
  \A i, j \in 1..Len(log) : Top(log[i].n) < Top(log[j].n) => i < j

\* every resolver runs at most once and only when its source exists
OnceAndCausal ==
  /\ \A i, j \in 1..Len(log) : (log[i] = log[j]) => i = j
  /\ \A i \in 1..Len(log) :
       (log[i].e = "res" /\ parent[log[i].n] # 0) =>
          \E j \in 1..(i-1) : log[j].n = parent[log[i].n]
                              /\ log[j].e = (IF thunk[parent[log[i].n]] THEN "force" ELSE "res")

Terminates == <>(\A n \in Nodes : n \in resd /\ (thunk[n] => n \in forced))
=============================================================================
