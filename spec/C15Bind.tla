------------------------------ MODULE C15Bind ------------------------------
(***************************************************************************)
(* What the payload classes of Subscription.tla mean for the harness       *)
(* schema of C15 (harness/cmd/gqlv/c15.go):                                *)
(*                                                                         *)
(*   type Subscription { ev: Ev }     type Ev { id: Int  tag: String }     *)
(*   request  subscription { ev { id tag } }                               *)
(*                                                                         *)
(* Subscription.ev is resolved from the root value (= the event):          *)
(*   class "ok"    the event is an object carrying its number: data.ev is  *)
(*                 that object, no errors                  -> shape "obj"  *)
(*   class "fail"  resolving ev fails: data.ev = null and one error with   *)
(*                 path [ev]                               -> "nullerr"    *)
(*   class "nil"   the event is nil: data.ev = null, no errors -> "null"   *)
(*   class "slow"  like "ok", but the resolver of ev parks on a gate of    *)
(*                 the harness until the script's "release" move; the      *)
(*                 result (after the release) is the object -> "obj"       *)
(* A request that fails to parse / validate / subscribe yields one result  *)
(* without data and with at least one error                -> "reqerr"     *)
(* An event executed while the context is already done may yield no data   *)
(* and exactly the context's error (C16)                   -> "ctxerr"     *)
(***************************************************************************)
Shape(c) == CASE c = "ok"     -> "obj"
              [] c = "fail"   -> "nullerr"
              [] c = "nil"    -> "null"
              [] c = "slow"   -> "obj"
              [] c = "reqerr" -> "reqerr"
              [] c = "ctxerr" -> "ctxerr"
              [] OTHER        -> "-"
=============================================================================
