------------------------------ MODULE Trace_C12 ------------------------------
(***************************************************************************)
(* Trace for C12: the union of the observation logs of all histories and   *)
(* all processes of one check run.                                         *)
(*   {"t":"cfg","known":[tags...]}                                         *)
(*   {"t":"ev","rid":R,"h":H,"nh":N,"tag":T,"proc":P}                      *)
(* Determinism!Consistent must hold for every line against everything seen *)
(* before.                                                                 *)
(***************************************************************************)
EXTENDS Naturals, Sequences, FiniteSets, TLC, Json

TraceLog == ndJsonDeserialize("trace.ndjson")
VARIABLES l, seenT, known
tvars == <<l, seenT, known>>

D == INSTANCE Determinism WITH Reqs <- {}, Leaky <- FALSE, seen <- <<>>, hidden <- 0

Line == TraceLog[l]
TInit == l = 1 /\ seenT = <<>> /\ known = {}

Cfg == /\ l <= Len(TraceLog) /\ Line.t = "cfg"
       /\ known' = { Line.known[i] : i \in 1..Len(Line.known) }
       /\ l' = l + 1 /\ UNCHANGED seenT

Obs == /\ l <= Len(TraceLog) /\ Line.t = "ev"
       /\ D!Consistent(seenT, Line, known)
       /\ seenT' = IF Line.rid \in DOMAIN seenT THEN seenT
                   ELSE [x \in DOMAIN seenT \cup {Line.rid} |->
                           IF x = Line.rid THEN [h |-> Line.h, nh |-> Line.nh] ELSE seenT[x]]
       /\ l' = l + 1 /\ UNCHANGED known

End == l <= Len(TraceLog) /\ Line.t = "end" /\ l' = l + 1 /\ UNCHANGED <<seenT, known>>

TNext == Cfg \/ Obs \/ End
TraceSpec == TInit /\ [][TNext]_tvars

TraceAccepted ==
  LET d == TLCGet("stats").diameter IN
  IF d - 1 = Len(TraceLog) THEN TRUE
  ELSE /\ PrintT(<<"REJECT at trace line", d>>) /\ FALSE
=============================================================================
