------------------------------ MODULE Trace_C19 ------------------------------
(***************************************************************************)
(* Call-level trace for C19: one line per measurement                      *)
(*   {"t":"ev","fam":F,"n":N,"k":K,"work":W}                               *)
(* where W is the sum of the relevant `verif` step counters spent by the   *)
(* real ValidateDocument / PlanQuery / Do on the family instance of size   *)
(* N (K implementers).  Every measurement must respect Cost!Bound, work    *)
(* must not depend on K, and must not more than triple from n to n+1 once  *)
(* n >= 4 (a polynomial grows by a factor tending to 1).                   *)
(***************************************************************************)
EXTENDS Naturals, Sequences, FiniteSets, TLC, Json

TraceLog == ndJsonDeserialize("trace.ndjson")
VARIABLE l

\* Cost.tla's bound functions, instantiated without its machine
C == INSTANCE Cost WITH F <- 1, Memo <- TRUE, graph <- <<>>, stack <- <<>>, memo <- {}, steps <- 0

Line == TraceLog[l]
Prev(i) == { j \in 1..(i-1) : TraceLog[j].t = "ev" /\ TraceLog[j].fam = TraceLog[i].fam }

LineOK(i) ==
  LET e == TraceLog[i] IN
  /\ e.work <= C!Bound(e.fam, e.n, e.k)
  /\ \A j \in Prev(i) :
       LET p == TraceLog[j] IN
       \* same size, different number of implementers: the same work (up to a small constant)
       /\ (p.n = e.n => (e.work <= p.work + 4 /\ p.work <= e.work + 4))
       /\ (p.n + 1 = e.n /\ p.k = e.k /\ p.n >= 4 => e.work <= 3 * p.work + 50)

TInit == l = 1
TNext == /\ l <= Len(TraceLog)
         /\ (Line.t = "ev" => LineOK(l))
         /\ l' = l + 1
TraceSpec == TInit /\ [][TNext]_l

TraceAccepted ==
  LET d == TLCGet("stats").diameter IN
  IF d - 1 = Len(TraceLog) THEN TRUE
  ELSE /\ PrintT(<<"REJECT at trace line", d>>) /\ FALSE
=============================================================================
