------------------------------- MODULE MC_C02 -------------------------------
(***************************************************************************)
(* C02 family V1: fragment topologies.                                     *)
(*                                                                         *)
(* A dedicated generator: it chooses, fragment by fragment, a type         *)
(* condition, a field payload and the set of fragments that fragment       *)
(* spreads - so EVERY spread graph on NF fragments is produced, self-loops,*)
(* cycles, diamonds and chains F->G->H included - and finally the payload  *)
(* of the operation and the set of fragments (defined or not) it spreads.  *)
(* One behaviour per document; the last step computes the document with    *)
(* the verdict of each of the 24 rules of Validate.tla (offending node     *)
(* ids), the verdicts under the named deviations where they differ, the    *)
(* rules that are not asserted, and the in-model theorems, and prints it.  *)
(* (The vector is computed in the action, not in an invariant: TLC caches  *)
(* LET definitions and operator arguments only while it evaluates an       *)
(* action; in an invariant it is call-by-name.)                            *)
(* Rules exercised: OverlappingFieldsCanBeMerged, NoFragmentCycles,        *)
(* NoUnusedFragments, KnownFragmentNames, PossibleFragmentSpreads,         *)
(* FieldsOnCorrectType (payload fields that do not exist on M).            *)
(***************************************************************************)
EXTENDS Validate, SchemaS1, Json

CONSTANTS NF,          \* number of fragment definitions (names F, G, H)
          NT,          \* spread targets are the names 1..NT of <<F, G, H, Z>>; those > NF are undefined
          PayIds,      \* payload ids a section may carry (0 = none is always allowed)
          FragTypes,   \* type conditions of the fragments
          Shape,       \* "flat": the operation is one section; "nested": three sections below fields `o`
          Fam

VARIABLES fr,    \* the fragments chosen so far: <<[on, pay, sp]>>
          vec    \* <<>> until the operation is chosen, then <<vector>>
vars == <<fr, vec>>

Names == <<"F", "G", "H", "Z">>

SecChoices(types, targets) ==
  { c \in [on : types, pay : PayIds \cup {0}, sp : SUBSET targets] : c.pay # 0 \/ c.sp # {} }

\* ------------------------------------------------------------------ documents
Fld(id, alias, name, args, sel) ==
  [k |-> "field", id |-> id, alias |-> alias, name |-> name, args |-> args, dirs |-> <<>>, sel |-> sel]
ArgY(tok) == <<[n |-> "y", v |-> IntV(tok)]>>

Payload(p, b) ==
  CASE p = 0 -> <<>>
    [] p = 1 -> << Fld(b + 1, "x", "a", <<>>, <<>>) >>
    [] p = 2 -> << Fld(b + 1, "x", "b", <<>>, <<>>) >>
    [] p = 3 -> << Fld(b + 1, "x", "f", ArgY("1"), <<>>) >>
    [] p = 4 -> << Fld(b + 1, "x", "f", ArgY("2"), <<>>) >>
    [] p = 5 -> << Fld(b + 1, "x", "o", <<>>, << Fld(b + 2, "", "y", <<>>, <<>>) >>) >>
    [] p = 6 -> << Fld(b + 1, "x", "o", <<>>, << Fld(b + 2, "y", "x", <<>>, <<>>) >>) >>
    [] p = 7 -> << Fld(b + 1, "x", "s", <<>>, <<>>) >>
    [] p = 8 -> << Fld(b + 1, "", "a", <<>>, <<>>) >>
    \* payloads for sections whose parent type is O
    [] p = 11 -> << Fld(b + 1, "", "y", <<>>, <<>>) >>
    [] p = 12 -> << Fld(b + 1, "y", "x", <<>>, <<>>) >>
    [] p = 13 -> << Fld(b + 1, "", "z", <<>>, << Fld(b + 2, "", "y", <<>>, <<>>) >>) >>
    [] p = 14 -> << Fld(b + 1, "", "z", <<>>, << Fld(b + 2, "y", "x", <<>>, <<>>) >>) >>
    [] p = 15 -> << Fld(b + 1, "y", "w", <<>>, <<>>) >>

RECURSIVE SpreadsFrom(_,_,_)
SpreadsFrom(sp, b, j) ==
  IF j > 4 THEN <<>>
  ELSE (IF j \in sp THEN << [k |-> "spread", id |-> b + 2 + j, name |-> Names[j], dirs |-> <<>>] >> ELSE <<>>)
       \o SpreadsFrom(sp, b, j + 1)
SpreadsOf(sp, b) == SpreadsFrom(sp, b, 1)

\* "deep": the spreads of a section sit one field level down (`z { ...F ...G }`), so that the
\* fragments a definition spreads are not all direct children of its selection set
Section(c, b) == IF Shape = "deep" /\ c.sp # {}
                 THEN Payload(c.pay, b) \o << Fld(b + 9, "", "z", <<>>, SpreadsOf(c.sp, b)) >>
                 ELSE Payload(c.pay, b) \o SpreadsOf(c.sp, b)

RECURSIVE FragsFrom(_,_)
FragsFrom(f, i) ==
  IF i > NF THEN <<>>
  ELSE << [name |-> Names[i], on |-> f[i].on, sel |-> Section(f[i], 10 * (i - 1))] >> \o FragsFrom(f, i + 1)

\* "nested": the fragments are spread below three fields with response keys o, o, k, the first two
\* under parent types that can never apply together (Q and M): the sub-selections of the two `o`
\* are compared as mutually exclusive (shapes only), those of `k: o` on their own - steps H, I, J of
\* the implementation and its memo of compared fragment pairs, both ways round
\*   { ... on Q { o { <f[NF+1]> } }  ... on M { o { <f[NF+2]> } }  k: o { <o> } }
Inl(id, on, sel) == [k |-> "inline", id |-> id, on |-> on, dirs |-> <<>>, sel |-> sel]
\* "twin": two fields with ONE response key under the SAME parent, whose sub-selections are merged
\* (steps I, J between the two sub-selection sets and the fragments spread in either), fragments
\* free to spread one another
\*   { o { <f[NF+1]> }  o { <o> } }
NS == IF Shape = "nested" THEN NF + 2 ELSE IF Shape = "twin" THEN NF + 1 ELSE NF      \* sections chosen before the last one
OpSel(f, o) ==
  IF Shape = "deep" THEN << Fld(92, "", "o", <<>>, Section(o, 10 * NF)) >>
  ELSE IF Shape = "twin"
  THEN << Fld(92, "", "o", <<>>, Section(f[NF + 1], 40)), Fld(94, "", "o", <<>>, Section(o, 50)) >>
  ELSE IF Shape = "nested"
  THEN << Inl(91, "Q", << Fld(92, "", "o", <<>>, Section(f[NF + 1], 40)) >>),
          Inl(93, "M", << Fld(94, "", "o", <<>>, Section(f[NF + 2], 50)) >>),
          Fld(95, "k", "o", <<>>, Section(o, 60)) >>
  ELSE Section(o, 10 * NF)
RootSp(f, o) == IF Shape = "nested" THEN f[NF + 1].sp \cup f[NF + 2].sp \cup o.sp
                ELSE IF Shape = "twin" THEN f[NF + 1].sp \cup o.sp ELSE o.sp

DocOf(f, o) ==
  [ops |-> << [kind |-> "query", name |-> "", vdefs |-> <<>>, sel |-> OpSel(f, o)] >>,
   frags |-> FragsFrom(f, 1)]

\* ------------------------------------------- theorems about the oracle itself
\* formulated on the generator's graph, independently of the document operators
RECURSIVE ReachG(_,_,_)
ReachG(f, todo, seen) ==
  LET new == todo \ seen IN
  IF new = {} THEN seen
  ELSE ReachG(f, UNION { f[i].sp \cap (1..NF) : i \in new }, seen \cup new)

Theorems(f, o, j) ==
  LET v == j.v0
      onCycle(i) == i \in ReachG(f, f[i].sp \cap (1..NF), {})
      used == ReachG(f, RootSp(f, o) \cap (1..NF), {})
  IN /\ (v["NoFragmentCycles"] # {}) = (\E i \in 1..NF : onCycle(i))
     /\ v["NoUnusedFragments"] = { FKey(i) : i \in (1..NF) \ used }
     /\ (v["KnownFragmentNames"] # {}) = (\E k \in (NF + 1)..NT : k \in RootSp(f, o) \/ \E i \in 1..NF : k \in f[i].sp)
     \* a deviation only loses conflicts / only adds spread errors
     /\ j.dv["D_C02_overlap_step_E"] \subseteq v["OverlappingFieldsCanBeMerged"]
     /\ v["PossibleFragmentSpreads"] \subseteq j.dv["D_C02_untyped_inline_in_wrapped_field"]

SX == IndexSchema(S1)

VectorOf(f, o) ==
  LET D == DocOf(f, o)
      j == Judge(SX, D)
  IN [fam |-> Fam, doc |-> D, thm |-> Theorems(f, o, j), viol |-> j.viol, dev |-> j.dev, unspec |-> j.unspec]

\* -------------------------------------------------------------------- machine
Init == fr = <<>> /\ vec = <<>>

\* The last step computes AND PRINTS the vector (every state is expanded exactly once, so every
\* document is printed exactly once); the state keeps only the operation's choice and whether the
\* in-model theorems held, which TheoremsHold checks.
Next ==
  \/ /\ Len(fr) < NF
     /\ \E c \in SecChoices(FragTypes, IF Shape = "nested" THEN {} ELSE 1..NT) : fr' = Append(fr, c)
     /\ UNCHANGED vec
  \/ /\ NF <= Len(fr) /\ Len(fr) < NS
     /\ \E c \in SecChoices({"O"}, 1..NT) : fr' = Append(fr, c)
     /\ UNCHANGED vec
  \/ /\ Len(fr) = NS /\ vec = <<>>
     /\ \E c \in SecChoices({"Q"}, 1..NT) :
          LET v == VectorOf(fr, c) IN
          /\ PrintT(<<"VEC", ToJson(v)>>)
          /\ vec' = << [op |-> c, thm |-> v.thm] >>
     /\ UNCHANGED fr

Spec == Init /\ [][Next]_vars
Complete == vec # <<>>

TheoremsHold == Complete => vec[1].thm

ASSUME PrintT(<<"SCHEMA", ToJson(S1)>>)
=============================================================================
