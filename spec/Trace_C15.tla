------------------------------ MODULE Trace_C15 ------------------------------
(***************************************************************************)
(* Binding B for C15: event traces recorded while the harness plays        *)
(* scripts against the real graphql.Subscribe must be behaviours of        *)
(* Subscription.tla (intended design).  The file concatenates many         *)
(* scripts:                                                                *)
(*   {"t":"script","mode":..,"pre":..}   a new subscription (pre: context  *)
(*                                       cancelled before Subscribe)       *)
(*   {"t":"ev","q":..,"m":..,"c":..,"o":..,"i":..,"s":..}  one observed    *)
(*        channel operation (same fields as the moves of MC_C15; q is the  *)
(*        per-script sequence number); additionally                        *)
(*          m = "park"    the resolver of event i was seen parked,         *)
(*          m = "release" the harness let the resolver of event i return,  *)
(*          m = "fin"     the goroutine-profile observation after the      *)
(*                        environment stopped (o = "na" | "no" | "yes",    *)
(*                        for "yes" c = "fwd" | "exec": who is blocked);   *)
(*        every script ends with its fin line                              *)
(*   {"t":"end"}                                                           *)
(* The steps of the forwarder and of the executors are not observable:     *)
(* they are interleaved as silent steps (Silent), so acceptance cannot use *)
(* the search depth; a high-water mark of the consumed line number is kept *)
(* in TLC register 1 (run with -workers 1).                                *)
(*                                                                         *)
(* Dev is the set of deviations listed in known_findings.json.  The        *)
(* observation "the forwarder is blocked in its send for ever although the *)
(* context is cancelled" (fin/yes/fwd) is a behaviour of the as-is design  *)
(* only and is accepted only when D_C15_send_ignores_ctx is listed;        *)
(* likewise "an executor is blocked in its hand-off send for ever"         *)
(* (fin/yes/exec) is a behaviour of the Cap = 0 design only                *)
(* (D_C15_handoff_unbuffered).  The trace is validated with Cap = 1: such  *)
(* a state is one in which the executor could still take the step that     *)
(* only Cap >= 1 allows.                                                   *)
(***************************************************************************)
EXTENDS Subscription, C15Bind, Json

CONSTANT Dev

ASSUME TLCSet(1, 0)

TraceLog == ndJsonDeserialize("trace.ndjson")

VARIABLES l,      \* next line of the trace
          seq,    \* sequence number of the last event of the current script
          fdone   \* the fin line of the current script has been consumed
tvars == <<vars, l, seq, fdone>>

Line == TraceLog[l]
IsEv(m) == l <= Len(TraceLog) /\ Line.t = "ev" /\ Line.m = m /\ Line.q = seq + 1 /\ ~fdone
Step == l' = l + 1 /\ seq' = seq + 1 /\ UNCHANGED fdone

TInit ==
  /\ l = 1 /\ seq = 0 /\ fdone = TRUE
  /\ mode = "ok" /\ cancelled = FALSE /\ sent = <<>> /\ srcClosed = TRUE
  /\ fpc = "done" /\ cur = None /\ last = FALSE
  /\ delivered = <<>> /\ outClosed = TRUE /\ cstop = FALSE /\ seenClosed = FALSE
  /\ epc = [i \in Evs |-> "idle"] /\ hbuf = [i \in Evs |-> FALSE]

LoadScript ==
  /\ l <= Len(TraceLog) /\ Line.t = "script"
  /\ fdone                                   \* the previous script is complete
  /\ mode' = Line.mode
  /\ cancelled' = Line.pre
  /\ sent' = <<>> /\ srcClosed' = FALSE
  /\ fpc' = "start" /\ cur' = None /\ last' = FALSE
  /\ delivered' = <<>> /\ outClosed' = FALSE /\ cstop' = FALSE /\ seenClosed' = FALSE
  /\ epc' = [i \in Evs |-> "idle"] /\ hbuf' = [i \in Evs |-> FALSE]
  /\ l' = l + 1 /\ seq' = 0 /\ fdone' = FALSE

Silent ==
  /\ l <= Len(TraceLog) /\ ~fdone
  /\ (FwdInternal \/ \E i \in Evs : ExecStep(i))
  /\ UNCHANGED <<l, seq, fdone>>

EvSnd ==
  /\ IsEv("snd")
  /\ \/ Line.o = "acc" /\ Line.i = Len(sent) + 1 /\ SrcEmit(Line.c)
     \/ Line.o = "ref" /\ fpc = "done" /\ ~srcClosed /\ UNCHANGED vars
  /\ Step

EvCls    == IsEv("cls") /\ SrcClose /\ Step
EvCancel == IsEv("cancel") /\ Cancel /\ Step
EvStall  == IsEv("stall") /\ ConsumerStop /\ Step
\* the harness saw the resolver of event i arrive at its gate (an observation, no step of the system)
EvPark    == IsEv("park") /\ Line.i \in Evs /\ epc[Line.i] = "parked" /\ UNCHANGED vars /\ Step
\* the harness opened the gate of event i
EvRelease == IsEv("release") /\ Line.i \in Evs /\ Release(Line.i) /\ Step

EvRcv ==
  /\ IsEv("rcv")
  /\ \/ /\ Line.o = "val"
        /\ fpc = "send"
        /\ Shape(cur.c) = Line.s
        /\ (Line.s \in {"obj", "nullerr"}) => cur.i = Line.i   \* the event number is observable in these shapes
        /\ Deliver
     \/ /\ Line.o = "closed"
        /\ outClosed /\ ~cstop
        /\ seenClosed' = TRUE
        /\ UNCHANGED <<mode, cancelled, sent, srcClosed, fpc, cur, last, delivered, outClosed, cstop, xvars>>
  /\ Step

\* observation of all goroutines started for the subscription after the environment stopped
EvFin ==
  /\ IsEv("fin")
  /\ \/ Line.o = "na" /\ (~cancelled \/ Parked # {})
     \/ Line.o = "no" /\ cancelled /\ Parked = {} /\ AllGone
     \/ /\ Line.o = "yes" /\ Line.c = "fwd" /\ cancelled /\ Parked = {}
        /\ fpc = "send" /\ "D_C15_send_ignores_ctx" \in Dev
     \/ /\ Line.o = "yes" /\ Line.c = "exec" /\ cancelled /\ Parked = {}
        /\ fpc = "done" /\ (\E i \in Evs : epc[i] = "send") /\ (\A i \in Evs : epc[i] # "run")
        /\ "D_C15_handoff_unbuffered" \in Dev
  /\ UNCHANGED vars
  /\ l' = l + 1 /\ seq' = seq + 1 /\ fdone' = TRUE

End == l <= Len(TraceLog) /\ Line.t = "end" /\ fdone /\ UNCHANGED <<vars, seq, fdone>> /\ l' = l + 1

TNext == LoadScript \/ Silent \/ EvSnd \/ EvCls \/ EvCancel \/ EvStall \/ EvPark \/ EvRelease \/ EvRcv \/ EvFin \/ End
TraceSpec == TInit /\ [][TNext]_tvars

\* the safety part of C15 is re-checked on every state of every accepted prefix
TraceInv ==
  /\ TLCSet(1, IF TLCGet(1) < l THEN l ELSE TLCGet(1))
  /\ PrefixInOrder /\ NothingLost /\ ClosedOnlyAfter /\ ErrorOnce /\ ExecInv

TraceAccepted ==
  IF TLCGet(1) = Len(TraceLog) + 1 THEN TRUE
  ELSE /\ PrintT(<<"REJECT at trace line", TLCGet(1)>>)    \* no behaviour of Subscription explains this line
       /\ FALSE
=============================================================================
