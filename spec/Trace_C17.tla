------------------------------ MODULE Trace_C17 ------------------------------
(***************************************************************************)
(* TraceLog specification for C17: the event logs recorded by the harness    *)
(* extensions (one line per hook invocation, resolver call and return of   *)
(* graphql.Do) must be runs of the machine of Extensions.tla.              *)
(*                                                                         *)
(* The file concatenates many requests:                                    *)
(*   {"t":"tree", names, hasres, req, fields, pan}  loads a scenario;    *)
(*        previous request must have returned;                             *)
(*   {"t":"ev", i, x, h, f, o, p [, esc, data, oerr, ment]}  one event: it *)
(*        must be the event appended by SOME successor of the current      *)
(*        state (Succ with Free = TRUE: any order of extensions within a   *)
(*        stage, any order of sibling fields, any of the decisions the     *)
(*        property leaves open); i is the position in the request's log;   *)
(*        the "ret" line also carries what the call returned;              *)
(*   {"t":"end"} closes the file.                                          *)
(*                                                                         *)
(* Deviations (DESIGN.md section 5): Listed is the set of deviations       *)
(* listed as known findings.  When a scenario is loaded the machine picks  *)
(* any subset of Listed for that request, so a request is accepted iff it  *)
(* is a run of the intended design or of the design with some listed       *)
(* deviations switched on; with Listed = {} only the intended design is    *)
(* accepted; a repaired defect simply stops needing its deviation.         *)
(***************************************************************************)
EXTENDS Extensions, Json

CONSTANT Listed

TraceLog == ndJsonDeserialize("trace.ndjson")

VARIABLES l, dvs
tvars == << sc, s, l, dvs >>

TInit == l = 1 /\ sc = NoScenario /\ s = Idle("done") /\ dvs = {}

SeqToSet(q) == { q[i] : i \in 1..Len(q) }

Load ==
  /\ l <= Len(TraceLog) /\ TraceLog[l].t = "tree"
  /\ s.st = "done"
  /\ LET ln == TraceLog[l] IN
     /\ sc' = [names |-> ln.names, hasres |-> ln.hasres, req |-> ln.req, fields |-> ln.fields,
               pan |-> ln.pan, top |-> 0]
     /\ s' = Begin(sc')
  /\ dvs' \in SUBSET (Listed \cap RelevantDevs(sc'))   \* (a deviation that cannot matter is not tried)
  /\ l' = l + 1

Matches(n, ln) ==
  LET e == n.log[Len(n.log)] IN
  /\ Len(n.log) = ln.i
  /\ e.x = ln.x /\ e.h = ln.h /\ e.f = ln.f /\ e.o = ln.o /\ e.p = ln.p
  /\ (ln.h = "ret" => /\ n.esc = ln.esc /\ n.data = ln.data /\ n.oerr = ln.oerr
                      /\ n.ment = SeqToSet(ln.ment))

Event ==
  /\ l <= Len(TraceLog) /\ TraceLog[l].t = "ev"
  /\ s.st # "done"
  /\ LET ln == TraceLog[l] IN
     \E n \in SuccH(sc, dvs, s, TRUE, [x |-> ln.x, h |-> ln.h, f |-> ln.f]) : Matches(n, ln) /\ s' = n
  /\ l' = l + 1
  /\ UNCHANGED << sc, dvs >>

End ==
  /\ l <= Len(TraceLog) /\ TraceLog[l].t = "end"
  /\ s.st = "done"
  /\ l' = l + 1
  /\ UNCHANGED << sc, s, dvs >>

TNext == Load \/ Event \/ End
TraceSpec == TInit /\ [][TNext]_tvars

\* a request accepted without any deviation satisfies every property of Extensions.tla
TraceInv == (s.st = "done" /\ dvs = {} /\ sc # NoScenario) => P_All(sc, s)

TraceAccepted ==
  LET d == TLCGet("stats").diameter IN
  IF d - 1 = Len(TraceLog) THEN TRUE
  ELSE /\ PrintT(<< "REJECT at trace line", d >>)    \* not an event of any run of the machine
       /\ FALSE
=============================================================================
