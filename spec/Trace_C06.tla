------------------------------ MODULE Trace_C06 ------------------------------
(***************************************************************************)
(* Trace specification for the plan cache (C06, C07).  The events are      *)
(* emitted by the `verif` hooks inside PlanCache.lookup / store / Reset    *)
(* while the cache mutex is held, so their order is the lock order even    *)
(* with concurrent callers.  Keys are opaque (the harness renames the      *)
(* implementation's key strings k1, k2, ...).                              *)
(*                                                                         *)
(*  {"t":"new","max":M}                      a fresh cache                 *)
(*  {"t":"ev","e":"lookup","k":K,"s":S,"out":"hit|miss|stale","len":N}     *)
(*  {"t":"ev","e":"evict","k":K}             one per victim, before store  *)
(*  {"t":"ev","e":"store","k":K,"s":S,"len":N}                             *)
(*  {"t":"ev","e":"reset"}                                                 *)
(*                                                                         *)
(* The trace spec keeps the set of present entries (key -> schema) from the *)
(* logged events themselves and requires every event to be consistent with *)
(* it: a hit only for a present key bound to the same schema, a miss only  *)
(* for an absent key, a stale eviction only for a present key bound to     *)
(* another schema; victims must be present; every logged length must equal *)
(* the number of present entries and never exceed MaxEntries.  Which entry *)
(* is evicted is the implementation's choice (the property does not        *)
(* prescribe the replacement policy; the LRU design is model-checked in    *)
(* PlanCache.tla).  KeySound on what was observed: a "sem" field (the      *)
(* ideal class of the request) must be the same for all lookups of a key.  *)
(***************************************************************************)
EXTENDS Naturals, Sequences, FiniteSets, TLC, Json

TraceLog == ndJsonDeserialize("trace.ndjson")

VARIABLES l, max, ent, ord, evs, cls
tvars == <<l, max, ent, ord, evs, cls>>

Without(seq, k) == SelectSeq(seq, LAMBDA x : x # k)
ToFront(seq, k) == <<k>> \o Without(seq, k)
Drop(f, k) == [x \in DOMAIN f \ {k} |-> f[x]]
Put(f, k, v) == [x \in DOMAIN f \cup {k} |-> IF x = k THEN v ELSE f[x]]

TInit == l = 1 /\ max = 0 /\ ent = <<>> /\ ord = <<>> /\ evs = <<>> /\ cls = <<>>

Line == TraceLog[l]

New == /\ l <= Len(TraceLog) /\ Line.t = "new"
       /\ max' = Line.max /\ ent' = <<>> /\ ord' = <<>> /\ evs' = <<>> /\ cls' = <<>>
       /\ l' = l + 1

Outcome(k, s) == IF k \notin DOMAIN ent THEN "miss" ELSE IF ent[k] # s THEN "stale" ELSE "hit"

Lookup ==
  /\ l <= Len(TraceLog) /\ Line.t = "ev" /\ Line.e = "lookup"
  /\ evs = <<>>
  /\ Line.out = Outcome(Line.k, Line.s)                         \* the logged outcome is the model's
  /\ CASE Line.out = "stale" -> ent' = Drop(ent, Line.k) /\ ord' = ord
       [] OTHER -> UNCHANGED <<ent, ord>>
  /\ Line.len = Cardinality(DOMAIN ent')
  \* KeySound on observations: one key, one ideal class
  /\ IF "sem" \in DOMAIN Line
     THEN /\ (Line.k \in DOMAIN cls => cls[Line.k] = Line.sem)
          /\ cls' = Put(cls, Line.k, Line.sem)
     ELSE cls' = cls
  /\ UNCHANGED <<max, evs>>
  /\ l' = l + 1

Evict ==
  /\ l <= Len(TraceLog) /\ Line.t = "ev" /\ Line.e = "evict"
  /\ evs' = Append(evs, Line.k)
  /\ UNCHANGED <<max, ent, ord, cls>>
  /\ l' = l + 1

Store ==
  /\ l <= Len(TraceLog) /\ Line.t = "ev" /\ Line.e = "store"
  /\ \A i \in 1..Len(evs) : evs[i] \in DOMAIN ent /\ evs[i] # Line.k        \* victims were present
  /\ LET gone == { evs[i] : i \in 1..Len(evs) }
         ent2 == Put(ent, Line.k, Line.s)
     IN /\ ent' = [x \in DOMAIN ent2 \ gone |-> ent2[x]]
        /\ ord' = ord
  /\ Line.len = Cardinality(DOMAIN ent')                                  \* exact entry accounting
  /\ Line.len <= max                                                      \* the bound
  /\ evs' = <<>>
  /\ UNCHANGED <<max, cls>>
  /\ l' = l + 1

Reset ==
  /\ l <= Len(TraceLog) /\ Line.t = "ev" /\ Line.e = "reset"
  /\ evs = <<>>
  /\ ent' = <<>> /\ ord' = <<>>
  /\ UNCHANGED <<max, evs, cls>>
  /\ l' = l + 1

End == /\ l <= Len(TraceLog) /\ Line.t = "end" /\ evs = <<>> /\ l' = l + 1 /\ UNCHANGED <<max, ent, ord, evs, cls>>

TNext == New \/ Lookup \/ Evict \/ Store \/ Reset \/ End
TraceSpec == TInit /\ [][TNext]_tvars

TraceInv == Cardinality(DOMAIN ent) <= max \/ max = 0

TraceAccepted ==
  LET d == TLCGet("stats").diameter IN
  IF d - 1 = Len(TraceLog) THEN TRUE
  ELSE /\ PrintT(<<"REJECT at trace line", d>>) /\ FALSE
=============================================================================
