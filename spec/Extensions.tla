------------------------------ MODULE Extensions ------------------------------
(***************************************************************************)
(* C17 - extension hooks are balanced, ordered and fault-isolated.         *)
(*                                                                         *)
(* One request travelling through the pipeline                             *)
(*                                                                         *)
(*   init | parse | validation | execution ( resolve per field ) | result  *)
(*                                                                         *)
(* with E registered extensions.  Every step of the machine is ONE hook    *)
(* invocation (or the resolver call of a field, or the return of the call) *)
(* and appends one event to the log:                                       *)
(*                                                                         *)
(*   [x, h, f, o, p, ab]   x  extension 1..E (0: the pipeline itself)      *)
(*                         h  init pS pF vS vF eS rS rF eF hasR getR        *)
(*                            (x = 0: "res" resolver of field f runs,      *)
(*                                    "ret" the call returns)              *)
(*                         f  response path of the field (rS rF res)       *)
(*                         o  what the hook was given / gave: finish       *)
(*                            functions the outcome class of their phase   *)
(*                            ("ok"/"err"), hasR what it answered ("t"/"f")*)
(*                         p  "" or the class of the value the hook panics *)
(*                            with: "err" an error, "str" a string, "oth"  *)
(*                            any other value                              *)
(*                         ab (model only) the finish was called because   *)
(*                            the request was abandoned, not because the   *)
(*                            phase's work was done                        *)
(*                                                                         *)
(* A scenario sc fixes: the extensions (names[x] = name id: equal ids are  *)
(* equal names; hasres[x] = what HasResult answers), the request class     *)
(* (syntax / validation / variable / fielderr / success) with the fields   *)
(* it executes (fields[j] = [p path, par index of the parent or 0, out     *)
(* "ok"/"err" of the resolver]) and the panic placement pan = sequence of  *)
(* [x, h, f, c]: hook h (for field f) of extension x panics with class c.  *)
(*                                                                         *)
(* WHAT THE PROPERTY FIXES (the intended design, dv = {}):                 *)
(*  - stages in pipeline order; in every stage every extension's hook is   *)
(*    invoked (order among DIFFERENT extensions is free);                  *)
(*  - a start hook that returned normally opens the phase for its          *)
(*    extension; the phase is closed by exactly one call of the finish     *)
(*    function, after the phase's work, with the phase's outcome: parse    *)
(*    error or not, validation errors or not, the resolver's error or not, *)
(*    the result with or without (non-hook) errors;                        *)
(*  - syntax error: pF gets the error and nothing later starts;            *)
(*    validation error: vF gets the errors and nothing later starts;       *)
(*    variable error / field errors / success: execution starts, one       *)
(*    rS/rF pair per executed field around its resolver, eF, then          *)
(*    HasResult and (only if it answered true) GetResult;                  *)
(*  - a panicking hook, whatever the value, becomes an error of the        *)
(*    result; nothing escapes; phases other extensions (or the same one)   *)
(*    have open are still finished.                                        *)
(* WHAT IT LEAVES OPEN (both continuations are behaviours of the machine): *)
(*  - whether a hook failure in init/parse/validation/execution-start      *)
(*    abandons the request (decided once all hooks of that stage were      *)
(*    invoked) or the pipeline carries on; when it abandons, the phases    *)
(*    still open are finished with an unspecified outcome (ab = TRUE);     *)
(*  - whether a variable error is detected inside the execution phase or   *)
(*    before it starts;                                                    *)
(*  - the order in which sibling fields are executed.                      *)
(*                                                                         *)
(* NAMED DEVIATIONS (what the library does today, DESIGN.md section 5):    *)
(*  D_C17_nonerror_panic_escapes   recovery asserts that the recovered     *)
(*      value is an error; for any other value the recovery itself panics: *)
(*      outside field resolution nothing catches that (the panic escapes   *)
(*      the call, phases stay open, no result); inside field resolution    *)
(*      the field's error handling catches it (the field fails with an     *)
(*      error that does not mention the hook's value, hooks of the field   *)
(*      not yet called are skipped, its open resolve phases stay open, the *)
(*      hook errors collected so far in the same stage of that field are   *)
(*      lost (sm), a start hook's failure also keeps the resolver from     *)
(*      running; the children of a failed field are not executed).  Finish *)
(*      functions are called in map order, so any subset of the others may *)
(*      have been called before the one that ends the stage.               *)
(*  D_C17_early_return_skips_finish  abandoning the request after a failed *)
(*      start stage returns at once: phases opened in it are never closed. *)
(*  D_C17_same_name_overwrites   finish functions are kept per extension   *)
(*      NAME: of several extensions with one name only the last one's      *)
(*      finish function is kept and called.                                *)
(***************************************************************************)
EXTENDS Naturals, Sequences, FiniteSets, TLC

CONSTANTS NameCfgs,   \* set of tuples of name ids, one tuple per extension set-up
          Reqs,       \* request classes
          Classes,    \* panic value classes
          HRs,        \* set of tuples of booleans: what HasResult answers
          MaxP,       \* max number of panicking hooks per scenario with 1 or 2 extensions
          MaxP3,      \* the same with 3 or more extensions
          Dev,        \* deviations switched on (model checking)
          Free        \* TRUE: all orders of extensions within a stage and of sibling fields

VARIABLES sc, s
xvars == <<sc, s>>

DNonErr == "D_C17_nonerror_panic_escapes"
DEarly  == "D_C17_early_return_skips_finish"
DSame   == "D_C17_same_name_overwrites"
AllDevs == {DNonErr, DEarly, DSame}

\* ---- constants for configurations (cfg files cannot contain tuples)
Names1 == { <<1>> }
Names2 == { <<1, 2>>, <<1, 1>> }
Names2d == { <<1, 2>> }
Names3 == { <<1, 2, 3>>, <<1, 1, 2>>, <<1, 2, 1>>, <<1, 2, 2>>, <<1, 1, 1>> }
Names3d == { <<1, 2, 3>> }
Names3q == { <<1, 2, 3>>, <<1, 2, 1>> }
NamesUpTo2 == Names1 \cup Names2
NamesUpTo3 == Names1 \cup Names2 \cup Names3
NamesUpTo3q == Names1 \cup Names2 \cup Names3q
NamesDistinct == { <<1>>, <<1, 2>>, <<1, 2, 3>> }
NamesEq == { <<1, 1>>, <<1, 2, 1>>, <<1, 1, 1>> }
HR_A == << TRUE, FALSE, TRUE >>
HR_B == << FALSE, TRUE, FALSE >>
HRsA == { HR_A }
HRsAB == { HR_A, HR_B }
AllReqs == { "syntax", "validation", "variable", "fielderr", "nullerr", "success" }
AllClasses == { "err", "str", "oth" }

\* ---- the requests (fixed, small; the harness runs them against schema S1)
Fld(p, par, out) == [p |-> p, par |-> par, out |-> out]
FieldsOf(req) ==
  CASE req = "success"  -> << Fld("a", 0, "ok"), Fld("o", 0, "ok"), Fld("o/x", 2, "ok") >>
    [] req = "fielderr" -> << Fld("b", 0, "ok"), Fld("o", 0, "ok"), Fld("o/y", 2, "err") >>
    \* "nul": the resolver returns nil WITHOUT an error for a non-null field: its resolve phase finishes
    \* with the resolver's (good) outcome, the field error is raised afterwards by completion
    [] req = "nullerr"  -> << Fld("b", 0, "ok"), Fld("o", 0, "ok"), Fld("o/w", 2, "nul") >>
    [] OTHER -> << >>
ParseOut(req) == IF req = "syntax" THEN "err" ELSE "ok"
ValidOut(req) == IF req = "validation" THEN "err" ELSE "ok"

Exts(c) == 1..Len(c.names)
XMin(S) == CHOOSE m \in S : \A y \in S : m <= y
NonErr(c) == c \in { "str", "oth" }

PanicOf(c, x, h, f) ==
  IF \E i \in 1..Len(c.pan) : c.pan[i].x = x /\ c.pan[i].h = h /\ c.pan[i].f = f
  THEN c.pan[CHOOSE i \in 1..Len(c.pan) : c.pan[i].x = x /\ c.pan[i].h = h /\ c.pan[i].f = f].c
  ELSE ""

\* ---- hook sites of one extension, in pipeline order
HookSeq(req, fields) ==
  LET H(h) == [h |-> h, f |-> ""]
      n == Len(fields)
      res == [k \in 1..(2 * n) |-> IF k % 2 = 1 THEN [h |-> "rS", f |-> fields[(k + 1) \div 2].p]
                                                 ELSE [h |-> "rF", f |-> fields[k \div 2].p]]
  IN << H("init"), H("pS"), H("pF") >>
     \o (IF req = "syntax" THEN << >> ELSE << H("vS"), H("vF") >>)
     \o (IF req \in { "syntax", "validation" } THEN << >>
         ELSE << H("eS") >> \o res \o << H("eF"), H("hasR"), H("getR") >>)

Ev(x, h, f, o, p, ab) == [x |-> x, h |-> h, f |-> f, o |-> o, p |-> p, ab |-> ab]

\* ---- machine state
Begin(c) ==
  [st |-> "init", todo |-> Exts(c), fin |-> {}, efin |-> {}, needG |-> {}, failed |-> FALSE,
   k |-> 0, fdone |-> {}, ffail |-> {}, ao |-> "", ah |-> "", esc |-> FALSE, data |-> "none",
   oerr |-> FALSE, ment |-> {}, sm |-> {}, log |-> << >>]

Idle(stage) == [Begin([names |-> << >>]) EXCEPT !.st = stage]

\* (named constant sets: TLC evaluates them once)
Abortable == { "init", "pS", "pF", "vS", "vF", "eS" }
FinishStages == { "pF", "vF", "rF", "eF", "abF" }
OpeningStages == { "pS", "vS", "eS" }
StartHooks == { "pS", "vS", "eS", "rS" }
ResolveHooks == { "rS", "rF" }
RestStages == { "ret", "done", "dead", "res" }
NoEndStages == { "coll", "res", "ret", "done", "dead" }
DeadStages == { "done", "dead" }
FieldEndStages == { "eS", "rF", "fend" }
VStages == { "vS", "vF" }
FinishHookOf(st) == CASE st = "pS" -> "pF" [] st = "vS" -> "vF" [] st = "eS" -> "eF" [] OTHER -> ""
HookOf(t) == IF t.st = "abF" THEN t.ah ELSE t.st

Enter(t, stage, todo) == [t EXCEPT !.st = stage, !.todo = todo, !.failed = FALSE, !.sm = {}]
Ret(t, data, oerr) == [t EXCEPT !.st = "ret", !.todo = {}, !.needG = {}, !.data = data, !.oerr = oerr]

\* the request is abandoned after a stage with a failed hook
Abort(dv, t, pc) ==
  IF DEarly \in dv \/ t.st \notin OpeningStages THEN Ret(t, "none", FALSE)
  ELSE [Enter(t, "abF", t.fin) EXCEPT !.ao = pc.ao, !.ah = FinishHookOf(t.st)]

NextField(c, t, pc) ==
  LET n == Len(c.fields)
      elig == { j \in 1..n : j \notin t.fdone
                             /\ (c.fields[j].par = 0
                                 \/ (c.fields[j].par \in t.fdone /\ c.fields[j].par \notin t.ffail)) }
  IN IF elig = {} THEN [Enter(t, "eF", t.efin) EXCEPT !.k = 0]
     ELSE LET j == IF pc.k = 0 THEN XMin(elig) ELSE pc.k
          IN IF j \notin elig THEN [t EXCEPT !.st = "dead"]
             ELSE [Enter(t, "rS", Exts(c)) EXCEPT !.k = j, !.fin = {}]

\* what the pipeline does when every hook of the current stage has been invoked
NextStage(c, dv, t, pc) ==
  LET quit == t.failed /\ pc.pol = "abort" IN
  CASE t.st = "init" -> IF quit THEN Abort(dv, t, pc) ELSE [Enter(t, "pS", Exts(c)) EXCEPT !.fin = {}]
    [] t.st = "pS"   -> IF quit THEN Abort(dv, t, pc) ELSE Enter(t, "pF", t.fin)       \* the source is parsed
    [] t.st = "pF"   -> IF ParseOut(c.req) = "err" THEN Ret(t, "none", TRUE)
                        ELSE IF quit THEN Abort(dv, t, pc)
                        ELSE [Enter(t, "vS", Exts(c)) EXCEPT !.fin = {}]
    [] t.st = "vS"   -> IF quit THEN Abort(dv, t, pc) ELSE Enter(t, "vF", t.fin)       \* the document is validated
    [] t.st = "vF"   -> IF ValidOut(c.req) = "err" THEN Ret(t, "none", TRUE)
                        ELSE IF quit THEN Abort(dv, t, pc)
                        ELSE IF c.req = "variable" /\ pc.ve = "before" THEN Ret(t, "none", TRUE)
                        ELSE [Enter(t, "eS", Exts(c)) EXCEPT !.fin = {}]
    [] t.st = "eS"   -> IF quit THEN Abort(dv, t, pc)
                        ELSE LET u == [t EXCEPT !.efin = t.fin, !.fin = {}] IN
                             IF c.req = "variable" THEN Enter([u EXCEPT !.oerr = TRUE], "eF", u.efin)
                             ELSE NextField(c, [u EXCEPT !.data = "some"], pc)
    [] t.st = "rS"   -> [t EXCEPT !.st = "res"]
    [] t.st = "rF"   -> LET bad == c.fields[t.k].out \in {"err", "nul"} IN
                        NextField(c, [t EXCEPT !.fdone = @ \cup {t.k},
                                               !.ffail = IF bad THEN @ \cup {t.k} ELSE @,
                                               !.oerr = @ \/ bad, !.fin = {}], pc)
    [] t.st = "fend" -> NextField(c, t, pc)
    [] t.st = "eF"   -> [Enter(t, "coll", Exts(c)) EXCEPT !.needG = {}]
    [] t.st = "coll" -> Ret(t, t.data, t.oerr)
    [] t.st = "abF"  -> Ret(t, "none", FALSE)

Pending(t) == t.todo # {} \/ t.st \in RestStages \/ (t.st = "coll" /\ t.needG # {})

RECURSIVE Settle(_, _, _, _)
Settle(c, dv, t, pc) == IF Pending(t) THEN t ELSE Settle(c, dv, NextStage(c, dv, t, pc), pc)

\* one hook invocation
Hook(c, dv, t, x, h) ==
  LET f == IF h \in ResolveHooks THEN c.fields[t.k].p ELSE ""
      o == CASE h = "pF" -> IF t.st = "abF" THEN t.ao ELSE ParseOut(c.req)
             [] h = "vF" -> IF t.st = "abF" THEN t.ao ELSE ValidOut(c.req)
             [] h = "rF" -> IF c.fields[t.k].out = "nul" THEN "ok" ELSE c.fields[t.k].out
             [] h = "eF" -> IF t.st = "abF" THEN t.ao ELSE IF t.oerr THEN "err" ELSE "ok"
             [] h = "hasR" -> IF c.hasres[x] THEN "t" ELSE "f"
             [] OTHER -> ""
      p == PanicOf(c, x, h, f)
      t1 == [t EXCEPT !.log = Append(@, Ev(x, h, f, o, p, t.st = "abF")),
                      !.todo = IF h = "getR" THEN @ ELSE @ \ {x},
                      !.needG = IF h = "getR" THEN @ \ {x} ELSE @]
  IN IF p = "" THEN
       CASE h \in StartHooks ->
              [t1 EXCEPT !.fin = IF DSame \in dv
                                 THEN (@ \ { j \in Exts(c) : c.names[j] = c.names[x] }) \cup {x}
                                 ELSE @ \cup {x}]
         [] h = "hasR" -> [t1 EXCEPT !.needG = IF c.hasres[x] THEN @ \cup {x} ELSE @]
         [] OTHER -> t1
     ELSE IF NonErr(p) /\ DNonErr \in dv THEN
       IF h \in ResolveHooks
       THEN [t1 EXCEPT !.st = "fend", !.todo = {}, !.fin = {}, !.fdone = @ \cup {t.k},
                       !.ffail = @ \cup {t.k}, !.oerr = TRUE, !.ment = @ \ t.sm]
       ELSE [t1 EXCEPT !.st = "ret", !.todo = {}, !.needG = {}, !.esc = TRUE, !.data = "esc",
                       !.oerr = FALSE, !.ment = {}]
     ELSE [t1 EXCEPT !.failed = TRUE, !.ment = @ \cup { [x |-> x, h |-> h, f |-> f] },
                     !.sm = @ \cup { [x |-> x, h |-> h, f |-> f] }]

\* under DNonErr the finish functions sit in a map: whichever is called first may end the stage
AnyOrder(c, dv, t) ==
  /\ DNonErr \in dv /\ t.st \in FinishStages
  /\ \E x \in t.todo : NonErr(PanicOf(c, x, HookOf(t), IF t.st = "rF" THEN c.fields[t.k].p ELSE ""))

\* free: any order of extensions within a stage and of sibling fields (otherwise the canonical
\* order: smallest first).  hint: NoHint, or [x, h, f] = only the successors whose event is hook h
\* of extension x (for field f) are wanted (trace validation looks for one given event).
NoHint == [x |-> 99, h |-> "", f |-> ""]
Fires(c, dv, t, free, hint) ==
  LET only(S) == IF hint.x = 99 THEN S ELSE S \cap { hint.x } IN
  CASE t.st \in DeadStages -> {}
    [] t.st = "ret" -> { [t EXCEPT !.st = "done", !.log = Append(@, Ev(0, "ret", "", t.data, "", FALSE))] }
    [] t.st = "res" -> { [t EXCEPT !.st = "rF", !.todo = t.fin, !.failed = FALSE, !.sm = {},
                                   !.log = Append(@, Ev(0, "res", c.fields[t.k].p, "", "", FALSE))] }
    [] t.st = "coll" ->
         IF free THEN { Hook(c, dv, t, x, "getR") : x \in only(IF hint.h = "hasR" THEN {} ELSE t.needG) }
                      \cup { Hook(c, dv, t, x, "hasR") : x \in only(IF hint.h = "getR" THEN {} ELSE t.todo) }
         ELSE IF t.needG # {} THEN { Hook(c, dv, t, XMin(t.needG), "getR") }
         ELSE { Hook(c, dv, t, XMin(t.todo), "hasR") }
    [] OTHER -> { Hook(c, dv, t, x, HookOf(t)) :
                    x \in IF free \/ AnyOrder(c, dv, t) THEN only(t.todo) ELSE { XMin(t.todo) } }

FieldIndex(c, f) == IF \E j \in 1..Len(c.fields) : c.fields[j].p = f
                    THEN CHOOSE j \in 1..Len(c.fields) : c.fields[j].p = f ELSE 0

\* the decisions the property leaves open, where they arise
PolChoices(c, dv, t, free, hint) ==
  LET atEnd == t.todo = {} /\ t.st \notin NoEndStages
      pols == IF atEnd /\ t.failed /\ t.st \in Abortable THEN { "abort", "cont" } ELSE { "cont" }
      aos == IF atEnd /\ t.failed /\ t.st \in OpeningStages /\ DEarly \notin dv /\ t.fin # {}
             THEN { "ok", "err" } ELSE { "ok" }
      ves == IF atEnd /\ t.st \in VStages /\ c.req = "variable" THEN { "in", "before" } ELSE { "in" }
      ks == IF free /\ atEnd /\ t.st \in FieldEndStages
            THEN (IF hint.x = 99 THEN 0..Len(c.fields) ELSE { IF hint.h = "rS" THEN FieldIndex(c, hint.f) ELSE 0 })
            ELSE { 0 }
  IN [pol : pols, ao : aos, ve : ves, k : ks]

\* (the inner set binds the settled state to a value: it is computed once, not once per use)
SuccH(c, dv, t, free, hint) ==
  IF Pending(t) THEN Fires(c, dv, t, free, hint)
  ELSE UNION { Fires(c, dv, u, free, hint) :
                 u \in { Settle(c, dv, t, pc) : pc \in PolChoices(c, dv, t, free, hint) } }
Succ(c, dv, t, free) == SuccH(c, dv, t, free, NoHint)

\* deviations that can change anything for scenario c
RelevantDevs(c) ==
  (IF \E i, j \in Exts(c) : i < j /\ c.names[i] = c.names[j] THEN { DSame } ELSE {})
  \cup (IF \E i \in 1..Len(c.pan) : NonErr(c.pan[i].c) THEN { DNonErr } ELSE {})
  \cup (IF Len(c.names) > 1 /\ \E i \in 1..Len(c.pan) : c.pan[i].h \in OpeningStages THEN { DEarly } ELSE {})

\* ------------------------------------------------------------------ scenarios
NSites(c) == Len(c.names) * Len(HookSeq(c.req, c.fields))
SiteAt(c, k) ==
  LET hs == HookSeq(c.req, c.fields)
      n == Len(hs)
  IN [x |-> ((k - 1) \div n) + 1, h |-> hs[((k - 1) % n) + 1].h, f |-> hs[((k - 1) % n) + 1].f]

NoScenario == [names |-> << >>, hasres |-> << >>, req |-> "", fields |-> << >>, pan |-> << >>, top |-> 0]

XInit == sc = NoScenario /\ s = Idle("gen0")

Pick ==
  /\ s.st = "gen0"
  /\ \E nm \in NameCfgs, rq \in Reqs, hr \in HRs :
       sc' = [names |-> nm, hasres |-> [x \in 1..Len(nm) |-> hr[x]], req |-> rq,
              fields |-> FieldsOf(rq), pan |-> << >>, top |-> 0]
  /\ s' = Idle("gen")

\* panics are added in increasing site order: every placement is built exactly once
AddPanic ==
  /\ s.st = "gen" /\ Len(sc.pan) < (IF Len(sc.names) >= 3 THEN MaxP3 ELSE MaxP)
  /\ \E k \in (sc.top + 1)..NSites(sc), cl \in Classes :
       LET q == SiteAt(sc, k) IN
       /\ ~(q.h = "getR" /\ ~sc.hasres[q.x])          \* GetResult of an extension without result is never due
       /\ sc' = [sc EXCEPT !.pan = Append(@, [x |-> q.x, h |-> q.h, f |-> q.f, c |-> cl]), !.top = k]
  /\ UNCHANGED s

GenNext == Pick \/ AddPanic
GenSpec == XInit /\ [][GenNext]_xvars

Start == s.st = "gen" /\ s' = Begin(sc) /\ UNCHANGED sc
Run == s.st \notin { "gen0", "gen", "done" } /\ s' \in Succ(sc, Dev, s, Free) /\ UNCHANGED sc

XNext == Pick \/ AddPanic \/ Start \/ Run
Spec == XInit /\ [][XNext]_xvars

\* ----------------------------------------------------------------- properties
\* All properties are predicates of a scenario c and a state t whose call has returned
\* (t.st = "done"): they are prefix-closed statements about the log, and every run returns
\* (Terminates), so checking them where the call has returned covers every reachable log.
WordOf(t, x) == SelectSeq(t.log, LAMBDA e : e.x = x)

\* (1) Order: the word of every extension is a prefix of
\*     init (pS pF (vS vF (eS (rS rF)* eF (hasR getR?)?)?)?)?
\* where the finish of a phase is present iff its start hook returned normally
\* (a start hook that panicked opened nothing: states p, v, Y), rF names the field rS named,
\* getR only after hasR answered true.
Q(q, f) == [q |-> q, f |-> f]
Delta(q, e) ==
  LET ok == e.p = "" IN
  CASE q.q = "0" /\ e.h = "init" -> Q("i", "")
    [] q.q = "i" /\ e.h = "pS" -> Q(IF ok THEN "P" ELSE "p", "")
    [] q.q = "P" /\ e.h = "pF" -> Q("p", "")
    [] q.q = "p" /\ e.h = "vS" -> Q(IF ok THEN "V" ELSE "v", "")
    [] q.q = "V" /\ e.h = "vF" -> Q("v", "")
    [] q.q = "v" /\ e.h = "eS" -> Q(IF ok THEN "X" ELSE "Y", "")
    [] q.q \in { "X", "Y" } /\ e.h = "rS" -> IF ok THEN Q(IF q.q = "X" THEN "R" ELSE "S", e.f) ELSE q
    [] q.q \in { "R", "S" } /\ e.h = "rF" /\ e.f = q.f -> Q(IF q.q = "R" THEN "X" ELSE "Y", "")
    [] q.q = "X" /\ e.h = "eF" -> Q("x", "")
    [] q.q \in { "x", "Y" } /\ e.h = "hasR" -> Q(IF ok /\ e.o = "t" THEN "H" ELSE "h", "")
    [] q.q = "H" /\ e.h = "getR" -> Q("g", "")
    [] OTHER -> Q("bad", "")

RECURSIVE DRun(_, _, _)
DRun(w, i, q) == IF i > Len(w) \/ q.q = "bad" THEN q ELSE DRun(w, i + 1, Delta(q, w[i]))
QEnd(t, x) == DRun(WordOf(t, x), 1, Q("0", ""))

P_Order(c, t) == \A x \in Exts(c) : QEnd(t, x).q # "bad"

\* (2) every phase that was started is finished exactly once before the call returns
\*     (exactly once: P_Order admits no second finish), also when another hook panicked
P_StartedIsFinished(c, t) == \A x \in Exts(c) : QEnd(t, x).q \notin { "P", "V", "X", "R", "S" }

\* (3) phases of one extension are properly nested (a stack discipline)
PhaseOf(h) == CASE h \in { "pS", "pF" } -> "p" [] h \in { "vS", "vF" } -> "v"
                [] h \in { "eS", "eF" } -> "e" [] h \in { "rS", "rF" } -> "r" [] OTHER -> ""
RECURSIVE NRun(_, _, _)
NRun(w, i, stk) ==
  IF i > Len(w) THEN TRUE
  ELSE LET e == w[i] IN
       IF e.h \in { "pS", "vS", "eS", "rS" }
       THEN NRun(w, i + 1, IF e.p = "" THEN Append(stk, << PhaseOf(e.h), e.f >>) ELSE stk)
       ELSE IF e.h \in { "pF", "vF", "eF", "rF" }
       THEN /\ stk # << >> /\ stk[Len(stk)] = << PhaseOf(e.h), e.f >>
            /\ NRun(w, i + 1, SubSeq(stk, 1, Len(stk) - 1))
       ELSE NRun(w, i + 1, stk)
P_Nested(c, t) == \A x \in Exts(c) : NRun(WordOf(t, x), 1, << >>)

\* (4) a finish function receives the outcome of its phase
TrueOutcome(c, h, f) ==
  CASE h = "pF" -> ParseOut(c.req)
    [] h = "vF" -> ValidOut(c.req)
    [] h = "rF" -> LET o == (CHOOSE fd \in { c.fields[j] : j \in 1..Len(c.fields) } : fd.p = f).out
                   IN IF o = "nul" THEN "ok" ELSE o
    [] h = "eF" -> IF c.req = "variable" \/ \E j \in 1..Len(c.fields) : c.fields[j].out \in {"err", "nul"}
                   THEN "err" ELSE "ok"
P_FinishOutcome(c, t) ==
  \A i \in 1..Len(t.log) :
     LET e == t.log[i] IN
     (e.h \in { "pF", "vF", "rF", "eF" } /\ ~e.ab) => e.o = TrueOutcome(c, e.h, e.f)

\* (5) one resolve notification per executed field, around the resolver
Idx(t, x, h, f) == { i \in 1..Len(t.log) : t.log[i].x = x /\ t.log[i].h = h /\ t.log[i].f = f }
P_ResolveNotified(c, t) ==
  \A j \in 1..Len(c.fields) :
    LET f == c.fields[j].p
        rs == Idx(t, 0, "res", f) IN
    /\ Cardinality(rs) <= 1
    /\ (t.data = "some" => Cardinality(rs) = 1)
    /\ \A x \in Exts(c) :
         /\ Cardinality(Idx(t, x, "rS", f)) = Cardinality(rs)
         /\ \A a \in Idx(t, x, "rS", f), r \in rs : a < r
         /\ \A b \in Idx(t, x, "rF", f), r \in rs : r < b

\* (6) every panic is an error of the result; (7) no panic escapes
P_PanicsReported(c, t) ==
  ~t.esc => \A i \in 1..Len(t.log) :
              t.log[i].p # "" => [x |-> t.log[i].x, h |-> t.log[i].h, f |-> t.log[i].f] \in t.ment
P_NoEscape(c, t) == ~t.esc

\* (8) result collection: GetResult exactly when HasResult answered true
P_ResultCollected(c, t) == \A x \in Exts(c) : QEnd(t, x).q # "H"

\* (9) the request's own outcome is not disturbed when the pipeline carried on to the end
P_DataKept(c, t) ==
  (~t.esc /\ \E i \in 1..Len(t.log) : t.log[i].h = "hasR") =>
     t.data = (IF c.req = "variable" THEN "none" ELSE "some")

P_All(c, t) == /\ P_Order(c, t) /\ P_StartedIsFinished(c, t) /\ P_Nested(c, t) /\ P_FinishOutcome(c, t)
               /\ P_ResolveNotified(c, t) /\ P_PanicsReported(c, t) /\ P_NoEscape(c, t)
               /\ P_ResultCollected(c, t) /\ P_DataKept(c, t)

\* ---- as invariants of the state machine
Returned == s.st = "done"
OrderOK == Returned => P_Order(sc, s)
StartedIsFinished == Returned => P_StartedIsFinished(sc, s)
Nested == Returned => P_Nested(sc, s)
FinishOutcome == Returned => P_FinishOutcome(sc, s)
ResolveNotified == Returned => P_ResolveNotified(sc, s)
PanicsReported == Returned => P_PanicsReported(sc, s)
NoEscape == Returned => P_NoEscape(sc, s)
ResultCollected == Returned => P_ResultCollected(sc, s)
DataKept == Returned => P_DataKept(sc, s)
\* every run returns: only a returned state has no successor
\* ("dead" marks the choice of a field that is not eligible, an artefact of Free)
Terminates == (s.st \notin { "gen0", "gen", "done", "dead" }) => Succ(sc, Dev, s, Free) # {}
=============================================================================
