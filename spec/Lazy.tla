-------------------------------- MODULE Lazy --------------------------------
(***************************************************************************)
(* C07: lazily initialised shared state under concurrent first use.        *)
(*                                                                         *)
(* A cell is a piece of library state that is filled on first use (an      *)
(* enum's value/name look-up tables, the possible-type table of an         *)
(* abstract type, the sub-plan of an abstract field for one runtime type,  *)
(* the plan cache's LRU).  Goroutines run requests that touch cells.       *)
(* Each cell follows one protocol:                                         *)
(*   "locked"  check / build / publish all happen while holding the cell's *)
(*             mutex (plan.abstractMu, PlanCache.mu)                       *)
(*   "eager"   built before any goroutine starts; only read afterwards     *)
(*   "racy"    check, then build, then publish with no synchronisation     *)
(*             (what an unprotected lazily filled map does)                *)
(*   "lru"     a cell whose LOOK-UP writes (the plan cache: a hit moves    *)
(*             the entry to the front of the LRU list); every step under   *)
(*             the exclusive lock, like "locked", but the hit is logged as *)
(*             the write it is                                             *)
(*   "rwlru"   the same cell behind a reader/writer lock with look-ups     *)
(*             under the SHARED lock ("look-ups vastly outnumber stores"): *)
(*             a miss drops the shared lock and publishes under the        *)
(*             exclusive one, but hits - which write - overlap             *)
(*                                                                         *)
(* Every access is logged as [g, c, rw, lk], lk \in {"x","s","n"}: made    *)
(* holding the cell's lock exclusively, shared, or not at all.  With locks *)
(* as the only synchronisation between request goroutines, two accesses to *)
(* one cell by different goroutines, one of them a write, are ordered by   *)
(* happens-before iff both held the lock and at least one of them held it  *)
(* exclusively: NoRace.  TLC proves NoRace / AtMostOneBuilder for the      *)
(* "locked", "eager" and "lru" protocols and finds the race for "racy" and *)
(* for "rwlru".                                                            *)
(***************************************************************************)
EXTENDS Naturals, Sequences, FiniteSets, TLC

CONSTANTS Procs, Cells, Protocol      \* Protocol \in [Cells -> {"locked","eager","racy","lru","rwlru"}]

VARIABLES built,     \* Cells -> BOOLEAN : the published state
          holder,    \* Cells -> Procs \cup {"none"} : exclusive owner of the cell's lock
          readers,   \* Cells -> SUBSET Procs : holders of the shared side of a reader/writer lock
          pc,        \* Procs -> [c, at] : which cell, which step ("idle","in","checked","building")
          todo,      \* Procs -> sequence of cells still to touch
          log        \* sequence of accesses [g, c, rw, locked]
vars == <<built, holder, readers, pc, todo, log>>

Idle == [c |-> "none", at |-> "idle"]

Init ==
  /\ built = [c \in Cells |-> Protocol[c] = "eager"]
  /\ holder = [c \in Cells |-> "none"]
  /\ readers = [c \in Cells |-> {}]
  /\ pc = [g \in Procs |-> Idle]
  /\ todo \in [Procs -> { s \in UNION { [1..n -> Cells] : n \in 1..2 } : TRUE }]
  /\ log = <<>>

Acc(g, c, rw) == [g |-> g, c |-> c, rw |-> rw,
                  lk |-> IF holder[c] = g THEN "x" ELSE IF g \in readers[c] THEN "s" ELSE "n"]
Exclusive(c) == Protocol[c] \in {"locked", "lru"}

Begin(g) ==
  /\ pc[g].at = "idle" /\ todo[g] # <<>>
  /\ LET c == Head(todo[g]) IN
     /\ todo' = [todo EXCEPT ![g] = Tail(@)]
     /\ IF Exclusive(c)
        THEN /\ holder[c] = "none" /\ readers[c] = {}  \* Lock()
             /\ holder' = [holder EXCEPT ![c] = g]
             /\ UNCHANGED readers
        ELSE IF Protocol[c] = "rwlru"
        THEN /\ holder[c] = "none"                      \* RLock()
             /\ readers' = [readers EXCEPT ![c] = @ \cup {g}]
             /\ UNCHANGED holder
        ELSE UNCHANGED <<holder, readers>>
     /\ pc' = [pc EXCEPT ![g] = [c |-> c, at |-> "in"]]
  /\ UNCHANGED <<built, log>>

Check(g) ==
  /\ pc[g].at = "in"
  /\ LET c == pc[g].c IN
     \* the look-up of an LRU that hits moves the entry to the front: a write
     /\ log' = Append(log, Acc(g, c, IF built[c] /\ Protocol[c] \in {"lru", "rwlru"} THEN "wr" ELSE "rd"))
     /\ pc' = [pc EXCEPT ![g].at = IF built[c] THEN "done" ELSE IF Protocol[c] = "rwlru" THEN "upgrade" ELSE "building"]
  /\ UNCHANGED <<built, holder, readers, todo>>

\* "rwlru" miss: RUnlock(), then Lock() for the store
Upgrade(g) ==
  /\ pc[g].at = "upgrade"
  /\ LET c == pc[g].c IN
     IF g \in readers[c]
     THEN /\ readers' = [readers EXCEPT ![c] = @ \ {g}]
          /\ UNCHANGED <<holder, pc>>
     ELSE /\ holder[c] = "none" /\ readers[c] = {}
          /\ holder' = [holder EXCEPT ![c] = g]
          /\ pc' = [pc EXCEPT ![g].at = "building"]
          /\ UNCHANGED readers
  /\ UNCHANGED <<built, todo, log>>

Publish(g) ==
  /\ pc[g].at = "building"
  /\ LET c == pc[g].c IN
     /\ built' = [built EXCEPT ![c] = TRUE]
     /\ log' = Append(log, Acc(g, c, "wr"))
     /\ pc' = [pc EXCEPT ![g].at = "done"]
  /\ UNCHANGED <<holder, readers, todo>>

Finish(g) ==
  /\ pc[g].at = "done"
  /\ LET c == pc[g].c IN
     /\ holder' = IF holder[c] = g THEN [holder EXCEPT ![c] = "none"] ELSE holder   \* Unlock()
     /\ readers' = [readers EXCEPT ![c] = @ \ {g}]                                 \* RUnlock()
  /\ pc' = [pc EXCEPT ![g] = Idle]
  /\ UNCHANGED <<built, todo, log>>

Next == \E g \in Procs : Begin(g) \/ Check(g) \/ Upgrade(g) \/ Publish(g) \/ Finish(g)
Spec == Init /\ [][Next]_vars /\ WF_vars(Next)

\* ---------------------------------------------------------------- properties
Conflict(a, b) == a.c = b.c /\ a.g # b.g /\ (a.rw = "wr" \/ b.rw = "wr")
Ordered(a, b) == (a.lk = "x" /\ b.lk # "n") \/ (b.lk = "x" /\ a.lk # "n")
NoRace == \A i, j \in 1..Len(log) : (i < j /\ Conflict(log[i], log[j])) => Ordered(log[i], log[j])
\* a lazily filled cell is built once (the touches of an LRU are not builds)
AtMostOneBuilder == \A c \in Cells : Protocol[c] \notin {"lru", "rwlru"} =>
  \A i, j \in 1..Len(log) : (log[i].rw = "wr" /\ log[j].rw = "wr" /\ log[i].c = c /\ log[j].c = c) => i = j
NoDeadlock == <>(\A g \in Procs : pc[g].at = "idle" /\ todo[g] = <<>>)
=============================================================================
