-------------------------------- MODULE Lazy --------------------------------
(***************************************************************************)
(* C07: lazily initialised shared state under concurrent first use.        *)
(*                                                                         *)
(* A cell is a piece of library state that is filled on first use (an      *)
(* enum's value/name look-up tables, the possible-type table of an         *)
(* abstract type, the sub-plan of an abstract field for one runtime type,  *)
(* the plan cache's LRU).  Goroutines run requests that touch cells.       *)
(* Each cell follows one protocol:                                         *)
(*   "locked"  check / build / publish all happen while holding the cell's *)
(*             mutex (plan.abstractMu, PlanCache.mu)                       *)
(*   "eager"   built before any goroutine starts; only read afterwards     *)
(*   "racy"    check, then build, then publish with no synchronisation     *)
(*             (what an unprotected lazily filled map does)                *)
(*                                                                         *)
(* Every access is logged as [g, c, rw, locked].  With mutexes as the only *)
(* synchronisation between request goroutines, two accesses to one cell by *)
(* different goroutines, one of them a write, are ordered by               *)
(* happens-before iff both were made holding the cell's mutex: NoRace.     *)
(* TLC proves NoRace / AtMostOneBuilder / ReadersSeePublished for the      *)
(* "locked" and "eager" protocols and finds the race for "racy".           *)
(***************************************************************************)
EXTENDS Naturals, Sequences, FiniteSets, TLC

CONSTANTS Procs, Cells, Protocol      \* Protocol \in [Cells -> {"locked","eager","racy"}]

VARIABLES built,     \* Cells -> BOOLEAN : the published state
          holder,    \* Cells -> Procs \cup {"none"} : mutex owner
          pc,        \* Procs -> [c, at] : which cell, which step ("idle","in","checked","building")
          todo,      \* Procs -> sequence of cells still to touch
          log        \* sequence of accesses [g, c, rw, locked]
vars == <<built, holder, pc, todo, log>>

Idle == [c |-> "none", at |-> "idle"]

Init ==
  /\ built = [c \in Cells |-> Protocol[c] = "eager"]
  /\ holder = [c \in Cells |-> "none"]
  /\ pc = [g \in Procs |-> Idle]
  /\ todo \in [Procs -> { s \in UNION { [1..n -> Cells] : n \in 1..2 } : TRUE }]
  /\ log = <<>>

Acc(g, c, rw) == [g |-> g, c |-> c, rw |-> rw, locked |-> holder[c] = g]

Begin(g) ==
  /\ pc[g].at = "idle" /\ todo[g] # <<>>
  /\ LET c == Head(todo[g]) IN
     /\ todo' = [todo EXCEPT ![g] = Tail(@)]
     /\ IF Protocol[c] = "locked"
        THEN /\ holder[c] = "none"                      \* Lock()
             /\ holder' = [holder EXCEPT ![c] = g]
        ELSE UNCHANGED holder
     /\ pc' = [pc EXCEPT ![g] = [c |-> c, at |-> "in"]]
  /\ UNCHANGED <<built, log>>

Check(g) ==
  /\ pc[g].at = "in"
  /\ LET c == pc[g].c IN
     /\ log' = Append(log, Acc(g, c, "rd"))
     /\ pc' = [pc EXCEPT ![g].at = IF built[c] THEN "done" ELSE "building"]
  /\ UNCHANGED <<built, holder, todo>>

Publish(g) ==
  /\ pc[g].at = "building"
  /\ LET c == pc[g].c IN
     /\ built' = [built EXCEPT ![c] = TRUE]
     /\ log' = Append(log, Acc(g, c, "wr"))
     /\ pc' = [pc EXCEPT ![g].at = "done"]
  /\ UNCHANGED <<holder, todo>>

Finish(g) ==
  /\ pc[g].at = "done"
  /\ LET c == pc[g].c IN
     holder' = IF holder[c] = g THEN [holder EXCEPT ![c] = "none"] ELSE holder   \* Unlock()
  /\ pc' = [pc EXCEPT ![g] = Idle]
  /\ UNCHANGED <<built, todo, log>>

Next == \E g \in Procs : Begin(g) \/ Check(g) \/ Publish(g) \/ Finish(g)
Spec == Init /\ [][Next]_vars /\ WF_vars(Next)

\* ---------------------------------------------------------------- properties
Conflict(a, b) == a.c = b.c /\ a.g # b.g /\ (a.rw = "wr" \/ b.rw = "wr")
NoRace == \A i, j \in 1..Len(log) : (i < j /\ Conflict(log[i], log[j])) => (log[i].locked /\ log[j].locked)
AtMostOneBuilder == \A i, j \in 1..Len(log) : (log[i].rw = "wr" /\ log[j].rw = "wr" /\ log[i].c = log[j].c) => i = j
NoDeadlock == <>(\A g \in Procs : pc[g].at = "idle" /\ todo[g] = <<>>)
=============================================================================
