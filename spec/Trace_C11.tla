------------------------------ MODULE Trace_C11 ------------------------------
(***************************************************************************)
(* Call-level trace specification for C11.  Every "ev" line records one    *)
(* configuration replayed into the real library (harness handler "C11"):   *)
(*   up   the outcome of NewSchema with all types supplied up front        *)
(*   ap   the outcome of NewSchema + AppendType of the late types in the   *)
(*        order the vector prescribes (only when there are late types)     *)
(* an outcome is [st |-> "ok", view |-> View] or [st |-> "err"] (a panic   *)
(* is judged by the handler and never reaches the trace); when the view of *)
(* ap is textually identical to that of up the line says ap.same instead   *)
(* of repeating it.  A line is a                                           *)
(* step of this specification iff                                          *)
(*   - every returned schema is Consistent (SchemaBuild.tla),              *)
(*   - both ways of handing in the types succeed or fail together, and     *)
(*   - when they succeed the two schemas are the same,                     *)
(* where a clause may be relaxed only by a deviation that is LISTED in     *)
(* known_findings.json; the deviations a line needs are printed as KNOWN   *)
(* lines.  The final "end" line carries the number of ev lines.            *)
(***************************************************************************)
EXTENDS SchemaBuild, Json

CONSTANT Listed     \* deviation names with status "known" in known_findings.json

\* The file is deserialised ONCE into a TLC register (TLC re-evaluates a plain definition
\* `TraceLog == ndJsonDeserialize(..)` at every reference: measured 100 ms per line on a 2 MB file).
ASSUME TLCSet(42, ndJsonDeserialize("trace.ndjson"))
TraceLog == TLCGet(42)

VARIABLES l, cnt
tvars == <<l, cnt, avars>>

Report(e, ds) == \A d \in ds : PrintT(<<"KNOWN", d, e.id>>)

LineOK(e) ==
  LET L == Listed \cap DevNames
      upOK == e.up.st = "ok"
      hasAp == e.nlate > 0
      apOK == hasAp /\ e.ap.st = "ok"
      apSame == apOK /\ upOK /\ e.ap.same           \* ap.view omitted: it is up.view
      apView == IF apSame THEN e.up.view ELSE e.ap.view
      \* the common case (no deviation needed) is evaluated first
      plainUp == Consistent(e.up.view)
      plainAp == IF apSame THEN plainUp ELSE Consistent(apView)
      plainSame == apSame \/ SameViewD(e.up.view, apView, {})
  IN /\ upOK => (plainUp \/ ConsistentD(e.up.view, L))
     /\ (apOK /\ ~apSame) => (plainAp \/ ConsistentD(apView, L))
     /\ hasAp => \/ (upOK <=> apOK)
                 \/ /\ "D_C11_append_checks_stale_possible" \in L
                    /\ upOK /\ e.ap.st = "err" /\ e.ap.step >= 1
                    /\ StaleCheckExplains(e.up.view, e.ap.prekeys)
                    /\ Report(e, {"D_C11_append_checks_stale_possible"})
     /\ (upOK /\ apOK) => (plainSame \/ SameViewD(e.up.view, apView, L))
     \* credit exactly the deviations that are needed
     /\ (upOK /\ ~plainUp) => Report(e, Needed(e.up.view, L))
     /\ (apOK /\ ~apSame /\ ~plainAp) => Report(e, Needed(apView, L))
     /\ (upOK /\ apOK /\ ~plainSame) => Report(e, NeededSame(e.up.view, apView, L))
     /\ upOK => (ReservedUserTypes(e.up.view) = {} \/ PrintT(<<"UNSPEC", "reserved name accepted", e.id>>))

TInit == /\ l = 1 /\ cnt = 0
         /\ tm = {} /\ impls = <<>> /\ sup = {} /\ todo = {} /\ late = {}

Ev == /\ l <= Len(TraceLog) /\ TraceLog[l].t = "ev"
      /\ LineOK(TraceLog[l]) = TRUE     \* "= TRUE": one boolean value, not split into sub-actions
      /\ l' = l + 1 /\ cnt' = cnt + 1
      /\ UNCHANGED avars

End == /\ l <= Len(TraceLog) /\ TraceLog[l].t = "end"
       /\ TraceLog[l].n = cnt
       /\ l' = l + 1 /\ UNCHANGED <<cnt, avars>>

TNext == Ev \/ End
TraceSpec == TInit /\ [][TNext]_tvars

TraceAccepted ==
  LET d == TLCGet("stats").diameter IN
  IF d - 1 = Len(TraceLog) THEN TRUE
  ELSE /\ PrintT(<<"REJECT at trace line", d>>)
       /\ FALSE

\* dummy universe for the AppendType machine of SchemaBuild (not used here)
NoNames == {}
NoFun == <<>>
=============================================================================
