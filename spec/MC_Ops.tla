-------------------------------- MODULE MC_Ops --------------------------------
(***************************************************************************)
(* Documents with several operations (C01 family F6, C13): operation        *)
(* selection by name, query and mutation roots in one document, fragments   *)
(* shared between operations.  The machine picks a document, an operation   *)
(* name (existing, missing, empty) and an outcome table.                    *)
(***************************************************************************)
EXTENDS ExecVec

CONSTANT Tables      \* sequence of outcome tables

VARIABLES di, name, ti
vars == <<di, name, ti>>

Fld(id, nm, sel) == [k |-> "field", id |-> id, alias |-> "", name |-> nm, args |-> <<>>, dirs |-> <<>>, sel |-> sel]
Spr(id, nm) == [k |-> "spread", id |-> id, name |-> nm, dirs |-> <<>>]
Op(kind, nm, sel) == [kind |-> kind, name |-> nm, vdefs |-> <<>>, sel |-> sel]

Docs ==
  << \* 1: the selected mutation is NOT the last definition
     [ops |-> << Op("mutation", "M1", << Fld(1, "a", <<>>), Fld(2, "b", <<>>), Fld(3, "o", << Fld(4, "x", <<>>) >>) >>),
                 Op("query", "Q1", << Fld(5, "a", <<>>) >>) >>, frags |-> <<>>],
     \* 2: query first, mutation last, a fragment used by both
     [ops |-> << Op("query", "Q1", << Spr(1, "F"), Fld(2, "b", <<>>) >>),
                 Op("mutation", "M1", << Fld(3, "b", <<>>), Fld(4, "a", <<>>), Fld(5, "c", <<>>) >>),
                 Op("query", "Q2", << Fld(6, "c", <<>>), Spr(7, "F") >>) >>,
      frags |-> << [name |-> "F", on |-> "Q", sel |-> << Fld(8, "a", <<>>) >>] >>],
     \* 3: two mutations
     [ops |-> << Op("mutation", "M1", << Fld(1, "a", <<>>), Fld(2, "c", <<>>) >>),
                 Op("mutation", "M2", << Fld(3, "c", <<>>), Fld(4, "b", <<>>), Fld(5, "a", <<>>) >>) >>, frags |-> <<>>]
  >>

Names == {"", "M1", "M2", "Q1", "Q2", "Zz"}
Th(t, f) == [t |-> t, f |-> f, src |-> "*", o |-> [k |-> "thunk"]]
OT_OpsThunks == << <<>>, << Th("M", "a"), Th("M", "b"), Th("M", "c"), Th("Q", "a"), Th("Q", "c") >>,
                   << Th("M", "a"), Th("M", "o"), Th("O", "x") >>, << Th("M", "b") >> >>

Init == di \in 1..Len(Docs) /\ name = "-" /\ ti = 0
Next == /\ name = "-"
        /\ name' \in Names /\ ti' \in 1..Len(Tables) /\ UNCHANGED di
Spec == Init /\ [][Next]_vars
Complete == name # "-"

RunFor ==
  LET D == Docs[di]
      e0 == ExecuteRequest(S1, D, name, <<>>, Tables[ti], {})
  IN [inputs |-> <<>>, oi |-> ti, exp |-> e0, dev |-> <<>>]

Emit == Complete =>
  PrintT(<<"VEC", ToJson([fam |-> "F6", doc |-> Docs[di], opname |-> name, outs |-> Tables, runs |-> <<RunFor>>])>>)

ASSUME PrintT(<<"SCHEMA", ToJson(S1)>>)
=============================================================================
