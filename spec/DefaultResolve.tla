--------------------------- MODULE DefaultResolve ---------------------------
(***************************************************************************)
(* The resolver a field gets when the schema gives it none                 *)
(* (graphql.DefaultResolveFn): "takes the property of the source object of *)
(* the same name as the field and returns it as the result, or if it's a   *)
(* function, returns the result of calling that function".                 *)
(*                                                                         *)
(* The source is whatever the parent field resolved to, so its shape is    *)
(* the user's: a struct, a pointer to one, a map, a value that resolves    *)
(* its own fields.  The function is one decision procedure with a rich     *)
(* case analysis; it is transcribed here as the operator Resolve, and TLC  *)
(* turns its case analysis into one implementation test per case           *)
(* (MC_DefaultResolve).                                                    *)
(*                                                                         *)
(* Abstract sources                                                        *)
(*   [shape |-> "resolver", ptr, fails]  a value with a method             *)
(*         Resolve(ResolveParams): it is asked, whatever else it is        *)
(*   [shape |-> "struct", ptr \in {0,1,2}, nilp, fields]  a struct, behind *)
(*         0, 1 or 2 pointers (nilp: the outermost pointer is nil);        *)
(*         fields: sequence of [go, json, gql, v]: Go field name, the name *)
(*         parts of its `json` and `graphql` tags (NoTag: no such tag),    *)
(*         and the value held                                              *)
(*   [shape |-> "map", typ, ptr, ents]  a map with string keys; typ:       *)
(*         "any" map[string]interface{}, "named" a named type of it,       *)
(*         "str" map[string]string, "fn" map[string]func() interface{};    *)
(*         ents: key -> [k |-> "val"|"fn"|"nil"|"nilfn", v]                *)
(*   [shape |-> "other"]  anything else (a number, a slice, a map keyed    *)
(*         by integers)                                                    *)
(* Result: [k |-> "val", v], [k |-> "null"], [k |-> "err"] (the source's   *)
(* own Resolve failed) or [k |-> "unspec"].                                *)
(*                                                                         *)
(* Matching rules of a struct (in declaration order, first match wins; for *)
(* each field the name is tried before the tags):                          *)
(*   the Go field name equals the GraphQL field name ignoring case, or     *)
(*   the name part of the json tag equals it exactly, or                   *)
(*   the name part of the graphql tag equals it exactly.                   *)
(* Tag options (",omitempty") are ignored; "-" is a name like any other.   *)
(***************************************************************************)
EXTENDS Naturals, Sequences, FiniteSets

NoTag == "<none>"

\* ASCII case folding, on the names the generators use
LowerOf(n) == CASE n \in {"ab", "Ab", "AB", "aB"} -> "ab"
                [] n \in {"cd", "Cd", "CD", "cD"} -> "cd"
                [] n \in {"zz", "Zz", "ZZ"} -> "zz"
                [] OTHER -> n

NullR == [k |-> "null"]
ValR(v) == [k |-> "val", v |-> v]

FieldMatches(f, name) ==
  \/ LowerOf(f.go) = LowerOf(name)
  \/ (f.json # NoTag /\ f.json = name)
  \/ (f.gql # NoTag /\ f.gql = name)

RECURSIVE FirstMatch(_, _, _)
FirstMatch(fields, name, i) ==
  IF i > Len(fields) THEN 0
  ELSE IF FieldMatches(fields[i], name) THEN i
  ELSE FirstMatch(fields, name, i + 1)

ResolveStruct(src, name) ==
  IF src.nilp THEN NullR                       \* a nil pointer has no properties
  ELSE IF src.ptr >= 2 THEN NullR              \* only one level of pointers is followed
  ELSE LET i == FirstMatch(src.fields, name, 1) IN
       IF i = 0 THEN NullR ELSE ValR(src.fields[i].v)

ResolveMap(src, name) ==
  IF src.ptr >= 1 THEN NullR                   \* a pointer to a map is not a map
  ELSE IF name \notin DOMAIN src.ents THEN NullR
  ELSE LET e == src.ents[name] IN
       CASE e.k = "val" -> ValR(e.v)
         [] e.k = "nil" -> NullR
         [] e.k = "fn"  -> ValR(e.v)           \* func() interface{}: called, its result is the property
         [] OTHER -> [k |-> "unspec"]          \* "nilfn": a nil function value (calling it fails: an error, or
                                               \* null - not specified); functions of other signatures

Resolve(src, name) ==
  CASE src.shape = "resolver" -> IF src.fails THEN [k |-> "err"] ELSE ValR("resolved:" \o name)
    [] src.shape = "struct"   -> ResolveStruct(src, name)
    [] src.shape = "map"      -> ResolveMap(src, name)
    [] OTHER                  -> NullR

\* ---------------------------------------------------------------- theorems
\* a property found by name is found whatever the case of the query's spelling
CaseInsensitiveByName(src, n1, n2) ==
  (src.shape = "struct" /\ LowerOf(n1) = LowerOf(n2) /\ ~src.nilp /\ src.ptr < 2
   /\ \A i \in 1..Len(src.fields) : src.fields[i].json = NoTag /\ src.fields[i].gql = NoTag)
  => Resolve(src, n1) = Resolve(src, n2)

\* the result is one of the source's own values, or null: nothing is invented
NothingInvented(src, name) ==
  LET r == Resolve(src, name) IN
  r.k = "val" =>
    CASE src.shape = "struct" -> \E i \in 1..Len(src.fields) : src.fields[i].v = r.v
      [] src.shape = "map"    -> \E key \in DOMAIN src.ents : src.ents[key].v = r.v
      [] OTHER -> TRUE
=============================================================================
