------------------------------- MODULE MC_C01 -------------------------------
(***************************************************************************)
(* Exhaustive families of valid documents over schema S1, each emitted     *)
(* with the response the reference semantics (Exec.tla) prescribes for     *)
(* every variable assignment and outcome table of the family.  The Go      *)
(* harness replays each vector through Do, Execute and PlanQuery +         *)
(* ExecutePlan (plan reuse).  Serves C01, C20 (calls), C18c (paths).       *)
(***************************************************************************)
EXTENDS GenDoc, ExecVec

CONSTANTS Fam,          \* family label carried in every vector
          OutTables     \* sequence of outcome tables (each a sequence of [t,f,o])

\* ------------------------------------------------------------ alphabets
Sel(alias, name) == [alias |-> alias, name |-> name, args |-> <<>>]
SelA(alias, name, args) == [alias |-> alias, name |-> name, args |-> args]
Skip(v) == [n |-> "skip", v |-> v]
Incl(v) == [n |-> "include", v |-> v]
T == BoolV(TRUE)
Fa == BoolV(FALSE)

DirsNone == { <<>> }
DirsFull == { <<>>, <<Skip(T)>>, <<Skip(VarRef("v"))>>, <<Incl(VarRef("v"))>>, <<Incl(Fa)>>,
              <<Skip(VarRef("v")), Incl(VarRef("w"))>> }
DirsDyn  == { <<>>, <<Skip(VarRef("v"))>>, <<Incl(VarRef("w"))>> }
DirsOne  == { <<>>, <<Skip(VarRef("v"))>> }

NoSel(t) == {}
NoSpread(i, j) == FALSE
SpreadLater(i, j) == j > i \/ i > Len(Frags)   \* fragment i spreads only later ones; the operation any

\* F1: duplicated response keys x directive placement at the root
F1_Leafs(t) == IF t = "Q" THEN { Sel("", "a"), Sel("x", "a"), Sel("", "b") } ELSE {}

\* F2: merged object fields, directives at both levels
F2_Leafs(t) == CASE t = "Q" -> { Sel("", "a") }
                 [] t = "O" -> { Sel("", "x"), Sel("", "y") }
                 [] OTHER -> {}
F2_Comps(t) == CASE t = "Q" -> { Sel("", "o"), Sel("", "l") }
                 [] t = "O" -> { Sel("", "z") }
                 [] OTHER -> {}

\* F3: named fragments (nested, repeated) and inline fragments
F3_Leafs(t) == IF t = "Q" THEN { Sel("", "a"), Sel("", "b") } ELSE {}
F3_Inlines(t) == IF t = "Q" THEN { "", "Q" } ELSE {}

\* F4: abstract dispatch
F4_Leafs(t) == CASE t = "Q" -> { Sel("", "a") }
                 [] t = "I" -> { Sel("", "x"), Sel("", "__typename") }
                 [] t = "U" -> { Sel("", "__typename") }
                 [] t = "A" -> { Sel("", "x"), Sel("", "p") }
                 [] t = "B" -> { Sel("", "q"), Sel("k", "x") }
                 [] OTHER -> {}
F4_Comps(t) == IF t = "Q" THEN { Sel("", "i"), Sel("", "u"), Sel("", "il") } ELSE {}
F4_Inlines(t) == CASE t = "I" -> { "A", "B", "" }
                   [] t = "U" -> { "A", "I" }
                   [] OTHER -> {}

\* F13: mutations (C13): top-level fields, aliases, duplicates, nested selections, fragments on M
F13_Leafs(t) == CASE t = "M" -> { Sel("", "a"), Sel("", "b"), Sel("k", "a") }
                  [] t = "O" -> { Sel("", "x"), Sel("", "y") }
                  [] OTHER -> {}
F13_Comps(t) == CASE t = "M" -> { Sel("", "o"), Sel("", "l") }
                  [] t = "O" -> { Sel("", "z") }
                  [] OTHER -> {}
FragsM == << [name |-> "F", on |-> "M"] >>
Th(t, f) == [t |-> t, f |-> f, src |-> "*", o |-> [k |-> "thunk"]]
OT_Thunks ==
  << <<>>,
     << Th("M", "a"), Th("M", "b"), Th("M", "o"), Th("M", "l"), Th("O", "x"), Th("O", "y"), Th("O", "z") >>,
     << Th("M", "a"), Th("M", "o") >>,
     << Th("M", "b"), Th("M", "l"), Th("O", "x") >>,
     << Th("O", "x"), Th("O", "z") >>,
     << Th("M", "a"), Th("M", "b"), Th("O", "y") >>,
     \* a list whose items are deferred, with deferred fields below them
     << [t |-> "M", f |-> "l", src |-> "*", o |-> [k |-> "titems"]], Th("O", "x"), Th("O", "y") >>,
     << [t |-> "M", f |-> "l", src |-> "*", o |-> [k |-> "titems"]], Th("M", "a"), Th("O", "z"), Th("O", "x") >> >>

\* F20: lists, lists of lists, abstract lists, merged occurrences, arguments (C20)
F20_Leafs(t) == CASE t = "Q" -> { SelA("", "f", <<[n |-> "y", v |-> IntV("2")]>>),
                                  SelA("g", "f", <<[n |-> "y", v |-> VarRef("i1")]>>) }
                  [] t = "O" -> { Sel("", "x"), Sel("k", "x") }
                  [] t = "I" -> { Sel("", "x") }
                  [] t = "IT" -> { Sel("", "x") }      \* an interface without ResolveType: its implementers' IsTypeOf decide
                  [] t = "A" -> { Sel("", "p") }
                  [] t = "SR" -> { SelA("", "r", <<[n |-> "y", v |-> IntV("2")]>>),
                                   SelA("k", "r", <<[n |-> "e", v |-> EnumV("RED")]>>) }
                  [] OTHER -> {}
F20_Comps(t) == CASE t = "Q" -> { Sel("", "l"), Sel("", "ll"), Sel("", "il"), Sel("m", "l"), Sel("", "srl"), Sel("", "itl") }
                  [] t = "O" -> { Sel("", "z") }
                  [] OTHER -> {}
F20_Inlines(t) == IF t = "I" THEN { "A" } ELSE {}

\* W: "wild" documents for C09 -- NOT valid: unknown fields, leaves with sub-selections,
\* composites without, cyclic and unknown-typed fragments, any operation kind
W_Leafs(t) == CASE t = "Q" -> { Sel("", "a"), Sel("", "zz"), Sel("", "o"), SelA("", "f", <<[n |-> "nope", v |-> IntV("1")]>>),
                                SelA("", "f", <<[n |-> "x", v |-> StrV("s")]>>), Sel("", "__typename"), Sel("", "__schema") }
                [] t = "O" -> { Sel("", "x"), Sel("", "z"), Sel("", "qq") }
                [] t = "M" -> { Sel("", "a"), Sel("", "o") }
                [] OTHER -> { Sel("", "x") }
W_Comps(t) == CASE t = "Q" -> { Sel("", "o"), Sel("", "a"), Sel("", "i"), Sel("", "l") }
                [] t = "O" -> { Sel("", "z"), Sel("", "x") }
                [] t = "M" -> { Sel("", "o") }
                [] OTHER -> {}
W_Inlines(t) == { "", "Q", "O", "Int", "Nope", "I" }
SpreadAny(i, j) == TRUE
FragsW == << [name |-> "F", on |-> "Q"], [name |-> "G", on |-> "O"] >>
\* cycles: fragments that spread themselves or each other directly and through fields
FragsCyc == << [name |-> "G", on |-> "O"], [name |-> "H", on |-> "O"] >>
FragsCyc1 == << [name |-> "G", on |-> "O"] >>
Cyc_Leafs(t) == IF t = "O" THEN { Sel("", "x") } ELSE {}
\* `z: z` has the response key of `z`: a key selected twice, the cycle below either occurrence
Cyc_Comps(t) == CASE t = "Q" -> { Sel("", "o") } [] t = "O" -> { Sel("", "z"), Sel("z", "z") } [] OTHER -> {}

\* FX: the union of the families, for random walks beyond the exhaustive bounds (tlc -simulate)
FX_Leafs(t) == F1_Leafs(t) \cup F2_Leafs(t) \cup F4_Leafs(t) \cup
               (IF t = "Q" THEN { SelA("", "f", <<[n |-> "x", v |-> VarRef("i1")]>>), Sel("", "__typename"), Sel("", "nn") } ELSE {})
FX_Comps(t) == F2_Comps(t) \cup F4_Comps(t) \cup (IF t = "Q" THEN { Sel("", "n"), Sel("", "ln"), Sel("m", "o") } ELSE {})
FX_Inlines(t) == F3_Inlines(t) \cup F4_Inlines(t) \cup (IF t = "O" THEN { "", "O" } ELSE {})

\* F5: arguments (literal / variable / defaults), see also C05
F5_Leafs(t) ==
  IF t # "Q" THEN {} ELSE
  { SelA("", "f", <<>>),
    SelA("", "f", <<[n |-> "x", v |-> IntV("1")]>>),
    SelA("", "f", <<[n |-> "y", v |-> IntV("2")], [n |-> "x", v |-> IntV("1")]>>),
    SelA("", "f", <<[n |-> "x", v |-> VarRef("i1")]>>),
    SelA("", "f", <<[n |-> "y", v |-> VarRef("i2")]>>),
    SelA("g", "f", <<[n |-> "z", v |-> IntV("3")]>>),
    SelA("g", "f", <<[n |-> "z", v |-> ListV(<<IntV("3"), VarRef("i1")>>)]>>),
    SelA("h", "f", <<[n |-> "in", v |-> ObjV(<<[n |-> "r", v |-> IntV("1")]>>)]>>),
    SelA("h", "f", <<[n |-> "in", v |-> ObjV(<<[n |-> "r", v |-> VarRef("i3")], [n |-> "k", v |-> IntV("2")]>>)]>>),
    \* a literal field first, the variable in a LATER field / element
    SelA("h", "f", <<[n |-> "in", v |-> ObjV(<<[n |-> "k", v |-> IntV("2")], [n |-> "r", v |-> VarRef("i3")]>>)]>>),
    SelA("g", "f", <<[n |-> "z", v |-> ListV(<<VarRef("i1"), IntV("3")>>)]>>),
    SelA("m", "g", <<[n |-> "in2", v |-> ObjV(<<[n |-> "l", v |-> ListV(<<IntV("1")>>)],
                                               [n |-> "n", v |-> ObjV(<<[n |-> "m", v |-> StrV("s")], [n |-> "r", v |-> VarRef("i3")]>>)]>>)]>>),
    SelA("j", "f", <<[n |-> "en", v |-> EnumV("GREEN")]>>),
    SelA("j", "f", <<[n |-> "en", v |-> VarRef("e1")]>>) }

NoFrags == <<>>
FragsFG == << [name |-> "F", on |-> "Q"], [name |-> "G", on |-> "Q"] >>
FragsF == << [name |-> "F", on |-> "Q"] >>
\* F7: one fragment on a self-referential object type, spread at several depths of the operation: occurrences of one
\* response key reached through the fragment and beside it, the fragment spread again below them
FragsGO == << [name |-> "G", on |-> "O"] >>
F7_Leafs(t) == IF t = "O" THEN { Sel("", "x") } ELSE {}
F7_Comps(t) == CASE t = "Q" -> { Sel("", "o") } [] t = "O" -> { Sel("", "z") } [] OTHER -> {}

\* outcome tables
OT_AllVal == << <<>> >>
\* C20: runtime types x deferred values at several depths (resolvers below a thunk must still be told
\* their own path, source and parent type)
OT_C20 ==
  << <<>>,
     << [t |-> "Q", f |-> "i", src |-> "*", o |-> [k |-> "val", rt |-> "B"]],
        [t |-> "Q", f |-> "u", src |-> "*", o |-> [k |-> "val", rt |-> "B"]],
        [t |-> "Q", f |-> "il", src |-> "*", o |-> [k |-> "val", rts |-> <<"B", "A">>]] >>,
     << [t |-> "Q", f |-> "l", src |-> "*", o |-> [k |-> "thunk"]], [t |-> "Q", f |-> "ll", src |-> "*", o |-> [k |-> "thunk"]],
        [t |-> "O", f |-> "z", src |-> "*", o |-> [k |-> "thunk"]], [t |-> "Q", f |-> "il", src |-> "*", o |-> [k |-> "thunk", rts |-> <<"A", "B">>]],
        [t |-> "O", f |-> "x", src |-> "r.l#0", o |-> [k |-> "thunk"]] >> >>
\* immediate failures at several depths (C18: error paths and locations)
OT_Faults ==
  << << [t |-> "O", f |-> "x", src |-> "*", o |-> [k |-> "err"]] >>,
     << [t |-> "O", f |-> "x", src |-> "r.l#1", o |-> [k |-> "panics"]], [t |-> "Q", f |-> "f", src |-> "*", o |-> [k |-> "err"]] >>,
     << [t |-> "I", f |-> "x", src |-> "*", o |-> [k |-> "err"]], [t |-> "A", f |-> "x", src |-> "*", o |-> [k |-> "err"]],
        [t |-> "A", f |-> "p", src |-> "r.il#0", o |-> [k |-> "err"]], [t |-> "O", f |-> "z", src |-> "*", o |-> [k |-> "nil"]],
        [t |-> "O", f |-> "x", src |-> "r.ll#0#1", o |-> [k |-> "err"]] >> >>
OT_Abstract ==
  << <<>>,
     << [t |-> "Q", f |-> "i", src |-> "*", o |-> [k |-> "val", rt |-> "B"]],
        [t |-> "Q", f |-> "u", src |-> "*", o |-> [k |-> "val", rt |-> "B"]],
        [t |-> "Q", f |-> "il", src |-> "*", o |-> [k |-> "val", rts |-> <<"B", "A">>]] >> >>

\* ------------------------------------------------------------ variables
BoolNN == TNN(TNamed("Boolean"))
VarDecl(n) ==
  CASE n \in {"v", "w"} -> [n |-> n, type |-> BoolNN, hasDef |-> FALSE, def |-> NullV]
    [] n = "i1" -> [n |-> n, type |-> TNamed("Int"), hasDef |-> FALSE, def |-> NullV]
    [] n = "i2" -> [n |-> n, type |-> TNamed("Int"), hasDef |-> TRUE, def |-> IntV("8")]
    [] n = "i3" -> [n |-> n, type |-> TNN(TNamed("Int")), hasDef |-> FALSE, def |-> NullV]
    [] n = "e1" -> [n |-> n, type |-> TNamed("E"), hasDef |-> FALSE, def |-> NullV]

Absent == [k |-> "absent"]
VarInputs(n) ==
  CASE n \in {"v", "w"} -> { BoolV(TRUE), BoolV(FALSE) }
    [] n = "i1" -> { IntV("4"), Absent }
    [] n = "i2" -> { IntV("4"), Absent }
    [] n = "i3" -> { IntV("4") }
    [] n = "e1" -> { StrV("RED"), Absent }

VDefs == LET vs == AllVars IN [i \in 1..Cardinality(vs) |-> VarDecl(SetToSeq(vs)[i])]

Assignments ==
  LET vs == AllVars
      all == UNION { VarInputs(n) : n \in vs }
  IN { f \in [vs -> all] : \A n \in vs : f[n] \in VarInputs(n) }

InputsOf(f) == LET dom == { n \in DOMAIN f : f[n] # Absent } IN [n \in dom |-> f[n]]
InputsSeq(f) == LET dom == SetToSeq({ n \in DOMAIN f : f[n] # Absent })
                IN [i \in 1..Len(dom) |-> [n |-> dom[i], v |-> f[dom[i]]]]

\* ------------------------------------------------------------- vectors
RunOf(D, f, oi) == MkRun(D, D.ops[1], InputsOf(f), InputsSeq(f), OutTables[oi], oi)

Vector ==
  LET D == DocOf(VDefs)
      as == SetToSeq(Assignments)
  IN [fam |-> Fam, doc |-> D, outs |-> OutTables,
      runs |-> [i \in 1..(Len(as) * Len(OutTables)) |->
                  RunOf(D, as[((i - 1) \div Len(OutTables)) + 1], ((i - 1) % Len(OutTables)) + 1)]]

Emit == Complete => PrintT(<<"VEC", ToJson(Vector)>>)

\* ------------------------------------------- theorems about the oracle
\* (independent formulation, no visited set: documents here are acyclic)
RECURSIVE InclKeys(_,_,_,_)
InclKeys(D, sels, ot, V) ==
  UNION { LET s == sels[i] IN
          IF ~Included(s.dirs, V) THEN {}
          ELSE CASE s.k = "field" -> { RespKey(s) }
                 [] s.k = "inline" -> IF TypeApplies(S1, s.on, ot) THEN InclKeys(D, s.sel, ot, V) ELSE {}
                 [] s.k = "spread" ->
                      LET fr == FragMap(D)[s.name]
                      IN IF TypeApplies(S1, fr.on, ot) THEN InclKeys(D, fr.sel, ot, V) ELSE {}
          : i \in 1..Len(sels) }

KeyPresence ==
  Complete =>
    LET D == DocOf(VDefs) IN
    \A f \in Assignments :
      LET r == ExecuteOp(S1, D, D.ops[1], InputsOf(f), <<>>, {})
          vv == VarValues(S1, D.ops[1].vdefs, InputsOf(f))
      IN r.data.k = "obj" =>
           { r.data.fields[i].n : i \in 1..Len(r.data.fields) }
             = InclKeys(D, D.ops[1].sel, RootOf(OpKind), vv.vals)

WellFormedRoot ==
  Complete =>
    LET D == DocOf(VDefs) IN
    \A f \in Assignments : \A oi \in 1..Len(OutTables) :
      LET r == ExecuteOp(S1, D, D.ops[1], InputsOf(f), OutTables[oi], {})
      IN WellFormed(EnvOf(D, D.ops[1], InputsOf(f), OutTables[oi]), D.ops[1], r)

WildComplete == sec = NSec /\ Len(stack) = 1 /\ stack[1].sels # <<>>
EmitWild == WildComplete =>
  PrintT(<<"VEC", ToJson([fam |-> "W", doc |-> DocOf(VDefs), outs |-> << <<>> >>, runs |-> <<>>])>>)

ASSUME PrintT(<<"SCHEMA", ToJson(S1)>>)

Spec == GenInit /\ [][GenNext]_gvars
=============================================================================
