------------------------------- MODULE MC_C03 -------------------------------
(***************************************************************************)
(* Generators for C03 (parser = grammar), C18a (syntax-error locations)    *)
(* and, through the RoundTrip theorem, C08.                                *)
(*                                                                         *)
(* A run enumerates the families of the table Fams (one TLC run per table  *)
(* instead of one per family: JVM start-up dominates small families).       *)
(* Family mode "tok": ALL token-kind sequences over the family's alphabet   *)
(*   of length <= max that extend its prefix, grown token by token and not  *)
(*   extended past the first bad token plus one (errTok+1), so the count    *)
(*   stays near (#viable prefixes) x |alphabet|.  Every state is a vector.  *)
(* Mode "tokall": the same without the pruning - EVERY sequence over the     *)
(*   (small) alphabet that extends the prefix; used at the keyword sites,   *)
(*   where what follows a token wrongly taken for a keyword matters.        *)
(* Mode "sim": the same machine restricted to viable continuations (the     *)
(*   last two tokens are free), for `tlc -simulate` with long strings.      *)
(* Mode "chr": ALL character-class sequences X over the alphabet of length  *)
(*   <= max inside the wrapper text pre X post; Lex then Parse.  The        *)
(*   wrappers are the four contexts of DESIGN 6/C03: ignored position       *)
(*   between two names (and at document start), string body (and \u         *)
(*   escape), block-string body (three variants), number.                   *)
(*                                                                         *)
(* A vector carries the expectation `exp` of the grammar and, only where   *)
(* they differ, the expectations `devs` under the named deviations of      *)
(* Syntax.tla (DESIGN section 5).                                          *)
(***************************************************************************)
EXTENDS Syntax, Json

CONSTANTS Fams      \* the families of this run: a sequence of records, see Fam below

VARIABLES fi, seq, vec
vars == <<fi, seq, vec>>

Fam(name, mode, alpha, max, prefix, pre, post) ==
  [name |-> name, mode |-> mode, alpha |-> alpha, max |-> max, prefix |-> prefix, pre |-> pre, post |-> post]
Mode == Fams[fi].mode

\* ---- alphabets and wrappers (cfg files cannot contain tuples)
Puncts == {"!", "$", "(", ")", "...", ":", "=", "@", "[", "]", "{", "|", "}", "&"}
ExecSmall == {"{", "}", "(", ")", ":", "$", "@", "...", "[", "]", "!", "=", "Name", "on", "query", "fragment", "Int"}
ExecFull == ExecSmall \cup {"mutation", "subscription", "true", "null", "Float", "String", "BlockString", "|", "&", "type"}
TypeSys == {"{", "}", "(", ")", ":", "@", "[", "]", "!", "=", "|", "&", "Name", "String", "Int", "$",
            "type", "interface", "union", "enum", "input", "scalar", "schema", "extend", "directive",
            "implements", "on", "query", "true"}
TypeSysSmall == {"{", "}", "(", ":", "@", "=", "|", "&", "Name", "String", "type", "union", "enum", "extend",
                 "directive", "implements", "schema"}
AllKinds == Puncts \cup Keywords \cup {"Name", "Int", "Float", "String", "BlockString"}
VarDefAlpha == {"[", "]", "Name", "!", ")", "(", "{", "}", "=", "Int", "$", ":"}

NoSeq == <<>>
PfxVarDef == <<"query", "(", "$", "Name", ":">>
PfxFieldDef == <<"type", "Name", "{", "Name", ":">>
\* argument and input-field definitions, with descriptions and default values
PfxArgDef == <<"type", "Name", "{", "Name", "(">>
PfxInputDef == <<"input", "Name", "{">>
ArgDefAlpha == {"String", "BlockString", "Name", ":", ")", "}", "=", "Int", "@"}

\* wrapper texts
PreIgn == <<"{", " ", "a", " ">>            PostIgn == <<" ", "b", "c", " ", "}">>
PreStr == <<"{", "a", "(", "x", ":", "DQ">> PostStr == <<"DQ", ")", "}">>
PreStrU == PreStr \o <<"BS", "u">>
PreBlk == <<"{", "a", "(", "x", ":", "DQ", "DQ", "DQ">>   PostBlk == <<"DQ", "DQ", "DQ", ")", "}">>
PreBlk2 == PreBlk \o <<" ", "a", "LF">>
PreBlk3 == PreBlk \o <<"LF", " ", " ", "b", "LF">>
PreNum == <<"{", "a", "(", "x", ":">>       PostNum == <<")", "}">>
PreDoc == <<>>                              PostDoc == <<"{", "a", "}">>

AlphaIgn == {" ", ",", "TAB", "LF", "CR", "BOM", "#", "U2", "U4", "BEL", "DEL", "x", ")", "DQ"}
AlphaIgnSmall == {" ", ",", "LF", "CR", "BOM", "#", "U2", "BEL", "x", "DQ"}
AlphaStr == {"DQ", "BS", "n", "u", "x", "/", "0", "a", "U2", "U4", "BEL", "DEL", "LF", "CR", "TAB", " ", "BOM", "#"}
AlphaStrSmall == {"DQ", "BS", "n", "u", "x", "0", "U2", "BEL", "DEL", "LF", " "}
AlphaIgnTiny == {" ", "TAB", "LF", "CR", "BOM", "#", "U2", "x"}
AlphaDocTiny == {"BOM", " ", "LF", "#", "U2", "x"}
AlphaStrTiny == {"DQ", "BS", "n", "u", "x", "U2", "LF"}
AlphaStrSmall9 == {"DQ", "BS", "n", "u", "x", "0", "U2", "BEL", "LF"}
AlphaHexTiny == {"0", "a", "f", "F", "x", "DQ", "U2"}
\* U3 is U+2028: multi-byte AND a Unicode space that is not GraphQL WhiteSpace
AlphaBlkTiny == {" ", "LF", "a", "DQ", "BS", "U3"}
AlphaNumTiny == {"-", "0", "1", ".", "e", "+", "a", ")"}
AlphaNum10 == {"-", "0", "1", ".", "e", "E", "+", "a", " ", ")"}
AlphaHexSmall == {"0", "a", "F", "x", "Z", "DQ", "U2", " "}
AlphaNumSmall == {"-", "0", "1", ".", "e", "+", "a", " ", ")"}
AlphaHex == {"0", "1", "a", "f", "A", "F", "x", "Z", "DQ", "U2", " "}
AlphaBlk == {" ", "TAB", "LF", "CR", "a", "DQ", "BS", "U2", "BEL", "U4"}
AlphaBlkSmall == {" ", "LF", "CR", "a", "DQ", "BS", "U3"}
AlphaNum == {"-", "0", "1", "2", ".", "e", "E", "+", "a", "_", " ", ")"}
AlphaDoc == {"BOM", " ", "LF", "#", "U2", "x", "{", "DQ"}

\* ------------------------------------------------------------------ family tables
TokFam(name, alpha, max, prefix) == Fam(name, "tok", alpha, max, prefix, <<>>, <<>>)
AllFam(name, alpha, max, prefix) == Fam(name, "tokall", alpha, max, prefix, <<>>, <<>>)
\* keyword sites: what may stand where `on` / `implements` is expected, and everything after it
KwFrag == AllFam("kwfrag", {"String", "BlockString", "Name", "{", "}"}, 7, <<"fragment", "Name">>)
KwDir  == AllFam("kwdir", {"String", "on", "Name", "|", "("}, 7, <<"directive", "@", "Name">>)
KwInl  == AllFam("kwinl", {"String", "Name", "{", "}"}, 8, <<"{", "...">>)
KwImpl == AllFam("kwimpl", {"String", "implements", "Name", "{", ":"}, 6, <<"type", "Name">>)
KwImpl2 == AllFam("kwimpl2", {"Name", "{", "}", ":"}, 9, <<"type", "Name", "String">>)
ChrFam(name, pre, post, alpha, max) == Fam(name, "chr", alpha, max, <<>>, pre, post)

\* quick: ~49k token strings, ~17k character strings; thorough: ~4.7M token strings, ~0.8M character strings
\* (TLC needs ~0.3 ms CPU per token string and 2-5 ms per character string)
FamsTokQuick == << TokFam("exec", ExecSmall, 5, <<>>), TokFam("typesys", TypeSysSmall, 4, <<>>),
                   TokFam("vardef", VarDefAlpha, 9, PfxVarDef), TokFam("fielddef", VarDefAlpha, 9, PfxFieldDef),
                   TokFam("argdef", ArgDefAlpha, 13, PfxArgDef), TokFam("inputdef", ArgDefAlpha, 9, PfxInputDef),
                   KwFrag, KwDir, KwInl, KwImpl, KwImpl2 >>
FamsTokThorough == << TokFam("exec", ExecFull, 6, <<>>), TokFam("exec7", ExecSmall, 7, <<>>), TokFam("typesys", TypeSys, 5, <<>>),
                      TokFam("vardef", VarDefAlpha, 12, PfxVarDef), TokFam("fielddef", VarDefAlpha, 11, PfxFieldDef),
                      TokFam("argdef", ArgDefAlpha, 14, PfxArgDef), TokFam("inputdef", ArgDefAlpha, 11, PfxInputDef),
                      KwFrag, KwDir, KwInl, KwImpl, KwImpl2 >>
FamsChrQuick == << ChrFam("ign", PreIgn, PostIgn, AlphaIgnTiny, 4), ChrFam("doc", PreDoc, PostDoc, AlphaDocTiny, 4),
                   ChrFam("str", PreStr, PostStr, AlphaStrTiny, 4), ChrFam("stru", PreStrU, PostStr, AlphaHexTiny, 4),
                   ChrFam("blk", PreBlk, PostBlk, AlphaBlkTiny, 4), ChrFam("blk2", PreBlk2, PostBlk, AlphaBlkTiny, 4),
                   ChrFam("blk3", PreBlk3, PostBlk, AlphaBlkTiny, 4), ChrFam("num", PreNum, PostNum, AlphaNumTiny, 4) >>
FamsChrThorough == << ChrFam("ign", PreIgn, PostIgn, AlphaIgn, 4), ChrFam("ign5", PreIgn, PostIgn, AlphaIgnSmall, 5),
                      ChrFam("doc", PreDoc, PostDoc, AlphaDoc, 5),
                      ChrFam("str", PreStr, PostStr, AlphaStr, 4), ChrFam("str5", PreStr, PostStr, AlphaStrSmall9, 5),
                      ChrFam("stru", PreStrU, PostStr, AlphaHexSmall, 5),
                      ChrFam("blk", PreBlk, PostBlk, AlphaBlk, 5), ChrFam("blk6", PreBlk, PostBlk, AlphaBlkSmall, 6),
                      ChrFam("blk2", PreBlk2, PostBlk, AlphaBlkSmall, 5), ChrFam("blk3", PreBlk3, PostBlk, AlphaBlkSmall, 5),
                      ChrFam("num", PreNum, PostNum, AlphaNum10, 5) >>
FamsSim == << Fam("sim", "sim", AllKinds, 24, <<>>, <<>>, <<>>) >>
\* single families, for experiments and replays
FamsIgn == << ChrFam("ign", PreIgn, PostIgn, AlphaIgnSmall, 4) >>
FamsDoc == << ChrFam("doc", PreDoc, PostDoc, AlphaDoc, 4) >>
FamsStr == << ChrFam("str", PreStr, PostStr, AlphaStrSmall, 4), ChrFam("stru", PreStrU, PostStr, AlphaHex, 4) >>
FamsBlk == << ChrFam("blk", PreBlk, PostBlk, AlphaBlkSmall, 5), ChrFam("blk2", PreBlk2, PostBlk, AlphaBlkSmall, 4),
              ChrFam("blk3", PreBlk3, PostBlk, AlphaBlkSmall, 5) >>
FamsNum == << ChrFam("num", PreNum, PostNum, AlphaNum, 4) >>
FamsExec == << TokFam("exec", ExecSmall, 5, <<>>) >>
FamsTypeSys == << TokFam("typesys", TypeSys, 4, <<>>) >>
FamsExec6 == << TokFam("exec", ExecFull, 6, <<>>) >>
FamsExec7 == << TokFam("exec7", ExecSmall, 7, <<>>) >>
FamsTypeSys5 == << TokFam("typesys", TypeSys, 5, <<>>) >>
FamsVarDef12 == << TokFam("vardef", VarDefAlpha, 12, PfxVarDef), TokFam("fielddef", VarDefAlpha, 11, PfxFieldDef) >>
FamsVarDef == << TokFam("vardef", VarDefAlpha, 10, PfxVarDef), TokFam("fielddef", VarDefAlpha, 9, PfxFieldDef) >>

\* ------------------------------------------------------------------ token families
DT == "D_C03_type_swallows_token"
DE == "D_C03_empty_document_accepted"
DS == "D_C03_comment_multibyte_shifts_name"
DB == "D_C03_blockstring_dedent"

TokVariant(d, r) == [d |-> d, ok |-> r.ok, errTok |-> r.errTok, open |-> r.open, desc |-> r.desc, ast |-> r.ast]

TokVec(t) ==
  LET r  == Parse(t, {})
      ty == ~r.ok /\ r.ty
      rt == IF ty THEN Parse(t, {DT}) ELSE r
      v1 == IF ty /\ (rt.ok # r.ok \/ rt.errTok # r.errTok) THEN <<TokVariant(<<DT>>, rt)>> ELSE <<>>
      v2 == IF Len(t) = 0 THEN <<TokVariant(<<DE>>, Parse(t, {DE}))>> ELSE <<>>
  IN [fam |-> "tok", name |-> Fams[fi].name, toks |-> t, unspec |-> r.un, exp |-> TokVariant(<<>>, r), devs |-> v1 \o v2]

Alive(x, n) == x.ok \/ x.errTok >= n
Extendable(v) == Alive(v.exp, Len(v.toks)) \/ \E i \in 1..Len(v.devs) : Alive(v.devs[i], Len(v.toks))

\* ------------------------------------------------------------------ character families
RECURSIVE FlatRw(_, _)
FlatRw(toks, n) == IF n = 0 THEN <<>> ELSE FlatRw(toks, n - 1) \o toks[n].rw

\* acceptable line:column pairs for the positions a..b of the code-point text, in any of the
\* three customary column units (they differ only on lines with non-ASCII characters)
RECURSIVE LocSeq(_, _, _, _, _)
LocSeq(chars, a, b, d, mb) ==
  IF a > b THEN <<>>
  ELSE LET x == LineColW(chars, a, One) IN
       <<[l |-> x.line, c |-> x.col, d |-> d]>>
       \o (IF mb THEN LET y == LineColW(chars, a, Width) z == LineColW(chars, a, Utf16) IN
                      <<[l |-> y.line, c |-> y.col, d |-> d], [l |-> z.line, c |-> z.col, d |-> d]>>
            ELSE <<>>)
       \o LocSeq(chars, a + 1, b, d, mb)
Loc3(chars, a, b, d) == LocSeq(chars, a, b, d, HasMultiByte(chars))

ChrVariant(d, bytes, chars, lx, fr) ==
  LET n    == Len(lx.toks)
      j    == fr.pr.errTok
      perr == ~fr.ok /\ ~fr.lexErr                       \* error at token j (possibly EOF)
      reach == IF perr /\ j <= n THEN j ELSE n            \* tokens the parser has looked at
      tokS(i) == IF i <= n THEN lx.toks[i].s ELSE IF bytes THEN lx.eof ELSE (IF n = 0 THEN 1 ELSE lx.toks[n].e + 1)
      tokE(i) == IF i <= n THEN lx.toks[i].e + 1 ELSE Len(chars) + 1
      u    == IF bytes THEN Units(chars) ELSE chars
      one(p, dd) == LET lc == LineColW(u, p, One) IN <<[l |-> lc.line, c |-> lc.col, d |-> dd]>>
      alt(i, name) == IF i = 0 THEN <<>>
                      ELSE IF bytes THEN one(tokS(i), d \o <<name>>)
                      ELSE Loc3(chars, tokS(i), tokE(i), d \o <<name>>)
      locs == IF fr.ok THEN <<>>
              ELSE IF fr.lexErr THEN (IF bytes THEN one(lx.rep, d) ELSE Loc3(chars, lx.errS, lx.errE, d))
              ELSE (IF bytes THEN one(tokS(j), d) ELSE Loc3(chars, tokS(j), tokE(j), d))
                   \o alt(fr.pr.open, "D_C18_empty_reported_at_open")
                   \o alt(fr.pr.desc, "D_C18_description_keyword")
  IN [d |-> d, bytes |-> bytes, ok |-> fr.ok, lexok |-> lx.ok, lexErr |-> fr.lexErr,
      toks |-> [i \in 1..n |-> [k |-> lx.toks[i].k, v |-> lx.toks[i].v, s |-> lx.toks[i].s, e |-> lx.toks[i].e]],
      errS |-> lx.errS, errE |-> lx.errE, errTok |-> IF perr THEN j ELSE 0, ast |-> fr.pr.ast,
      rw |-> FlatRw(lx.toks, reach) \o (IF fr.lexErr THEN lx.erw ELSE <<>>), locs |-> locs,
      lexun |-> \E i \in 1..n : lx.toks[i].un,
      unspec |-> UnspecifiedText(lx, fr)]

Same(a, b) == a.ok = b.ok /\ a.lexErr = b.lexErr /\ a.toks = b.toks /\ a.errTok = b.errTok /\ a.ast = b.ast
              /\ a.errS = b.errS /\ a.errE = b.errE

HasTripleQuote(chars) == \E i \in 1..(Len(chars) - 2) : chars[i] = "DQ" /\ chars[i + 1] = "DQ" /\ chars[i + 2] = "DQ"

ByteVariant(chars, ds) ==
  LET dv == {ds[i] : i \in 1..Len(ds)} lx == LexBytes(chars, dv) IN ChrVariant(ds, TRUE, chars, lx, FrontOf(lx, {}))

ChrVec(x) ==
  LET chars == Fams[fi].pre \o x \o Fams[fi].post
      lx  == Lex(chars)
      fr  == FrontOf(lx, {})
      exp == ChrVariant(<<>>, FALSE, chars, lx, fr)
      mb  == HasMultiByte(chars)
      tq  == HasTripleQuote(chars)
      \* the plain byte image of the expectation, to tell real deviations from unit changes
      base == IF mb \/ tq THEN ByteVariant(chars, <<>>) ELSE exp
      cand == (IF mb THEN <<ByteVariant(chars, <<DS>>)>> ELSE <<>>)
              \o (IF tq THEN <<ByteVariant(chars, <<DB>>)>> ELSE <<>>)
              \o (IF mb /\ tq THEN <<ByteVariant(chars, <<DS, DB>>)>> ELSE <<>>)
      lexdevs == SelectSeq(cand, LAMBDA v : ~Same(v, base) \/ v.locs # base.locs)
      tydev == IF ~fr.ok /\ ~fr.lexErr /\ fr.pr.ty
               THEN <<ChrVariant(<<DT>>, FALSE, chars, lx, FrontOf(lx, {DT}))>> ELSE <<>>
      emdev == IF lx.ok /\ Len(lx.toks) = 0 THEN <<ChrVariant(<<DE>>, FALSE, chars, lx, FrontOf(lx, {DE}))>> ELSE <<>>
  IN [fam |-> "chr", name |-> Fams[fi].name, chars |-> chars, x |-> x, unspec |-> exp.unspec, lexun |-> exp.lexun, exp |-> exp, devs |-> lexdevs \o tydev \o emdev]

\* ------------------------------------------------------------------ the machine
MkVec(s) == IF Mode = "chr" THEN ChrVec(s) ELSE TokVec(s)

Init == /\ fi \in 1..Len(Fams)
        /\ seq = (IF Mode = "chr" THEN <<>> ELSE Fams[fi].prefix)
        /\ vec = MkVec(seq)

Next ==
  /\ Len(seq) < Fams[fi].max
  /\ IF Mode \in {"chr", "tokall"} THEN TRUE ELSE Extendable(vec)
  /\ \E x \in Fams[fi].alpha :
       \* (state-level LETs, so that TLC evaluates the vector once)
       LET s2 == Append(seq, x)
           v2 == MkVec(s2)
       IN /\ IF Mode = "sim" THEN (Len(s2) > Fams[fi].max - 2 \/ v2.exp.ok \/ v2.exp.errTok > Len(s2)) ELSE TRUE
          /\ seq' = s2
          /\ vec' = v2
  /\ UNCHANGED fi

Spec == Init /\ [][Next]_vars

Emit == PrintT(<<"VEC", ToJson(vec)>>)

\* ------------------------------------------------------------------ in-model theorems
\* every accepted token string re-prints to a token string that parses to the same AST,
\* and the printed form is stable (C08's theorems on all enumerated ASTs)
\* (the printed form is canonical: `query {a}` prints as `{a}`, `implements & A` as `implements A`)
RoundTripOK == (Mode # "chr" /\ vec.exp.ok) => RoundTrips(vec.exp.ast)

\* every Unspecified flag names a declared reason
UnspecKnown == vec.unspec \in UnspecifiedReasons \cup {""}

\* an error token is a position of the input (or EOF), never before the last viable token
ErrTokInRange == (Mode # "chr" /\ ~vec.exp.ok) => vec.exp.errTok \in 1..(Len(vec.toks) + 1)

\* viable-prefix property: a proper prefix of an accepted or viable string is viable
PrefixViable ==
  (Mode # "chr" /\ Len(seq) > Len(Fams[fi].prefix) /\ Alive(vec.exp, Len(seq) + 1)) =>
    LET r == Parse(SubSeq(seq, 1, Len(seq) - 1), {}) IN r.ok \/ r.errTok = Len(seq)

\* token spans are increasing and inside the text; the byte-level lexer without deviations
\* is the code-point lexer up to the position map
ByteOff(chars, i) == 1 + SumW(chars, 1, i - 1, Width)
LexSane ==
  Mode = "chr" =>
    LET chars == vec.chars ts == vec.exp.toks IN
    /\ \A i \in 1..Len(ts) : ts[i].s <= ts[i].e /\ ts[i].e <= Len(chars) /\ (i > 1 => ts[i - 1].e < ts[i].s)
    /\ HasMultiByte(chars) =>
         LET b == LexBytes(chars, {}) IN
         /\ b.ok = vec.exp.lexok
         /\ Len(b.toks) = Len(ts)
         /\ \A i \in 1..Len(ts) : /\ b.toks[i].k = ts[i].k
                                  /\ b.toks[i].s = ByteOff(chars, ts[i].s)
                                  /\ b.toks[i].e = ByteOff(chars, ts[i].e + 1) - 1
=============================================================================
