------------------------------- MODULE MC_C10 -------------------------------
(***************************************************************************)
(* C10: one vector [eds, cfg, image] per VALID configuration of the        *)
(* generator GenSchema (defect sites are never enabled here), with the     *)
(* image Introspect!Image(cfg) the introspection result must equal.  The   *)
(* descriptions of the built-in types (introspection types and scalars),   *)
(* which do not depend on the configuration, and the __typename table of   *)
(* the introspection schema are emitted once, as a SCHEMA line.  The       *)
(* theorems about the image are checked by TLC on every configuration, in  *)
(* the same evaluation that emits the vector.                              *)
(***************************************************************************)
EXTENDS GenSchema, Introspect, Json

ASSUME SiteIds \subseteq ValidSites

Spec == GInit /\ [][GStep]_gvars

Complete == Walked

EmitAndCheck ==
  Complete =>
    LET c == Cfg
        S == SchemaOf(c)
        T == Close(S, Seeds(c))
        img == ImageOf(c, S, T)
    IN /\ ImageTheorems(c, S, T, img)
       /\ PrintT(<<"VEC", ToJson([eds |-> EdLabels, cfg |-> c, image |-> img])>>)

ASSUME PrintT(<<"SCHEMA", ToJson([builtin |-> { BuiltinImages[n] : n \in BuiltinNames },
                                  typenames |-> IntroTypenames])>>)

\* site groups for the registration (bin/props_C10.py)
SitesAll == ValidSites
SitesPlacement == {"mut", "sub", "xC", "xD", "xK", "xV", "xG", "xJ", "xIn4", "xCu2", "U.members", "B.ifaces", "dirs",
                   "th.Q", "th.A", "th.A.i", "th.I", "th.In", "th.U", "th.C"}
SitesSlots == {"Q.g.x", "In3.k", "xC", "xK", "mut", "dirs", "dep.E.ONE", "th.In"}
SitesTypes == {"Q.t", "xC", "xD", "xK", "xV", "xG", "mut", "sub", "U.members", "B.ifaces"}
SitesCore =={"mut", "xC", "xK", "xV", "Q.g.x", "In3.k", "dep.Q.old", "dep.E.ONE", "dep.I.x", "th.A", "th.U",
              "dirs", "U.members"}
=============================================================================
