------------------------------- MODULE MC_C08 -------------------------------
(***************************************************************************)
(* Generator of ASTs for C08 (print o parse round trip).                   *)
(*                                                                         *)
(* ASTs are the generic trees of Syntax.tla whose leaves additionally      *)
(* carry their literal text `t` (a name, the characters of a number, the   *)
(* character classes of a string).  Families:                              *)
(*   val   every value kind nested up to ValDepth, in argument position    *)
(*         (variables allowed) and in default-value position (constant)    *)
(*   str   string contents over the character classes, length <= StrLen    *)
(*   desc  description contents over the character classes at every        *)
(*         described position                                              *)
(*   def   every definition kind with every optional part present/absent,  *)
(*         directives with arguments on every definition kind              *)
(* In the model: Parse(PrintAst(a)) = a and printing is stable, for every  *)
(* generated AST (so each is well-formed for the grammar).  The vector     *)
(* carries the AST, its token rendering (leaves as markers) and the        *)
(* expectation: the printed text re-parses to the same AST.  Deviations:   *)
(*   D_C08_go_escapes            strings are quoted the Go way: a string   *)
(*       containing U+0007, U+000B, U+007F, U+0000 or a non-printable      *)
(*       astral character is printed with \a \v \x7f \x00 \U000e0001 and   *)
(*       does not lex again                                                *)
(*   D_C08_description_printed_raw  descriptions are printed as            *)
(*       """ + raw value + """ (on separate lines if the value contains    *)
(*       LF), nothing at all when empty                                    *)
(***************************************************************************)
EXTENDS Syntax, Json

CONSTANTS StrLen, ValDepth

VARIABLES fam, done, ast
vars == <<fam, done, ast>>

\* ------------------------------------------------------------------ constructors
Nd(k, v, c) == [k |-> k, v |-> v, s |-> 0, e |-> 0, c |-> c, t |-> <<>>]
Lf(k, v, t) == [k |-> k, v |-> v, s |-> 0, e |-> 0, c |-> <<>>, t |-> t]
KindOfText(x) == IF x \in Keywords THEN x ELSE "Name"
Nm(x) == Lf("Name", KindOfText(x), <<x>>)
IntV == Lf("IntValue", "Int", <<"1", "2">>)
NegIntV == Lf("IntValue", "Int", <<"-", "7">>)
FloatV == Lf("FloatValue", "Float", <<"1", ".", "5">>)
ExpV == Lf("FloatValue", "Float", <<"-", "2", "E", "-", "3">>)
StrV(cs) == Lf("StringValue", "String", cs)
BoolV(b) == Lf("BooleanValue", b, <<>>)
EnumV(x) == Lf("EnumValue", KindOfText(x), <<x>>)
VarV(x) == Nd("Variable", "", <<Nm(x)>>)
ListV(vs) == Nd("ListValue", "", vs)
ObjV(fs) == Nd("ObjectValue", "", fs)
OFld(n, v) == Nd("ObjectField", "", <<Nm(n), v>>)
Arg(n, v) == Nd("Argument", "", <<Nm(n), v>>)
Dir(n, args) == Nd("Directive", "", <<Nm(n)>> \o args)
Named(x) == Nd("Named", "", <<Nm(x)>>)
ListT(t) == Nd("List", "", <<t>>)
NonNullT(t) == Nd("NonNull", "", <<t>>)
Fld(alias, n, args, dirs, sel) ==
  Nd("Field", "", (IF alias = "" THEN <<>> ELSE <<Nm(alias)>>) \o <<Nm(n)>> \o args \o dirs \o sel)
Sel(xs) == Nd("SelectionSet", "", xs)
Op(kind, name, vdefs, dirs, sel) ==
  Nd("OperationDefinition", kind, (IF name = "" THEN <<>> ELSE <<Nm(name)>>) \o vdefs \o dirs \o <<sel>>)
VDef(v, ty, def) == Nd("VariableDefinition", "", <<VarV(v), ty>> \o def)
Doc(defs) == Nd("Document", "", defs)
Desc(cs) == <<StrV(cs)>>

\* ------------------------------------------------------------------ value space
Atoms(var) == {IntV, NegIntV, FloatV, ExpV, StrV(<<"a", " ", "b">>), StrV(<<>>), BoolV("true"), BoolV("false"),
               EnumV("RED"), EnumV("on"), EnumV("type")} \cup (IF var THEN {VarV("v"), VarV("on")} ELSE {})
RECURSIVE Vals(_, _)
Vals(d, var) ==
  IF d = 0 THEN Atoms(var) \cup {ListV(<<>>), ObjV(<<>>)}
  ELSE LET V == Vals(d - 1, var) IN
       Atoms(var) \cup {ListV(<<>>), ObjV(<<>>)}
       \cup {ListV(<<v>>) : v \in V} \cup {ListV(<<v, IntV>>) : v \in V}
       \cup {ObjV(<<OFld("k", v)>>) : v \in V} \cup {ObjV(<<OFld("k", IntV), OFld("type", v)>>) : v \in V}

\* ------------------------------------------------------------------ string contents
\* "SI" = U+000F (its escape needs the hex digit f); "L72" = a run of 72 letters as one unit (descriptions
\* longer than a line)
StrAlpha == {"a", " ", "DQ", "BS", "LF", "CR", "TAB", "BEL", "SI", "DEL", "U2", "U4", "U4NP", "BOM", "BKSP", "/", "u", "#"}
DescAlpha == {"a", " ", "DQ", "BS", "LF", "CR", "TAB", "U2", "U4", "#", "L72"}
RECURSIVE Strings(_, _)
Strings(A, n) == IF n = 0 THEN {<<>>} ELSE LET S == Strings(A, n - 1) IN S \cup {Append(s, x) : s \in {y \in S : Len(y) = n - 1}, x \in A}

\* ------------------------------------------------------------------ directives, types
D0 == <<>>
D1 == <<Dir("d", <<>>)>>
D2 == <<Dir("skip", <<Arg("if", BoolV("true"))>>)>>
D3 == <<Dir("d", <<Arg("a", IntV), Arg("b", StrV(<<"s">>))>>), Dir("on", <<>>)>>
DirSets == {D0, D1, D2, D3}
DirSetsTS == {D0, D1, <<Dir("d", <<Arg("a", ListV(<<IntV, EnumV("E")>>))>>), Dir("e", <<>>)>>}
Types == {Named("Int"), ListT(Named("Int")), NonNullT(Named("type")), NonNullT(ListT(NonNullT(Named("T")))),
          ListT(ListT(Named("on")))}
F1 == Fld("", "f", <<>>, <<>>, <<>>)
SimpleSel == Sel(<<F1>>)

\* ------------------------------------------------------------------ definition families
IVDef(desc, n, ty, def, dirs) == Nd("InputValueDefinition", "", desc \o <<Nm(n), ty>> \o def \o dirs)
FDef(desc, n, args, ty, dirs) == Nd("FieldDefinition", "", desc \o <<Nm(n)>> \o args \o <<ty>> \o dirs)
EVDef(desc, n, dirs) == Nd("EnumValueDefinition", "", desc \o <<Nm(n)>> \o dirs)
ObjDef(desc, n, ifs, dirs, fields) == Nd("ObjectDefinition", "", desc \o <<Nm(n)>> \o ifs \o dirs \o fields)
Fd0 == FDef(<<>>, "f", <<>>, Named("Int"), <<>>)
DescSets == {<<>>, Desc(<<"d">>)}

Selections ==
  {<<F1>>, <<Fld("x", "f", <<>>, <<>>, <<>>)>>, <<F1, Fld("", "query", <<>>, <<>>, <<>>)>>,
   <<Fld("", "o", <<>>, <<>>, <<SimpleSel>>)>>}
  \cup {<<Fld("a", "f", <<Arg("x", IntV), Arg("y", VarV("v"))>>, d, <<SimpleSel>>)>> : d \in DirSets}
  \cup {<<Nd("FragmentSpread", "", <<Nm("F")>> \o d)>> : d \in DirSets}
  \cup {<<Nd("InlineFragment", "", tc \o d \o <<SimpleSel>>)>> : tc \in {<<>>, <<Named("T")>>, <<Named("on")>>}, d \in DirSets}

VarDefSets == {<<>>, <<VDef("v", Named("Int"), <<>>)>>, <<VDef("v", NonNullT(Named("Int")), <<>>), VDef("w", ListT(Named("S")), <<ListV(<<StrV(<<"x">>)>>)>>)>>}

DefsOps == {Doc(<<Op(k, n, vd, d, Sel(s))>>) : k \in OpTypes, n \in {"", "Q", "on"}, vd \in VarDefSets, d \in DirSets, s \in {<<F1>>}}
           \cup {Doc(<<Op("query", "", <<>>, <<>>, Sel(s))>>) : s \in Selections}
           \cup {Doc(<<Op("query", "", <<>>, <<>>, SimpleSel),
                       Nd("FragmentDefinition", "", <<Nm("F"), Named(t)>> \o d \o <<Sel(s)>>)>>) :
                   t \in {"T", "on"}, d \in DirSets, s \in {<<F1>>, <<Nd("FragmentSpread", "", <<Nm("G")>>)>>}}
           \cup {Doc(<<Op("query", "", <<VDef("v", t, <<>>)>>, <<>>, SimpleSel)>>) : t \in Types}

ArgDefSets == {<<>>, <<IVDef(<<>>, "a", Named("Int"), <<>>, <<>>)>>,
               <<IVDef(<<>>, "a", NonNullT(Named("Int")), <<IntV>>, <<>>), IVDef(<<>>, "b", ListT(Named("S")), <<>>, D1)>>,
               <<IVDef(Desc(<<"d">>), "a", Named("Int"), <<ObjV(<<OFld("k", StrV(<<"s">>))>>)>>, D1)>>}

DefsTS ==
  {Doc(<<Nd("SchemaDefinition", "", d \o ops)>>) : d \in DirSetsTS,
      ops \in {<<Nd("OperationTypeDefinition", "query", <<Named("Q")>>)>>,
               <<Nd("OperationTypeDefinition", "query", <<Named("Q")>>), Nd("OperationTypeDefinition", "mutation", <<Named("M")>>),
                 Nd("OperationTypeDefinition", "subscription", <<Named("S")>>)>>}}
  \cup {Doc(<<Nd("ScalarDefinition", "", ds \o <<Nm("S")>> \o d)>>) : ds \in DescSets, d \in DirSetsTS}
  \cup {Doc(<<ObjDef(ds, "T", ifs, d, fs)>>) : ds \in DescSets, d \in DirSetsTS,
          ifs \in {<<>>, <<Named("I")>>, <<Named("I"), Named("J"), Named("on")>>},
          fs \in {<<Fd0>>, <<Fd0, FDef(Desc(<<"d">>), "type", <<>>, NonNullT(Named("T")), D1)>>}}
  \cup {Doc(<<ObjDef(<<>>, "T", <<>>, <<>>, <<FDef(ds, "f", a, t, d)>>)>>) : ds \in DescSets, a \in ArgDefSets,
          t \in {Named("Int"), NonNullT(ListT(Named("T")))}, d \in DirSetsTS}
  \cup {Doc(<<Nd("InterfaceDefinition", "", ds \o <<Nm("I")>> \o d \o <<Fd0>>)>>) : ds \in DescSets, d \in DirSetsTS}
  \cup {Doc(<<Nd("UnionDefinition", "", ds \o <<Nm("U")>> \o d \o ms)>>) : ds \in DescSets, d \in DirSetsTS,
          ms \in {<<Named("A")>>, <<Named("A"), Named("B")>>, <<Named("A"), Named("on"), Named("C")>>}}
  \cup {Doc(<<Nd("EnumDefinition", "", ds \o <<Nm("E")>> \o d \o vs)>>) : ds \in DescSets, d \in DirSetsTS,
          vs \in {<<EVDef(<<>>, "RED", <<>>)>>, <<EVDef(Desc(<<"d">>), "RED", D1), EVDef(<<>>, "on", <<>>)>>}}
  \cup {Doc(<<Nd("InputObjectDefinition", "", ds \o <<Nm("In")>> \o d \o fs)>>) : ds \in DescSets, d \in DirSetsTS,
          fs \in (ArgDefSets \ {<<>>})}
  \cup {Doc(<<Nd("TypeExtensionDefinition", "", <<ObjDef(<<>>, "T", ifs, d, <<Fd0>>)>>)>>) : d \in DirSetsTS,
          ifs \in {<<>>, <<Named("I")>>}}
  \cup {Doc(<<Nd("DirectiveDefinition", "", <<Nm("d")>> \o a \o locs)>>) : a \in ArgDefSets,
          locs \in {<<Nm("FIELD")>>, <<Nm("FIELD"), Nm("on"), Nm("QUERY")>>}}
  \cup {Doc(<<Nd("ScalarDefinition", "", <<Nm("S")>>), ObjDef(<<>>, "T", <<>>, <<>>, <<Fd0>>),
              Op("query", "", <<>>, <<>>, SimpleSel)>>)}

ArgDoc(v) == Doc(<<Op("query", "", <<>>, <<>>, Sel(<<Fld("", "f", <<Arg("a", v)>>, <<>>, <<>>)>>))>>)
DefaultDoc(v) == Doc(<<Op("query", "Q", <<VDef("x", Named("T"), <<v>>)>>, <<>>, SimpleSel)>>)
IVDefaultDoc(v) == Doc(<<ObjDef(<<>>, "T", <<>>, <<>>, <<FDef(<<>>, "f", <<IVDef(<<>>, "a", Named("T"), <<v>>, <<>>)>>, Named("Int"), <<>>)>>)>>)

DescDoc(pos, cs) ==
  CASE pos = "type" -> Doc(<<ObjDef(Desc(cs), "T", <<>>, <<>>, <<Fd0>>)>>)
    [] pos = "field" -> Doc(<<ObjDef(<<>>, "T", <<>>, <<>>, <<FDef(Desc(cs), "f", <<>>, Named("Int"), <<>>)>>)>>)
    [] pos = "arg" -> Doc(<<ObjDef(<<>>, "T", <<>>, <<>>, <<FDef(<<>>, "f", <<IVDef(Desc(cs), "a", Named("Int"), <<>>, <<>>)>>, Named("Int"), <<>>)>>)>>)
    [] pos = "enumvalue" -> Doc(<<Nd("EnumDefinition", "", <<Nm("E")>> \o <<EVDef(Desc(cs), "RED", <<>>)>>)>>)
    [] pos = "scalar2" -> Doc(<<Nd("ScalarDefinition", "", Desc(cs) \o <<Nm("S")>>), Nd("ScalarDefinition", "", Desc(cs) \o <<Nm("R")>>)>>)

Families == {"val_arg", "val_default", "val_ivdefault", "str", "defs_ops", "defs_ts",
             "desc_type", "desc_field", "desc_arg", "desc_enumvalue", "desc_scalar2"}

DocsOf(f) ==
  CASE f = "val_arg" -> {ArgDoc(v) : v \in Vals(ValDepth, TRUE)}
    [] f = "val_default" -> {DefaultDoc(v) : v \in Vals(ValDepth, FALSE)}
    [] f = "val_ivdefault" -> {IVDefaultDoc(v) : v \in Vals(ValDepth - 1, FALSE)}
    [] f = "str" -> {ArgDoc(StrV(cs)) : cs \in Strings(StrAlpha, StrLen)}
    [] f = "defs_ops" -> DefsOps
    [] f = "defs_ts" -> DefsTS
    [] f = "desc_type" -> {DescDoc("type", cs) : cs \in Strings(DescAlpha, StrLen + 1)}
    [] f = "desc_field" -> {DescDoc("field", cs) : cs \in Strings(DescAlpha, StrLen)}
    [] f = "desc_arg" -> {DescDoc("arg", cs) : cs \in Strings(DescAlpha, StrLen)}
    [] f = "desc_enumvalue" -> {DescDoc("enumvalue", cs) : cs \in Strings(DescAlpha, StrLen)}
    [] f = "desc_scalar2" -> {DescDoc("scalar2", cs) : cs \in Strings(DescAlpha, StrLen)}

\* ------------------------------------------------------------------ deviations
GoEscapeBad == {"BEL", "DEL", "NUL", "VT", "U4NP"}
RECURSIVE HasBadString(_, _)
\* a StringValue that is not a description (descriptions are not printed through the quoting routine)
HasBadString(n, isDesc) ==
  IF n.k = "StringValue" THEN ~isDesc /\ \E i \in 1..Len(n.t) : n.t[i] \in GoEscapeBad
  ELSE \E i \in 1..Len(n.c) :
         HasBadString(n.c[i], i = 1 /\ n.c[1].k = "StringValue" /\
                              n.k \in {"ScalarDefinition", "ObjectDefinition", "FieldDefinition", "InputValueDefinition",
                                       "InterfaceDefinition", "UnionDefinition", "EnumDefinition", "EnumValueDefinition",
                                       "InputObjectDefinition", "DirectiveDefinition"})

TQ == <<"DQ", "DQ", "DQ">>
DescText(cs) ==
  IF cs = <<>> THEN <<>>
  ELSE LET sep == IF \E i \in 1..Len(cs) : cs[i] = "LF" THEN <<"LF">> ELSE <<>> IN TQ \o sep \o cs \o sep \o TQ

\* byte units back to character classes (a lead byte followed by its continuation bytes)
RECURSIVE Reclass(_)
Reclass(us) ==
  IF us = <<>> THEN <<>>
  ELSE LET w == Width(Head(us)) IN
       IF w > 1 /\ Len(us) >= w /\ SubSeq(us, 2, w) = ContUnits(Head(us))
       THEN <<Head(us)>> \o Reclass(SubSeq(us, w + 1, Len(us)))
       ELSE <<Head(us)>> \o Reclass(Tail(us))

DB == "D_C03_blockstring_dedent"
\* what a description with value cs becomes when printed raw between triple quotes and lexed
\* again (dv: with the lexer's own block-string deviation or without)
DescAfter(cs, dv) ==
  IF cs = <<>> THEN [how |-> "dropped", v |-> <<>>]
  ELSE LET txt == DescText(cs)
           lx  == IF DB \in dv THEN LexBytes(txt \o <<"LF", "x">>, {DB}) ELSE Lex(txt \o <<"LF", "x">>)
           n   == IF DB \in dv THEN Len(Units(txt)) ELSE Len(txt)
       IN IF Len(lx.toks) >= 1 /\ lx.toks[1].k = "BlockString" /\ lx.toks[1].s = 1 /\ lx.toks[1].e = n
          THEN [how |-> "value", v |-> IF DB \in dv THEN Reclass(lx.toks[1].v) ELSE lx.toks[1].v]
          ELSE [how |-> "garbled", v |-> <<>>]

DescKinds == {"ScalarDefinition", "ObjectDefinition", "FieldDefinition", "InputValueDefinition", "InterfaceDefinition",
              "UnionDefinition", "EnumDefinition", "EnumValueDefinition", "InputObjectDefinition", "DirectiveDefinition"}
RECURSIVE DescHows(_, _), RawDesc(_, _), DescStable(_, _)
\* the set of outcomes over all descriptions of the AST
DescHows(n, dv) ==
  (IF n.k \in DescKinds /\ HasDesc(n) THEN {IF DescAfter(n.c[1].t, dv).how = "value" /\ DescAfter(n.c[1].t, dv).v = n.c[1].t
                                            THEN "same" ELSE DescAfter(n.c[1].t, dv).how} ELSE {})
  \cup UNION {DescHows(n.c[i], dv) : i \in 1..Len(n.c)}
\* the AST with every description replaced by what the raw printing turns it into
RawDesc(n, dv) ==
  LET kids == [i \in 1..Len(n.c) |-> RawDesc(n.c[i], dv)] IN
  IF n.k \in DescKinds /\ HasDesc(n) THEN
    LET a == DescAfter(n.c[1].t, dv) IN
    IF a.how = "dropped" THEN [n EXCEPT !.c = Tail(kids)]
    ELSE [n EXCEPT !.c = <<[kids[1] EXCEPT !.t = a.v]>> \o Tail(kids)]
  ELSE [n EXCEPT !.c = kids]
\* is the second print equal to the first although the descriptions changed?
DescStable(n, dv) ==
  /\ (n.k \in DescKinds /\ HasDesc(n)) => DescText(DescAfter(n.c[1].t, dv).v) = DescText(n.c[1].t)
  /\ \A i \in 1..Len(n.c) : DescStable(n.c[i], dv)

DescVariant(names, dv) ==
  LET hows == DescHows(ast, dv) IN
  IF hows \subseteq {"same"} THEN <<>>
  ELSE IF "garbled" \in hows
    THEN <<[d |-> names, reparse |-> FALSE, any |-> TRUE, stable |-> TRUE, ast |-> NoNode]>>
    ELSE <<[d |-> names, reparse |-> TRUE, any |-> FALSE, stable |-> DescStable(ast, dv), ast |-> RawDesc(ast, dv)]>>

Vector ==
  LET bad == HasBadString(ast, FALSE)
      d1 == IF bad THEN <<[d |-> <<"D_C08_go_escapes">>, reparse |-> FALSE, any |-> FALSE, stable |-> TRUE, ast |-> NoNode]>> ELSE <<>>
      d2 == DescVariant(<<"D_C08_description_printed_raw">>, {})
      d3 == IF DescHows(ast, {DB}) = DescHows(ast, {}) /\ RawDesc(ast, {DB}) = RawDesc(ast, {}) THEN <<>>
            ELSE DescVariant(<<"D_C08_description_printed_raw", DB>>, {DB})
  IN [fam |-> fam, ast |-> ast, toks |-> PrintG(ast, TRUE), devs |-> d1 \o d2 \o d3]

\* ------------------------------------------------------------------ the machine
Init == fam \in Families /\ done = FALSE /\ ast = NoNode
Next == /\ ~done
        /\ done' = TRUE
        /\ UNCHANGED fam
        /\ \E d \in DocsOf(fam) : ast' = d
Spec == Init /\ [][Next]_vars

Emit == done => PrintT(<<"VEC", ToJson(Vector)>>)

\* Parse(PrintAst(a)) = a modulo spans, and the printed form is stable
RoundTripOK == done => RoundTrips(ast)
=============================================================================
