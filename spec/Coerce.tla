------------------------------- MODULE Coerce -------------------------------
(***************************************************************************)
(* Input coercion, transcribed from the GraphQL specification sections     *)
(* "Input Coercion" of each type, "CoerceVariableValues" and               *)
(* "CoerceArgumentValues", in the edition the library targets (no null     *)
(* literal: nullish = absent).  Used by Exec (arguments), Validate         *)
(* (literal validity) and the C05 families.                                *)
(*                                                                         *)
(* Numbers are tokens: a decimal numeral or a class label                  *)
(*   "max32" "min32" "over32" "under32" (harness: fixed representatives).  *)
(* Internal (coerced) values reuse the Value records of GQLBase plus       *)
(*   [k |-> "eint", v |-> <internal name>]   internal value of an enum     *)
(*   [k |-> "cu",   v |-> <string>]          parsed custom scalar          *)
(***************************************************************************)
EXTENDS GQLBase

InInt32(tok) == tok \notin {"over32", "under32"}

BuiltinScalars == {"Int", "Float", "String", "Boolean", "ID"}

\* enum value record: [name, internal, deprecated]
EnumHas(S, en, vn) == HasName(S.types[en].values, vn)
EnumInternal(S, en, vn) == [k |-> "eint", v |-> ByName(S.types[en].values, vn).internal]

\* ------------------------------------------------------------------------
\* Literal validity (the rule "Values of correct type"): is literal `lit`
\* acceptable where type t is expected.  Variables are always acceptable
\* here (their positions are checked by another rule).
RECURSIVE LitOK(_,_,_)
LitOK(S, t, lit) ==
  IF lit.k = "var" THEN TRUE
  ELSE IF IsNN(t) THEN (lit.k # "null" /\ LitOK(S, Unwrap(t), lit))
  ELSE IF lit.k = "null" THEN TRUE
  ELSE IF IsListT(t) THEN
     IF lit.k = "list"
     THEN \A i \in 1..Len(lit.items) : LitOK(S, Unwrap(t), lit.items[i])
     ELSE LitOK(S, Unwrap(t), lit)
  ELSE LET kd == KindOf(S, t.n) IN
    CASE kd = "INPUT_OBJECT" ->
           /\ lit.k = "obj"
           /\ \A i \in 1..Len(lit.fields) : HasName(S.types[t.n].inputs, lit.fields[i].n)
           /\ \A j \in 1..Len(S.types[t.n].inputs) :
                LET fd == S.types[t.n].inputs[j]
                    ix == { i \in 1..Len(lit.fields) : lit.fields[i].n = fd.name }
                IN IF ix = {} THEN ~IsNN(fd.type)
                   ELSE \A i \in ix : LitOK(S, fd.type, lit.fields[i].v)
      [] kd = "ENUM" -> lit.k = "enum" /\ EnumHas(S, t.n, lit.v)
      [] kd = "SCALAR" ->
           CASE t.n = "Int"     -> lit.k = "int" /\ InInt32(lit.v)
             [] t.n = "Float"   -> lit.k \in {"int", "float"}
             [] t.n = "String"  -> lit.k = "str"
             [] t.n = "Boolean" -> lit.k = "bool"
             [] t.n = "ID"      -> lit.k \in {"str", "int"}
             [] OTHER           -> lit.k = "str"      \* custom scalar of the harness
      [] OTHER -> FALSE

\* ------------------------------------------------------------------------
\* Literal coercion (valueFromAST of the edition): value of a *valid*
\* literal; nullish results are NullV.  V maps variable names to already
\* coerced values.
RECURSIVE CoerceLit(_,_,_,_)
CoerceLit(S, t, lit, V) ==
  IF lit.k = "var" THEN (IF lit.n \in DOMAIN V THEN V[lit.n] ELSE NullV)
  ELSE IF lit.k = "null" THEN NullV
  ELSE IF IsNN(t) THEN CoerceLit(S, Unwrap(t), lit, V)
  ELSE IF IsListT(t) THEN
     IF lit.k = "list"
     THEN ListV([i \in 1..Len(lit.items) |-> CoerceLit(S, Unwrap(t), lit.items[i], V)])
     ELSE ListV(<<CoerceLit(S, Unwrap(t), lit, V)>>)
  ELSE LET kd == KindOf(S, t.n) IN
    CASE kd = "INPUT_OBJECT" ->
           IF lit.k # "obj" THEN NullV ELSE
           LET defs == S.types[t.n].inputs
               val(j) == LET ix == { i \in 1..Len(lit.fields) : lit.fields[i].n = defs[j].name }
                         IN IF ix = {}
                            THEN (IF defs[j].hasDef THEN defs[j].def ELSE NullV)
                            ELSE CoerceLit(S, defs[j].type, lit.fields[CHOOSE i \in ix : TRUE].v, V)
               keep == { j \in 1..Len(defs) : ~IsNullV(val(j)) }
               RECURSIVE build(_)
               build(j) == IF j > Len(defs) THEN <<>>
                           ELSE (IF j \in keep THEN <<[n |-> defs[j].name, v |-> val(j)]>> ELSE <<>>)
                                \o build(j + 1)
           IN ObjV(build(1))
      [] kd = "ENUM" ->
           IF lit.k = "enum" /\ EnumHas(S, t.n, lit.v) THEN EnumInternal(S, t.n, lit.v) ELSE NullV
      [] kd = "SCALAR" ->
           CASE t.n = "Int"     -> IF lit.k = "int" /\ InInt32(lit.v) THEN IntV(lit.v) ELSE NullV
             [] t.n = "Float"   -> IF lit.k \in {"int", "float"} THEN FloatV(lit.v) ELSE NullV
             [] t.n = "String"  -> IF lit.k = "str" THEN StrV(lit.v) ELSE NullV
             [] t.n = "Boolean" -> IF lit.k = "bool" THEN BoolV(lit.b) ELSE NullV
             [] t.n = "ID"      -> IF lit.k \in {"str", "int"} THEN StrV(lit.v) ELSE NullV
             [] OTHER           -> IF lit.k = "str" THEN [k |-> "cu", v |-> lit.v] ELSE NullV
      [] OTHER -> NullV

\* ------------------------------------------------------------------------
\* Variable values (JSON-like): clear verdicts only; everything the editions
\* disagree on is in Unspecified and is never asserted.
ScalarVarClear(tn, v) ==   \* "accept", "reject" or "unspec"
  \* String, ID and Boolean coerce "anything" in the edition's reference implementation:
  \* only Int, Float and the harness' custom scalar clearly refuse lists and objects
  CASE v.k \in {"list", "obj"} -> IF tn \in {"String", "ID", "Boolean"} THEN "unspec" ELSE "reject"
    [] tn = "Int" ->
         CASE v.k = "int" -> IF InInt32(v.v) THEN "accept" ELSE "reject"
           \* whether a numeric STRING is an Int is edition-dependent; one that spells a number outside the
           \* 32-bit range is an Int under no reading
           [] v.k = "str" -> IF v.v \in {"abc", "", "3000000000", "4000000000", "-2147483649", "1e10"} THEN "reject" ELSE "unspec"
           [] OTHER -> "unspec"
    [] tn = "Float" ->
         CASE v.k \in {"int", "float"} -> "accept"
           [] v.k = "str" -> IF v.v \in {"abc", ""} THEN "reject" ELSE "unspec"
           [] OTHER -> "unspec"
    [] tn = "String"  -> IF v.k = "str" THEN "accept" ELSE "unspec"
    [] tn = "Boolean" -> IF v.k = "bool" THEN "accept" ELSE "unspec"
    [] tn = "ID"      -> IF v.k \in {"str", "int"} THEN "accept" ELSE "unspec"
    [] OTHER          -> IF v.k = "str" THEN "accept" ELSE "unspec"

\* verdict of CoerceVariableValues for one value: "accept" / "reject" / "unspec"
RECURSIVE VarVerdict(_,_,_)
Worst(set) == IF "reject" \in set THEN "reject" ELSE IF "unspec" \in set THEN "unspec" ELSE "accept"
VarVerdict(S, t, v) ==
  IF IsNullV(v) THEN (IF IsNN(t) THEN "reject" ELSE "accept")
  ELSE IF IsNN(t) THEN VarVerdict(S, Unwrap(t), v)
  ELSE IF IsListT(t) THEN
     IF v.k = "list"
     THEN Worst({ VarVerdict(S, Unwrap(t), v.items[i]) : i \in 1..Len(v.items) })
     ELSE VarVerdict(S, Unwrap(t), v)
  ELSE LET kd == KindOf(S, t.n) IN
    CASE kd = "INPUT_OBJECT" ->
           IF v.k # "obj" THEN "reject"
           ELSE IF \E i \in 1..Len(v.fields) : ~HasName(S.types[t.n].inputs, v.fields[i].n) THEN "reject"
           ELSE Worst({ LET fd == S.types[t.n].inputs[j]
                            ix == { i \in 1..Len(v.fields) : v.fields[i].n = fd.name }
                        IN IF ix = {}
                           THEN (IF IsNN(fd.type) THEN (IF fd.hasDef THEN "unspec" ELSE "reject") ELSE "accept")
                           ELSE VarVerdict(S, fd.type, v.fields[CHOOSE i \in ix : TRUE].v)
                        : j \in 1..Len(S.types[t.n].inputs) })
      [] kd = "ENUM" -> IF v.k = "str" THEN (IF EnumHas(S, t.n, v.v) THEN "accept" ELSE "reject")
                        ELSE IF v.k \in {"list", "obj"} THEN "reject" ELSE "unspec"
      [] kd = "SCALAR" -> ScalarVarClear(t.n, v)
      [] OTHER -> "reject"

\* coerced value of an *accepted* variable value
RECURSIVE CoerceVar(_,_,_)
CoerceVar(S, t, v) ==
  IF IsNullV(v) THEN NullV
  ELSE IF IsNN(t) THEN CoerceVar(S, Unwrap(t), v)
  ELSE IF IsListT(t) THEN
     IF v.k = "list"
     THEN ListV([i \in 1..Len(v.items) |-> CoerceVar(S, Unwrap(t), v.items[i])])
     ELSE ListV(<<CoerceVar(S, Unwrap(t), v)>>)
  ELSE LET kd == KindOf(S, t.n) IN
    CASE kd = "INPUT_OBJECT" ->
           LET defs == S.types[t.n].inputs
               val(j) == LET ix == { i \in 1..Len(v.fields) : v.fields[i].n = defs[j].name }
                             got == IF ix = {} THEN NullV
                                    ELSE CoerceVar(S, defs[j].type, v.fields[CHOOSE i \in ix : TRUE].v)
                         IN IF IsNullV(got) /\ defs[j].hasDef THEN defs[j].def ELSE got
               RECURSIVE build(_)
               build(j) == IF j > Len(defs) THEN <<>>
                           ELSE (IF ~IsNullV(val(j)) THEN <<[n |-> defs[j].name, v |-> val(j)]>> ELSE <<>>)
                                \o build(j + 1)
           IN ObjV(build(1))
      [] kd = "ENUM" -> EnumInternal(S, t.n, v.v)
      [] kd = "SCALAR" ->
           CASE t.n = "Float" -> FloatV(v.v)
             [] t.n = "ID"    -> StrV(v.v)
             [] t.n \in BuiltinScalars -> v
             [] OTHER -> [k |-> "cu", v |-> v.v]
      [] OTHER -> NullV

\* CoerceVariableValues.  vdefs: <<[n, type, hasDef, def(literal)]>>;
\* inputs: function name -> JSON-like value (absent names = not provided).
\* Result [verdict, vals] with vals a function over all defined names.
VarValues(S, vdefs, inputs) ==
  LET provided(d) == IF d.n \in DOMAIN inputs THEN inputs[d.n] ELSE NullV
      verdict(d) == VarVerdict(S, d.type, provided(d))
      value(d) == IF IsNullV(provided(d))
                  THEN (IF d.hasDef THEN CoerceLit(S, d.type, d.def, <<>>) ELSE NullV)
                  ELSE CoerceVar(S, d.type, provided(d))
      worst == Worst({ verdict(vdefs[i]) : i \in 1..Len(vdefs) })
  IN [verdict |-> worst,
      vals |-> IF worst # "accept" THEN <<>>
               ELSE [nm \in { vdefs[i].n : i \in 1..Len(vdefs) } |->
                       value(vdefs[CHOOSE i \in 1..Len(vdefs) : vdefs[i].n = nm])]]

\* CoerceArgumentValues.  adefs: <<[name, type, hasDef, def(internal value)]>>;
\* alits: <<[n, v(literal)]>>.  Result: <<[n, v]>> in definition order, nullish dropped.
RECURSIVE ArgValuesFrom(_,_,_,_,_)
ArgValuesFrom(S, adefs, alits, V, j) ==
  IF j > Len(adefs) THEN <<>>
  ELSE LET d == adefs[j]
           ix == { i \in 1..Len(alits) : alits[i].n = d.name }
           got == IF ix = {} THEN NullV ELSE CoerceLit(S, d.type, alits[CHOOSE i \in ix : TRUE].v, V)
           val == IF IsNullV(got) /\ d.hasDef THEN d.def ELSE got
       IN (IF IsNullV(val) THEN <<>> ELSE <<[n |-> d.name, v |-> val]>>)
          \o ArgValuesFrom(S, adefs, alits, V, j + 1)

ArgValues(S, adefs, alits, V) == ArgValuesFrom(S, adefs, alits, V, 1)

=============================================================================
