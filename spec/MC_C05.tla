------------------------------- MODULE MC_C05 -------------------------------
(***************************************************************************)
(* C05: every (argument type, value, route) triple of a bounded space.     *)
(* Routes: "lit"  the value written as an inline literal                   *)
(*         "var"  the value supplied through a variable of the arg's type  *)
(*         "vdef" the value written as the variable's default, no input    *)
(* The expectation is Coerce.tla's: a literal the edition's validity rule  *)
(* rejects, or a variable value CoerceVariableValues rejects, is answered  *)
(* with errors, no data and NO resolver invocation; otherwise the resolver *)
(* of Q.g receives exactly ArgValues(...).  Unspecified cases (DESIGN 4.2) *)
(* are marked and not asserted.  Theorem LitVarAgree is checked on the     *)
(* whole bound.                                                            *)
(***************************************************************************)
EXTENDS ExecVec

CONSTANTS ArgNames,    \* set of argument names of Q.g to exercise
          Depth        \* 1: atoms and flat lists/objects; 2: nested lists/objects

VARIABLES arg, route, val
vars == <<arg, route, val>>

GName == IF arg \in {"ni", "ne", "nli", "nin"} THEN "g" \o arg ELSE "g"
GDef == FieldDef(S1, "Q", GName)
ArgDefOf(a) == ByName(GDef.args, a)
ArgType(a) == ArgDefOf(a).type

\* ---------------------------------------------------------- value spaces
JAtoms == { NullV, IntV("1"), IntV("over32"), FloatV("1.5"), StrV("abc"), StrV("RED"), BoolV(TRUE),
            StrV("4000000000"), StrV("1e10") }
LAtoms == { IntV("1"), IntV("over32"), IntV("min32"), FloatV("1.5"), StrV("abc"), StrV("RED"), BoolV(TRUE),
            EnumV("RED"), EnumV("NOPE") }

Lists(atoms) == { ListV(<<>>) } \cup { ListV(<<a>>) : a \in atoms } \cup { ListV(<<a, b>>) : a \in atoms, b \in {IntV("1"), StrV("abc")} }
Fl(n, v) == [n |-> n, v |-> v]
Objs(atoms) ==
  { ObjV(<<>>), ObjV(<<Fl("r", IntV("1"))>>), ObjV(<<Fl("r", IntV("1")), Fl("k", IntV("2"))>>),
    ObjV(<<Fl("k", IntV("2"))>>), ObjV(<<Fl("r", IntV("1")), Fl("zz", IntV("1"))>>),
    ObjV(<<Fl("m", StrV("abc")), Fl("r", IntV("over32"))>>) }
  \cup { ObjV(<<Fl("r", a)>>) : a \in atoms }
Nested(atoms) ==
  { ListV(<<ListV(<<IntV("1")>>), ListV(<<>>)>>), ListV(<<ListV(<<StrV("abc")>>)>>), ListV(<<IntV("1"), ListV(<<IntV("1")>>)>>),
    ListV(<<ObjV(<<Fl("r", IntV("1"))>>), ObjV(<<Fl("k", IntV("1"))>>)>>), ListV(<<ObjV(<<Fl("r", IntV("1"))>>)>>),
    ObjV(<<Fl("n", ObjV(<<Fl("r", IntV("1"))>>)), Fl("l", ListV(<<IntV("1"), IntV("2")>>))>>),
    ObjV(<<Fl("n", ObjV(<<Fl("k", IntV("1"))>>))>>), ObjV(<<Fl("l", IntV("3"))>>),
    ObjV(<<Fl("n", IntV("1"))>>), ObjV(<<Fl("l", ListV(<<StrV("abc")>>))>>) }
  \cup { ObjV(<<Fl("e", a)>>) : a \in atoms }

JVals == JAtoms \cup Lists(JAtoms) \cup Objs(JAtoms) \cup (IF Depth >= 2 THEN Nested(JAtoms) ELSE {})
LVals == LAtoms \cup Lists(LAtoms) \cup Objs(LAtoms) \cup (IF Depth >= 2 THEN Nested(LAtoms) ELSE {})

Init == arg \in ArgNames /\ route \in {"lit", "var", "vdef"} /\ val = [k |-> "none"]
Next == /\ val.k = "none"
        /\ val' \in (IF route = "var" THEN JVals ELSE LVals)
        /\ UNCHANGED <<arg, route>>
Spec == Init /\ [][Next]_vars
Complete == val.k # "none"

\* --------------------------------------------------------------- vectors
GField(v) == [k |-> "field", id |-> 1, alias |-> "", name |-> GName, args |-> <<[n |-> arg, v |-> v]>>,
              dirs |-> <<>>, sel |-> <<>>]
DocLit == [ops |-> <<[kind |-> "query", name |-> "", vdefs |-> <<>>, sel |-> <<GField(val)>>]>>, frags |-> <<>>]
VDef(hasDef, d) == [n |-> "q", type |-> ArgType(arg), hasDef |-> hasDef, def |-> d]
DocVar == [ops |-> <<[kind |-> "query", name |-> "", vdefs |-> <<VDef(FALSE, NullV)>>,
                      sel |-> <<GField(VarRef("q"))>>]>>, frags |-> <<>>]
DocVDef == [ops |-> <<[kind |-> "query", name |-> "", vdefs |-> <<VDef(TRUE, val)>>,
                       sel |-> <<GField(VarRef("q"))>>]>>, frags |-> <<>>]

Rejected == [data |-> [k |-> "absent"], reqerr |-> TRUE, unspec |-> FALSE, errs |-> <<>>, opt |-> <<>>,
             all |-> <<>>, calls |-> <<>>, tcalls |-> <<>>, esc |-> <<>>, vvals |-> <<>>]

\* this edition: a variable of non-null type may not have a default value
Exp ==
  CASE route = "lit" ->
         IF LitOK(S1, ArgType(arg), val) THEN ExecuteOp(S1, DocLit, DocLit.ops[1], <<>>, <<>>, {}) ELSE Rejected
    [] route = "var" ->
         ExecuteOp(S1, DocVar, DocVar.ops[1], [n \in {"q"} |-> val], <<>>, {})
    [] route = "vdef" ->
         IF IsNN(ArgType(arg)) \/ ~LitOK(S1, ArgType(arg), val) THEN Rejected
         ELSE ExecuteOp(S1, DocVDef, DocVDef.ops[1], <<>>, <<>>, {})

Vector ==
  LET D == CASE route = "lit" -> DocLit [] route = "var" -> DocVar [] OTHER -> DocVDef IN
  [fam |-> "C05", route |-> route, doc |-> D, outs |-> << <<>> >>,
   runs |-> << [inputs |-> IF route = "var" THEN <<[n |-> "q", v |-> val]>> ELSE <<>>, oi |-> 1,
                exp |-> Exp, dev |-> <<>>] >>]

Emit == Complete => PrintT(<<"VEC", ToJson(Vector)>>)

\* ------------------------------------------------------------- theorems
\* the literal that denotes the JSON-like value v at type t (enum names are strings in JSON)
RECURSIVE LitOfJson(_,_)
LitOfJson(t, v) ==
  IF IsNN(t) THEN LitOfJson(Unwrap(t), v)
  ELSE IF IsListT(t) THEN
     (IF v.k = "list" THEN ListV([i \in 1..Len(v.items) |-> LitOfJson(Unwrap(t), v.items[i])])
      ELSE LitOfJson(Unwrap(t), v))
  ELSE IF KindOf(S1, t.n) = "ENUM" /\ v.k = "str" THEN EnumV(v.v)
  ELSE IF KindOf(S1, t.n) = "INPUT_OBJECT" /\ v.k = "obj" THEN
     ObjV([i \in 1..Len(v.fields) |->
             [n |-> v.fields[i].n,
              v |-> IF HasName(S1.types[t.n].inputs, v.fields[i].n)
                    THEN LitOfJson(ByName(S1.types[t.n].inputs, v.fields[i].n).type, v.fields[i].v)
                    ELSE v.fields[i].v]])
  ELSE v

RECURSIVE HasNull(_)
HasNull(v) == \/ v.k = "null"
              \/ (v.k = "list" /\ \E i \in 1..Len(v.items) : HasNull(v.items[i]))
              \/ (v.k = "obj" /\ \E i \in 1..Len(v.fields) : HasNull(v.fields[i].v))

\* a type-conformant value gives the same coerced value as a literal and through a variable
LitVarAgree ==
  (Complete /\ route = "var" /\ ~HasNull(val) /\ VarVerdict(S1, ArgType(arg), val) = "accept") =>
     /\ LitOK(S1, ArgType(arg), LitOfJson(ArgType(arg), val))
     /\ CoerceLit(S1, ArgType(arg), LitOfJson(ArgType(arg), val), <<>>) = CoerceVar(S1, ArgType(arg), val)

ASSUME PrintT(<<"SCHEMA", ToJson(S1)>>)
=============================================================================
