------------------------------- MODULE MC_C17 -------------------------------
(***************************************************************************)
(* Scenario generator for C17 (direction A).  The generator part of        *)
(* Extensions.tla (Pick, AddPanic) builds every scenario exactly once:     *)
(* extension set-up (1..3 extensions, equal names included, what           *)
(* HasResult answers) x request class x panic placement (which hook of     *)
(* which extension, for which field, panics with which value class; at     *)
(* most MaxP hooks).  For every scenario the complete runs of the machine  *)
(* of Extensions.tla are computed with its own step function Succ (in the  *)
(* canonical order of extensions and fields; the observables below do not  *)
(* depend on that order) and projected onto what the harness can observe:  *)
(*                                                                         *)
(*   w[x]     the word of extension x without resolve notifications        *)
(*   r[x][j]  the resolve notifications extension x got for field j        *)
(*   r0[j]    whether the resolver of field j ran                          *)
(*   esc, data, oerr, ment   the call's return: did a panic escape, is     *)
(*            there data, is there an error that is not a hook's panic,    *)
(*            which panics are mentioned by an error of the result         *)
(*                                                                         *)
(* exp  = the observables of all runs of the intended design (one per      *)
(*        combination of the decisions the property leaves open);          *)
(* dev  = for every non-empty set of deviations that can matter for the    *)
(*        scenario, the observables of the runs under it that are not      *)
(*        already in exp.                                                  *)
(* Theorem checked on every scenario (IntendedOK, part of Emit): every run *)
(* of the intended design satisfies all properties of Extensions.tla.      *)
(***************************************************************************)
EXTENDS Extensions, SchemaS1, Json

\* ---- what the harness sends for each request class (schema S1)
QueryOf(req) ==
  CASE req = "success"    -> "{ a o { x } }"
    [] req = "fielderr"   -> "{ b o { y } }"
    [] req = "nullerr"    -> "{ b o { w } }"
    [] req = "syntax"     -> "{ a "
    [] req = "validation" -> "{ zz }"
    [] req = "variable"   -> "query($v: Int!) { f(y: $v) }"
OutsOf(req) ==
  CASE req = "fielderr" -> << [t |-> "O", f |-> "y", src |-> "*", o |-> [k |-> "err"]] >>
    [] req = "nullerr" -> << [t |-> "O", f |-> "w", src |-> "*", o |-> [k |-> "nil"]] >>
    [] OTHER -> << >>

\* ---- projection of a returned state onto the observables
EvTok(e) == e.h \o (IF e.o = "" THEN "" ELSE "=" \o e.o) \o (IF e.p = "" THEN "" ELSE "!" \o e.p)
RECURSIVE JoinToks(_, _)
JoinToks(w, i) == IF i > Len(w) THEN "" ELSE (IF i = 1 THEN "" ELSE " ") \o EvTok(w[i]) \o JoinToks(w, i + 1)

Obs(c, t) ==
  [w |-> [x \in Exts(c) |->
            JoinToks(SelectSeq(t.log, LAMBDA e : e.x = x /\ e.h \notin { "rS", "rF" }), 1)],
   r |-> [x \in Exts(c) |-> [j \in 1..Len(c.fields) |->
            JoinToks(SelectSeq(t.log, LAMBDA e : e.x = x /\ e.h \in { "rS", "rF" } /\ e.f = c.fields[j].p), 1)]],
   r0 |-> [j \in 1..Len(c.fields) |->
            JoinToks(SelectSeq(t.log, LAMBDA e : e.x = 0 /\ e.h = "res" /\ e.f = c.fields[j].p), 1)],
   esc |-> t.esc, data |-> t.data, oerr |-> t.oerr, ment |-> SetToSeq(t.ment)]

RECURSIVE Finals(_, _, _)
Finals(c, dv, t) == IF t.st = "done" THEN { t } ELSE UNION { Finals(c, dv, n) : n \in Succ(c, dv, t, FALSE) }

ScOut(c) == [names |-> c.names, hasres |-> c.hasres, req |-> c.req, fields |-> c.fields, pan |-> c.pan]

VecOf(c, legalStates) ==
  LET legal == { Obs(c, t) : t \in legalStates }
      dss == SetToSeq((SUBSET RelevantDevs(c)) \ { {} })
      alts == [i \in 1..Len(dss) |->
                 [d |-> SetToSeq(dss[i]),
                  exp |-> SetToSeq({ Obs(c, t) : t \in Finals(c, dss[i], Begin(c)) } \ legal)]]
  IN [sc |-> ScOut(c), q |-> QueryOf(c.req), outs |-> OutsOf(c.req),
      exp |-> SetToSeq(legal), dev |-> SelectSeq(alts, LAMBDA a : a.exp # << >>)]

\* the quantifier binds the set of returned states to a value (computed once)
Emit ==
  s.st = "gen" =>
    \A fs \in { Finals(sc, {}, Begin(sc)) } :
      /\ fs # {}
      /\ \A t \in fs : P_All(sc, t)                        \* IntendedOK
      /\ PrintT(<< "VEC", ToJson(VecOf(sc, fs)) >>)

ASSUME PrintT(<< "SCHEMA", ToJson(S1) >>)
=============================================================================
