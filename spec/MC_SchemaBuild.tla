---------------------------- MODULE MC_SchemaBuild ----------------------------
(***************************************************************************)
(* The AppendType machine of SchemaBuild.tla on a concrete reference graph *)
(* (the type graph of GenSchema's base configuration): every choice of     *)
(* supplied and late extras, every order of AppendType calls.              *)
(*   Design = "mandated": OrderIndependent, ClosedAlways, EachOnce hold    *)
(*   Design = "asis" (every AppendType appends all implementers again):    *)
(*            EachOnce is violated (the known finding)                     *)
(***************************************************************************)
EXTENDS SchemaBuild

UNames == {"Q", "I", "J", "A", "B", "C", "D", "K", "U", "V", "E", "F", "G", "In", "In2", "In3", "In4", "Cu", "Cu2",
           "Int", "String", "Boolean", "ID"}

URefsOf ==
  [n \in UNames |->
    CASE n = "Q" -> {"I", "U", "A", "E", "Cu", "Int", "In", "In2", "F", "Boolean", "In3"}
      [] n = "I" -> {"String", "Int"}
      [] n = "J" -> {"I", "In4"}
      [] n = "A" -> {"I", "String", "Int", "A"}
      [] n = "B" -> {"I", "String", "Int", "Boolean", "U"}
      [] n = "C" -> {"I", "J", "String", "Int", "A", "D", "In4"}
      [] n = "D" -> {"G", "Int"}
      [] n = "K" -> {"I", "String", "Int"}
      [] n = "U" -> {"A", "B"}
      [] n = "V" -> {"C", "D"}
      [] n = "In" -> {"Int", "E", "In"}
      [] n = "In2" -> {"F", "In"}
      [] n = "In3" -> {"Int"}
      [] n = "In4" -> {"ID"}
      [] OTHER -> {}]

UDeclares == [o \in {"A", "B", "C", "K"} |-> IF o = "C" THEN {"I", "J"} ELSE {"I"}]
URoots == {"Q"}
UExtras == {"C", "D", "V", "G", "J", "K", "Cu2"}
=============================================================================
