----------------------------- MODULE VisitorEdit -----------------------------
(***************************************************************************)
(* C14, the EDITING half of the visitor contract.  A visitor callback may  *)
(* answer (update, v): the node is replaced by v in a COPY of its parent;  *)
(* (update, nothing) removes it (a list element: the element; a single     *)
(* child: the child).  The traversal returns the edited root; the tree it  *)
(* was given is not modified.  Written from that contract (the reference   *)
(* visitor of graphql-js, which the library's documentation points to) and *)
(* from property C14, not from the library's loop.                         *)
(*                                                                         *)
(* TREES.  Lean nodes [id, kind, label, rep, ch]; ch as in Visitor.tla:    *)
(* ordered slots [key, list, nodes]; absent children and empty lists are   *)
(* not part of a tree.  rep says how the library REPRESENTS a value:       *)
(* "node" (an AST struct), "map" (the generic map it falls back to when a  *)
(* copy holds something that is not an AST struct) or "str" (a string a    *)
(* printing visitor put there; label is the text).  The representation is  *)
(* not part of the contract: it is never asserted, only the deviations     *)
(* below read it.                                                          *)
(*                                                                         *)
(* POLICIES.  Sequence of decisions [id, ph, act, v]; act in {"skip",      *)
(* "break", "update", "delete"}; v the replacement tree of an update.      *)
(* Every (node, phase) not mentioned continues.  In MODE "printer" every   *)
(* leave that the policy does not decide answers update with a string      *)
(* computed from the node the callback is handed (the way the library's    *)
(* printer uses the visitor): the result is a rendering that shows whether *)
(* the edits of nested nodes were composed bottom-up.                      *)
(*                                                                         *)
(* SEMANTICS (EWalk, dev = {}).                                            *)
(*  enter  skip     the node stays as it is, nothing below is visited      *)
(*         break    the traversal ends; what it returns is UNSPECIFIED     *)
(*         delete   the node is removed; nothing below is visited, no leave*)
(*         update v the node is replaced by v and the traversal CONTINUES  *)
(*                  INTO v (its children are visited, its leave delivered) *)
(*  leave  the callback is handed the node with the edits of its children  *)
(*         applied (a copy);  update v / delete replace / remove it, edits *)
(*         made below it are thereby discarded;  break as above;  skip is  *)
(*         continue.                                                       *)
(*  A node none of whose descendants was edited is kept as it is.  The     *)
(*  result: "unedited" when no edit was requested (what is then returned - *)
(*  the root or nothing - differs between editions: UNSPECIFIED),          *)
(*  "deleted" when the root was removed, else the new tree.  The original  *)
(*  is untouched (orig = the tree given).                                  *)
(*  Left open (not modelled): replacement by a value that is not a node    *)
(*  on enter, replacement by a node the slot cannot hold, edits requested  *)
(*  by several parallel visitors.                                          *)
(*                                                                         *)
(* DEVIATIONS (recorded defects of the library, DESIGN.md section 5): the  *)
(* set dev switches the operator that applies the edits recorded for a     *)
(* node's children (ApplyEnts / ApplyFold) to the library's actual         *)
(* behaviour (dev = {}: the specified behaviour; TLC computes the outcome  *)
(* under every subset, so that a repaired defect needs no change here):    *)
(*  "inplace"   D_C14_edit_in_place: edits are written into the node       *)
(*              itself instead of a copy, the ORIGINAL tree is modified    *)
(*              (EWalk(..).orig is the state the original is left in)      *)
(*  "ifacelost" D_C14_edit_iface_slot_lost: a replacement NODE for a single*)
(*              child held in a slot of interface type (IfaceSlots: an     *)
(*              argument's value, a variable definition's type ...) is     *)
(*              dropped: the old child stays                               *)
(*  "maplost"   D_C14_edit_after_map_lost: once the copy has become a map  *)
(*              (an earlier child was removed or is itself a map / string),*)
(*              later edits whose value is a node or a list of nodes are   *)
(*              dropped                                                    *)
(*  "rootdelpanic" D_C14_delete_root_on_enter_panics: removing the root on *)
(*              enter does not end the traversal normally: a panic escapes *)
(*                                                                         *)
(* CONTENTS.  (a) EWalk: the recursive reference.  (b) the small-step      *)
(* machine shaped like the library's loop (frames with index, keys, edits  *)
(* list, in-array flag; edits applied when a frame is left, deletions from *)
(* arrays by index minus the number removed so far): EMStart, EMStepA,     *)
(* EMRun; state machine ELoad / EStep with lazily chosen answers and the   *)
(* refinement invariant ERefines.  (c) SubstFold: the declarative reading  *)
(* "the result differs from the original exactly by the requested edits".  *)
(* (d) the link to Visitor.tla: without edits EWalk delivers Walk.         *)
(***************************************************************************)
EXTENDS Visitor

\* ------------------------------------------------------------ lean trees
ENone == [id |-> 0, kind |-> "", label |-> "", rep |-> "node", ch |-> <<>>]

RECURSIVE Lean(_)
Lean(n) ==
  [id |-> n.id, kind |-> n.kind, label |-> n.label, rep |-> "node",
   \* (TLCEval: a function constructor is otherwise re-evaluated at every application)
   ch |-> TLCEval([s \in 1..Len(n.ch) |->
             [key |-> n.ch[s].key, list |-> n.ch[s].list,
              nodes |-> TLCEval([i \in 1..Len(n.ch[s].nodes) |-> Lean(n.ch[s].nodes[i])])]])]

Norm(slots) == SelectSeq(slots, LAMBDA s : s.nodes # <<>>)

RECURSIVE EIds(_)
EIds(n) == {n.id} \cup UNION { UNION { EIds(n.ch[s].nodes[i]) : i \in 1..Len(n.ch[s].nodes) } : s \in 1..Len(n.ch) }

\* (ids are unique within a tree)
ESize(n) == Cardinality(EIds(n))

RECURSIVE StripRep(_)
StripRep(n) ==
  [n EXCEPT !.rep = "node",
            !.ch = TLCEval([s \in 1..Len(n.ch) |->
                     [n.ch[s] EXCEPT !.nodes = TLCEval([i \in 1..Len(n.ch[s].nodes) |-> StripRep(n.ch[s].nodes[i])])]])]

\* ---- replacement values: a copy of the node the callback was handed, with fresh ids and new
\* ---- labels ("a" -> "a2"), or such a copy with every list cut down to its first element
Relabel(n) == IF n.kind \in {"Name", "IntValue", "FloatValue", "StringValue", "EnumValue", "G"} /\ n.rep = "node"
              THEN n.label \o "2" ELSE n.label

RECURSIVE RenumN(_,_), RenumSlots(_,_), RenumNodes(_,_)
RenumN(n, id) ==      \* [n |-> the copy numbered in pre-order from id, nx |-> next free id]
  LET r == RenumSlots(n.ch, id + 1)
  IN [n |-> [id |-> id, kind |-> n.kind, label |-> Relabel(n), rep |-> "node", ch |-> r.ch], nx |-> r.nx]
RenumSlots(ss, id) ==
  IF ss = <<>> THEN [ch |-> <<>>, nx |-> id]
  ELSE LET h == RenumNodes(Head(ss).nodes, id)
           t == RenumSlots(Tail(ss), h.nx)
       IN [ch |-> <<[Head(ss) EXCEPT !.nodes = h.ns]>> \o t.ch, nx |-> t.nx]
RenumNodes(ns, id) ==
  IF ns = <<>> THEN [ns |-> <<>>, nx |-> id]
  ELSE LET h == RenumN(Head(ns), id)
           t == RenumNodes(Tail(ns), h.nx)
       IN [ns |-> <<h.n>> \o t.ns, nx |-> t.nx]

RECURSIVE Trim(_)
Trim(n) == [n EXCEPT !.ch = TLCEval([s \in 1..Len(n.ch) |-> [n.ch[s] EXCEPT !.nodes = <<Trim(n.ch[s].nodes[1])>>]])]

\* only struct children survive in a replacement (a callback that copies the node it was handed
\* copies AST nodes)
RECURSIVE OnlyNodes(_)
OnlyNodes(n) ==
  [n EXCEPT !.rep = "node",
            !.ch = Norm([s \in 1..Len(n.ch) |->
                           [n.ch[s] EXCEPT !.nodes =
                              LET ok == SelectSeq(n.ch[s].nodes, LAMBDA c : c.rep # "str")
                              IN TLCEval([i \in 1..Len(ok) |-> OnlyNodes(ok[i])])]])]

\* fresh ids: 100 * id (+ 50 on leave) + position; trees of fewer than 50 nodes, so all ids differ
Repl(nd, ph, variant) ==
  LET src == OnlyNodes(nd)
  IN RenumN(IF variant = "trim" THEN Trim(src) ELSE src, nd.id * 100 + (IF ph = "leave" THEN 50 ELSE 0) + 1).n

\* --------------------------------------------------------------- policies
EActions == {"continue", "skip", "break", "update", "delete"}
Cont == [act |-> "continue", v |-> ENone]

EAct(pol, id, ph) ==
  IF \E i \in 1..Len(pol) : pol[i].id = id /\ pol[i].ph = ph
  THEN LET d == pol[CHOOSE i \in 1..Len(pol) : pol[i].id = id /\ pol[i].ph = ph
                                                /\ \A j \in 1..(i - 1) : ~(pol[j].id = id /\ pol[j].ph = ph)]
       IN [act |-> d.act, v |-> d.v]
  ELSE Cont

\* what a printing visitor puts in place of the node it is handed on leave: a text made of the
\* node's id and the texts its children have already been replaced by ("?" for a child that is
\* not a text)
TextOf(c) == IF c.rep = "str" THEN c.label ELSE "?"
RECURSIVE JoinTexts(_)
JoinTexts(ns) == IF ns = <<>> THEN "" ELSE IF Len(ns) = 1 THEN TextOf(ns[1]) ELSE TextOf(ns[1]) \o "," \o JoinTexts(Tail(ns))
RECURSIVE SlotsText(_)
SlotsText(ss) ==
  IF ss = <<>> THEN ""
  ELSE " " \o Head(ss).key \o "=" \o (IF Head(ss).list THEN "[" \o JoinTexts(Head(ss).nodes) \o "]" ELSE TextOf(Head(ss).nodes[1]))
       \o SlotsText(Tail(ss))
Printed(n) == [id |-> n.id, kind |-> n.kind, label |-> "(" \o ToString(n.id) \o SlotsText(n.ch) \o ")", rep |-> "str", ch |-> <<>>]

\* the answer at the leave of node n (as handed to the callback)
LeaveAct(pol, mode, n) ==
  LET a == EAct(pol, n.id, "leave")
  IN IF mode = "printer" /\ a.act \in {"continue", "skip"} THEN [act |-> "update", v |-> Printed(n)] ELSE a

\* an event: what the callback is told, and the node it is handed
EEv(ph, n, key, path, anc) ==
  [ph |-> ph, id |-> n.id, kind |-> n.kind, key |-> key, path |-> path, anc |-> anc, nd |-> n]

\* ------------------------------------------------------- the deviations
\* (kind, key) of the single-child slots the library declares with an interface type
IfaceSlots == { <<"Argument", "Value">>, <<"ObjectField", "Value">>, <<"VariableDefinition", "Type">>,
                <<"VariableDefinition", "DefaultValue">>, <<"List", "Type">>, <<"NonNull", "Type">>,
                <<"FieldDefinition", "Type">>, <<"InputValueDefinition", "Type">>,
                <<"InputValueDefinition", "DefaultValue">> }
AllDevs == {"inplace", "ifacelost", "maplost", "rootdelpanic"}

IsStructVal(c) == c.rep = "node"

\* ------------------------------------------------- (a) the reference walk
(* EWalkNode yields [ev, brk, ents, self, hit]: the events; whether the     *)
(* traversal was broken off; the edits of this child recorded with the     *)
(* parent, in order (each <<>> = removed or <<v>> = replaced by v: a        *)
(* replacement on enter is recorded at once, what the node has become when *)
(* it is left is recorded after it); the state the node object handed in   *)
(* is left in (self = n unless dev contains "inplace"); the deviations that *)
(* have a say.  The LAST recorded edit is what stands in the parent's slot *)
(* afterwards (Fin); no edit recorded: the child stays.                    *)
(* A slot's outcome q = [ed, ents, old]: ents the contents recorded for    *)
(* the slot in order (a single child: as above; a list: the edited array), *)
(* old the children objects the slot held (in their final state).          *)
RECURSIVE EWalkNode(_,_,_,_,_,_,_,_), EWalkSlots(_,_,_,_,_,_,_), EWalkList(_,_,_,_,_,_,_,_), ApplyFold(_,_,_,_,_), ApplyEnts(_,_,_,_,_,_)

LastOf(s) == s[Len(s)]
\* can the library keep this content of a slot in an AST struct (a node / a list of nodes)
StructContent(list, e) == IF list THEN \A j \in 1..Len(e) : IsStructVal(e[j]) ELSE e # <<>> /\ IsStructVal(e[1])

(* The edits recorded for one slot are applied to the copy in order.        *)
(* Specified (dev = {}): the slot's content becomes what was recorded; the *)
(* object is not touched.  a = [val: content of the slot in the copy, obj: *)
(* content of the slot in the node object itself, conv: the copy is a map, *)
(* hit].                                                                   *)
ApplyEnts(ents, i, iface, list, a, dev) ==
  IF i > Len(ents) THEN a
  ELSE LET e == ents[i] IN
       IF ~StructContent(list, e)
       THEN ApplyEnts(ents, i + 1, iface, list, [a EXCEPT !.val = e, !.conv = TRUE], dev)
       ELSE LET lost == IF a.conv THEN "maplost" \in dev ELSE "ifacelost" \in dev /\ iface
                \* which deviations have a say here (whether switched on or not)
                hit == (IF a.conv THEN {"maplost"} ELSE {"inplace"}) \cup (IF ~a.conv /\ iface THEN {"ifacelost"} ELSE {})
            IN ApplyEnts(ents, i + 1, iface, list,
                         [val |-> IF lost THEN a.val ELSE e,
                          obj |-> IF ~lost /\ "inplace" \in dev /\ ~a.conv THEN e ELSE a.obj,
                          conv |-> a.conv, hit |-> a.hit \cup hit], dev)

ApplyFold(m, qs, s, acc, dev) ==
  IF s > Len(qs) THEN acc
  ELSE LET q == qs[s]
           sl == m.ch[s]
           r == ApplyEnts(q.ents, 1, ~sl.list /\ <<m.kind, sl.key>> \in IfaceSlots, sl.list,
                          [val |-> q.old, obj |-> q.old, conv |-> acc.conv, hit |-> acc.hit], dev)
       IN ApplyFold(m, qs, s + 1,
                    [val |-> Append(acc.val, [sl EXCEPT !.nodes = r.val]), obj |-> Append(acc.obj, [sl EXCEPT !.nodes = r.obj]),
                     conv |-> r.conv, hit |-> r.hit], dev)

\* the elements i.. of a list: [ev, brk, ed, fin: the edited array, old, hit]
EWalkList(nodes, i, slotkey, path, anc, pol, mode, dev) ==
  IF i > Len(nodes) THEN [ev |-> <<>>, brk |-> FALSE, ed |-> FALSE, fin |-> <<>>, old |-> <<>>, hit |-> {}]
  ELSE LET r == EWalkNode(nodes[i], IKey(i - 1), <<slotkey, IKey(i - 1)>>, path, anc, pol, mode, dev) IN
       IF r.brk THEN [ev |-> r.ev, brk |-> TRUE, ed |-> FALSE, fin |-> <<>>,
                      old |-> <<r.self>> \o SubSeq(nodes, i + 1, Len(nodes)), hit |-> r.hit]
       ELSE LET t == EWalkList(nodes, i + 1, slotkey, path, anc, pol, mode, dev)
                v == IF r.ents # <<>> THEN LastOf(r.ents) ELSE <<r.self>>
            IN [ev |-> r.ev \o t.ev, brk |-> t.brk, ed |-> r.ents # <<>> \/ t.ed, fin |-> v \o t.fin, old |-> <<r.self>> \o t.old,
                hit |-> r.hit \cup t.hit]

\* the slots s.. of node m, in order, until the traversal is broken off: [ev, brk, qs, hit]
EWalkSlots(m, s, path, anc, pol, mode, dev) ==
  IF s > Len(m.ch) THEN [ev |-> <<>>, brk |-> FALSE, qs |-> <<>>, hit |-> {}]
  ELSE LET sl == m.ch[s]
           one == EWalkNode(sl.nodes[1], sl.key, <<sl.key>>, path, anc, pol, mode, dev)
           lst == EWalkList(sl.nodes, 1, sl.key, path, anc, pol, mode, dev)
           q == IF sl.list
                THEN [ev |-> lst.ev, brk |-> lst.brk, ed |-> lst.ed, ents |-> IF lst.ed THEN <<lst.fin>> ELSE <<>>, old |-> lst.old, hit |-> lst.hit]
                ELSE [ev |-> one.ev, brk |-> one.brk, ed |-> one.ents # <<>>, ents |-> one.ents, old |-> <<one.self>>, hit |-> one.hit]
       IN IF q.brk THEN [ev |-> q.ev, brk |-> TRUE, qs |-> <<q>>, hit |-> q.hit]
          ELSE LET t == EWalkSlots(m, s + 1, path, anc, pol, mode, dev)
               IN [ev |-> q.ev \o t.ev, brk |-> t.brk, qs |-> <<q>> \o t.qs, hit |-> q.hit \cup t.hit]

EWalkNode(n, key, seg, path, anc, pol, mode, dev) ==
  LET p == path \o seg
      en == EEv("enter", n, key, p, anc)
      a == EAct(pol, n.id, "enter")
      stop(brk, ents) == [ev |-> <<en>>, brk |-> brk, ents |-> ents, self |-> n, hit |-> {}]
  IN CASE a.act = "break" -> stop(TRUE, <<>>)
       [] a.act = "skip" -> stop(FALSE, <<>>)
       [] a.act = "delete" -> stop(FALSE, << <<>> >>)
       [] OTHER ->
          LET upd == a.act = "update"
              m == IF upd THEN a.v ELSE n
              w == EWalkSlots(m, 1, p, Append(anc, m.id), pol, mode, dev)
              \* the children objects of m in the state the traversal left them in (slots not reached: untouched)
              kept == [m EXCEPT !.ch = TLCEval([s \in 1..Len(m.ch) |-> IF s <= Len(w.qs) THEN [m.ch[s] EXCEPT !.nodes = w.qs[s].old] ELSE m.ch[s]])]
          IN IF w.brk THEN [ev |-> <<en>> \o w.ev, brk |-> TRUE, ents |-> <<>>, self |-> IF upd THEN n ELSE kept, hit |-> w.hit]
             ELSE LET f == ApplyFold(m, w.qs, 1, [val |-> <<>>, obj |-> <<>>, conv |-> FALSE, hit |-> {}], dev)
                      edited == \E s \in 1..Len(w.qs) : w.qs[s].ed
                      \* the copy with the children's edits applied (what the leave callback is handed), the object itself
                      m2 == IF edited THEN [m EXCEPT !.ch = Norm(f.val), !.rep = IF f.conv THEN "map" ELSE "node"] ELSE kept
                      selfm == IF edited THEN [m EXCEPT !.ch = Norm(f.obj)] ELSE kept
                      selfn == IF upd THEN n ELSE selfm
                      hit == w.hit \cup (IF edited THEN f.hit ELSE {})
                      lv == EEv("leave", m2, key, p, anc)
                      b == LeaveAct(pol, mode, m2)
                      evs == <<en>> \o w.ev \o <<lv>>
                      \* the replacement on enter is recorded first (the replacement object, in the state it is left in)
                      first == IF upd THEN << <<selfm>> >> ELSE <<>>
                  IN CASE b.act = "break" -> [ev |-> evs, brk |-> TRUE, ents |-> <<>>, self |-> selfn, hit |-> hit]
                       [] b.act = "update" -> [ev |-> evs, brk |-> FALSE, ents |-> first \o << <<b.v>> >>, self |-> selfn, hit |-> hit]
                       [] b.act = "delete" -> [ev |-> evs, brk |-> FALSE, ents |-> first \o << <<>> >>, self |-> selfn, hit |-> hit]
                       [] OTHER -> [ev |-> evs, brk |-> FALSE, ents |-> first \o (IF edited THEN << <<m2>> >> ELSE <<>>), self |-> selfn, hit |-> hit]

Unspec == [k |-> "unspec", t |-> ENone]
Unedited == [k |-> "unedited", t |-> ENone]
Deleted == [k |-> "deleted", t |-> ENone]
ResTree(t) == [k |-> "tree", t |-> t]

\* [ev, res, orig, panic, hit]; hit: the deviations that have a say in this traversal
EWalk(tree, pol, mode, dev) ==
  LET rootdel == EAct(pol, tree.id, "enter").act = "delete"
      r == EWalkNode(tree, "", <<>>, <<>>, <<>>, pol, mode, dev)
      hit == r.hit \cup (IF rootdel THEN {"rootdelpanic"} ELSE {})
  IN IF rootdel /\ "rootdelpanic" \in dev
     THEN [ev |-> r.ev, res |-> Unspec, orig |-> tree, panic |-> TRUE, hit |-> hit]
     ELSE [ev |-> r.ev,
           res |-> IF r.brk THEN Unspec ELSE IF r.ents = <<>> THEN Unedited
                   ELSE IF LastOf(r.ents) = <<>> THEN Deleted ELSE ResTree(LastOf(r.ents)[1]),
           orig |-> r.self, panic |-> FALSE, hit |-> hit]

\* ------------------------------------------- (b) the small-step machine
(* Shaped like the library's loop.  A frame [arr, idx, keys, edits, par]:  *)
(* par the node (arr = FALSE) or the array (arr = TRUE) whose children are *)
(* being visited, keys its slot keys / its elements, idx how many of them  *)
(* have been dealt with, edits the edits recorded for its children so far: *)
(* [key, val, list] in a node frame, [ix, val] in an array frame (val =    *)
(* <<>> removal, <<v>> replacement, or the edited array).  stk holds the   *)
(* suspended frames.  One step = one turn of the loop: it enters the next  *)
(* child (a node: the enter event is delivered, the answer a taken; an     *)
(* array: silently) or, when the keys are used up, leaves the frame: the   *)
(* recorded edits are applied to a copy, the suspended frame is resumed,   *)
(* the leave event delivered with the edited copy, and the outcome is      *)
(* recorded as an edit of the resumed frame.  The bottom frame holds the   *)
(* root under key "".                                                      *)
RootHolder(tree) == [id |-> 0, kind |-> "", label |-> "", rep |-> "node",
                     ch |-> << [key |-> "", list |-> FALSE, nodes |-> <<tree>>] >>]
EMRunning == [k |-> "running", t |-> ENone]
EMStart(tree) ==
  [stk |-> <<>>, cur |-> [arr |-> FALSE, idx |-> 0, keys |-> <<"">>, edits |-> <<>>, par |-> RootHolder(tree)],
   path |-> <<>>, anc |-> <<>>, log |-> <<>>, halt |-> FALSE, res |-> EMRunning]

SlotOf(n, key) == n.ch[CHOOSE s \in 1..Len(n.ch) : n.ch[s].key = key]
DropAt(l, pos) == SubSeq(l, 1, pos - 1) \o SubSeq(l, pos + 1, Len(l))
FrontOf(s) == SubSeq(s, 1, Len(s) - 1)

\* deletions shift what follows: an edit of index ix applies at ix minus the number removed so far
RECURSIVE ApplyArrEdits(_,_,_,_)
ApplyArrEdits(l, edits, i, off) ==
  IF i > Len(edits) THEN l
  ELSE LET e == edits[i]
           pos == e.ix - off + 1
       IN IF e.val = <<>> THEN ApplyArrEdits(DropAt(l, pos), edits, i + 1, off + 1)
          ELSE ApplyArrEdits([l EXCEPT ![pos] = e.val[1]], edits, i + 1, off)

RECURSIVE ApplyNodeEdits(_,_,_)
ApplyNodeEdits(n, edits, i) ==
  IF i > Len(edits) THEN [n EXCEPT !.ch = Norm(@)]
  ELSE LET e == edits[i]
           ns == IF e.list THEN \E j \in 1..Len(e.val) : ~IsStructVal(e.val[j])
                 ELSE e.val = <<>> \/ ~IsStructVal(e.val[1])
       IN ApplyNodeEdits([n EXCEPT !.ch = TLCEval([s \in 1..Len(n.ch) |-> IF n.ch[s].key = e.key THEN [n.ch[s] EXCEPT !.nodes = e.val] ELSE n.ch[s]]),
                                   !.rep = IF ns THEN "map" ELSE @], edits, i + 1)

EMApplied(c) == IF c.edits = <<>> THEN c.par
                ELSE IF c.arr THEN ApplyArrEdits(c.par, c.edits, 1, 0) ELSE ApplyNodeEdits(c.par, c.edits, 1)

EMLeaving(s) == s.cur.idx = Len(s.cur.keys)
\* is the child about to be entered a node (not an array)
EMNodeChild(s) == s.cur.arr \/ ~SlotOf(s.cur.par, s.cur.keys[s.cur.idx + 1]).list
EMChildNode(s) == IF s.cur.arr THEN s.cur.par[s.cur.idx + 1] ELSE SlotOf(s.cur.par, s.cur.keys[s.cur.idx + 1]).nodes[1]

\* what the next step delivers: [silent, ph, nd]
EMPending(s) ==
  IF EMLeaving(s)
  THEN IF s.cur.arr THEN [silent |-> TRUE, ph |-> "", nd |-> ENone] ELSE [silent |-> FALSE, ph |-> "leave", nd |-> EMApplied(s.cur)]
  ELSE IF EMNodeChild(s) THEN [silent |-> FALSE, ph |-> "enter", nd |-> EMChildNode(s)]
       ELSE [silent |-> TRUE, ph |-> "", nd |-> ENone]

ResOfEdits(edits) == IF edits = <<>> THEN Unedited
                     ELSE LET v == edits[Len(edits)].val IN IF v = <<>> THEN Deleted ELSE ResTree(v[1])

EMStepA(s, a) ==
  LET c == s.cur IN
  IF EMLeaving(s)
  THEN LET node == EMApplied(c)
           edited == c.edits # <<>>
           fr == s.stk[Len(s.stk)]
           below == FrontOf(s.stk)
           key == IF s.path = <<>> THEN "" ELSE s.path[Len(s.path)]
           path2 == IF s.path = <<>> THEN <<>> ELSE FrontOf(s.path)
           mk(v, isl) == IF fr.arr THEN [ix |-> fr.idx - 1, val |-> v] ELSE [key |-> key, val |-> v, list |-> isl]
       IN IF c.arr
          THEN [s EXCEPT !.stk = below, !.cur = [fr EXCEPT !.edits = IF edited THEN Append(@, mk(node, TRUE)) ELSE @], !.path = path2]
          ELSE LET log2 == Append(s.log, EEv("leave", node, key, s.path, FrontOf(s.anc)))
                   ed2 == CASE a.act = "update" -> Append(fr.edits, mk(<<a.v>>, FALSE))
                            [] a.act = "delete" -> Append(fr.edits, mk(<<>>, FALSE))
                            [] OTHER -> IF edited THEN Append(fr.edits, mk(<<node>>, FALSE)) ELSE fr.edits
               IN IF a.act = "break" THEN [s EXCEPT !.log = log2, !.halt = TRUE, !.res = Unspec]
                  ELSE [stk |-> below, cur |-> [fr EXCEPT !.edits = ed2], path |-> path2, anc |-> FrontOf(s.anc), log |-> log2,
                        halt |-> below = <<>>, res |-> IF below = <<>> THEN ResOfEdits(ed2) ELSE s.res]
  ELSE LET i == c.idx + 1
           adv == [c EXCEPT !.idx = i]
       IN IF EMNodeChild(s)
          THEN LET child == EMChildNode(s)
                   key == IF c.arr THEN IKey(i - 1) ELSE c.keys[i]
                   atRoot == s.stk = <<>>
                   epath == IF atRoot THEN <<>> ELSE Append(s.path, key)
                   log2 == Append(s.log, EEv("enter", child, key, epath, s.anc))
                   mk(v) == IF c.arr THEN [ix |-> i - 1, val |-> v] ELSE [key |-> key, val |-> v, list |-> FALSE]
               IN CASE a.act = "break" -> [s EXCEPT !.log = log2, !.halt = TRUE, !.res = Unspec]
                    [] a.act = "skip" -> [s EXCEPT !.cur = adv, !.log = log2, !.halt = atRoot, !.res = IF atRoot THEN Unedited ELSE @]
                    [] a.act = "delete" -> [s EXCEPT !.cur = [adv EXCEPT !.edits = Append(@, mk(<<>>))], !.log = log2,
                                                     !.halt = atRoot, !.res = IF atRoot THEN Deleted ELSE @]
                    [] OTHER ->
                       LET node == IF a.act = "update" THEN a.v ELSE child
                           adv2 == IF a.act = "update" THEN [adv EXCEPT !.edits = Append(@, mk(<<a.v>>))] ELSE adv
                       IN [stk |-> Append(s.stk, adv2),
                           cur |-> [arr |-> FALSE, idx |-> 0, keys |-> TLCEval([k \in 1..Len(node.ch) |-> node.ch[k].key]), edits |-> <<>>, par |-> node],
                           path |-> epath, anc |-> Append(s.anc, node.id), log |-> log2, halt |-> FALSE, res |-> s.res]
          ELSE LET sl == SlotOf(c.par, c.keys[i])
               IN [s EXCEPT !.stk = Append(s.stk, adv),
                            !.cur = [arr |-> TRUE, idx |-> 0, keys |-> sl.nodes, edits |-> <<>>, par |-> sl.nodes],
                            !.path = Append(s.path, sl.key)]

\* the answer a policy gives to what is pending
EMAnswer(p, pol, mode) ==
  IF p.silent THEN Cont ELSE IF p.ph = "leave" THEN LeaveAct(pol, mode, p.nd) ELSE EAct(pol, p.nd.id, "enter")

RECURSIVE EMRunFrom(_,_,_)
EMRunFrom(s, pol, mode) == IF s.halt THEN s ELSE EMRunFrom(EMStepA(s, EMAnswer(EMPending(s), pol, mode)), pol, mode)
EMRun(tree, pol, mode) == EMRunFrom(EMStart(tree), pol, mode)

\* theorem (checked by TLC on every generated case): the machine ends with the reference's
\* events (including the node handed to every callback) and result
EMachineAgrees(tree, pol, mode, w) ==
  LET s == EMRun(tree, pol, mode) IN s.log = w.ev /\ s.res = w.res

\* ---- the machine as a TLA+ state machine, the visitor's answers chosen lazily at each
\* ---- delivered event (at most maxDec answers other than continue)
VARIABLES etree, epol, est
evars == <<etree, epol, est>>

EIdle == etree = ENone /\ epol = <<>> /\ est = [EMStart(ENone) EXCEPT !.halt = TRUE]
ELoad(trees) == /\ etree.id = 0 /\ etree' \in trees /\ epol' = <<>> /\ est' = EMStart(etree')

\* the answers on offer at a pending event
Answers(p) ==
  LET cp == Repl(p.nd, p.ph, "copy")
      tr == Repl(p.nd, p.ph, "trim")
      ups == {[act |-> "update", v |-> cp]} \cup (IF tr.ch # cp.ch THEN {[act |-> "update", v |-> tr]} ELSE {})
  IN {Cont, [act |-> "break", v |-> ENone], [act |-> "delete", v |-> ENone]} \cup ups
     \cup (IF p.ph = "enter" THEN {[act |-> "skip", v |-> ENone]} ELSE {})

EStep(maxDec) ==
  /\ ~est.halt
  /\ LET p == EMPending(est) IN
     IF p.silent THEN est' = EMStepA(est, Cont) /\ UNCHANGED <<etree, epol>>
     ELSE \E a \in Answers(p) :
            /\ a.act # "continue" => Len(epol) < maxDec
            /\ est' = EMStepA(est, a)
            /\ epol' = IF a.act = "continue" THEN epol ELSE Append(epol, [id |-> p.nd.id, ph |-> p.ph, act |-> a.act, v |-> a.v])
            /\ UNCHANGED etree

ENextWith(trees, maxDec) == ELoad(trees) \/ EStep(maxDec)

\* refinement: the log is a prefix of the reference walk under the answers given so far; when
\* the machine has halted, log and result are the reference's
ERefines ==
  etree.id # 0 =>
    LET w == EWalk(etree, epol, "policy", {}) IN
    /\ IsPrefixOf(est.log, w.ev)
    /\ est.halt => est.log = w.ev /\ est.res = w.res

\* --------------------------- (c) "differs exactly by the requested edits"
(* Declarative reading: take the decisions update / delete that were       *)
(* actually delivered, in delivery order, and substitute one after the     *)
(* other in the tree: the node with that id is replaced by v / removed     *)
(* (whatever had been substituted below it goes with it; a node replaced   *)
(* on enter is found, with its new id, by the decisions delivered inside   *)
(* it).  The result of an unbroken traversal is that tree.                 *)
RECURSIVE Subst(_,_,_)
Subst(n, id, repl) ==     \* <<>> or <<node>>
  IF n.id = id THEN repl
  ELSE << [n EXCEPT !.ch = Norm([s \in 1..Len(n.ch) |->
                                   [n.ch[s] EXCEPT !.nodes = SeqConcat(TLCEval([i \in 1..Len(n.ch[s].nodes) |-> Subst(n.ch[s].nodes[i], id, repl)]))]])] >>

RECURSIVE SubstFold(_,_,_,_)
SubstFold(cur, ev, k, pol) ==     \* cur: <<>> or <<tree>>
  IF k > Len(ev) \/ cur = <<>> THEN cur
  ELSE LET a == EAct(pol, ev[k].id, ev[k].ph)
       IN SubstFold(IF a.act = "update" THEN Subst(cur[1], ev[k].id, <<a.v>>)
                    ELSE IF a.act = "delete" THEN Subst(cur[1], ev[k].id, <<>>) ELSE cur, ev, k + 1, pol)

EditsDelivered(ev, pol) == \E k \in 1..Len(ev) : EAct(pol, ev[k].id, ev[k].ph).act \in {"update", "delete"}

\* w: EWalk(tree, pol, "policy", {})
ExactlyTheEdits(tree, pol, w) ==
  \/ w.res.k = "unspec"
  \/ LET f == SubstFold(<<tree>>, w.ev, 1, pol) IN
     IF ~EditsDelivered(w.ev, pol) THEN w.res.k = "unedited"
     ELSE IF f = <<>> THEN w.res.k = "deleted"
     ELSE w.res.k = "tree" /\ StripRep(w.res.t) = f[1]

\* every (phase, node) is delivered at most once; a leave only for a node that was entered or
\* that replaced an entered node
EventsDistinct(ev) == \A i, j \in 1..Len(ev) : (ev[i].ph = ev[j].ph /\ ev[i].id = ev[j].id) => i = j

\* ------------------------------------------- (d) the link to Visitor.tla
\* without edits the traversal is the one of Visitor.tla: same events (phase, node, kind, key,
\* path, enclosing nodes), nothing edited, original untouched
LiftPol(pol) == [i \in 1..Len(pol) |-> [id |-> pol[i].id, ph |-> pol[i].ph, act |-> pol[i].act, v |-> ENone]]
PlainEv(e) == [ph |-> e.ph, id |-> e.id, kind |-> e.kind, key |-> e.key, path |-> e.path, anc |-> e.anc]
NoEditIsWalk(vtree, pol) ==
  LET w == EWalk(Lean(vtree), LiftPol(pol), "policy", {})
  IN /\ [k \in 1..Len(w.ev) |-> PlainEv(w.ev[k])] = Walk(vtree, pol)
     /\ w.res.k \in {"unedited", "unspec"}
     /\ w.orig = Lean(vtree)
=============================================================================
