------------------------------- MODULE MC_C11 -------------------------------
(***************************************************************************)
(* C11: one vector [eds, cfg, defects, order, exp, dev] per configuration  *)
(* of the generator GenSchema, valid and invalid (defect-injection sites   *)
(* enabled), and per ORDER of the AppendType calls (every permutation of   *)
(* the late types, at most MaxLate of them).                               *)
(*                                                                         *)
(* exp is the part of the property that does not need the built schema:    *)
(* "nopanic".  The deviated expectation models a defect of the code:       *)
(*   D_C11_nil_type_panics: NewSchema / AppendType dereference the entries *)
(*   of SchemaConfig.Types / the appended type without a nil check, so a   *)
(*   configuration that hands in a nil type may panic.                     *)
(* The post-condition on a returned schema (Consistent, and "appending     *)
(* gives the same schema as supplying up front") is evaluated by           *)
(* Trace_C11.tla on the view the harness records for every vector.         *)
(***************************************************************************)
EXTENDS GenSchema, Json

CONSTANT MaxLate

VARIABLES perm,   \* the order of the AppendType calls: a permutation of 1..Len(Cfg.appended)
          done
mvars == <<pos, eds, used, perm, done>>

Init == GInit /\ perm = <<>> /\ done = FALSE

Next ==
  \/ GStep /\ UNCHANGED <<perm, done>>
  \/ /\ Walked /\ ~done
     /\ Len(Cfg.appended) <= MaxLate
     /\ perm' \in Permutations(1..Len(Cfg.appended))
     /\ done' = TRUE
     /\ UNCHANGED gvars

Spec == Init /\ [][Next]_mvars

Complete == done

HandsInNil(c) == "nil" \in Range(c.supplied) \cup Range(c.appended)

Vector(c) ==
  [eds |-> EdLabels, cfg |-> c, defects |-> Defects, order |-> perm,
   exp |-> "nopanic",
   dev |-> IF HandsInNil(c) THEN << [d |-> <<"D_C11_nil_type_panics">>, exp |-> "panic"] >> ELSE <<>>]

Emit == Complete => PrintT(<<"VEC", ToJson(Vector(Cfg))>>)

\* the generator only produces configurations the builder can materialise: every reference
\* names a constructed type, a built-in scalar or "nil"
WellFormedCfg ==
  Complete =>
    LET c == Cfg
        ids == DOMAIN c.types \cup {"Int", "Float", "String", "Boolean", "ID", "nil"}
    IN /\ \A id \in DOMAIN c.types :
            LET d == c.types[id] IN
            /\ \A i \in 1..Len(d.fields) : d.fields[i].type.n \in ids
                                           /\ \A j \in 1..Len(d.fields[i].args) : d.fields[i].args[j].type.n \in ids
            /\ \A i \in 1..Len(d.inputs) : d.inputs[i].type.n \in ids
            /\ Range(d.ifaces) \cup Range(d.members) \subseteq ids
       /\ Range(c.supplied) \cup Range(c.appended) \subseteq ids
       /\ {c.query, c.mutation, c.subscription} \subseteq DOMAIN c.types \cup {""}

\* site groups for the registration (bin/props_C11.py)
SitesC11 == DefectSites \cup {"mut", "sub", "xC", "xD", "xV", "xG", "xJ", "xK", "xIn4", "xCu2", "U.members", "B.ifaces",
                              "th.Q", "th.A", "th.A.i", "th.I", "th.In", "th.U", "th.C"}
SitesEverything == ValidSites \cup DefectSites
SitesAppend == {"xC", "xD", "xV", "xG", "xJ", "xK", "xIn4", "xCu2", "th.C", "d.impl", "d.dup", "d.nil"}
SitesOrders == {"xC", "xD", "xV", "xG", "xJ", "xK", "xIn4", "xCu2"}
=============================================================================
