------------------------------- MODULE Syntax -------------------------------
(***************************************************************************)
(* Reference syntax of the GraphQL edition graphql-go/graphql targets      *)
(* (C03, C08, C18a): lexical grammar, a predictive parser over the         *)
(* productions, a token-level printer and the line/column function.        *)
(*                                                                         *)
(* Written from the grammar (the productions the library's parser quotes   *)
(* in its comments identify the edition: no null literal, `&` between      *)
(* interfaces, block strings and descriptions, `extend type`, directive    *)
(* and schema definitions), NOT from the code paths.  Where the code is    *)
(* known to do something else, the difference is a NAMED DEVIATION         *)
(* (DESIGN section 5) switched on by the parameter dv:                     *)
(*                                                                         *)
(*   D_C03_type_swallows_token          parseType: `]` or nothing is a     *)
(*       type; after `[ T` ANY token is taken as the closing bracket       *)
(*   D_C03_empty_document_accepted      Document : Definition* (not +)     *)
(*   D_C03_comment_multibyte_shifts_name  Name tokens get start/end in     *)
(*       code points counted from the byte offset where the lexer call     *)
(*       began; lexing resumes at that end taken as a BYTE offset          *)
(*   D_C03_blockstring_dedent           BlockStringValue strips the common *)
(*       indent from the FIRST line too (bytes, whatever they are) and     *)
(*       leaves lines shorter than the indent untouched                    *)
(*   D_C03_blockstring_rewrites_source  \""" overwrites Source.Body        *)
(*   D_C18_empty_reported_at_open       "Unexpected empty" is located at   *)
(*       the opening bracket                                               *)
(*   D_C18_description_keyword          a description followed by a        *)
(*       keyword that takes none is located at the description             *)
(*   (the positions of lexical errors share the root cause of             *)
(*   D_C03_comment_multibyte_shifts_name: code-point counts used as bytes) *)
(*                                                                         *)
(* Source text is a sequence of one-character CLASS names (DESIGN 3).      *)
(* One element is one code point.  For the deviations that confuse bytes   *)
(* and code points the same lexer runs over the byte expansion of the      *)
(* text (Units), where the trailing bytes of a multi-byte character are    *)
(* separate "continuation" units.                                          *)
(***************************************************************************)
EXTENDS Integers, Sequences, FiniteSets, TLC

\* ------------------------------------------------------------------ characters
LowerLetters == {"a", "b", "c", "e", "f", "n", "r", "t", "u", "x", "o", "l", "y", "p"}
UpperLetters == {"A", "E", "F", "Z"}
NameStart    == LowerLetters \cup UpperLetters \cup {"_"}
Digits       == {"0", "1", "2"}
NameCont     == NameStart \cup Digits
HexDigits    == Digits \cup {"a", "b", "c", "e", "f", "A", "E", "F"}
WhiteSpace   == {" ", "TAB"}
LineTerm     == {"LF", "CR"}
Ignored1     == WhiteSpace \cup LineTerm \cup {",", "BOM"}
Punct1       == {"!", "$", "(", ")", ":", "=", "@", "[", "]", "{", "|", "}", "&"}
\* control characters other than TAB, LF, CR are not SourceCharacters
NonSource    == {"BEL", "NUL", "BKSP", "FF", "VT", "SI"}
\* everything else ("?", "+", "/", "BS", "DEL", "U2", "U3", "U4", "U4NP", continuation
\* units ...) is a SourceCharacter that starts no token

Width(c) == CASE c = "U2" -> 2
              [] c \in {"BOM", "U3"} -> 3
              [] c \in {"U4", "U4NP"} -> 4
              [] OTHER -> 1
Utf16(c) == IF c \in {"U4", "U4NP"} THEN 2 ELSE 1

\* byte expansion: "U2" -> <<"U2", "U2:2">>, "BOM" -> <<"BOM", "BOM:2", "BOM:3">> ...
ContUnits(c) == [i \in 1..(Width(c) - 1) |-> c \o ":" \o ToString(i + 1)]
RECURSIVE Units(_)
Units(chars) == IF chars = <<>> THEN <<>>
                ELSE <<Head(chars)>> \o ContUnits(Head(chars)) \o Units(Tail(chars))

HasMultiByte(chars) == \E i \in 1..Len(chars) : Width(chars[i]) > 1

Max(S) == CHOOSE x \in S : \A y \in S : y <= x
Min(S) == CHOOSE x \in S : \A y \in S : x <= y

\* ------------------------------------------------------------------ LineCol
\* A line terminator is LF, CR, or CR LF taken as one.
TermStart(u, j) == u[j] = "CR" \/ (u[j] = "LF" /\ ~(j > 1 /\ u[j - 1] = "CR"))
TermEnd(u, j)   == IF u[j] = "CR" /\ j < Len(u) /\ u[j + 1] = "LF" THEN j + 1 ELSE j

RECURSIVE SumSeq(_, _, _)
SumSeq(ws, a, b) == IF a > b THEN 0 ELSE ws[a] + SumSeq(ws, a + 1, b)
SumW(u, a, b, W(_)) == SumSeq([j \in 1..Len(u) |-> W(u[j])], a, b)

\* line and column (1-based) of position i (1..Len(u)+1); the column counts W(c) per
\* character c between the end of the last terminator starting before i and i.
LineColW(u, i, W(_)) ==
  LET starts == {j \in 1..Len(u) : j < i /\ TermStart(u, j)}
      last   == IF starts = {} THEN 0 ELSE TermEnd(u, Max(starts))
  IN [line |-> 1 + Cardinality(starts),
      col  |-> IF last >= i THEN 0 ELSE 1 + SumW(u, last + 1, i - 1, W)]

One(c) == 1
LineCol(chars, i) == LineColW(chars, i, One)      \* column in code points
\* the three customary column units (DESIGN 4.2: the unit is Unspecified)
LineCols(chars, i) ==
  LET a == LineColW(chars, i, One) b == LineColW(chars, i, Width) c == LineColW(chars, i, Utf16)
  IN {<<a.line, a.col>>, <<b.line, b.col>>, <<c.line, c.col>>}

\* ------------------------------------------------------------------ Lex
At(u, i) == IF i >= 1 /\ i <= Len(u) THEN u[i] ELSE "EOF"

Keywords == {"query", "mutation", "subscription", "fragment", "on", "true", "false", "null", "type",
             "interface", "union", "enum", "input", "scalar", "schema", "extend", "directive", "implements"}
\* the keywords that can be spelled with the letter classes above
KindOfName(v) ==
  CASE v = <<"t", "r", "u", "e">> -> "true"
    [] v = <<"n", "u", "l", "l">> -> "null"
    [] v = <<"o", "n">> -> "on"
    [] v = <<"t", "y", "p", "e">> -> "type"
    [] OTHER -> "Name"

SimpleEsc(c) ==
  CASE c = "DQ" -> "DQ" [] c = "BS" -> "BS" [] c = "/" -> "/" [] c = "b" -> "BKSP" [] c = "f" -> "FF"
    [] c = "n" -> "LF" [] c = "r" -> "CR" [] c = "t" -> "TAB" [] OTHER -> ""

TokOk(k, v, s, e, next) == [ok |-> TRUE, tok |-> [k |-> k, v |-> v, s |-> s, e |-> e, rw |-> <<>>, un |-> FALSE],
                            next |-> next]
\* malformed lexeme: closed span s..e (e = the first character that cannot continue a
\* lexeme, possibly Len+1); rep = the position the reference lexer customarily reports
LexErr(s, e, rep) == [ok |-> FALSE, s |-> s, e |-> e, rep |-> rep, rw |-> <<>>]

\* B: positions are bytes (TRUE) or code points (FALSE)
Adv(c, B) == IF B THEN Width(c) ELSE 1
\* sh: the rune/byte confusion is switched on (only meaningful with B); then the lexer's
\* "rune position" lags behind the byte position by Exc per multi-byte character
Exc(c, sh) == IF sh THEN Width(c) - 1 ELSE 0
\* the units of the character starting at q (in byte mode: its lead byte and continuation bytes)
Take(u, q, B) == SubSeq(u, q, q + Adv(u[q], B) - 1)

RECURSIVE SkipIgn(_, _, _, _, _), SkipComment(_, _, _, _, _)
\* returns the position of the next non-ignored unit and d = the lag of the "rune position"
SkipIgn(u, p, d, B, sh) ==
  IF p > Len(u) THEN [p |-> p, d |-> d]
  ELSE IF u[p] \in Ignored1 THEN SkipIgn(u, p + Adv(u[p], B), d + Exc(u[p], sh), B, sh)
  ELSE IF u[p] = "#" THEN SkipComment(u, p + 1, d, B, sh)
  ELSE [p |-> p, d |-> d]
SkipComment(u, p, d, B, sh) ==
  IF p > Len(u) \/ u[p] \in LineTerm \/ u[p] \in NonSource THEN SkipIgn(u, p, d, B, sh)
  ELSE SkipComment(u, p + Adv(u[p], B), d + Exc(u[p], sh), B, sh)

RECURSIVE RunEnd(_, _, _)
\* last index of the maximal run of characters from S starting at p (p itself is in S)
RunEnd(u, p, S) == IF At(u, p + 1) \in S THEN RunEnd(u, p + 1, S) ELSE p

\* ---- numbers:  -?(0|[1-9][0-9]*)(\.[0-9]+)?([eE][+-]?[0-9]+)?  by longest match
ReadNumber(u, p) ==
  LET q0 == IF u[p] = "-" THEN p + 1 ELSE p IN
  IF At(u, q0) \notin Digits THEN LexErr(p, q0, q0)
  ELSE
    LET ie == IF u[q0] = "0" THEN q0 ELSE RunEnd(u, q0, Digits)
        hasF == At(u, ie + 1) = "." /\ At(u, ie + 2) \in Digits
        fe == IF hasF THEN RunEnd(u, ie + 2, Digits) ELSE ie
        x1 == At(u, fe + 2)
        hasE == At(u, fe + 1) \in {"e", "E"} /\
                (x1 \in Digits \/ (x1 \in {"+", "-"} /\ At(u, fe + 3) \in Digits))
        ee == IF hasE THEN RunEnd(u, IF x1 \in Digits THEN fe + 2 ELSE fe + 3, Digits) ELSE fe
        nx == At(u, ee + 1)
    IN [TokOk(IF hasF \/ hasE THEN "Float" ELSE "Int", SubSeq(u, p, ee), p, ee, ee + 1)
          EXCEPT !.tok.un = nx \in Digits \cup NameStart \cup {"."}]

\* ---- quoted strings
RECURSIVE ReadStr(_, _, _, _, _, _, _)
\* s0 opening quote, q current position, acc decoded value, x = lag of the rune position
ReadStr(u, s0, q, acc, x, B, sh) ==
  LET c == At(u, q) IN
  IF c = "EOF" \/ c \in LineTerm \/ c \in NonSource THEN LexErr(s0, q, q - x)
  ELSE IF c = "DQ" THEN TokOk("String", acc, s0, q, q + 1)
  ELSE IF c = "BS" THEN
    LET e1 == At(u, q + 1) IN
    IF SimpleEsc(e1) # "" THEN ReadStr(u, s0, q + 2, Append(acc, SimpleEsc(e1)), x, B, sh)
    ELSE IF e1 = "u" THEN
      LET bad == {i \in 1..4 : At(u, q + 1 + i) \notin HexDigits} IN
      IF bad = {} THEN ReadStr(u, s0, q + 6, Append(acc, "U+" \o u[q + 2] \o u[q + 3] \o u[q + 4] \o u[q + 5]), x, B, sh)
      ELSE LexErr(s0, q + 1 + Min(bad), q + 1 - x)
    ELSE LexErr(s0, q + 1, q + 1 - x)
  ELSE ReadStr(u, s0, q + Adv(c, B), acc \o Take(u, q, B), x + Exc(c, sh), B, sh)

\* ---- block strings
RECURSIVE SplitL(_, _, _, _)
SplitL(r, i, cur, acc) ==
  IF i > Len(r) THEN Append(acc, cur)
  ELSE IF r[i] = "CR" /\ At(r, i + 1) = "LF" THEN SplitL(r, i + 2, <<>>, Append(acc, cur))
  ELSE IF r[i] \in LineTerm THEN SplitL(r, i + 1, <<>>, Append(acc, cur))
  ELSE SplitL(r, i + 1, Append(cur, r[i]), acc)

Indent(line) == IF \A i \in 1..Len(line) : line[i] \in WhiteSpace THEN Len(line)
                ELSE Min({i \in 1..Len(line) : line[i] \notin WhiteSpace}) - 1
IsBlank(line) == Indent(line) = Len(line)
Drop(line, k) == SubSeq(line, (IF k > Len(line) THEN Len(line) ELSE k) + 1, Len(line))

RECURSIVE JoinLF(_)
JoinLF(ls) == IF Len(ls) = 0 THEN <<>> ELSE IF Len(ls) = 1 THEN ls[1] ELSE ls[1] \o <<"LF">> \o JoinLF(Tail(ls))

\* BlockStringValue of the GraphQL specification
BlockStringValue(raw, dv) ==
  LET lines == SplitL(raw, 1, <<>>, <<>>)
      cand  == {Indent(lines[i]) : i \in {j \in 2..Len(lines) : ~IsBlank(lines[j])}}
      ci    == IF cand = {} THEN 0 ELSE Min(cand)
      ded   == IF "D_C03_blockstring_dedent" \in dv
               THEN [i \in 1..Len(lines) |-> IF ci > Len(lines[i]) THEN lines[i] ELSE Drop(lines[i], ci)]
               ELSE [i \in 1..Len(lines) |-> IF i = 1 THEN lines[1] ELSE Drop(lines[i], ci)]
      nb    == {i \in 1..Len(ded) : ~IsBlank(ded[i])}
  IN IF nb = {} THEN <<>> ELSE JoinLF(SubSeq(ded, Min(nb), Max(nb)))

RECURSIVE ReadBlock(_, _, _, _, _, _, _, _, _)
\* rw: positions of the backslashes of processed \""" escapes
ReadBlock(u, s0, q, raw, x, B, sh, dv, rw) ==
  LET c == At(u, q) IN
  IF c = "EOF" THEN [LexErr(s0, q, q - x) EXCEPT !.rw = rw]
  ELSE IF c = "DQ" /\ At(u, q + 1) = "DQ" /\ At(u, q + 2) = "DQ"
    THEN [TokOk("BlockString", BlockStringValue(raw, dv), s0, q + 2, q + 3) EXCEPT !.tok.rw = rw]
  ELSE IF c \in NonSource THEN [LexErr(s0, q, q - x) EXCEPT !.rw = rw]
  ELSE IF c = "BS" /\ At(u, q + 1) = "DQ" /\ At(u, q + 2) = "DQ" /\ At(u, q + 3) = "DQ"
    THEN ReadBlock(u, s0, q + 4, raw \o <<"DQ", "DQ", "DQ">>, x, B, sh, dv, Append(rw, q))
  ELSE ReadBlock(u, s0, q + Adv(c, B), raw \o Take(u, q, B), x + Exc(c, sh), B, sh, dv, rw)

\* ---- one token starting at the non-ignored unit p; d = lag accumulated over the ignored prefix
ReadToken(u, p, d, B, sh, dv) ==
  LET c == u[p] IN
  CASE c \in Punct1 -> TokOk(c, <<>>, p, p, p + 1)
    [] c = "." -> IF At(u, p + 1) = "." /\ At(u, p + 2) = "." THEN TokOk("...", <<>>, p, p + 2, p + 3)
                  ELSE LexErr(p, IF At(u, p + 1) = "." THEN p + 2 ELSE p + 1, p - d)
    [] c \in NameStart ->
         \* (with the deviation: the token is placed, and lexing resumes, d units too early)
         LET e == RunEnd(u, p, NameCont) IN
         TokOk(KindOfName(SubSeq(u, p, e)), SubSeq(u, p, e), p - d, e - d, e + 1 - d)
    [] c \in Digits \cup {"-"} -> ReadNumber(u, p)
    [] c = "DQ" -> IF At(u, p + 1) = "DQ" /\ At(u, p + 2) = "DQ"
                   THEN ReadBlock(u, p, p + 3, <<>>, 0, B, sh, dv, <<>>)
                   ELSE ReadStr(u, p, p + 1, <<>>, 0, B, sh)
    [] OTHER -> LexErr(p, p, p - d)

RECURSIVE LexAll(_, _, _, _, _, _)
LexAll(u, p, B, sh, dv, acc) ==
  LET sk == SkipIgn(u, p, 0, B, sh) IN
  IF sk.p > Len(u) THEN [ok |-> TRUE, toks |-> acc, eof |-> sk.p, errS |-> 0, errE |-> 0, rep |-> 0, erw |-> <<>>]
  ELSE LET r == ReadToken(u, sk.p, sk.d, B, sh, dv) IN
       IF r.ok THEN LexAll(u, r.next, B, sh, dv, Append(acc, r.tok))
       ELSE [ok |-> FALSE, toks |-> acc, eof |-> 0, errS |-> r.s, errE |-> r.e, rep |-> r.rep, erw |-> r.rw]

\* The lexical grammar proper: positions are code-point indices (1-based, inclusive spans)
Lex(chars) == LexAll(chars, 1, FALSE, FALSE, {}, <<>>)
\* The lexer as the code runs it: positions are byte indices into Units(chars)
LexBytes(chars, dv) == LexAll(Units(chars), 1, TRUE, "D_C03_comment_multibyte_shifts_name" \in dv, dv, <<>>)

KindsOf(toks) == [i \in 1..Len(toks) |-> toks[i].k]

\* ------------------------------------------------------------------ Parse
\* Works on token KINDS: punctuators, "Int" "Float" "String" "BlockString", the keywords,
\* and "Name" for any other name.  EOF is the virtual token Len+1.
T(t, p) == IF p <= Len(t) THEN t[p] ELSE "EOF"
IsName(k) == k = "Name" \/ k \in Keywords
IsStr(k) == k \in {"String", "BlockString"}
OpTypes == {"query", "mutation", "subscription"}
DescribedDefs == {"scalar", "type", "interface", "union", "enum", "input"}

N(k, v, s, e, c) == [k |-> k, v |-> v, s |-> s, e |-> e, c |-> c]
Leaf(k, t, p) == N(k, t[p], p, p, <<>>)
NoNode == N("-", "", 0, 0, <<>>)
Kids(ns) == SelectSeq(ns, LAMBDA n : n.k # "-")

Ok(p, n) == [ok |-> TRUE, p |-> p, n |-> n]
\* p = the first token at which the input stops being a viable prefix
Err(p) == [ok |-> FALSE, p |-> p, open |-> 0, desc |-> 0, ty |-> FALSE, un |-> ""]
ErrOpen(p, o) == [Err(p) EXCEPT !.open = o]
ErrTy(p) == [Err(p) EXCEPT !.ty = TRUE]
ErrUn(p, w) == [Err(p) EXCEPT !.un = w]

RECURSIVE PValue(_, _, _, _), PMany(_, _, _, _, _, _), PItem(_, _, _, _), PArgs(_, _, _, _),
          PDirs(_, _, _, _, _), PType(_, _, _), PTypeDev(_, _), PSelSet(_, _, _), PField(_, _, _),
          PFragment(_, _, _), PInputValueDef(_, _, _), PFieldDef(_, _, _)

PName(t, p) == IF IsName(T(t, p)) THEN Ok(p + 1, Leaf("Name", t, p)) ELSE Err(p)
PNamed(t, p) == IF IsName(T(t, p)) THEN Ok(p + 1, N("Named", "", p, p, <<Leaf("Name", t, p)>>)) ELSE Err(p)

\* items up to the closing token (which is consumed)
PMany(t, p, dv, tag, close, acc) ==
  IF T(t, p) = close THEN Ok(p + 1, acc)
  ELSE LET r == PItem(tag, t, p, dv) IN
       IF r.ok THEN PMany(t, r.p, dv, tag, close, Append(acc, r.n)) ELSE r

\* open Item+ close  (the opening token is at p)
PSome(t, p, dv, tag, open, close) ==
  IF T(t, p) # open THEN Err(p)
  ELSE IF T(t, p + 1) = close THEN ErrOpen(p + 1, p)
  ELSE PMany(t, p + 1, dv, tag, close, <<>>)

\* cst: "var" variables allowed, "const" not, "ts" directive arguments in type-system definitions
PVariable(t, p) ==
  IF IsName(T(t, p + 1)) THEN Ok(p + 2, N("Variable", "", p, p + 1, <<Leaf("Name", t, p + 1)>>)) ELSE Err(p + 1)

PValue(t, p, dv, cst) ==
  LET k == T(t, p) IN
  CASE k = "[" -> LET r == PMany(t, p + 1, dv, "val_" \o cst, "]", <<>>) IN
                  IF r.ok THEN Ok(r.p, N("ListValue", "", p, r.p - 1, r.n)) ELSE r
    [] k = "{" -> LET r == PMany(t, p + 1, dv, "ofld_" \o cst, "}", <<>>) IN
                  IF r.ok THEN Ok(r.p, N("ObjectValue", "", p, r.p - 1, r.n)) ELSE r
    [] k = "Int" -> Ok(p + 1, Leaf("IntValue", t, p))
    [] k = "Float" -> Ok(p + 1, Leaf("FloatValue", t, p))
    [] IsStr(k) -> Ok(p + 1, Leaf("StringValue", t, p))
    [] k \in {"true", "false"} -> Ok(p + 1, Leaf("BooleanValue", t, p))
    [] k = "null" -> Err(p)                      \* EnumValue : Name but not true, false or null
    [] IsName(k) -> Ok(p + 1, Leaf("EnumValue", t, p))
    [] k = "$" -> IF cst = "const" THEN Err(p)
                  ELSE IF cst = "ts" THEN ErrUn(p, "variable_in_type_system_directive")
                  ELSE PVariable(t, p)
    [] OTHER -> Err(p)

\* Name : Value   (Argument / ObjectField)
PNameValue(kind, t, p, dv, cst) ==
  IF ~IsName(T(t, p)) THEN Err(p)
  ELSE IF T(t, p + 1) # ":" THEN Err(p + 1)
  ELSE LET r == PValue(t, p + 2, dv, cst) IN
       IF r.ok THEN Ok(r.p, N(kind, "", p, r.p - 1, <<Leaf("Name", t, p), r.n>>)) ELSE r

\* Arguments? : ( Argument+ )
PArgs(t, p, dv, cst) ==
  IF T(t, p) = "(" THEN PSome(t, p, dv, "arg_" \o cst, "(", ")") ELSE Ok(p, <<>>)

\* Directives? : ( @ Name Arguments? )*
PDirs(t, p, dv, cst, acc) ==
  IF T(t, p) # "@" THEN Ok(p, acc)
  ELSE IF ~IsName(T(t, p + 1)) THEN Err(p + 1)
  ELSE LET a == PArgs(t, p + 2, dv, cst) IN
       IF ~a.ok THEN a
       ELSE PDirs(t, a.p, dv, cst, Append(acc, N("Directive", "", p, a.p - 1, <<Leaf("Name", t, p + 1)>> \o a.n)))

\* Type : NamedType | [ Type ] | NamedType ! | [ Type ] !
PType(t, p, dv) ==
  IF "D_C03_type_swallows_token" \in dv THEN PTypeDev(t, p)
  ELSE
  LET base == IF T(t, p) = "[" THEN
                LET r == PType(t, p + 1, dv) IN
                IF ~r.ok THEN r
                ELSE IF T(t, r.p) = "]" THEN Ok(r.p + 1, N("List", "", p, r.p, <<r.n>>)) ELSE ErrTy(r.p)
              ELSE IF IsName(T(t, p)) THEN PNamed(t, p)
              ELSE ErrTy(p)
  IN IF base.ok /\ T(t, base.p) = "!" THEN Ok(base.p + 1, N("NonNull", "", p, base.p, <<base.n>>)) ELSE base

\* what parseType actually does (never fails)
PTypeDev(t, p) ==
  LET k == T(t, p)
      base == CASE k = "[" -> LET r == PTypeDev(t, p + 1) IN
                              Ok(IF r.p <= Len(t) THEN r.p + 1 ELSE r.p, N("List", "", p, r.p, Kids(<<r.n>>)))
                [] k = "]" -> Ok(p + 1, N("List", "", p, p, <<>>))
                [] IsName(k) -> PNamed(t, p)
                [] OTHER -> Ok(p, NoNode)
  IN IF T(t, base.p) = "!" THEN Ok(base.p + 1, N("NonNull", "", p, base.p, Kids(<<base.n>>))) ELSE base

\* VariableDefinition : $ Name : Type ( = Value[Const] )?
PVarDef(t, p, dv) ==
  IF T(t, p) # "$" THEN Err(p)
  ELSE LET v == PVariable(t, p) IN
  IF ~v.ok THEN v
  ELSE IF T(t, v.p) # ":" THEN Err(v.p)
  ELSE LET ty == PType(t, v.p + 1, dv) IN
  IF ~ty.ok THEN ty
  ELSE IF T(t, ty.p) = "=" THEN
         LET d == PValue(t, ty.p + 1, dv, "const") IN
         IF d.ok THEN Ok(d.p, N("VariableDefinition", "", p, d.p - 1, Kids(<<v.n, ty.n, d.n>>))) ELSE d
       ELSE Ok(ty.p, N("VariableDefinition", "", p, ty.p - 1, Kids(<<v.n, ty.n>>)))

\* SelectionSet : { Selection+ }
PSelSet(t, p, dv) ==
  LET r == PSome(t, p, dv, "sel", "{", "}") IN
  IF r.ok THEN Ok(r.p, N("SelectionSet", "", p, r.p - 1, r.n)) ELSE r

\* Field : Alias? Name Arguments? Directives? SelectionSet?
PField(t, p, dv) ==
  IF ~IsName(T(t, p)) THEN Err(p)
  ELSE
  LET alias == T(t, p + 1) = ":" IN
  IF alias /\ ~IsName(T(t, p + 2)) THEN Err(p + 2)
  ELSE
  LET names == IF alias THEN <<Leaf("Name", t, p), Leaf("Name", t, p + 2)>> ELSE <<Leaf("Name", t, p)>>
      a == PArgs(t, IF alias THEN p + 3 ELSE p + 1, dv, "var") IN
  IF ~a.ok THEN a
  ELSE LET d == PDirs(t, a.p, dv, "var", <<>>) IN
  IF ~d.ok THEN d
  ELSE IF T(t, d.p) = "{" THEN
         LET s == PSelSet(t, d.p, dv) IN
         IF s.ok THEN Ok(s.p, N("Field", "", p, s.p - 1, names \o a.n \o d.n \o <<s.n>>)) ELSE s
       ELSE Ok(d.p, N("Field", "", p, d.p - 1, names \o a.n \o d.n))

\* FragmentSpread : ... FragmentName Directives?      (FragmentName : Name but not `on`)
\* InlineFragment : ... ( on NamedType )? Directives? SelectionSet
PFragment(t, p, dv) ==
  LET k == T(t, p + 1) IN
  IF IsName(k) /\ k # "on" THEN
    LET d == PDirs(t, p + 2, dv, "var", <<>>) IN
    IF d.ok THEN Ok(d.p, N("FragmentSpread", "", p, d.p - 1, <<Leaf("Name", t, p + 1)>> \o d.n)) ELSE d
  ELSE
    LET tc == IF k = "on" THEN PNamed(t, p + 2) ELSE Ok(p + 1, NoNode) IN
    IF ~tc.ok THEN tc
    ELSE LET d == PDirs(t, tc.p, dv, "var", <<>>) IN
    IF ~d.ok THEN d
    ELSE LET s == PSelSet(t, d.p, dv) IN
    IF s.ok THEN Ok(s.p, N("InlineFragment", "", p, s.p - 1, Kids(<<tc.n>>) \o d.n \o <<s.n>>)) ELSE s

\* OperationDefinition : SelectionSet | OperationType Name? VariableDefinitions? Directives? SelectionSet
POperation(t, p, dv) ==
  IF T(t, p) = "{" THEN
    LET s == PSelSet(t, p, dv) IN
    IF s.ok THEN Ok(s.p, N("OperationDefinition", "query", p, s.p - 1, <<s.n>>)) ELSE s
  ELSE
    LET named == IsName(T(t, p + 1))
        p1 == IF named THEN p + 2 ELSE p + 1
        nm == IF named THEN <<Leaf("Name", t, p + 1)>> ELSE <<>>
        v == IF T(t, p1) = "(" THEN PSome(t, p1, dv, "vdef", "(", ")") ELSE Ok(p1, <<>>) IN
    IF ~v.ok THEN v
    ELSE LET d == PDirs(t, v.p, dv, "var", <<>>) IN
    IF ~d.ok THEN d
    ELSE LET s == PSelSet(t, d.p, dv) IN
    IF s.ok THEN Ok(s.p, N("OperationDefinition", t[p], p, s.p - 1, nm \o v.n \o d.n \o <<s.n>>)) ELSE s

\* FragmentDefinition : fragment FragmentName on NamedType Directives? SelectionSet
PFragDef(t, p, dv) ==
  IF ~IsName(T(t, p + 1)) \/ T(t, p + 1) = "on" THEN Err(p + 1)
  ELSE IF T(t, p + 2) # "on" THEN Err(p + 2)
  ELSE LET tc == PNamed(t, p + 3) IN
  IF ~tc.ok THEN tc
  ELSE LET d == PDirs(t, tc.p, dv, "var", <<>>) IN
  IF ~d.ok THEN d
  ELSE LET s == PSelSet(t, d.p, dv) IN
  IF s.ok THEN Ok(s.p, N("FragmentDefinition", "", p, s.p - 1, <<Leaf("Name", t, p + 1), tc.n>> \o d.n \o <<s.n>>)) ELSE s

\* ---- type-system definitions.  dp = position of the description (0 if none), p = keyword
DescNode(t, dp) == IF dp = 0 THEN <<>> ELSE <<Leaf("StringValue", t, dp)>>
Start(dp, p) == IF dp = 0 THEN p ELSE dp

\* { Item+ } where the edition's production says + but an empty list is Unspecified (DESIGN 4.2)
PSomeTS(t, p, dv, tag) ==
  IF T(t, p) = "{" /\ T(t, p + 1) = "}" THEN [ErrOpen(p + 1, p) EXCEPT !.un = "empty_list_in_type_system_definition"]
  ELSE PSome(t, p, dv, tag, "{", "}")

\* InputValueDefinition : Description? Name : Type ( = Value[Const] )? Directives?
PInputValueDef(t, p, dv) ==
  LET dp == IF IsStr(T(t, p)) THEN p ELSE 0
      q == IF dp = 0 THEN p ELSE p + 1 IN
  IF ~IsName(T(t, q)) THEN Err(q)
  ELSE IF T(t, q + 1) # ":" THEN Err(q + 1)
  ELSE LET ty == PType(t, q + 2, dv) IN
  IF ~ty.ok THEN ty
  ELSE LET df == IF T(t, ty.p) = "=" THEN PValue(t, ty.p + 1, dv, "const") ELSE Ok(ty.p, NoNode) IN
  IF ~df.ok THEN df
  ELSE LET d == PDirs(t, df.p, dv, "ts", <<>>) IN
  IF ~d.ok THEN d
  ELSE Ok(d.p, N("InputValueDefinition", "", p, d.p - 1,
                 DescNode(t, dp) \o <<Leaf("Name", t, q)>> \o Kids(<<ty.n, df.n>>) \o d.n))

\* FieldDefinition : Description? Name ArgumentsDefinition? : Type Directives?
PFieldDef(t, p, dv) ==
  LET dp == IF IsStr(T(t, p)) THEN p ELSE 0
      q == IF dp = 0 THEN p ELSE p + 1 IN
  IF ~IsName(T(t, q)) THEN Err(q)
  ELSE LET a == IF T(t, q + 1) = "(" THEN PSome(t, q + 1, dv, "ivdef", "(", ")") ELSE Ok(q + 1, <<>>) IN
  IF ~a.ok THEN a
  ELSE IF T(t, a.p) # ":" THEN Err(a.p)
  ELSE LET ty == PType(t, a.p + 1, dv) IN
  IF ~ty.ok THEN ty
  ELSE LET d == PDirs(t, ty.p, dv, "ts", <<>>) IN
  IF ~d.ok THEN d
  ELSE Ok(d.p, N("FieldDefinition", "", p, d.p - 1,
                 DescNode(t, dp) \o <<Leaf("Name", t, q)>> \o a.n \o Kids(<<ty.n>>) \o d.n))

\* EnumValueDefinition : Description? EnumValue Directives?
PEnumValueDef(t, p, dv) ==
  LET dp == IF IsStr(T(t, p)) THEN p ELSE 0
      q == IF dp = 0 THEN p ELSE p + 1 IN
  IF ~IsName(T(t, q)) THEN Err(q)
  ELSE IF T(t, q) \in {"true", "false", "null"} THEN ErrUn(q, "enum_value_named_true_false_null")
  ELSE LET d == PDirs(t, q + 1, dv, "ts", <<>>) IN
  IF ~d.ok THEN d
  ELSE Ok(d.p, N("EnumValueDefinition", "", p, d.p - 1, DescNode(t, dp) \o <<Leaf("Name", t, q)>> \o d.n))

\* OperationTypeDefinition : OperationType : NamedType
POpTypeDef(t, p) ==
  IF T(t, p) \notin OpTypes THEN Err(p)
  ELSE IF T(t, p + 1) # ":" THEN Err(p + 1)
  ELSE LET n == PNamed(t, p + 2) IN
  IF n.ok THEN Ok(n.p, N("OperationTypeDefinition", t[p], p, n.p - 1, <<n.n>>)) ELSE n

PItem(tag, t, p, dv) ==
  CASE tag = "sel" -> IF T(t, p) = "..." THEN PFragment(t, p, dv) ELSE PField(t, p, dv)
    [] tag = "vdef" -> PVarDef(t, p, dv)
    [] tag = "val_var" -> PValue(t, p, dv, "var")
    [] tag = "val_const" -> PValue(t, p, dv, "const")
    [] tag = "val_ts" -> PValue(t, p, dv, "ts")
    [] tag = "ofld_var" -> PNameValue("ObjectField", t, p, dv, "var")
    [] tag = "ofld_const" -> PNameValue("ObjectField", t, p, dv, "const")
    [] tag = "ofld_ts" -> PNameValue("ObjectField", t, p, dv, "ts")
    [] tag = "arg_var" -> PNameValue("Argument", t, p, dv, "var")
    [] tag = "arg_const" -> PNameValue("Argument", t, p, dv, "const")
    [] tag = "arg_ts" -> PNameValue("Argument", t, p, dv, "ts")
    [] tag = "fdef" -> PFieldDef(t, p, dv)
    [] tag = "ivdef" -> PInputValueDef(t, p, dv)
    [] tag = "evdef" -> PEnumValueDef(t, p, dv)
    [] tag = "optype" -> POpTypeDef(t, p)

\* Name Directives?  then Rest
\* SchemaDefinition : schema Directives? { OperationTypeDefinition+ }
PSchemaDef(t, p, dv) ==
  LET d == PDirs(t, p + 1, dv, "ts", <<>>) IN
  IF ~d.ok THEN d
  ELSE LET o == PSome(t, d.p, dv, "optype", "{", "}") IN
  IF o.ok THEN Ok(o.p, N("SchemaDefinition", "", p, o.p - 1, d.n \o o.n)) ELSE o

\* ScalarTypeDefinition : Description? scalar Name Directives?
PScalarDef(t, dp, p, dv) ==
  IF ~IsName(T(t, p + 1)) THEN Err(p + 1)
  ELSE LET d == PDirs(t, p + 2, dv, "ts", <<>>) IN
  IF d.ok THEN Ok(d.p, N("ScalarDefinition", "", Start(dp, p), d.p - 1, DescNode(t, dp) \o <<Leaf("Name", t, p + 1)>> \o d.n))
  ELSE d

\* ImplementsInterfaces : implements &? NamedType ( & NamedType )*
RECURSIVE PMoreNamed(_, _, _, _)
PMoreNamed(t, p, sep, acc) ==      \* p at a NamedType
  LET n == PNamed(t, p) IN
  IF ~n.ok THEN n
  ELSE IF T(t, n.p) = sep THEN PMoreNamed(t, n.p + 1, sep, Append(acc, n.n))
  ELSE Ok(n.p, Append(acc, n.n))

PImplements(t, p) ==
  IF T(t, p) # "implements" THEN Ok(p, <<>>)
  ELSE PMoreNamed(t, IF T(t, p + 1) = "&" THEN p + 2 ELSE p + 1, "&", <<>>)

\* ObjectTypeDefinition : Description? type Name ImplementsInterfaces? Directives? { FieldDefinition+ }
PObjectDef(t, dp, p, dv) ==
  IF ~IsName(T(t, p + 1)) THEN Err(p + 1)
  ELSE LET i == PImplements(t, p + 2) IN
  IF ~i.ok THEN i
  ELSE LET d == PDirs(t, i.p, dv, "ts", <<>>) IN
  IF ~d.ok THEN d
  ELSE LET f == PSomeTS(t, d.p, dv, "fdef") IN
  IF f.ok THEN Ok(f.p, N("ObjectDefinition", "", Start(dp, p), f.p - 1,
                         DescNode(t, dp) \o <<Leaf("Name", t, p + 1)>> \o i.n \o d.n \o f.n))
  ELSE f

\* Interface / Enum / InputObject : Description? keyword Name Directives? { Item+ }
PBlockDef(kind, tag, t, dp, p, dv) ==
  IF ~IsName(T(t, p + 1)) THEN Err(p + 1)
  ELSE LET d == PDirs(t, p + 2, dv, "ts", <<>>) IN
  IF ~d.ok THEN d
  ELSE LET f == PSomeTS(t, d.p, dv, tag) IN
  IF f.ok THEN Ok(f.p, N(kind, "", Start(dp, p), f.p - 1, DescNode(t, dp) \o <<Leaf("Name", t, p + 1)>> \o d.n \o f.n))
  ELSE f

\* UnionTypeDefinition : Description? union Name Directives? = NamedType ( | NamedType )*
PUnionDef(t, dp, p, dv) ==
  IF ~IsName(T(t, p + 1)) THEN Err(p + 1)
  ELSE LET d == PDirs(t, p + 2, dv, "ts", <<>>) IN
  IF ~d.ok THEN d
  ELSE IF T(t, d.p) # "=" THEN Err(d.p)
  ELSE LET m == PMoreNamed(t, d.p + 1, "|", <<>>) IN
  IF m.ok THEN Ok(m.p, N("UnionDefinition", "", Start(dp, p), m.p - 1,
                         DescNode(t, dp) \o <<Leaf("Name", t, p + 1)>> \o d.n \o m.n))
  ELSE m

\* TypeExtensionDefinition : extend ObjectTypeDefinition
PExtendDef(t, p, dv) ==
  IF IsStr(T(t, p + 1)) THEN ErrUn(p + 1, "description_after_extend")
  ELSE IF T(t, p + 1) # "type" THEN Err(p + 1)
  ELSE LET o == PObjectDef(t, 0, p + 1, dv) IN
  IF o.ok THEN Ok(o.p, N("TypeExtensionDefinition", "", p, o.p - 1, <<o.n>>)) ELSE o

\* DirectiveDefinition : directive @ Name ArgumentsDefinition? on Name ( | Name )*
RECURSIVE PMoreNames(_, _, _)
PMoreNames(t, p, acc) ==
  IF ~IsName(T(t, p)) THEN Err(p)
  ELSE IF T(t, p + 1) = "|" THEN PMoreNames(t, p + 2, Append(acc, Leaf("Name", t, p)))
  ELSE Ok(p + 1, Append(acc, Leaf("Name", t, p)))

PDirectiveDef(t, p, dv) ==
  IF T(t, p + 1) # "@" THEN Err(p + 1)
  ELSE IF ~IsName(T(t, p + 2)) THEN Err(p + 2)
  ELSE LET a == IF T(t, p + 3) = "(" THEN PSome(t, p + 3, dv, "ivdef", "(", ")") ELSE Ok(p + 3, <<>>) IN
  IF ~a.ok THEN a
  ELSE IF T(t, a.p) # "on" THEN Err(a.p)
  ELSE LET l == PMoreNames(t, a.p + 1, <<>>) IN
  IF l.ok THEN Ok(l.p, N("DirectiveDefinition", "", p, l.p - 1, <<Leaf("Name", t, p + 2)>> \o a.n \o l.n)) ELSE l

PTypeDef(t, dp, p, dv) ==
  LET k == T(t, p) IN
  CASE k = "scalar" -> PScalarDef(t, dp, p, dv)
    [] k = "type" -> PObjectDef(t, dp, p, dv)
    [] k = "interface" -> PBlockDef("InterfaceDefinition", "fdef", t, dp, p, dv)
    [] k = "union" -> PUnionDef(t, dp, p, dv)
    [] k = "enum" -> PBlockDef("EnumDefinition", "evdef", t, dp, p, dv)
    [] k = "input" -> PBlockDef("InputObjectDefinition", "ivdef", t, dp, p, dv)

PDefinition(t, p, dv) ==
  LET k == T(t, p) IN
  CASE k = "{" \/ k \in OpTypes -> POperation(t, p, dv)
    [] k = "fragment" -> PFragDef(t, p, dv)
    [] k = "schema" -> PSchemaDef(t, p, dv)
    [] k \in DescribedDefs -> PTypeDef(t, 0, p, dv)
    [] k = "extend" -> PExtendDef(t, p, dv)
    [] k = "directive" -> PDirectiveDef(t, p, dv)
    [] IsStr(k) ->
         \* a description: the one place where the grammar needs two tokens of look-ahead
         LET k2 == T(t, p + 1) IN
         IF k2 \in DescribedDefs THEN PTypeDef(t, p, p + 1, dv)
         ELSE IF k2 = "directive" THEN ErrUn(p + 1, "description_before_directive_definition")
         ELSE IF k2 \in OpTypes \cup {"fragment", "schema", "extend"} THEN [Err(p + 1) EXCEPT !.desc = p]
         ELSE Err(p + 1)
    [] OTHER -> Err(p)

RECURSIVE PDefs(_, _, _, _)
PDefs(t, p, dv, acc) ==
  IF p > Len(t) THEN Ok(p, acc)
  ELSE LET r == PDefinition(t, p, dv) IN
       IF r.ok THEN PDefs(t, r.p, dv, Append(acc, r.n)) ELSE r

\* Document : Definition+
Parse(t, dv) ==
  IF Len(t) = 0 /\ "D_C03_empty_document_accepted" \notin dv THEN
    [ok |-> FALSE, errTok |-> 1, ast |-> NoNode, open |-> 0, desc |-> 0, ty |-> FALSE, un |-> ""]
  ELSE LET r == PDefs(t, 1, dv, <<>>) IN
    IF r.ok THEN [ok |-> TRUE, errTok |-> 0, ast |-> N("Document", "", 1, Len(t), r.n), open |-> 0, desc |-> 0,
                  ty |-> FALSE, un |-> ""]
    ELSE [ok |-> FALSE, errTok |-> r.p, ast |-> NoNode, open |-> r.open, desc |-> r.desc, ty |-> r.ty, un |-> r.un]

\* ------------------------------------------------------------------ Lex then Parse
\* The first point where the text stops being a viable prefix: a parse error at one of the
\* tokens before a malformed lexeme wins, otherwise the malformed lexeme.
FrontOf(lx, dv) ==
  LET pr == Parse(KindsOf(lx.toks), dv) IN
  [ok |-> lx.ok /\ pr.ok, lexErr |-> ~lx.ok /\ (pr.ok \/ pr.errTok > Len(lx.toks)), pr |-> pr]

\* ------------------------------------------------------------------ Unspecified (DESIGN 4.2)
\* Inputs on which the editions disagree, or which the edition's own productions leave open.
\* Nothing is asserted about them except "no panic"; every vector carries the reason.
\*   number_followed_by_digit_name_or_dot   `01`, `1a`, `1.`, `1.5.`, `1e`: longest match of the
\*       lexical grammar yields a number token directly followed by a digit, a name start or
\*       `.`; later editions forbid this by look-ahead, the reference lexers report an error
\*   empty_list_in_type_system_definition   `type T {}`, `enum E {}`, `input I {}`, `interface I {}`
\*   description_before_directive_definition  `"d" directive @x on FIELD`
\*   description_after_extend               `extend "d" type T {f: Int}`
\*   enum_value_named_true_false_null       `enum E { true }`
\*   variable_in_type_system_directive      `type T @d(a: $v) {f: Int}`
\* Not expressible as an input class, therefore handled where the observation is compared:
\*   the column UNIT on lines with non-ASCII characters (LineCols offers byte, code point, UTF-16);
\*   whether the Document node's location includes leading / trailing ignored characters.
UnspecifiedReasons == {"number_followed_by_digit_name_or_dot", "empty_list_in_type_system_definition",
                       "description_before_directive_definition", "description_after_extend",
                       "enum_value_named_true_false_null", "variable_in_type_system_directive"}
\* of a token-kind string
UnspecifiedToks(t) == Parse(t, {}).un
\* of a text: lx = Lex(chars), fr = FrontOf(lx, {}); only lexemes the parser gets to see count
UnspecifiedText(lx, fr) ==
  LET n == Len(lx.toks)
      perr == ~fr.ok /\ ~fr.lexErr
      reach == IF perr /\ fr.pr.errTok <= n THEN fr.pr.errTok ELSE n IN
  IF \E i \in 1..reach : lx.toks[i].un THEN "number_followed_by_digit_name_or_dot"
  ELSE IF perr THEN fr.pr.un ELSE ""
Unspecified(chars) == LET lx == Lex(chars) IN UnspecifiedText(lx, FrontOf(lx, {})) # ""

\* ------------------------------------------------------------------ Print (token level)
\* Inverse of Parse on ASTs: the token-kind sequence the AST was built from.  Leaves carry
\* their token kind in v.
RECURSIVE PrintG(_, _), PrintAll(_, _, _)
PrintAll(ns, sep, L) ==
  IF Len(ns) = 0 THEN <<>>
  ELSE IF Len(ns) = 1 THEN PrintG(ns[1], L)
  ELSE PrintG(ns[1], L) \o sep \o PrintAll(Tail(ns), sep, L)

OfKind(ns, ks) == SelectSeq(ns, LAMBDA n : n.k \in ks)
ValueKinds == {"IntValue", "FloatValue", "StringValue", "BooleanValue", "EnumValue", "ListValue", "ObjectValue", "Variable"}
TypeKinds == {"Named", "List", "NonNull"}
Wrap(l, xs, r) == IF Len(xs) = 0 THEN <<>> ELSE l \o xs \o r
\* a leading StringValue child is the description
HasDesc(n) == Len(n.c) > 0 /\ n.c[1].k = "StringValue"
Body(n) == IF HasDesc(n) THEN Tail(n.c) ELSE n.c
DescToks(n, L) == IF HasDesc(n) THEN PrintG(n.c[1], L) ELSE <<>>
\* after the description and name: [type] [default value] directives
AfterName(n) == Tail(Body(n))

PrintG(n, L) ==
  LET c == n.c k == n.k
      dirs == PrintAll(OfKind(c, {"Directive"}), <<>>, L) IN
  CASE k \in {"Name", "IntValue", "FloatValue", "StringValue", "BooleanValue", "EnumValue"} ->
                    IF L THEN <<"<leaf>">> ELSE <<n.v>>
    [] k = "Document" -> PrintAll(c, <<>>, L)
    [] k = "Variable" -> <<"$">> \o PrintG(c[1], L)
    [] k = "Named" -> PrintG(c[1], L)
    [] k = "List" -> <<"[">> \o PrintG(c[1], L) \o <<"]">>
    [] k = "NonNull" -> PrintG(c[1], L) \o <<"!">>
    [] k = "ListValue" -> <<"[">> \o PrintAll(c, <<>>, L) \o <<"]">>
    [] k = "ObjectValue" -> <<"{">> \o PrintAll(c, <<>>, L) \o <<"}">>
    [] k \in {"ObjectField", "Argument"} -> PrintG(c[1], L) \o <<":">> \o PrintG(c[2], L)
    [] k = "Directive" -> <<"@">> \o PrintG(c[1], L) \o Wrap(<<"(">>, PrintAll(Tail(c), <<>>, L), <<")">>)
    [] k = "SelectionSet" -> <<"{">> \o PrintAll(c, <<>>, L) \o <<"}">>
    [] k = "Field" ->
         LET names == OfKind(c, {"Name"}) IN
         (IF Len(names) = 2 THEN PrintG(names[1], L) \o <<":">> \o PrintG(names[2], L) ELSE PrintG(names[1], L))
         \o Wrap(<<"(">>, PrintAll(OfKind(c, {"Argument"}), <<>>, L), <<")">>) \o dirs
         \o PrintAll(OfKind(c, {"SelectionSet"}), <<>>, L)
    [] k = "FragmentSpread" -> <<"...">> \o PrintG(c[1], L) \o dirs
    [] k = "InlineFragment" ->
         <<"...">> \o Wrap(<<"on">>, PrintAll(OfKind(c, {"Named"}), <<>>, L), <<>>) \o dirs
         \o PrintAll(OfKind(c, {"SelectionSet"}), <<>>, L)
    [] k = "OperationDefinition" ->
         \* an anonymous query without variables and directives prints in the short form
         IF Len(c) = 1 /\ n.v = "query" THEN PrintG(c[1], L)
         ELSE <<n.v>> \o PrintAll(OfKind(c, {"Name"}), <<>>, L)
              \o Wrap(<<"(">>, PrintAll(OfKind(c, {"VariableDefinition"}), <<>>, L), <<")">>) \o dirs
              \o PrintAll(OfKind(c, {"SelectionSet"}), <<>>, L)
    [] k = "VariableDefinition" ->
         PrintG(c[1], L) \o <<":">> \o PrintG(c[2], L) \o (IF Len(c) = 3 THEN <<"=">> \o PrintG(c[3], L) ELSE <<>>)
    [] k = "FragmentDefinition" ->
         <<"fragment">> \o PrintG(c[1], L) \o <<"on">> \o PrintG(c[2], L) \o dirs \o PrintAll(OfKind(c, {"SelectionSet"}), <<>>, L)
    [] k = "SchemaDefinition" ->
         <<"schema">> \o dirs \o <<"{">> \o PrintAll(OfKind(c, {"OperationTypeDefinition"}), <<>>, L) \o <<"}">>
    [] k = "OperationTypeDefinition" -> <<n.v, ":">> \o PrintG(c[1], L)
    [] k = "ScalarDefinition" -> DescToks(n, L) \o <<"scalar">> \o PrintG(Body(n)[1], L) \o dirs
    [] k = "ObjectDefinition" ->
         DescToks(n, L) \o <<"type">> \o PrintG(Body(n)[1], L)
         \o Wrap(<<"implements">>, PrintAll(OfKind(c, {"Named"}), <<"&">>, L), <<>>) \o dirs
         \o <<"{">> \o PrintAll(OfKind(c, {"FieldDefinition"}), <<>>, L) \o <<"}">>
    [] k = "InterfaceDefinition" ->
         DescToks(n, L) \o <<"interface">> \o PrintG(Body(n)[1], L) \o dirs
         \o <<"{">> \o PrintAll(OfKind(c, {"FieldDefinition"}), <<>>, L) \o <<"}">>
    [] k = "UnionDefinition" ->
         DescToks(n, L) \o <<"union">> \o PrintG(Body(n)[1], L) \o dirs \o <<"=">> \o PrintAll(OfKind(c, {"Named"}), <<"|">>, L)
    [] k = "EnumDefinition" ->
         DescToks(n, L) \o <<"enum">> \o PrintG(Body(n)[1], L) \o dirs
         \o <<"{">> \o PrintAll(OfKind(c, {"EnumValueDefinition"}), <<>>, L) \o <<"}">>
    [] k = "InputObjectDefinition" ->
         DescToks(n, L) \o <<"input">> \o PrintG(Body(n)[1], L) \o dirs
         \o <<"{">> \o PrintAll(OfKind(c, {"InputValueDefinition"}), <<>>, L) \o <<"}">>
    [] k = "EnumValueDefinition" -> DescToks(n, L) \o PrintG(Body(n)[1], L) \o dirs
    [] k = "FieldDefinition" ->
         DescToks(n, L) \o PrintG(Body(n)[1], L)
         \o Wrap(<<"(">>, PrintAll(OfKind(c, {"InputValueDefinition"}), <<>>, L), <<")">>)
         \o <<":">> \o PrintAll(OfKind(c, TypeKinds), <<>>, L) \o dirs
    [] k = "InputValueDefinition" ->
         DescToks(n, L) \o PrintG(Body(n)[1], L) \o <<":">> \o PrintAll(OfKind(c, TypeKinds), <<>>, L)
         \o Wrap(<<"=">>, PrintAll(OfKind(AfterName(n), ValueKinds), <<>>, L), <<>>) \o dirs
    [] k = "TypeExtensionDefinition" -> <<"extend">> \o PrintG(c[1], L)
    [] k = "DirectiveDefinition" ->
         <<"directive", "@">> \o PrintG(c[1], L)
         \o Wrap(<<"(">>, PrintAll(OfKind(c, {"InputValueDefinition"}), <<>>, L), <<")">>)
         \o <<"on">> \o PrintAll(OfKind(Tail(c), {"Name"}), <<"|">>, L)

\* the token-kind sequence of an AST; with L the leaves print as the marker "<leaf>"
PrintAst(n) == PrintG(n, FALSE)

\* structure of an AST with the token spans forgotten
RECURSIVE Shape(_)
Shape(n) == [k |-> n.k, v |-> n.v, c |-> [i \in 1..Len(n.c) |-> Shape(n.c[i])]]

\* in-model theorems (C08): printing is a right inverse of parsing, and stable
RoundTrips(a) ==
  LET r == Parse(PrintAst(a), {}) IN
  /\ r.ok
  /\ Shape(r.ast) = Shape(a)
  /\ PrintAst(r.ast) = PrintAst(a)

=============================================================================
