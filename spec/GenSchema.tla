------------------------------ MODULE GenSchema ------------------------------
(***************************************************************************)
(* Bounded generator of abstract schema CONFIGURATIONS (C10, C11).         *)
(*                                                                         *)
(* A configuration is what a user of the library writes down, not what the *)
(* library makes of it:                                                    *)
(*                                                                         *)
(*   [types  |-> [id -> TDef],      every type object that is constructed  *)
(*    query, mutation, subscription  ids of the root objects ("" = nil)    *)
(*    supplied |-> <<id>>           SchemaConfig.Types, in order           *)
(*    appended |-> <<id>>           Schema.AppendType calls, in order      *)
(*    dirs   |-> <<DirDef>>]        SchemaConfig.Directives (<<>> = unset) *)
(*                                                                         *)
(*   TDef  [name, kind, desc, fields, ifaces, members, values, inputs,     *)
(*          thF, thI, thM]      th* = supplied as a thunk (function)       *)
(*   Field [name, type, args, dep, desc, nil]   dep = deprecation reason   *)
(*   Arg   [name, type, hasDef, def, desc, nil] (also input fields)        *)
(*   EnumV [name, internal, ik, dep, desc, nil] internal value token, ik = *)
(*          "int" | "str": the Go kind of the internal value               *)
(*   type references [w, n]: n is the ID of a constructed type, a built-in *)
(*   scalar, or "nil"; `name` is the GraphQL name given to the constructor *)
(*   (= id unless a defect renames it, so two ids can carry one name).     *)
(*   Internal values: IntV FloatV StrV BoolV ListV ObjV of GQLBase plus    *)
(*   [k |-> "eint", v |-> token] and [k |-> "cu", v |-> string].           *)
(*                                                                         *)
(* The machine walks a fixed list of SITES once.  At every site it either  *)
(* keeps the base configuration or applies one of the site's alternatives  *)
(* (one "edit"), at most MaxEdits in total; an alternative is enabled only  *)
(* while nothing it overwrites has been edited (Res), so every             *)
(* configuration is reached by exactly one behaviour.  The state holds the *)
(* list of edits only; the configuration Cfg = the base with the edits     *)
(* applied is computed in complete states.  Sites whose id starts with     *)
(* "d." are DEFECT INJECTIONS (C11); the others keep the configuration     *)
(* valid (C10 enables only those).                                         *)
(***************************************************************************)
EXTENDS GQLBase, TLC

CONSTANTS MaxEdits,   \* maximal number of edited sites
          SiteIds     \* the sites enabled in this family

\* ------------------------------------------------------------ constructors
TDef(nm, kind) == [name |-> nm, kind |-> kind, desc |-> "", fields |-> <<>>, ifaces |-> <<>>,
                   members |-> <<>>, values |-> <<>>, inputs |-> <<>>,
                   thF |-> FALSE, thI |-> FALSE, thM |-> FALSE]
Fd(n, t)        == [name |-> n, type |-> t, args |-> <<>>, dep |-> "", desc |-> "", nil |-> FALSE]
FdA(n, t, args) == [Fd(n, t) EXCEPT !.args = args]
Ar(n, t)        == [name |-> n, type |-> t, hasDef |-> FALSE, def |-> NullV, desc |-> "", nil |-> FALSE]
ArD(n, t, d)    == [name |-> n, type |-> t, hasDef |-> TRUE, def |-> d, desc |-> "", nil |-> FALSE]
Ev(n, ik, iv)   == [name |-> n, internal |-> iv, ik |-> ik, dep |-> "", desc |-> "", nil |-> FALSE]
\* an enum's internal value: token and Go kind (two values of one enum may print alike, 1 and "1")
EI(tok)  == [k |-> "eint", v |-> tok, n |-> IF tok \in {"0", "1"} THEN "int" ELSE "str"]
EIs(tok) == [k |-> "eint", v |-> tok, n |-> "str"]
CuV(s)   == [k |-> "cu", v |-> s]
N(n)     == TNamed(n)
OF(n, v) == [n |-> n, v |-> v]

\* ------------------------------------------------------------------- base
(*  type Q { i:I u:U a:A! e:E cu:Cu t:Int g(x:Int):Int                     *)
(*           f(in:In, in2:[In2!], en:F):Int old:Int @deprecated("gone")    *)
(*           h(in3:In3):Boolean }                                          *)
(*  interface I { x(a:Int=7):String }      interface J { y(k:In4):I }      *)
(*  type A implements I { x(a:Int=7):String s:A l:[[A!]]! }                *)
(*  type B implements I { x(a:Int=7, o:Boolean):String u:U }               *)
(*  type C implements I & J { x(a:Int=7):String y(k:In4):A d:D }  (extra)  *)
(*  type D { g:G n:Int! }  union V = C | D   enum G { X }     (extra)      *)
(*  type K implements I { x(a:Int=7):String }                 (extra)      *)
(*  union U = A | B                                                        *)
(*  enum E { ZERO(=0) ONE(=1, deprecated "old") }                          *)
(*  enum F { RED(="RED") GREEN(="green") }                                 *)
(*  input In { a:Int=1 b:[E!] c:In }   input In2 { f:F n:In }              *)
(*  input In3 { k:Int }   input In4 { z:ID! } (extra)                      *)
(*  scalar Cu   scalar Cu2 (extra)   type M { m(x:Int!):Int }  type S {s}  *)
IX == FdA("x", N("String"), << ArD("a", N("Int"), IntV("7")) >>)
JY(t) == FdA("y", t, << Ar("k", N("In4")) >>)     \* In4 is referenced by this argument only

BaseTypes ==
  [ Q |-> [TDef("Q", "OBJECT") EXCEPT !.fields =
             << Fd("i", N("I")), Fd("u", N("U")), Fd("a", TNN(N("A"))), Fd("e", N("E")), Fd("cu", N("Cu")),
                Fd("t", N("Int")),
                FdA("g", N("Int"), << Ar("x", N("Int")) >>),
                FdA("f", N("Int"), << Ar("in", N("In")), Ar("in2", TList(TNN(N("In2")))), Ar("en", N("F")) >>),
                [Fd("old", N("Int")) EXCEPT !.dep = "gone"],
                FdA("h", N("Boolean"), << Ar("in3", N("In3")) >>) >>],
    I |-> [TDef("I", "INTERFACE") EXCEPT !.fields = << IX >>],
    J |-> [TDef("J", "INTERFACE") EXCEPT !.fields = << JY(N("I")) >>],
    A |-> [TDef("A", "OBJECT") EXCEPT !.ifaces = <<"I">>,
             !.fields = << IX, Fd("s", N("A")), Fd("l", TNN(TList(TList(TNN(N("A")))))) >>],
    B |-> [TDef("B", "OBJECT") EXCEPT !.ifaces = <<"I">>,
             !.fields = << FdA("x", N("String"), << ArD("a", N("Int"), IntV("7")), Ar("o", N("Boolean")) >>),
                           Fd("u", N("U")) >>],
    C |-> [TDef("C", "OBJECT") EXCEPT !.ifaces = <<"I", "J">>,
             !.fields = << IX, JY(N("A")), Fd("d", N("D")) >>],
    D |-> [TDef("D", "OBJECT") EXCEPT !.fields = << Fd("g", N("G")), Fd("n", TNN(N("Int"))) >>],
    K |-> [TDef("K", "OBJECT") EXCEPT !.ifaces = <<"I">>, !.fields = << IX >>],
    U |-> [TDef("U", "UNION") EXCEPT !.members = <<"A", "B">>],
    V |-> [TDef("V", "UNION") EXCEPT !.members = <<"C", "D">>],
    E |-> [TDef("E", "ENUM") EXCEPT !.values = << Ev("ZERO", "int", "0"), [Ev("ONE", "int", "1") EXCEPT !.dep = "old"],
                                                  Ev("UNO", "str", "1") >>],   \* prints like ONE's internal value
    F |-> [TDef("F", "ENUM") EXCEPT !.values = << Ev("RED", "str", "RED"), Ev("GREEN", "str", "green") >>],
    G |-> [TDef("G", "ENUM") EXCEPT !.values = << Ev("X", "str", "X") >>],
    In |-> [TDef("In", "INPUT_OBJECT") EXCEPT !.inputs =
             << ArD("a", N("Int"), IntV("1")), Ar("b", TList(TNN(N("E")))), Ar("c", N("In")) >>],
    In2 |-> [TDef("In2", "INPUT_OBJECT") EXCEPT !.inputs = << Ar("f", N("F")), Ar("n", N("In")) >>],
    In3 |-> [TDef("In3", "INPUT_OBJECT") EXCEPT !.inputs = << Ar("k", N("Int")) >>],
    In4 |-> [TDef("In4", "INPUT_OBJECT") EXCEPT !.inputs = << Ar("z", TNN(N("ID"))) >>],
    Cu |-> TDef("Cu", "SCALAR"),
    Cu2 |-> TDef("Cu2", "SCALAR"),
    M |-> [TDef("M", "OBJECT") EXCEPT !.fields = << FdA("m", N("Int"), << Ar("x", TNN(N("Int"))) >>) >>],
    S |-> [TDef("S", "OBJECT") EXCEPT !.fields = << Fd("s", N("Int")) >>] ]

Base == [types |-> BaseTypes, query |-> "Q", mutation |-> "", subscription |-> "",
         supplied |-> <<>>, appended |-> <<>>, dirs |-> <<>>]

\* positions of the slots inside the base
QT == 6      \* Q.fields[QT]            = t        (output slot)
QG == 7      \* Q.fields[QG].args[1]    = g(x)     (argument slot)
\* In3.inputs[1] = k                               (input-field slot)

\* --------------------------------------------------------------- wrappers
RECURSIVE WLab(_)
WLab(w) == IF w = <<>> THEN "" ELSE (IF Head(w) = "NN" THEN "N" ELSE "L") \o WLab(Tail(w))

\* every wrapper of depth <= 3 (no non-null of non-null) and one of depth 5
Wrap3 == { <<>>, <<"NN">>, <<"L">>, <<"NN", "L">>, <<"L", "NN">>, <<"L", "L">>,
           <<"NN", "L", "NN">>, <<"NN", "L", "L">>, <<"L", "NN", "L">>, <<"L", "L", "NN">>, <<"L", "L", "L">> }
WrapDeep == { <<"NN", "L", "NN", "L", "NN">> }
WrapFew == { <<"NN">>, <<"L", "NN">>, <<"NN", "L", "L">> }

TR(w, n) == [w |-> w, n |-> n]

OutAlts ==
  { [lab |-> WLab(w) \o "Int", type |-> TR(w, "Int")] : w \in (Wrap3 \cup WrapDeep) \ {<<>>} }
  \cup { [lab |-> WLab(w) \o n, type |-> TR(w, n)] : w \in WrapFew \cup {<<>>}, n \in {"E", "A", "I", "U", "Cu", "D", "V"} }

ArgAlt(lab, t, hasDef, d) == [lab |-> lab, type |-> t, hasDef |-> hasDef, def |-> d]
AD(lab, t, d) == ArgAlt(lab, t, TRUE, d)
AN(lab, t)    == ArgAlt(lab, t, FALSE, NullV)

InA1 == ObjV(<< OF("a", IntV("1")) >>)
InA2 == ObjV(<< OF("a", IntV("2")), OF("b", ListV(<< EI("0") >>)) >>)
InNest == ObjV(<< OF("a", IntV("1")), OF("c", InA1) >>)

ArgAlts ==
  { AD("Int=7", N("Int"), IntV("7")), AD("Int=0", N("Int"), IntV("0")), AN("Int!", TNN(N("Int"))),
    AD("LInt=[1,2]", TList(N("Int")), ListV(<< IntV("1"), IntV("2") >>)),
    AD("LInt=[]", TList(N("Int")), ListV(<<>>)),
    AD("NLNInt=[3]", TNN(TList(TNN(N("Int")))), ListV(<< IntV("3") >>)),
    AD("LLInt=[[1],[2,3]]", TList(TList(N("Int"))), ListV(<< ListV(<< IntV("1") >>), ListV(<< IntV("2"), IntV("3") >>) >>)),
    AD("Float=1.5", N("Float"), FloatV("1.5")), AD("Float=2", N("Float"), FloatV("2")),
    AD("Float=2500000", N("Float"), FloatV("2500000")),   \* a whole float Go prints with an exponent
    AD("Float=max32", N("Float"), FloatV("max32")),
    AD("String=ab", N("String"), StrV("a b")), AD("String=empty", N("String"), StrV("")),
    AD("Boolean=false", N("Boolean"), BoolV(FALSE)), AD("Boolean=true", N("Boolean"), BoolV(TRUE)),
    AD("ID=x1", N("ID"), StrV("x1")),
    AD("E=ZERO", N("E"), EI("0")), AD("NE=ONE", TNN(N("E")), EI("1")), AD("E=UNO", N("E"), EIs("1")),
    AD("LE=[UNO,ONE]", TList(N("E")), ListV(<< EIs("1"), EI("1") >>)),
    AD("LE=[ZERO,ONE]", TList(N("E")), ListV(<< EI("0"), EI("1") >>)),
    AD("F=RED", N("F"), EI("RED")), AD("F=GREEN", N("F"), EI("green")),
    AD("Cu=x", N("Cu"), CuV("x")),
    AD("In={a:1}", N("In"), InA1), AD("In={a:2,b:[ZERO]}", N("In"), InA2), AD("In=nested", N("In"), InNest),
    AD("LIn=[{a:2..}]", TList(N("In")), ListV(<< InA2 >>)),
    AD("In2={f:GREEN,n:{a:1}}", N("In2"), ObjV(<< OF("f", EI("green")), OF("n", InA1) >>)),
    AN("In!", TNN(N("In"))), AN("LNIn2", TList(TNN(N("In2")))), AN("E", N("E")), AN("Cu", N("Cu")),
    AN("In4", N("In4")), AN("Cu2", N("Cu2")), AN("LLNG", TList(TList(TNN(N("G")))))
  }

InputAlts ==
  { AD("Int=5", N("Int"), IntV("5")), AD("LNInt=[1]", TList(TNN(N("Int"))), ListV(<< IntV("1") >>)),
    AD("E=ONE", N("E"), EI("1")), AD("F=RED", N("F"), EI("RED")), AD("In={a:1}", N("In"), InA1),
    AD("Cu=x", N("Cu"), CuV("x")), AD("Boolean=false", N("Boolean"), BoolV(FALSE)),
    AN("String!", TNN(N("String"))), AN("LLIn", TList(TList(N("In")))), AN("In3", N("In3")), AN("In4", N("In4")) }

CustomDir == [name |-> "my", std |-> FALSE, desc |-> "custom directive", locs |-> <<"FIELD", "QUERY">>,
              args |-> << ArD("n", N("Int"), IntV("1")), Ar("flag", TNN(N("Boolean"))), ArD("e", N("E"), EI("1")) >>]
StdDir(n) == [name |-> n, std |-> TRUE, desc |-> "", locs |-> <<>>, args |-> <<>>]

L(lab) == [lab |-> lab]

\* ------------------------------------------------------------------ sites
SiteOrder ==
  << "mut", "sub", "xC", "xD", "xK", "xV", "xG", "xJ", "xIn4", "xCu2",
     "Q.t", "Q.g.x", "In3.k",
     "dep.Q.old", "dep.E.ONE", "dep.I.x", "dep.A.x", "dep.F.RED", "dep.Q.i",
     "th.Q", "th.A", "th.A.i", "th.I", "th.In", "th.U", "th.C",
     "desc.A", "desc.Q.old", "desc.Q.g.x", "desc.E.ONE", "desc.In.a", "desc.U",
     "dirs", "U.members", "B.ifaces",
     "d.dup", "d.name", "d.member", "d.empty", "d.nil", "d.impl", "d.nnnn", "d.io", "d.root" >>

DefectSites == {"d.dup", "d.name", "d.member", "d.empty", "d.nil", "d.impl", "d.nnnn", "d.io", "d.root"}
ValidSites == { SiteOrder[i] : i \in 1..Len(SiteOrder) } \ DefectSites

BadNames == {"1a", "a-b", "", "__x"}

WrongIX(args) == FdA("x", N("String"), args)

ImplAlts(x) ==   \* replacements for field 1 (= x) of implementer `x` of interface I (and for C.y of J)
  { [lab |-> x \o ".missing", x |-> x, fi |-> 1, fld |-> Fd("z", N("String"))],
    [lab |-> x \o ".wrongtype", x |-> x, fi |-> 1, fld |-> FdA("x", N("Int"), << ArD("a", N("Int"), IntV("7")) >>)],
    [lab |-> x \o ".listmismatch", x |-> x, fi |-> 1, fld |-> FdA("x", TList(N("String")), << ArD("a", N("Int"), IntV("7")) >>)],
    [lab |-> x \o ".cov-nn(valid)", x |-> x, fi |-> 1, fld |-> FdA("x", TNN(N("String")), << ArD("a", N("Int"), IntV("7")) >>)],
    [lab |-> x \o ".argtype", x |-> x, fi |-> 1, fld |-> WrongIX(<< Ar("a", N("String")) >>)],
    [lab |-> x \o ".argnn", x |-> x, fi |-> 1, fld |-> WrongIX(<< Ar("a", TNN(N("Int"))) >>)],
    [lab |-> x \o ".arglist", x |-> x, fi |-> 1, fld |-> WrongIX(<< Ar("a", TList(N("Int"))) >>)],
    [lab |-> x \o ".argmissing", x |-> x, fi |-> 1, fld |-> WrongIX(<<>>)],
    [lab |-> x \o ".extra-required", x |-> x, fi |-> 1,
       fld |-> WrongIX(<< ArD("a", N("Int"), IntV("7")), Ar("r", TNN(N("Int"))) >>)],
    [lab |-> x \o ".extra-optional(valid)", x |-> x, fi |-> 1,
       fld |-> WrongIX(<< ArD("a", N("Int"), IntV("7")), Ar("r", N("Int")) >>)] }

Alts(s) ==
  CASE s = "mut" -> { L("M") }
    [] s = "sub" -> { L("S") }
    [] s \in {"xC", "xD", "xK", "xV", "xG", "xJ", "xIn4", "xCu2"} -> { L("sup"), L("app") }
    [] s = "Q.t" -> OutAlts
    [] s = "Q.g.x" -> ArgAlts
    [] s = "In3.k" -> InputAlts
    [] s = "dep.Q.old" -> { [lab |-> "none", r |-> ""], [lab |-> "other", r |-> "use t"] }
    [] s = "dep.E.ONE" -> { [lab |-> "none", r |-> ""] }
    [] s \in {"dep.I.x", "dep.A.x", "dep.F.RED", "dep.Q.i"} -> { [lab |-> "dep", r |-> "why " \o s] }
    [] s \in {"th.Q", "th.A", "th.A.i", "th.I", "th.In", "th.U", "th.C"} -> { L("thunk") }
    [] s \in {"desc.A", "desc.Q.old", "desc.Q.g.x", "desc.E.ONE", "desc.In.a", "desc.U"} -> { L("text") }
    [] s = "dirs" -> { L("plus"), L("only") }
    [] s = "U.members" -> { [lab |-> "BA", m |-> <<"B", "A">>], [lab |-> "A", m |-> <<"A">>],
                            [lab |-> "ABD", m |-> <<"A", "B", "D">>] }
    [] s = "B.ifaces" -> { [lab |-> "none", m |-> <<>>] }
    \* ---------------------------------------------------- defect injection
    [] s = "d.dup" ->
         { [lab |-> x[1] \o " as " \o x[2], x |-> x[1], as |-> x[2]] :
             x \in { <<"A", "E">>, <<"In", "A">>, <<"Cu", "I">>, <<"E", "U">>, <<"B", "A">>, <<"A", "String">>,
                     <<"A", "__Type">>, <<"C", "A">>, <<"In3", "In">>, <<"G", "E">>, <<"Cu2", "Int">>, <<"J", "I">>,
                     <<"M", "Q">>, <<"D", "B">> } }
    [] s = "d.name" ->
         { [lab |-> x \o " named '" \o nm \o "'", x |-> x, as |-> nm] :
             x \in {"A", "I", "U", "E", "In", "Cu", "Q", "C", "S", "M"}, nm \in BadNames }   \* S, M: the other two roots
    [] s = "d.member" ->
         { [lab |-> k \o " named '" \o nm \o "'", k |-> k, nm |-> nm] :
             k \in {"field", "ifield", "arg", "value", "input"}, nm \in BadNames }
    [] s = "d.empty" -> { L("A"), L("I"), L("In3"), L("In"), L("E"), L("U"), L("C"), L("Q") }
    [] s = "d.nil" -> { L("U.member"), L("A.iface"), L("C.iface"), L("supplied"), L("supplied-first"), L("appended"),
                        L("field.type"), L("arg.type"), L("input.type"),
                        L("field"), L("arg"), L("value"), L("input") }
    [] s = "d.impl" -> ImplAlts("A") \cup ImplAlts("C")
                        \cup { [lab |-> "C.y:D", x |-> "C", fi |-> 2, fld |-> JY(N("D"))],
                               [lab |-> "C.y:[A]", x |-> "C", fi |-> 2, fld |-> JY(TList(N("A")))],
                               [lab |-> "C.y:I(valid)", x |-> "C", fi |-> 2, fld |-> JY(N("I"))],
                               [lab |-> "C.y:K(valid)", x |-> "C", fi |-> 2, fld |-> JY(N("K"))],
                               [lab |-> "C.y(no k)", x |-> "C", fi |-> 2, fld |-> Fd("y", N("A"))],
                               [lab |-> "C.y missing", x |-> "C", fi |-> 2, fld |-> Fd("w", N("A"))],
                               \* the interface field takes NO arguments (I.x and every implementer's x lose theirs);
                               \* A.x then adds one of its own, required or optional
                               [lab |-> "A.argless-extra-required", x |-> "A", fi |-> 1, argless |-> TRUE,
                                fld |-> FdA("x", N("String"), << Ar("r", TNN(N("Int"))) >>)],
                               [lab |-> "A.argless-extra-optional(valid)", x |-> "A", fi |-> 1, argless |-> TRUE,
                                fld |-> FdA("x", N("String"), << Ar("r", N("Int")) >>)] }
    [] s = "d.nnnn" -> { [lab |-> p \o ":" \o WLab(w), p |-> p, w |-> w] :
                           p \in {"field", "arg", "input"},
                           w \in { <<"NN", "NN">>, <<"L", "NN", "NN">>, <<"NN", "L", "NN", "NN">> } }
    [] s = "d.io" -> { [lab |-> "field:In", p |-> "field", type |-> N("In")],
                       [lab |-> "field:[In!]", p |-> "field", type |-> TList(TNN(N("In")))],
                       [lab |-> "arg:A", p |-> "arg", type |-> N("A")],
                       [lab |-> "arg:I", p |-> "arg", type |-> N("I")],
                       [lab |-> "arg:U", p |-> "arg", type |-> N("U")],
                       [lab |-> "arg:[A!]", p |-> "arg", type |-> TList(TNN(N("A")))],
                       [lab |-> "input:A", p |-> "input", type |-> N("A")],
                       [lab |-> "input:[U]", p |-> "input", type |-> TList(N("U"))] }
    [] s = "d.root" -> { L("noquery"), L("noquery+mutation"), L("mutation=query") }

ExtraId(s) == CASE s = "xC" -> "C" [] s = "xD" -> "D" [] s = "xK" -> "K" [] s = "xV" -> "V" [] s = "xG" -> "G" [] s = "xJ" -> "J"
                [] s = "xIn4" -> "In4" [] s = "xCu2" -> "Cu2"

SetFieldDep(c, tn, fi, r) == [c EXCEPT !.types[tn].fields[fi].dep = r]

Apply(c, s, a) ==
  CASE s = "mut" -> [c EXCEPT !.mutation = "M"]
    [] s = "sub" -> [c EXCEPT !.subscription = "S"]
    [] s \in {"xC", "xD", "xK", "xV", "xG", "xJ", "xIn4", "xCu2"} ->
         IF a.lab = "sup" THEN [c EXCEPT !.supplied = Append(@, ExtraId(s))]
         ELSE [c EXCEPT !.appended = Append(@, ExtraId(s))]
    [] s = "Q.t" -> [c EXCEPT !.types["Q"].fields[QT].type = a.type]
    [] s = "Q.g.x" -> [c EXCEPT !.types["Q"].fields[QG].args[1] =
                         [@ EXCEPT !.type = a.type, !.hasDef = a.hasDef, !.def = a.def]]
    [] s = "In3.k" -> [c EXCEPT !.types["In3"].inputs[1] =
                         [@ EXCEPT !.type = a.type, !.hasDef = a.hasDef, !.def = a.def]]
    [] s = "dep.Q.old" -> SetFieldDep(c, "Q", 9, a.r)
    [] s = "dep.Q.i" -> SetFieldDep(c, "Q", 1, a.r)
    [] s = "dep.I.x" -> SetFieldDep(c, "I", 1, a.r)
    [] s = "dep.A.x" -> SetFieldDep(c, "A", 1, a.r)
    [] s = "dep.E.ONE" -> [c EXCEPT !.types["E"].values[2].dep = a.r]
    [] s = "dep.F.RED" -> [c EXCEPT !.types["F"].values[1].dep = a.r]
    [] s = "th.Q" -> [c EXCEPT !.types["Q"].thF = TRUE]
    [] s = "th.A" -> [c EXCEPT !.types["A"].thF = TRUE]
    [] s = "th.A.i" -> [c EXCEPT !.types["A"].thI = TRUE]
    [] s = "th.I" -> [c EXCEPT !.types["I"].thF = TRUE]
    [] s = "th.In" -> [c EXCEPT !.types["In"].thF = TRUE]
    [] s = "th.U" -> [c EXCEPT !.types["U"].thM = TRUE]
    [] s = "th.C" -> [c EXCEPT !.types["C"].thF = TRUE, !.types["C"].thI = TRUE, !.types["V"].thM = TRUE]
    [] s = "desc.A" -> [c EXCEPT !.types["A"].desc = "about A"]
    [] s = "desc.U" -> [c EXCEPT !.types["U"].desc = "about U"]
    [] s = "desc.Q.old" -> [c EXCEPT !.types["Q"].fields[9].desc = "about old"]
    [] s = "desc.Q.g.x" -> [c EXCEPT !.types["Q"].fields[QG].args[1].desc = "about x"]
    [] s = "desc.E.ONE" -> [c EXCEPT !.types["E"].values[2].desc = "about ONE"]
    [] s = "desc.In.a" -> [c EXCEPT !.types["In"].inputs[1].desc = "about a"]
    [] s = "dirs" -> IF a.lab = "plus"
                     THEN [c EXCEPT !.dirs = << StdDir("include"), StdDir("skip"), StdDir("deprecated"), CustomDir >>]
                     ELSE [c EXCEPT !.dirs = << CustomDir >>]
    [] s = "U.members" -> [c EXCEPT !.types["U"].members = a.m]
    [] s = "B.ifaces" -> [c EXCEPT !.types["B"].ifaces = a.m]
    \* ---------------------------------------------------- defect injection
    [] s \in {"d.dup", "d.name"} -> [c EXCEPT !.types[a.x].name = a.as]
    [] s = "d.member" ->
         (CASE a.k = "field"  -> [c EXCEPT !.types["A"].fields[2].name = a.nm]
           [] a.k = "ifield" -> [c EXCEPT !.types["J"].fields[1].name = a.nm]
           [] a.k = "arg"    -> [c EXCEPT !.types["Q"].fields[QG].args[1].name = a.nm]
           [] a.k = "value"  -> [c EXCEPT !.types["E"].values[1].name = a.nm]
           [] a.k = "input"  -> [c EXCEPT !.types["In"].inputs[2].name = a.nm])
    [] s = "d.empty" ->
         (CASE a.lab \in {"A", "I", "C", "Q"} -> [c EXCEPT !.types[a.lab].fields = <<>>]
           [] a.lab \in {"In", "In3"} -> [c EXCEPT !.types[a.lab].inputs = <<>>]
           [] a.lab = "E" -> [c EXCEPT !.types["E"].values = <<>>]
           [] a.lab = "U" -> [c EXCEPT !.types["U"].members = <<>>])
    [] s = "d.nil" ->
         (CASE a.lab = "U.member" -> [c EXCEPT !.types["U"].members = <<"A", "nil">>]
           [] a.lab = "A.iface" -> [c EXCEPT !.types["A"].ifaces = <<"I", "nil">>]
           [] a.lab = "C.iface" -> [c EXCEPT !.types["C"].ifaces = <<"nil", "I", "J">>]
           [] a.lab = "supplied" -> [c EXCEPT !.supplied = Append(@, "nil")]
           [] a.lab = "supplied-first" -> [c EXCEPT !.supplied = <<"nil">> \o @]
           [] a.lab = "appended" -> [c EXCEPT !.appended = Append(@, "nil")]
           [] a.lab = "field.type" -> [c EXCEPT !.types["Q"].fields[QT].type = N("nil")]
           [] a.lab = "arg.type" -> [c EXCEPT !.types["Q"].fields[QG].args[1].type = N("nil")]
           [] a.lab = "input.type" -> [c EXCEPT !.types["In3"].inputs[1].type = N("nil")]
           [] a.lab = "field" -> [c EXCEPT !.types["Q"].fields[QT].nil = TRUE]
           [] a.lab = "arg" -> [c EXCEPT !.types["Q"].fields[QG].args[1].nil = TRUE]
           [] a.lab = "value" -> [c EXCEPT !.types["E"].values[1].nil = TRUE]
           [] a.lab = "input" -> [c EXCEPT !.types["In3"].inputs[1].nil = TRUE])
    [] s = "d.impl" ->
         IF "argless" \in DOMAIN a
         THEN [c EXCEPT !.types["I"].fields[1] = Fd("x", N("String")), !.types["B"].fields[1] = Fd("x", N("String")),
                        !.types["C"].fields[1] = Fd("x", N("String")), !.types["K"].fields[1] = Fd("x", N("String")),
                        !.types[a.x].fields[a.fi] = a.fld]
         ELSE [c EXCEPT !.types[a.x].fields[a.fi] = a.fld]
    [] s = "d.nnnn" ->
         (CASE a.p = "field" -> [c EXCEPT !.types["Q"].fields[QT].type = TR(a.w, "Int")]
           [] a.p = "arg"   -> [c EXCEPT !.types["Q"].fields[QG].args[1].type = TR(a.w, "Int")]
           [] a.p = "input" -> [c EXCEPT !.types["In3"].inputs[1].type = TR(a.w, "Int")])
    [] s = "d.io" ->
         (CASE a.p = "field" -> [c EXCEPT !.types["Q"].fields[QT].type = a.type]
           [] a.p = "arg"   -> [c EXCEPT !.types["Q"].fields[QG].args[1].type = a.type]
           [] a.p = "input" -> [c EXCEPT !.types["In3"].inputs[1].type = a.type])
    [] s = "d.root" ->
         (CASE a.lab = "noquery" -> [c EXCEPT !.query = ""]
           [] a.lab = "noquery+mutation" -> [c EXCEPT !.query = "", !.mutation = "M"]
           [] a.lab = "mutation=query" -> [c EXCEPT !.mutation = "Q"])

\* ------------------------------------------------------------- resources
\* What an alternative overwrites.  An alternative is enabled only while none of its
\* resources has been edited, so a later edit never voids an earlier one and every
\* configuration is reached by exactly one behaviour.
Res(s, a) ==
  CASE s = "mut" -> {"mut"}
    [] s = "Q.t" -> {"Q.t"}
    [] s = "Q.g.x" -> {"Q.g.x"}
    [] s = "In3.k" -> {"In3.k"}
    [] s = "dep.Q.old" -> {"Q.old.dep"}
    [] s = "desc.Q.old" -> {"Q.old.desc"}
    [] s = "dep.Q.i" -> {"Q.i"}
    [] s = "dep.I.x" -> {"I.x"}
    [] s = "dep.A.x" -> {"A.x"}
    [] s = "dep.E.ONE" -> {"E.ONE.dep"}
    [] s = "desc.E.ONE" -> {"E.ONE.desc"}
    [] s = "desc.In.a" -> {"In.a"}
    [] s = "desc.Q.g.x" -> {"Q.g.x.desc"}
    [] s = "U.members" -> {"U.m"}
    [] s \in {"d.dup", "d.name"} -> {"name." \o a.x}
    [] s = "d.member" ->
         (CASE a.k = "field" -> {"A.f2"} [] a.k = "ifield" -> {"J.y"} [] a.k = "arg" -> {"Q.g.x.name"}
           [] a.k = "value" -> {"E.ZERO"} [] a.k = "input" -> {"In.b"})
    [] s = "d.empty" ->
         (CASE a.lab = "A" -> {"A.x", "A.f2"} [] a.lab = "I" -> {"I.x"} [] a.lab = "C" -> {"C.f"}
           [] a.lab = "Q" -> {"Q.t", "Q.g.x", "Q.g.x.desc", "Q.g.x.name", "Q.old.dep", "Q.old.desc", "Q.i"}
           [] a.lab = "In" -> {"In.a", "In.b"} [] a.lab = "In3" -> {"In3.k"}
           [] a.lab = "E" -> {"E.ONE.dep", "E.ONE.desc", "E.ZERO"} [] a.lab = "U" -> {"U.m"})
    [] s = "d.nil" ->
         (CASE a.lab = "U.member" -> {"U.m"}
           [] a.lab \in {"field.type", "field"} -> {"Q.t"}
           [] a.lab \in {"arg.type", "arg"} -> {"Q.g.x"}
           [] a.lab \in {"input.type", "input"} -> {"In3.k"}
           [] a.lab = "value" -> {"E.ZERO"}
           [] OTHER -> {})
    [] s = "d.impl" -> IF a.x = "A" THEN {"A.x"} ELSE {"C.f"}
    [] s \in {"d.nnnn", "d.io"} ->
         (CASE a.p = "field" -> {"Q.t"} [] a.p = "arg" -> {"Q.g.x"} [] a.p = "input" -> {"In3.k"})
    [] s = "d.root" -> IF a.lab = "noquery" THEN {} ELSE {"mut"}
    [] OTHER -> {}

\* ---------------------------------------------------------------- machine
\* The state holds only the list of edits (site + alternative); the configuration is the
\* base with the edits applied and is computed in complete states only.
VARIABLES pos,    \* number of sites walked
          eds,    \* the edits applied, <<[s |-> site, a |-> alternative]>>
          used    \* resources overwritten so far (a function of eds)

gvars == <<pos, eds, used>>

ActiveSites == SelectSeq(SiteOrder, LAMBDA s : s \in SiteIds)

RECURSIVE ApplyAll(_,_)
ApplyAll(c, es) == IF es = <<>> THEN c ELSE ApplyAll(Apply(c, Head(es).s, Head(es).a), Tail(es))

Cfg == ApplyAll(Base, eds)

\* the edits as labels, for the vectors
EdLabels == [i \in 1..Len(eds) |-> [s |-> eds[i].s, a |-> eds[i].a.lab]]

GInit == pos = 0 /\ eds = <<>> /\ used = {}

GStep ==
  /\ pos < Len(ActiveSites)
  /\ pos' = pos + 1
  /\ LET s == ActiveSites[pos + 1] IN
       \/ UNCHANGED <<eds, used>>
       \/ /\ Len(eds) < MaxEdits
          /\ \E a \in Alts(s) :
               /\ Res(s, a) \cap used = {}
               /\ eds' = Append(eds, [s |-> s, a |-> a])
               /\ used' = used \cup Res(s, a)

Walked == pos = Len(ActiveSites)

Defects == { eds[i].s : i \in { j \in 1..Len(eds) : eds[j].s \in DefectSites } }
HasDefect == Defects # {}

=============================================================================
