------------------------------ MODULE Trace_C13 ------------------------------
(***************************************************************************)
(* TraceLog specification for C13: event logs recorded from the real executor *)
(* (harness resolvers and thunks append res/force events) must be          *)
(* behaviours of ExecSteps!NextSerial.  The file concatenates many         *)
(* requests: a "tree" line loads the forest of expected invocations (it is *)
(* computed by TLC itself in MC_C13: the calls of Exec.tla), "ev" lines    *)
(* are the recorded events, "end" closes the file.  A request must be      *)
(* complete (every node resolved, every deferred value forced) before the  *)
(* next tree is loaded.                                                    *)
(***************************************************************************)
EXTENDS ExecSteps, Json

TraceLog == ndJsonDeserialize("trace.ndjson")

VARIABLE l
tvars == <<vars, l>>

AllDone == \A n \in Nodes : n \in resd /\ (thunk[n] => n \in forced)

TInit == /\ l = 1 /\ parent = <<>> /\ thunk = <<>> /\ resd = {} /\ forced = {} /\ log = <<>>

LoadTree ==
  /\ l <= Len(TraceLog) /\ TraceLog[l].t = "tree"
  /\ AllDone
  /\ parent' = TraceLog[l].parent /\ thunk' = TraceLog[l].thunk
  /\ resd' = {} /\ forced' = {} /\ log' = <<>>
  /\ l' = l + 1

Event ==
  /\ l <= Len(TraceLog) /\ TraceLog[l].t = "ev"
  /\ LET n == TraceLog[l].n IN
       /\ n \in Nodes /\ Top(n) = Cur
       /\ IF TraceLog[l].e = "res" THEN Res(n) ELSE Force(n)
  /\ l' = l + 1

End ==
  /\ l <= Len(TraceLog) /\ TraceLog[l].t = "end"
  /\ AllDone
  /\ l' = l + 1
  /\ UNCHANGED vars

TNext == LoadTree \/ Event \/ End
TraceSpec == TInit /\ [][TNext]_tvars

\* Serial and OnceAndCausal are re-checked on every prefix of every recorded log
TraceInv == Serial /\ OnceAndCausal

TraceAccepted ==
  LET d == TLCGet("stats").diameter IN
  IF d - 1 = Len(TraceLog) THEN TRUE
  ELSE /\ PrintT(<<"REJECT at trace line", d>>)    \* not a step of ExecSteps!NextSerial
       /\ FALSE
=============================================================================
