----------------------------- MODULE Introspect -----------------------------
(***************************************************************************)
(* The image of a schema configuration under introspection (C10), written  *)
(* from the GraphQL specification, section "Introspection" / "Schema       *)
(* Introspection" (the introspection schema of the edition the library     *)
(* targets: 18 directive locations; the three deprecated on* fields of     *)
(* __Directive which the reference implementation of that edition kept).   *)
(*                                                                         *)
(*   Image(cfg) = [types, query, mutation, subscription, directives,      *)
(*                 typenames]                                              *)
(* types is the SET of type descriptions of exactly the named types in the *)
(* closure of {roots, supplied types, appended types, __Schema} under      *)
(* reference (field, argument, input-field, interface and union-member     *)
(* types); an interface does not reference its implementers.               *)
(*                                                                         *)
(* Default values: the reported default must be a GraphQL literal L with   *)
(*   LitOK(S, t, L)  /\  CoerceLit(S, t, L) = configured default           *)
(* Lits(S, t, v) enumerates such literals generatively; the invariant      *)
(* DefaultLaw (checked by TLC on every generated configuration) proves     *)
(* that every member satisfies the law with the operators of Coerce.tla.   *)
(*                                                                         *)
(* Named deviations (DESIGN.md section 5):                                 *)
(*   D_C10_default_untyped: the printer of default values is handed the    *)
(*     argument definition instead of its type, so it prints by the        *)
(*     dynamic Go kind of the INTERNAL value: enum values as their         *)
(*     internal value, lists and input objects as a string holding Go's    *)
(*     %v formatting.                                                      *)
(*   D_C10_append_duplicates_possible_types: every AppendType call appends *)
(*     every implementer present in the type map to the implementation     *)
(*     list of its interfaces again.                                       *)
(*   D_C10_possible_cache_stale: the executor's possible-type test answers *)
(*     from a cache that AppendType does not refresh, so an implementer    *)
(*     appended after the cache was filled is refused as runtime type and  *)
(*     __typename cannot name it.                                          *)
(***************************************************************************)
EXTENDS Coerce, TLC

\* ------------------------------------------------- the introspection schema
LOCAL ITy(nm, kind) == [name |-> nm, kind |-> kind, desc |-> "", fields |-> <<>>, ifaces |-> <<>>,
                        members |-> <<>>, values |-> <<>>, inputs |-> <<>>,
                        thF |-> FALSE, thI |-> FALSE, thM |-> FALSE]
LOCAL IF_(n, t) == [name |-> n, type |-> t, args |-> <<>>, dep |-> "", desc |-> "", nil |-> FALSE]
LOCAL IncDep == << [name |-> "includeDeprecated", type |-> TNamed("Boolean"), hasDef |-> TRUE,
                    def |-> BoolV(FALSE), desc |-> "", nil |-> FALSE] >>
\* the enum value whose internal value is v: same token AND same Go kind (1 is not "1")
IsInternalOf(ev, v) == ev.internal = v.v /\ ("n" \notin DOMAIN v \/ ev.ik = v.n)
LOCAL IV(n) == [name |-> n, internal |-> n, ik |-> "str", dep |-> "", desc |-> "", nil |-> FALSE]
LOCAL NL(n) == TNN(TList(TNN(TNamed(n))))     \* [n!]!
LOCAL LN(n) == TList(TNN(TNamed(n)))          \* [n!]
LOCAL Nm(n) == TNamed(n)

IntroDefs ==
  [ __Schema |-> [ITy("__Schema", "OBJECT") EXCEPT !.fields =
       << IF_("types", NL("__Type")), IF_("queryType", TNN(Nm("__Type"))), IF_("mutationType", Nm("__Type")),
          IF_("subscriptionType", Nm("__Type")), IF_("directives", NL("__Directive")) >>],
    __Type |-> [ITy("__Type", "OBJECT") EXCEPT !.fields =
       << IF_("kind", TNN(Nm("__TypeKind"))), IF_("name", Nm("String")), IF_("description", Nm("String")),
          [IF_("fields", LN("__Field")) EXCEPT !.args = IncDep],
          IF_("interfaces", LN("__Type")), IF_("possibleTypes", LN("__Type")),
          [IF_("enumValues", LN("__EnumValue")) EXCEPT !.args = IncDep],
          IF_("inputFields", LN("__InputValue")), IF_("ofType", Nm("__Type")) >>],
    __Field |-> [ITy("__Field", "OBJECT") EXCEPT !.fields =
       << IF_("name", TNN(Nm("String"))), IF_("description", Nm("String")), IF_("args", NL("__InputValue")),
          IF_("type", TNN(Nm("__Type"))), IF_("isDeprecated", TNN(Nm("Boolean"))),
          IF_("deprecationReason", Nm("String")) >>],
    __InputValue |-> [ITy("__InputValue", "OBJECT") EXCEPT !.fields =
       << IF_("name", TNN(Nm("String"))), IF_("description", Nm("String")), IF_("type", TNN(Nm("__Type"))),
          IF_("defaultValue", Nm("String")) >>],
    __EnumValue |-> [ITy("__EnumValue", "OBJECT") EXCEPT !.fields =
       << IF_("name", TNN(Nm("String"))), IF_("description", Nm("String")),
          IF_("isDeprecated", TNN(Nm("Boolean"))), IF_("deprecationReason", Nm("String")) >>],
    __Directive |-> [ITy("__Directive", "OBJECT") EXCEPT !.fields =
       << IF_("name", TNN(Nm("String"))), IF_("description", Nm("String")),
          IF_("locations", NL("__DirectiveLocation")), IF_("args", NL("__InputValue")),
          [IF_("onOperation", TNN(Nm("Boolean"))) EXCEPT !.dep = "Use `locations`."],
          [IF_("onFragment", TNN(Nm("Boolean"))) EXCEPT !.dep = "Use `locations`."],
          [IF_("onField", TNN(Nm("Boolean"))) EXCEPT !.dep = "Use `locations`."] >>],
    __TypeKind |-> [ITy("__TypeKind", "ENUM") EXCEPT !.values =
       << IV("SCALAR"), IV("OBJECT"), IV("INTERFACE"), IV("UNION"), IV("ENUM"), IV("INPUT_OBJECT"),
          IV("LIST"), IV("NON_NULL") >>],
    __DirectiveLocation |-> [ITy("__DirectiveLocation", "ENUM") EXCEPT !.values =
       << IV("QUERY"), IV("MUTATION"), IV("SUBSCRIPTION"), IV("FIELD"), IV("FRAGMENT_DEFINITION"),
          IV("FRAGMENT_SPREAD"), IV("INLINE_FRAGMENT"), IV("SCHEMA"), IV("SCALAR"), IV("OBJECT"),
          IV("FIELD_DEFINITION"), IV("ARGUMENT_DEFINITION"), IV("INTERFACE"), IV("UNION"), IV("ENUM"),
          IV("ENUM_VALUE"), IV("INPUT_OBJECT"), IV("INPUT_FIELD_DEFINITION") >>] ]

ScalarDefs == [n \in BuiltinScalars |-> ITy(n, "SCALAR")]

IntroNames == DOMAIN IntroDefs
IsBuiltinName(n) == n \in IntroNames \/ n \in BuiltinScalars

\* ---------------------------------------------------------------- closure
\* the named types a definition refers to: field, argument, input-field, interface and
\* union-member types (an interface does not refer to its implementers)
DefRefs(d) ==
    { d.fields[i].type.n : i \in 1..Len(d.fields) }
    \cup UNION { { d.fields[i].args[j].type.n : j \in 1..Len(d.fields[i].args) } : i \in 1..Len(d.fields) }
    \cup Range(d.ifaces) \cup Range(d.members)
    \cup { d.inputs[i].type.n : i \in 1..Len(d.inputs) }

\* the abstract schema a VALID configuration denotes (name = id); refs is the reference
\* relation, tabulated once per configuration
SchemaOf(cfg) ==
  LET ts == cfg.types @@ IntroDefs @@ ScalarDefs
  IN [types |-> ts, refs |-> [n \in DOMAIN ts |-> DefRefs(ts[n])],
      query |-> cfg.query, mutation |-> cfg.mutation, subscription |-> cfg.subscription]

Refs(S, n) == S.refs[n]

RECURSIVE Close(_,_)
Close(S, X) == LET Y == X \cup UNION { S.refs[n] : n \in X } IN IF Y = X THEN X ELSE Close(S, Y)

RootNames(cfg) == { r \in {cfg.query, cfg.mutation, cfg.subscription} : r # "" }
Seeds(cfg) == RootNames(cfg) \cup {"__Schema"} \cup Range(cfg.supplied) \cup Range(cfg.appended)
TypeNames(cfg) == Close(SchemaOf(cfg), Seeds(cfg))

\* -------------------------------------------------------- default literals
WholeTok(tok) == tok \in {"0", "1", "2", "3", "5", "7"}

RECURSIVE SeqFrom(_,_,_,_)
\* the sequence <<f[j] : j in dom, increasing>> for dom \subseteq lo..hi
SeqFrom(f, dom, lo, hi) ==
  IF lo > hi THEN <<>> ELSE (IF lo \in dom THEN <<f[lo]>> ELSE <<>>) \o SeqFrom(f, dom, lo + 1, hi)

PickEach(dom, per) == { f \in [dom -> UNION { per[j] : j \in dom }] : \A j \in dom : f[j] \in per[j] }

RECURSIVE Lits(_,_,_)
Lits(S, t, v) ==
  IF IsNN(t) THEN Lits(S, Unwrap(t), v)
  ELSE IF IsListT(t) THEN
     IF v.k # "list" THEN {}
     ELSE LET n == Len(v.items)
              per == [i \in 1..n |-> Lits(S, Unwrap(t), v.items[i])]
              full == { ListV(SeqFrom(f, 1..n, 1, n)) : f \in PickEach(1..n, per) }
              \* a single value is accepted for a list of one ("list of one" input coercion)
              bare == IF n = 1 THEN { l \in per[1] : l.k # "list" } ELSE {}
          IN full \cup bare
  ELSE LET kd == KindOf(S, t.n) IN
    CASE kd = "ENUM" ->
           IF v.k # "eint" THEN {}
           ELSE { EnumV(S.types[t.n].values[i].name) :
                    i \in { j \in 1..Len(S.types[t.n].values) : IsInternalOf(S.types[t.n].values[j], v) } }
      [] kd = "INPUT_OBJECT" ->
           IF v.k # "obj" THEN {}
           ELSE LET defs == S.types[t.n].inputs
                    ix(j) == { i \in 1..Len(v.fields) : v.fields[i].n = defs[j].name }
                    P == { j \in 1..Len(defs) : ix(j) # {} }
                    val(j) == v.fields[CHOOSE i \in ix(j) : TRUE].v
                    \* an absent field with a default could never stay absent; unknown fields never coerce
                    sat == /\ \A j \in (1..Len(defs)) \ P : ~defs[j].hasDef
                           /\ \A i \in 1..Len(v.fields) : HasName(defs, v.fields[i].n)
                    per == [j \in P |-> { [n |-> defs[j].name, v |-> l] : l \in Lits(S, defs[j].type, val(j)) }]
                IN IF ~sat THEN {} ELSE { ObjV(SeqFrom(f, P, 1, Len(defs))) : f \in PickEach(P, per) }
      [] kd = "SCALAR" ->
           CASE t.n = "Int"     -> IF v.k = "int" THEN { IntV(v.v) } ELSE {}
             [] t.n = "Float"   -> IF v.k = "float"
                                   THEN { FloatV(v.v) } \cup (IF WholeTok(v.v) THEN { IntV(v.v) } ELSE {})
                                   ELSE {}
             [] t.n = "String"  -> IF v.k = "str" THEN { StrV(v.v) } ELSE {}
             [] t.n = "Boolean" -> IF v.k = "bool" THEN { BoolV(v.b) } ELSE {}
             [] t.n = "ID"      -> IF v.k = "str" THEN { StrV(v.v) } ELSE {}
             [] OTHER           -> IF v.k = "cu" THEN { StrV(v.v) } ELSE {}
      [] OTHER -> {}

\* the canonical literal (all of Lits are acceptable; this one is the plain rendering)
RECURSIVE DefaultLiteral(_,_,_)
DefaultLiteral(S, t, v) ==
  IF IsNN(t) THEN DefaultLiteral(S, Unwrap(t), v)
  ELSE IF IsListT(t) THEN ListV([i \in 1..Len(v.items) |-> DefaultLiteral(S, Unwrap(t), v.items[i])])
  ELSE LET kd == KindOf(S, t.n) IN
    CASE kd = "ENUM" -> EnumV(S.types[t.n].values[CHOOSE j \in 1..Len(S.types[t.n].values) :
                                                     IsInternalOf(S.types[t.n].values[j], v)].name)
      [] kd = "INPUT_OBJECT" ->
           ObjV([i \in 1..Len(v.fields) |->
                   [n |-> v.fields[i].n,
                    v |-> DefaultLiteral(S, ByName(S.types[t.n].inputs, v.fields[i].n).type, v.fields[i].v)]])
      [] OTHER -> IF v.k = "cu" THEN StrV(v.v) ELSE v

\* ---- D_C10_default_untyped: what is printed when the type is not consulted
RECURSIVE JoinSp(_)
JoinSp(ss) == IF ss = <<>> THEN "" ELSE IF Len(ss) = 1 THEN ss[1] ELSE ss[1] \o " " \o JoinSp(Tail(ss))

RECURSIVE GoFmt(_)
\* Go's fmt "%v" of the internal value (map keys print sorted: configurations list the
\* fields of object values in name order)
GoFmt(v) ==
  CASE v.k \in {"int", "float", "str", "eint", "cu"} -> v.v
    [] v.k = "bool" -> IF v.b THEN "true" ELSE "false"
    [] v.k = "list" -> "[" \o JoinSp([i \in 1..Len(v.items) |-> GoFmt(v.items[i])]) \o "]"
    [] v.k = "obj"  -> "map[" \o JoinSp([i \in 1..Len(v.fields) |-> v.fields[i].n \o ":" \o GoFmt(v.fields[i].v)]) \o "]"
    [] OTHER -> "<nil>"

UntypedLit(S, t, v) ==
  CASE v.k = "int" -> IntV(v.v)
    [] v.k = "float" -> IF WholeTok(v.v) THEN IntV(v.v) ELSE FloatV(v.v)
    [] v.k = "str" -> StrV(v.v)
    [] v.k = "bool" -> BoolV(v.b)
    [] v.k = "eint" ->
         LET vs == S.types[t.n].values
             e == vs[CHOOSE j \in 1..Len(vs) : IsInternalOf(vs[j], v)]
         IN IF e.ik = "int" THEN IntV(v.v) ELSE StrV(v.v)
    [] OTHER -> StrV(GoFmt(v))

\* deviated expectations of one default: <<[d |-> <<names>>, lit |-> literal]>>, only where
\* the deviated literal is not acceptable anyway
DevLits(S, t, v) ==
  LET u == UntypedLit(S, t, v)
  IN IF u \in Lits(S, t, v) THEN <<>> ELSE << [d |-> <<"D_C10_default_untyped">>, lit |-> u] >>

\* ------------------------------------------------------------------ image
ArgImage(S, a) ==
  [name |-> a.name, desc |-> a.desc, type |-> a.type, hasDef |-> a.hasDef, def |-> a.def,
   lits |-> IF a.hasDef THEN Lits(S, a.type, a.def) ELSE {},
   dev  |-> IF a.hasDef THEN DevLits(S, a.type, a.def) ELSE <<>>]

ArgImages(S, args) == { ArgImage(S, args[i]) : i \in 1..Len(args) }

FieldImage(S, f) ==
  [name |-> f.name, desc |-> f.desc, type |-> f.type, dep |-> (f.dep # ""), reason |-> f.dep,
   args |-> ArgImages(S, f.args)]

Possible(S, T, n) ==
  CASE S.types[n].kind = "UNION" -> Range(S.types[n].members)
    [] S.types[n].kind = "INTERFACE" ->
         { o \in T : S.types[o].kind = "OBJECT" /\ n \in Range(S.types[o].ifaces) }
    [] OTHER -> {}

\* D_C10_append_duplicates_possible_types: multiplicity of implementer o in possibleTypes
\* = 1 + the number of AppendType calls made after o entered the type map
\* M[k] = the type map after NewSchema (k = 0) and after the k-th AppendType call
TypeMapAt(cfg, S, k) == Close(S, RootNames(cfg) \cup {"__Schema"} \cup Range(cfg.supplied)
                                 \cup { cfg.appended[i] : i \in 1..k })
StepMaps(cfg, S) == [k \in 0..Len(cfg.appended) |-> TypeMapAt(cfg, S, k)]

EnteredAt(M, o) == CHOOSE j \in DOMAIN M : o \in M[j] /\ \A i \in 0..(j - 1) : o \notin M[i]

DevMult(cfg, M, o) == 1 + Len(cfg.appended) - EnteredAt(M, o)

\* D_C10_possible_cache_stale: IsPossibleType(i, .) answers from a per-interface cache that
\* is filled at the first question about i and never refreshed.  The first question is
\* asked while interface implementations are checked (NewSchema and every AppendType):
\* for an object o declaring an interface j whose field has the interface i as its named
\* type while o's field has a different (covariant, object) type.  Implementers of i that
\* enter the type map at a later AppendType are then not possible types for the executor.
AsksAbout(S, Tm, i) ==
  \E o \in Tm : S.types[o].kind = "OBJECT" /\ \E j \in Range(S.types[o].ifaces) :
    \E fj \in Range(S.types[j].fields) : \E fo \in Range(S.types[o].fields) :
      /\ fj.type.n = i /\ fo.name = fj.name /\ fo.type # fj.type
      /\ S.types[fo.type.n].kind = "OBJECT"

StaleFor(cfg, S, T, M, i) ==
  IF S.types[i].kind # "INTERFACE" \/ Len(cfg.appended) = 0 THEN {}
  ELSE LET steps == { k \in DOMAIN M : AsksAbout(S, M[k], i) }
       IN IF steps = {} THEN {}
          ELSE LET first == CHOOSE k \in steps : \A m \in steps : k <= m
               IN { o \in Possible(S, T, i) : EnteredAt(M, o) > first }

TypeImage(cfg, S, T, M, n) ==
  LET d == S.types[n]
      hasF == d.kind \in {"OBJECT", "INTERFACE"}
  IN [name |-> d.name, kind |-> d.kind, desc |-> d.desc, cmpDesc |-> ~IsBuiltinName(n),
      fields |-> IF hasF THEN { FieldImage(S, d.fields[i]) : i \in 1..Len(d.fields) } ELSE {},
      live   |-> IF hasF THEN { d.fields[i].name : i \in { j \in 1..Len(d.fields) : d.fields[j].dep = "" } } ELSE {},
      ifaces |-> IF d.kind = "OBJECT" THEN Range(d.ifaces) ELSE {},
      possible |-> Possible(S, T, n),
      possDev |-> IF d.kind = "INTERFACE" /\ Len(cfg.appended) > 0
                  THEN { [n |-> o, c |-> DevMult(cfg, M, o)] : o \in Possible(S, T, n) } ELSE {},
      values |-> { [name |-> d.values[i].name, desc |-> d.values[i].desc, dep |-> (d.values[i].dep # ""),
                    reason |-> d.values[i].dep] : i \in 1..Len(d.values) },
      liveValues |-> { d.values[i].name : i \in { j \in 1..Len(d.values) : d.values[j].dep = "" } },
      inputs |-> ArgImages(S, d.inputs)]

\* The images of the introspection types and built-in scalars do not depend on the
\* configuration (they are neither abstract nor user-defined): computed once.
BuiltinNames == IntroNames \cup BuiltinScalars
LOCAL S0 == [types |-> IntroDefs @@ ScalarDefs]
LOCAL Cfg0 == [appended |-> <<>>]
BuiltinImages == [n \in BuiltinNames |-> TypeImage(Cfg0, S0, BuiltinNames, <<>>, n)]

\* the specified directives
LOCAL IfArg == << [name |-> "if", type |-> TNN(TNamed("Boolean")), hasDef |-> FALSE, def |-> NullV,
                   desc |-> "", nil |-> FALSE] >>
StdDirectives ==
  [ include |-> [name |-> "include", std |-> TRUE, desc |-> "",
                 locs |-> <<"FIELD", "FRAGMENT_SPREAD", "INLINE_FRAGMENT">>, args |-> IfArg],
    skip |-> [name |-> "skip", std |-> TRUE, desc |-> "",
              locs |-> <<"FIELD", "FRAGMENT_SPREAD", "INLINE_FRAGMENT">>, args |-> IfArg],
    deprecated |-> [name |-> "deprecated", std |-> TRUE, desc |-> "", locs |-> <<"FIELD_DEFINITION", "ENUM_VALUE">>,
                    args |-> << [name |-> "reason", type |-> TNamed("String"), hasDef |-> TRUE,
                                 def |-> StrV("No longer supported"), desc |-> "", nil |-> FALSE] >>] ]

Directives(cfg) ==
  IF cfg.dirs = <<>> THEN { StdDirectives[n] : n \in DOMAIN StdDirectives }
  ELSE { IF cfg.dirs[i].std THEN StdDirectives[cfg.dirs[i].name] ELSE cfg.dirs[i] : i \in 1..Len(cfg.dirs) }

DirImage(S, d) == [name |-> d.name, desc |-> d.desc, cmpDesc |-> ~d.std, locs |-> Range(d.locs),
                   args |-> ArgImages(S, d.args)]

\* __typename: the object type at every composite position of the introspection schema
\* (parent type, field), and at the composite fields of the query root for every
\* runtime object type
RuntimeTypes(S, T, n) == IF S.types[n].kind = "OBJECT" THEN {n} ELSE Possible(S, T, n) \cap T

IntroTypenames ==
  LET introPos(p) == { j \in 1..Len(IntroDefs[p].fields) :
                         IntroDefs[p].fields[j].type.n \in IntroNames \ {"__TypeKind", "__DirectiveLocation"} }
  IN UNION { { [on |-> p, f |-> IntroDefs[p].fields[i].name, w |-> IntroDefs[p].fields[i].type.w, rt |-> "",
                exp |-> IntroDefs[p].fields[i].type.n, dev |-> <<>>] : i \in introPos(p) } :
             p \in {"__Schema", "__Type", "__Field", "__InputValue", "__Directive"} }
     \cup { [on |-> "", f |-> "__schema", w |-> <<"NN">>, rt |-> "", exp |-> "__Schema", dev |-> <<>>],
            [on |-> "", f |-> "__type", w |-> <<>>, rt |-> "", exp |-> "__Type", dev |-> <<>>] }

Typenames(cfg, S, T, M) ==
  LET qf == S.types[cfg.query].fields
      userPos == { j \in 1..Len(qf) :
                     /\ IsCompositeKind(S.types[qf[j].type.n].kind)
                     /\ \A a \in Range(qf[j].args) : ~IsNN(a.type) \/ a.hasDef }
  IN
  UNION { { [on |-> cfg.query, f |-> qf[i].name, w |-> qf[i].type.w, rt |-> o, exp |-> o,
             dev |-> IF o \in StaleFor(cfg, S, T, M, qf[i].type.n)
                     THEN << [d |-> <<"D_C10_possible_cache_stale">>, exp |-> "error"] >> ELSE <<>>] :
              o \in RuntimeTypes(S, T, qf[i].type.n) } : i \in userPos }
  \cup { [on |-> "", f |-> "query", w |-> <<>>, rt |-> "", exp |-> cfg.query, dev |-> <<>>] }
  \cup (IF cfg.mutation # ""
        THEN { [on |-> "", f |-> "mutation", w |-> <<>>, rt |-> "", exp |-> cfg.mutation, dev |-> <<>>] } ELSE {})

\* The image.  `types` holds the descriptions of the user-defined types of the closure;
\* those of the built-in types in `names` are BuiltinImages (emitted once per run).
ImageOf(cfg, S, T) ==
  LET M == StepMaps(cfg, S) IN
  [names |-> T,
   types |-> { TypeImage(cfg, S, T, M, n) : n \in T \ BuiltinNames },
   query |-> cfg.query, mutation |-> cfg.mutation, subscription |-> cfg.subscription,
   directives |-> { DirImage(S, d) : d \in Directives(cfg) },
   typenames |-> Typenames(cfg, S, T, M)]

Image(cfg) == ImageOf(cfg, SchemaOf(cfg), TypeNames(cfg))

\* ------------------------------------------------- theorems about the image
ArgImagesOfTypes(ts) == UNION { UNION { f.args : f \in t.fields } \cup t.inputs : t \in ts }

\* Coerce.tla's internal values carry the token only; the Go kind of an enum's internal value (field n) is dropped
\* before comparing with them
RECURSIVE StripKind(_)
StripKind(v) ==
  CASE v.k = "eint" -> [k |-> "eint", v |-> v.v]
    [] v.k = "list" -> [v EXCEPT !.items = [i \in 1..Len(v.items) |-> StripKind(v.items[i])]]
    [] v.k = "obj"  -> [v EXCEPT !.fields = [i \in 1..Len(v.fields) |-> [n |-> v.fields[i].n, v |-> StripKind(v.fields[i].v)]]]
    [] OTHER -> v

LawHolds(S, a) ==
  a.hasDef =>
    /\ a.lits # {}
    /\ DefaultLiteral(S, a.type, a.def) \in a.lits
    /\ \A l \in a.lits : LitOK(S, a.type, l) /\ CoerceLit(S, a.type, l, <<>>) = StripKind(a.def)
    /\ \A i \in 1..Len(a.dev) : ~(LitOK(S, a.type, a.dev[i].lit) /\ CoerceLit(S, a.type, a.dev[i].lit, <<>>) = StripKind(a.def))

\* every acceptable literal satisfies the law of the property, with Coerce.tla's operators,
\* the plain rendering is among them, and no deviated literal satisfies the law
DefaultLaw(S, img) ==
  \A a \in ArgImagesOfTypes(img.types) \cup UNION { d.args : d \in img.directives } : LawHolds(S, a)

\* ... and the same for the (constant) built-in types
ASSUME \A a \in ArgImagesOfTypes({ BuiltinImages[n] : n \in BuiltinNames }) : LawHolds(S0, a)

\* the closure is a fixpoint, contains the seeds and the introspection types
ClosureFixpoint(cfg, S, T) ==
  /\ Close(S, T) = T
  /\ Seeds(cfg) \subseteq T
  /\ \A n \in T : Refs(S, n) \subseteq T
  /\ {"__Schema", "__Type", "__Field", "__InputValue", "__EnumValue", "__Directive", "__TypeKind",
      "__DirectiveLocation", "String", "Boolean"} \subseteq T

\* the image describes a closed world: every type it mentions is one it lists, once
Mentions(t) == { f.type.n : f \in t.fields } \cup UNION { { a.type.n : a \in f.args } : f \in t.fields }
               \cup t.ifaces \cup t.possible \cup { a.type.n : a \in t.inputs }
BuiltinMentions == [n \in BuiltinNames |-> Mentions(BuiltinImages[n])]

ImageClosed(img) ==
  LET mentioned == UNION { Mentions(t) : t \in img.types }
                   \cup UNION { BuiltinMentions[n] : n \in img.names \cap BuiltinNames }
                   \cup { r \in {img.query, img.mutation, img.subscription} : r # "" }
      userNames == { t.name : t \in img.types }
  IN /\ mentioned \subseteq img.names
     /\ userNames = img.names \ BuiltinNames
     /\ Cardinality(img.types) = Cardinality(userNames)

\* possible types of an interface = the objects declaring it
PossibleIffDeclared(img) ==
  \A ti \in img.types : \A to \in img.types :
    (ti.kind = "INTERFACE" /\ to.kind = "OBJECT") => ((to.name \in ti.possible) <=> (ti.name \in to.ifaces))

\* the closure does not depend on the order in which types are appended
RECURSIVE FoldAppend(_,_,_)
FoldAppend(S, X, order) == IF order = <<>> THEN X ELSE FoldAppend(S, Close(S, X \cup {Head(order)}), Tail(order))

AppendOrderIndependent(cfg, S, T) ==
  LET X0 == Close(S, RootNames(cfg) \cup {"__Schema"} \cup Range(cfg.supplied))
      n == Len(cfg.appended)
  IN \A p \in Permutations(1..n) : FoldAppend(S, X0, [i \in 1..n |-> cfg.appended[p[i]]]) = T

ImageTheorems(cfg, S, T, img) ==
  /\ DefaultLaw(S, img)
  /\ ClosureFixpoint(cfg, S, T)
  /\ ImageClosed(img)
  /\ PossibleIffDeclared(img)
  /\ AppendOrderIndependent(cfg, S, T)

=============================================================================
