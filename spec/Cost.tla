-------------------------------- MODULE Cost --------------------------------
(***************************************************************************)
(* C19: work bounds.                                                       *)
(*                                                                         *)
(* (i) An abstract machine for the pairwise fragment comparison of the     *)
(* overlapping-fields rule over an arbitrary fragment spread graph: to     *)
(* compare fragments (a, b) it compares their own fields (one step) and    *)
(* then (a, g) for every g spread by b and (g, b) for every g spread by a. *)
(* With the memo table each unordered pair is compared at most once, so    *)
(* the machine terminates -- also on cyclic graphs -- within F*F steps;    *)
(* without it TLC exhibits a graph exceeding any polynomial bound (a       *)
(* cycle never terminates).                                                *)
(*                                                                         *)
(* (ii) Bound functions B(fam, n, k): the step counters the instrumented   *)
(* implementation may spend on the scaled document families driven by the  *)
(* harness (Trace_C19 checks every recorded measurement against them).     *)
(***************************************************************************)
EXTENDS Naturals, Sequences, FiniteSets, TLC

CONSTANTS F,          \* number of fragments
          Memo        \* TRUE: comparisons are memoised

Frags == 1..F
VARIABLES graph, stack, memo, steps
vars == <<graph, stack, memo, steps>>

Init ==
  /\ graph \in [Frags \X Frags -> BOOLEAN]           \* graph[a,b]: a spreads b (any digraph, loops included)
  /\ stack = << <<1, 2>> >>                          \* compare fragment 1 with fragment 2
  /\ memo = {}
  /\ steps = 0

Spreads(a) == { b \in Frags : graph[<<a, b>>] }
Norm(p) == IF p[1] <= p[2] THEN p ELSE <<p[2], p[1]>>

Compare ==
  /\ stack # <<>>
  /\ LET p == Head(stack)
         rest == Tail(stack) IN
     IF Memo /\ Norm(p) \in memo
     THEN stack' = rest /\ UNCHANGED <<memo, steps>>
     ELSE /\ memo' = memo \cup {Norm(p)}
          /\ steps' = steps + 1
          /\ LET more1 == { <<p[1], g>> : g \in Spreads(p[2]) }
                 more2 == { <<g, p[2]>> : g \in Spreads(p[1]) }
                 RECURSIVE toSeq(_)
                 toSeq(S) == IF S = {} THEN <<>> ELSE LET x == CHOOSE y \in S : TRUE IN <<x>> \o toSeq(S \ {x})
             IN stack' = toSeq(more1 \cup more2) \o rest
  /\ UNCHANGED graph

Spec == Init /\ [][Compare]_vars /\ WF_vars(Compare)

StepsBound == steps <= F * F
Terminates == <>(stack = <<>>)
\* keeps the unmemoised machine finite for TLC
Cap == steps <= F * F + 2

\* ------------------------------------------------------------------------
\* (ii) bounds for the measured families.  n = size parameter, k = number of
\* implementers of the abstract type (only the "abstract" family uses it).
\* c0..c6 are the counter indices of /repo/verif_on.go.
\* Shapes measured on the repaired tree (work = 3n+2, ~n^2, ~0.8 n^3, ~n^2/2, ~21 n^2 ...); the
\* bounds keep the polynomial degree and allow a factor of about four.  (The repair of the overlap
\* rule's step E made the chain family quadratic: a selection's own fields are now compared with
\* every deeper fragment, as the rule requires.)
Bound(fam, n, k) ==
  CASE fam = "abstract_plan"  -> 2 * n + 8                  \* planning an abstract field is lazy: no dependence on k
    [] fam = "abstract_exec"  -> 12 * n + 16                \* only the runtime type actually encountered is planned
    [] fam = "chain_validate" -> 4 * n * n + 20 * n + 50    \* F1..Fn, Fi spreads F(i+1) twice: each set's own fields meet every
                                                            \* deeper fragment once (quadratic), thanks to the memo tables
    [] fam = "chain_plan"     -> 12 * n + 20
    [] fam = "fan_validate"   -> 2 * n + 20                 \* one fragment spread at n sites
    [] fam = "mesh_validate"  -> 3 * n * n * n + 10 * n * n + 100   \* every fragment spreads every later one
    [] fam = "wide_validate"  -> 2 * n * n + 10 * n + 50    \* n selections with one response key: pairwise
    [] fam = "exclchain_validate" -> 160 * n + 100          \* parallel chains compared from exclusive and non-exclusive parents
    [] fam = "diamond_validate"   -> 80 * n * n + 100 * n + 100  \* F(i) -> G(i),H(i) -> F(i+1): 2^i paths, 3n+1 fragments
    [] fam = "diamond_plan"       -> 28 * n + 20
    [] fam = "chain_fingerprint"   -> 4 * n + 8              \* selection sets walked by the plan-cache fingerprint
    [] fam = "diamond_fingerprint" -> 12 * n + 16
    \* one response key selected twice per level, both occurrences spreading the same next fragment: the
    \* occurrences are merged, so every level is planned / compared once, not once per path (2^n paths)
    \* the same fields compared with the head of a diamond chain first from exclusive, then from non-exclusive parents
    [] fam = "excldiamond_validate" -> 100 * n * n + 100 * n + 100
    [] fam = "twinchain_validate" -> 40 * n + 40
    [] fam = "twinchain_planexec" -> 20 * n + 20
    [] OTHER -> 0
=============================================================================
