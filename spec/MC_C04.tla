------------------------------- MODULE MC_C04 -------------------------------
(***************************************************************************)
(* Fault enumeration for C04 (and C18c, C20): fixed documents spanning the *)
(* nullability lattice of schema S1, and EVERY assignment of at most       *)
(* MaxFaults adversarial outcomes to the resolver invocation sites of the  *)
(* document (a site = type, field and the source it is invoked on, so the  *)
(* individual elements of a list are separate sites).                      *)
(*                                                                         *)
(* The machine walks the site list once; at each site it either leaves the *)
(* natural outcome or appends one entry from the site's alphabet, so each  *)
(* outcome table is reached by exactly one behaviour.  TLC checks          *)
(* WellFormed(Execute(..)) on every table (a theorem about the algorithm); *)
(* the harness replays every table into the real executor.                 *)
(***************************************************************************)
EXTENDS ExecVec

CONSTANTS DocIds,      \* set of document numbers to cover
          MaxFaults,   \* max non-natural outcomes per table
          Alpha        \* "small" | "full" outcome alphabets

VARIABLES di, pos, table
vars == <<di, pos, table>>

Fld(id, name, sel) == [k |-> "field", id |-> id, alias |-> "", name |-> name, args |-> <<>>,
                       dirs |-> <<>>, sel |-> sel]
FldA(id, alias, name, sel) == [Fld(id, name, sel) EXCEPT !.alias = alias]
Inl(id, on, sel) == [k |-> "inline", id |-> id, on |-> on, dirs |-> <<>>, sel |-> sel]
QDoc(sel) == [ops |-> <<[kind |-> "query", name |-> "", vdefs |-> <<>>, sel |-> sel]>>, frags |-> <<>>]
MDoc(sel) == [ops |-> <<[kind |-> "mutation", name |-> "", vdefs |-> <<>>, sel |-> sel]>>, frags |-> <<>>]

Docs ==
  << \* 1: nested objects, nullable and non-null leaves
     QDoc(<< Fld(1, "a", <<>>), Fld(2, "nn", <<>>),
             Fld(3, "o", << Fld(4, "x", <<>>), Fld(5, "w", <<>>),
                            Fld(6, "z", << Fld(7, "x", <<>>), Fld(8, "w", <<>>) >>) >>) >>),
     \* 2: non-null object and nullable list of nullable objects
     QDoc(<< Fld(1, "a", <<>>),
             Fld(2, "n", << Fld(3, "x", <<>>), Fld(4, "w", <<>>) >>),
             Fld(5, "l", << Fld(6, "x", <<>>), Fld(7, "w", <<>>) >>) >>),
     \* 3: lists of non-null elements, nullable and non-null lists
     QDoc(<< Fld(1, "a", <<>>),
             Fld(2, "ln", << Fld(3, "x", <<>>), Fld(4, "w", <<>>) >>),
             Fld(5, "lnn", << Fld(6, "w", <<>>) >>) >>),
     \* 4: abstract positions, enum and string leaves, aliases
     QDoc(<< FldA(1, "k", "s", <<>>), Fld(2, "e", <<>>),
             Fld(3, "i", << Fld(4, "x", <<>>), Inl(5, "A", << Fld(6, "p", <<>>) >>),
                            Inl(7, "B", << Fld(8, "q", <<>>) >>) >>),
             Fld(9, "u", << Fld(10, "__typename", <<>>), Inl(11, "B", << Fld(12, "q", <<>>) >>) >>),
             Fld(13, "il", << Fld(14, "x", <<>>) >>) >>),
     \* 5: a mutation
     MDoc(<< Fld(1, "a", <<>>), Fld(2, "o", << Fld(3, "w", <<>>) >>), Fld(4, "b", <<>>) >>),
     \* 6: default resolvers (type D has none), IsTypeOf-based type resolution and refusal
     QDoc(<< Fld(1, "d", << Fld(2, "p", <<>>), Fld(3, "q", <<>>) >>),
             Fld(4, "dl", << Fld(5, "r", <<>>) >>),
             Fld(6, "it", << Fld(7, "x", <<>>), Inl(8, "TB", << Fld(9, "q", <<>>) >>) >>),
             Fld(10, "itl", << Fld(11, "__typename", <<>>) >>),
             Fld(12, "ta", << Fld(13, "p", <<>>) >>) >>),
     \* 7: lists of enum values (nullable and non-null list), union resolved through IsTypeOf
     QDoc(<< Fld(1, "a", <<>>), Fld(2, "el", <<>>), Fld(3, "eln", <<>>), Fld(4, "e", <<>>),
             Fld(5, "uo", << Fld(6, "__typename", <<>>), Inl(7, "TA", << Fld(8, "p", <<>>) >>) >>) >>),
     \* 8: Int leaves (nullable, non-null, under an object) fed with every Go integer representation
     QDoc(<< Fld(1, "a", <<>>), Fld(2, "nn", <<>>), Fld(3, "o", << Fld(4, "w", <<>>), Fld(5, "x", <<>>) >>) >>),
     \* 9: Float, Boolean, ID and String leaves fed with every Go representation of a value of the type
     QDoc(<< Fld(1, "fl", <<>>), Fld(2, "bo", <<>>), Fld(3, "idf", <<>>), Fld(4, "s", <<>>), Fld(5, "fnn", <<>>) >>),
     \* 10: values that are not null themselves but serialise to nothing legal, at nullable and non-null leaves
     QDoc(<< Fld(1, "a", <<>>), Fld(2, "fl", <<>>), Fld(3, "cuf", <<>>),
             Fld(4, "o", << Fld(5, "x", <<>>) >>), Fld(6, "fnn", <<>>) >>),
     QDoc(<< Fld(1, "a", <<>>), Fld(2, "cunn", <<>>) >>)
  >>

Site(t, f, src, kind) == [t |-> t, f |-> f, src |-> src, kind |-> kind]
Sites ==
  << << Site("Q", "a", "*", "int"), Site("Q", "nn", "*", "int"), Site("Q", "o", "*", "obj"),
        Site("O", "x", "r.o", "str"), Site("O", "w", "r.o", "int"), Site("O", "z", "r.o", "obj"),
        Site("O", "x", "r.o.z", "str"), Site("O", "w", "r.o.z", "int") >>,
     << Site("Q", "a", "*", "int"), Site("Q", "n", "*", "obj"), Site("O", "x", "r.n", "str"),
        Site("O", "w", "r.n", "int"), Site("Q", "l", "*", "list"), Site("O", "x", "r.l#0", "str"),
        Site("O", "w", "r.l#0", "int"), Site("O", "w", "r.l#1", "int") >>,
     << Site("Q", "a", "*", "int"), Site("Q", "ln", "*", "list"), Site("O", "x", "r.ln#0", "str"),
        Site("O", "w", "r.ln#0", "int"), Site("O", "w", "r.ln#1", "int"),
        Site("Q", "lnn", "*", "list"), Site("O", "w", "r.lnn#0", "int"), Site("O", "w", "r.lnn#1", "int") >>,
     << Site("Q", "s", "*", "str"), Site("Q", "e", "*", "enum"), Site("Q", "i", "*", "abs"),
        Site("A", "x", "r.i", "str"), Site("B", "x", "r.i", "str"), Site("B", "q", "r.i", "str"),
        Site("Q", "u", "*", "abs"), Site("Q", "il", "*", "abslist"), Site("A", "x", "r.il#0", "str") >>,
     << Site("M", "a", "*", "int"), Site("M", "o", "*", "obj"), Site("O", "w", "r.o", "int"),
        Site("M", "b", "*", "int") >>,
     << Site("Q", "d", "*", "obj"), Site("Q", "dl", "*", "list"), Site("Q", "it", "*", "absT"),
        Site("Q", "itl", "*", "absTlist"), Site("Q", "ta", "*", "objT"), Site("TA", "x", "r.it", "str"),
        Site("TB", "q", "r.it", "str") >>,
     << Site("Q", "a", "*", "int"), Site("Q", "el", "*", "enumlist"), Site("Q", "eln", "*", "enumlist"),
        Site("Q", "e", "*", "enum"), Site("Q", "uo", "*", "absU") >>,
     << Site("Q", "a", "*", "goint"), Site("Q", "nn", "*", "goint"), Site("O", "w", "r.o", "goint") >>,
     << Site("Q", "fl", "*", "goflt"), Site("Q", "bo", "*", "gobool"), Site("Q", "idf", "*", "goid"),
        Site("Q", "s", "*", "gostr"), Site("Q", "fnn", "*", "goflt") >>,
     << Site("Q", "fl", "*", "sernull"), Site("Q", "cuf", "*", "sernullcu"), Site("Q", "fnn", "*", "sernull") >>,
     << Site("Q", "cunn", "*", "sernullcu") >>
  >>

K(k) == [k |-> k]
TKinds == {"absT", "absTlist", "objT", "enumlist", "absU", "goint", "goflt", "gobool", "goid", "gostr", "sernull", "sernullcu"}
GoLeaf(g, v) == [k |-> "goleaf", g |-> g, val |-> v]
IntReps == {"int", "i8", "i16", "i32", "i64", "u8", "u16", "u32", "u64", "uint", "pint", "pi8", "pi16", "pi32", "pi64",
            "pu8", "pu16", "pu32", "pu64", "puint"}
StrReps == { GoLeaf("string", StrV("sv")), GoLeaf("pstring", StrV("sv")), GoLeaf("nilpstring", NullV) }
GoInt(g, big) == [k |-> "goint", g |-> g, big |-> big]
TAlpha(kind) ==
  CASE kind = "absT" -> { K("nil"), K("err"), [k |-> "val", rt |-> "TB"], [k |-> "val", rt |-> "O"], [k |-> "val", rt |-> "-"], K("wrong") }
    [] kind = "absTlist" -> { K("nil"), [k |-> "val", rts |-> <<"TB", "TA">>], [k |-> "val", rts |-> <<"TA", "A">>], K("nilitem") }
    [] kind = "enumlist" -> { K("nil"), K("err"), K("nilitem"), K("wrongitem"), K("wrong"), K("thunk") }
    [] kind = "absU" -> { K("nil"), [k |-> "val", rt |-> "*"], [k |-> "val", rt |-> "TA"], [k |-> "val", rt |-> "A"], [k |-> "val", rt |-> "-"] }
    [] kind = "goint" -> { GoInt(g, FALSE) : g \in {"i8", "i16", "i32", "i64", "u8", "u16", "u32", "u64", "uint", "f32", "f64", "pint", "pi64", "pu32", "pf64", "nilp"} }
                         \cup { GoInt(g, TRUE) : g \in {"i64", "u32", "u64", "uint", "f32", "f64", "pi64", "pu32", "pf64"} }
    [] kind = "objT" -> { K("nil"), K("err"), [k |-> "val", rt |-> "TB"], K("typednil") }
    [] kind = "goflt" -> { GoLeaf(g, FloatV("1.5")) : g \in {"f64", "f32", "pf64", "pf32"} }
                         \cup { GoLeaf(g, IntV("5")) : g \in IntReps }
                         \cup { GoLeaf(g, NullV) : g \in {"nilpf64", "nilpf32", "nilpint", "nilpu16", "nilpi64"} }
    [] kind = "sernull" -> { GoLeaf("strnan", NullV) }
    [] kind = "sernullcu" -> { GoLeaf("cunilp", NullV) }
    [] kind = "gobool" -> { GoLeaf("bool", BoolV(TRUE)), GoLeaf("bool", BoolV(FALSE)), GoLeaf("pbool", BoolV(TRUE)),
                            GoLeaf("pbool", BoolV(FALSE)), GoLeaf("nilpbool", NullV) }
    [] kind = "gostr" -> StrReps
    [] kind = "goid" -> StrReps \cup { GoLeaf(g, IntV("5")) : g \in {"int", "i64", "u32"} }

SiteAlpha(kind) ==
  IF kind \in TKinds THEN TAlpha(kind)
  ELSE IF Alpha = "plain" THEN      \* immediate failures only (no deferred values)
    CASE kind \in {"abs"} -> { K("nil"), K("err"), [k |-> "val", rt |-> "B"] }
      [] kind = "abslist" -> { K("nil"), [k |-> "val", rts |-> <<"B", "A">>] }
      [] kind = "list" -> { K("nil"), K("err"), K("nilitem") }
      [] OTHER -> { K("nil"), K("err"), K("panics") }
  ELSE IF Alpha = "small" THEN
    CASE kind = "int"  -> { K("nil"), K("err"), K("valerr"), K("panics"), K("thunkerr"), K("wrong") }
      [] kind = "str"  -> { K("nil"), K("err") }
      [] kind = "obj"  -> { K("nil"), K("err"), K("valerr"), K("thunk") }
      [] kind = "list" -> { K("nil"), K("err"), K("nilitem"), K("wrong"), K("titems") }
      [] kind = "enum" -> { K("nil"), K("badenum") }
      [] kind = "abs"  -> { K("nil"), [k |-> "val", rt |-> "B"], [k |-> "val", rt |-> "O"], [k |-> "val", rt |-> "-"] }
      [] kind = "abslist" -> { K("nil"), [k |-> "val", rts |-> <<"B", "A">>], [k |-> "val", rts |-> <<"A", "O">>] }
  ELSE
    CASE kind = "int"  -> { K("nil"), K("err"), K("valerr"), K("panic"), K("panics"), K("thunk"), K("thunkerr"),
                            K("badthunk"), K("wrong"), K("nan"), K("big") }
      \* no "wrong" here: String serialisation of a foreign Go value is Unspecified (DESIGN 4.2)
      [] kind = "str"  -> { K("nil"), K("err"), K("thunk"), K("valerr"), K("panics") }
      [] kind = "obj"  -> { K("nil"), K("typednil"), K("err"), K("valerr"), K("panic"), K("panics"), K("thunk"),
                            K("thunkerr"), K("badthunk") }
      [] kind = "list" -> { K("nil"), K("err"), K("valerr"), K("panics"), K("thunk"), K("thunkerr"), K("wrong"),
                            K("nilitem"), K("titems"), [k |-> "val", len |-> 0] }
      [] kind = "enum" -> { K("nil"), K("err"), K("badenum"), K("wrong"), K("thunk") }
      [] kind = "abs"  -> { K("nil"), K("err"), K("thunk"), K("wrong"), K("typednil"),
                            [k |-> "val", rt |-> "B"], [k |-> "val", rt |-> "O"], [k |-> "val", rt |-> "-"],
                            [k |-> "thunk", rt |-> "B"] }
      [] kind = "abslist" -> { K("nil"), K("err"), K("nilitem"), [k |-> "val", rts |-> <<"B", "A">>],
                               [k |-> "val", rts |-> <<"A", "O">>], [k |-> "val", rts |-> <<"-", "B">>] }

Init == di \in DocIds /\ pos = 0 /\ table = <<>>

Next ==
  /\ pos < Len(Sites[di])
  /\ pos' = pos + 1
  /\ UNCHANGED di
  /\ \/ UNCHANGED table
     \/ /\ Len(table) < MaxFaults
        /\ \E o \in SiteAlpha(Sites[di][pos + 1].kind) :
             table' = Append(table, [t |-> Sites[di][pos + 1].t, f |-> Sites[di][pos + 1].f,
                                     src |-> Sites[di][pos + 1].src, o |-> o])

Spec == Init /\ [][Next]_vars

Complete == pos = Len(Sites[di])

Vector ==
  LET D == Docs[di] IN
  [fam |-> "C04", doc |-> D, outs |-> <<table>>,
   runs |-> << MkRun(D, D.ops[1], <<>>, <<>>, table, 1) >>]

Emit == Complete => PrintT(<<"VEC", ToJson(Vector)>>)

\* Theorem about the algorithm: whatever the outcomes, the response is well-formed
WellFormedAlways ==
  Complete =>
    LET D == Docs[di]
        r == ExecuteOp(S1, D, D.ops[1], <<>>, table, {})
    IN WellFormed(EnvOf(D, D.ops[1], <<>>, table), D.ops[1], r)

\* ... and a failure never changes a sibling outside the nulled subtree:
\* every value present in the response equals the failure-free value at the same path,
\* or is null, or is a container (checked by recursion on both trees)
RECURSIVE Refines(_,_)
Refines(v, ideal) ==
  \/ IsNullV(v)
  \/ /\ v.k = "obj" /\ ideal.k = "obj"
     /\ \A i \in 1..Len(v.fields) : \E j \in 1..Len(ideal.fields) :
          ideal.fields[j].n = v.fields[i].n /\ Refines(v.fields[i].v, ideal.fields[j].v)
  \/ /\ v.k = "list" /\ ideal.k = "list"
  \/ /\ v.k \notin {"obj", "list"} /\ v = ideal

SiblingsUnaffected ==
  (Complete /\ \A i \in 1..Len(table) : DOMAIN table[i].o = {"k"}) =>
    LET D == Docs[di]
    IN Refines(ExecuteOp(S1, D, D.ops[1], <<>>, table, {}).data, ExecuteOp(S1, D, D.ops[1], <<>>, <<>>, {}).data)

ASSUME PrintT(<<"SCHEMA", ToJson(S1)>>)
=============================================================================
