------------------------------- MODULE Cancel -------------------------------
(***************************************************************************)
(* C16: cancellation and deadlines yield either the full response or the   *)
(* context error.  Written from the property statement; the actions are    *)
(* the channel operations of a call that runs the execution in a           *)
(* background goroutine and waits for "result or context done".            *)
(*                                                                         *)
(* Processes                                                               *)
(*   Caller   Call: starts the Exec goroutine, then                        *)
(*            select { <-ctx.Done(): return the context error only         *)
(*                   | r := <-result: return r }                           *)
(*   Exec     variable coercion (blocked until gate 0 is open), then the   *)
(*            resolvers r1..rn in order; resolver j is blocked until gate  *)
(*            j is open; a resolver that OBSERVES the context (obs[j])     *)
(*            may instead fail with the context's error once the context   *)
(*            is done; finally the complete response is published into the *)
(*            result channel (capacity Cap)                                *)
(*   Context  cancel or deadline, at any step (also before the call)       *)
(*   Gates    the environment opens gates whenever it likes (or never)     *)
(*                                                                         *)
(* Variants (constants):                                                   *)
(*   Cap = 2 (any Cap >= 1), CallerDesign = "select": the design the       *)
(*        property describes; satisfies everything below                   *)
(*   Cap = 0: UNBUFFERED result channel (publish = rendezvous with the     *)
(*        waiting caller): TLC finds the background goroutine blocked for  *)
(*        ever after the caller left (ExecTerminates fails)                *)
(*   CallerDesign = "recv": plain receive instead of the select: TLC finds *)
(*        the call waiting for a blocked resolver (PromptReturn fails)     *)
(***************************************************************************)
EXTENDS Naturals, Sequences, FiniteSets, TLC

CONSTANTS N,             \* at most N resolvers
          Cap,           \* capacity of the result channel
          CallerDesign   \* "select" | "recv"

VARIABLES n,     \* number of resolvers of this request
          obs,   \* obs[j]: resolver j observes the context
          ctx,   \* "live" | "cancelled" | "deadline"
          open,  \* gates opened so far (0 = variable coercion, j = resolver j)
          cpc,   \* caller: "idle" | "wait" | "ret"
          ret,   \* what the call returned
          epc,   \* exec goroutine: "off" | "coerce" | "res" | "pub" | "done"
          k,     \* resolver the exec goroutine is at (epc = "res")
          out,   \* outcomes of the resolvers run so far: "val" | "ctxerr"
          chan   \* content of the result channel

vars == <<n, obs, ctx, open, cpc, ret, epc, k, out, chan>>

NoRet      == [t |-> "none", e |-> "-", out |-> <<>>]
Full(o)    == [t |-> "full", e |-> "-", out |-> o]     \* complete response: data of all fields + all their errors
CtxOnly(c) == [t |-> "ctx", e |-> c, out |-> <<>>]     \* no data, exactly the context's error

Init ==
  /\ n \in 1..N
  /\ obs \in [1..n -> BOOLEAN]
  /\ ctx = "live" /\ open = {}
  /\ cpc = "idle" /\ ret = NoRet
  /\ epc = "off" /\ k = 0 /\ out = <<>> /\ chan = <<>>

\* ------------------------------------------------------------------ caller
Call ==
  /\ cpc = "idle"
  /\ cpc' = "wait" /\ epc' = "coerce"
  /\ UNCHANGED <<n, obs, ctx, open, ret, k, out, chan>>

\* select: case <-ctx.Done()
CallerDone ==
  /\ CallerDesign = "select"
  /\ cpc = "wait" /\ ctx # "live"
  /\ ret' = CtxOnly(ctx) /\ cpc' = "ret"
  /\ UNCHANGED <<n, obs, ctx, open, epc, k, out, chan>>

\* select: case r := <-result (buffered channel)
CallerRecv ==
  /\ cpc = "wait" /\ chan # <<>>
  /\ ret' = Head(chan) /\ chan' = Tail(chan) /\ cpc' = "ret"
  /\ UNCHANGED <<n, obs, ctx, open, epc, k, out>>

\* -------------------------------------------------------------------- exec
Coerce ==
  /\ epc = "coerce" /\ 0 \in open
  /\ epc' = "res" /\ k' = 1
  /\ UNCHANGED <<n, obs, ctx, open, cpc, ret, out, chan>>

Resolve ==
  /\ epc = "res"
  /\ \E oc \in {"val", "ctxerr"} :
       /\ \/ oc = "val" /\ k \in open                      \* the gate is open: the resolver completes
          \/ oc = "ctxerr" /\ obs[k] /\ ctx # "live"       \* it watches the context and gives up
       /\ out' = Append(out, oc)
  /\ IF k = n THEN epc' = "pub" /\ k' = k ELSE epc' = "res" /\ k' = k + 1
  /\ UNCHANGED <<n, obs, ctx, open, cpc, ret, chan>>

\* result <- out on a buffered channel
Publish ==
  /\ Cap > 0
  /\ epc = "pub" /\ Len(chan) < Cap
  /\ chan' = Append(chan, Full(out)) /\ epc' = "done"
  /\ UNCHANGED <<n, obs, ctx, open, cpc, ret, k, out>>

\* result <- out on an unbuffered channel: rendezvous with the caller's receive
PublishRdv ==
  /\ Cap = 0
  /\ epc = "pub" /\ cpc = "wait"
  /\ ret' = Full(out) /\ cpc' = "ret" /\ epc' = "done"
  /\ UNCHANGED <<n, obs, ctx, open, k, out, chan>>

\* ------------------------------------------------------------- environment
Fire(c) ==
  /\ ctx = "live"
  /\ ctx' = c
  /\ UNCHANGED <<n, obs, open, cpc, ret, epc, k, out, chan>>

Release(g) ==
  /\ g \in 0..n /\ g \notin open
  /\ open' = open \cup {g}
  /\ UNCHANGED <<n, obs, ctx, cpc, ret, epc, k, out, chan>>

CallerStep == CallerDone \/ CallerRecv
ExecStep   == Coerce \/ Resolve \/ Publish \/ PublishRdv

Next ==
  \/ Call \/ CallerStep \/ ExecStep
  \/ Fire("cancelled") \/ Fire("deadline")
  \/ \E g \in 0..n : Release(g)

\* caller and exec goroutine are running code; context and gates are free (a gate may stay shut for ever)
Spec    == Init /\ [][Next]_vars /\ WF_vars(CallerStep) /\ WF_vars(ExecStep)
\* additionally the call is made and every resolver is eventually released
SpecRel == Spec /\ WF_vars(Call) /\ \A g \in 0..N : WF_vars(Release(g))

\* ------------------------------------------------------------------ safety
TypeOK ==
  /\ n \in 1..N /\ ctx \in {"live", "cancelled", "deadline"} /\ open \subseteq 0..n
  /\ cpc \in {"idle", "wait", "ret"} /\ epc \in {"off", "coerce", "res", "pub", "done"}
  /\ k \in 0..n /\ Len(out) <= n /\ Len(chan) <= 1

\* the caller gets the complete normal response or exactly the context's error and no data:
\* never a partially filled tree, never a response with some errors missing
TwoOutcomes ==
  cpc = "ret" =>
    \/ ret.t = "ctx" /\ ctx # "live" /\ ret.e = ctx /\ ret.out = <<>>
    \/ /\ ret.t = "full" /\ Len(ret.out) = n
       /\ \A j \in 1..n : ret.out[j] = "ctxerr" => (obs[j] /\ ctx # "live")
\* nothing is returned before the call, and a returned value never changes
ReturnStable == [][(cpc = "ret") => (cpc' = "ret" /\ ret' = ret)]_vars
\* what is published is always the complete response
PublishedComplete == \A i \in 1..Len(chan) : chan[i].t = "full" /\ Len(chan[i].out) = n
\* the result send never blocks on a buffered channel
PublishNeverBlocks == (Cap > 0 /\ epc = "pub") => Len(chan) < Cap
\* a response is returned only when the execution really finished
FullOnlyWhenFinished == (cpc = "ret" /\ ret.t = "full") => epc = "done"

Safety == TypeOK /\ TwoOutcomes /\ PublishedComplete /\ PublishNeverBlocks /\ FullOnlyWhenFinished

\* ---------------------------------------------------------------- liveness
\* once the context is done the call returns although no further gate is ever opened
PromptReturn == (cpc = "wait" /\ ctx # "live") ~> (cpc = "ret")
\* (under SpecRel) the call returns; the background goroutine ends once its resolvers are released
CallReturns    == <>(cpc = "ret")
ExecTerminates == <>(epc = "done")
=============================================================================
