----------------------------- MODULE Determinism -----------------------------
(***************************************************************************)
(* C12: a request determines its response.                                 *)
(*                                                                         *)
(* An observation is [rid, h, nh]: the request identity (document,         *)
(* operation name, variables, resolver outcomes, entry point class), the   *)
(* hash of the JSON bytes of the response (or of the validation error      *)
(* list), and the hash of the response after the ordering of the list      *)
(* named by the request's feature tag has been normalised.  The property   *)
(* is the functional dependence  rid -> h  over ALL observations of a run: *)
(* every position of every history, with and without plan cache, in every *)
(* process (map seeds differ per process and per range statement).         *)
(*                                                                         *)
(* A listed known finding D permits, for requests carrying D's tag only,   *)
(* that h varies as long as nh does not (the variation is exactly a        *)
(* reordering of that list).                                               *)
(***************************************************************************)
EXTENDS Naturals, Sequences, FiniteSets, TLC

\* seen: function rid -> [h, nh]; obs: the next observation; known: set of listed deviation tags
Consistent(seen, obs, known) ==
  obs.rid \in DOMAIN seen =>
     \/ seen[obs.rid].h = obs.h
     \/ (obs.tag \in known /\ seen[obs.rid].nh = obs.nh)

\* a tiny machine over an abstract pool, to let TLC check the statement itself:
\* responses computed by a function of the request never violate Consistent,
\* responses that depend on hidden state (a counter) do.
CONSTANTS Reqs, Leaky
VARIABLES seen, hidden
vars == <<seen, hidden>>
Init == seen = <<>> /\ hidden = 0
Resp(r) == IF Leaky THEN <<r, hidden>> ELSE <<r>>
Serve(r) ==
  /\ hidden' = (hidden + 1) % 2
  /\ seen' = [x \in DOMAIN seen \cup {r} |-> IF x = r /\ r \notin DOMAIN seen THEN [h |-> Resp(r), nh |-> Resp(r)]
                                             ELSE IF x = r THEN seen[r] ELSE seen[x]]
Next == \E r \in Reqs : Serve(r)
Spec == Init /\ [][Next]_vars
\* what the next response would be must agree with what was seen
Functional == \A r \in DOMAIN seen : Consistent(seen, [rid |-> r, h |-> Resp(r), nh |-> Resp(r), tag |-> "-"], {})
=============================================================================
