------------------------------- MODULE MC_C02G -------------------------------
(***************************************************************************)
(* C02 families V2 - V5: documents grown by the bounded generator          *)
(* GenDoc.tla from alphabets that contain wrong as well as right choices   *)
(* (unknown fields, misplaced sub-selections, impossible or non-composite  *)
(* type conditions, unknown / duplicate / missing / ill-typed arguments,   *)
(* unknown and misplaced directives, variables in every kind of position), *)
(* then decorated, when the document is complete, with every choice of a   *)
(* finite set of operation headers (variable definitions, operation kinds  *)
(* and names, a second operation, directives on definitions, a duplicated  *)
(* fragment).  Each decorated document is judged by the 24 rules of        *)
(* Validate.tla and printed as one vector by the Finish action (computed   *)
(* in the action, see MC_C02.tla).                                         *)
(***************************************************************************)
EXTENDS GenDoc, Validate, SchemaS1, Json

CONSTANTS Fam, Decor     \* family label; which decoration set Finish applies

VARIABLE fin             \* <<>> while growing; <<[n, thm]>> once the complete document was emitted
vars == <<sec, done, stack, nid, fin>>

SX == IndexSchema(S1)

\* ------------------------------------------------------------------ alphabets
Sel(alias, name) == [alias |-> alias, name |-> name, args |-> <<>>]
SelA(alias, name, args) == [alias |-> alias, name |-> name, args |-> args]
Arg(n, v) == [n |-> n, v |-> v]
DirX(n, args) == [n |-> n, v |-> NullV, args |-> args]     \* a directive with an explicit argument list
T == BoolV(TRUE)
ObjL(fs) == ObjV(fs)
OF(n, v) == [n |-> n, v |-> v]

NoSel(t) == {}
NoSpread(i, j) == FALSE
SpreadAny(i, j) == j > i \/ i > Len(Frags)
NoFrags == <<>>
FragsF == << [name |-> "F", on |-> "Q"] >>
DirsNone == { <<>> }

\* V4: fields and types ------------------------------------------------------
V4_Leafs(t) ==
  CASE t = "Q" -> { Sel("", "a"), Sel("", "zz"), Sel("", "o"), Sel("", "__typename") }
    [] t = "O" -> { Sel("", "x"), Sel("", "zz"), Sel("", "z") }
    [] t = "I" -> { Sel("", "x"), Sel("", "p"), Sel("", "__typename") }
    [] t = "U" -> { Sel("", "__typename"), Sel("", "x") }
    [] t = "A" -> { Sel("", "p"), Sel("", "q") }
    [] t = "B" -> { Sel("", "q") }
    [] OTHER -> { Sel("", "x") }                      \* below a leaf / an unknown type
V4_Comps(t) ==
  CASE t = "Q" -> { Sel("", "o"), Sel("", "i"), Sel("", "u"), Sel("", "il"), Sel("", "n"), Sel("", "a") }
    [] t = "O" -> { Sel("", "z"), Sel("", "x") }
    [] OTHER -> {}
V4_Inlines(t) ==
  CASE t = "Q" -> { "", "Q", "O", "Int", "Zzz" }
    [] t = "O" -> { "", "A" }
    [] t = "I" -> { "", "A", "U", "O", "In" }
    [] t = "U" -> { "", "B", "I", "O" }
    [] t = "A" -> { "", "I", "B" }
    [] OTHER -> {}

\* V4i: typeless and typed inline fragments side by side and nested, few fields: the type that applies after an
\* inline fragment has been left is the one that applied before it was entered
V4i_Leafs(t) == CASE t = "Q" -> { Sel("", "a") } [] t = "O" -> { Sel("", "x"), Sel("", "a") } [] OTHER -> {}
V4i_Comps(t) == CASE t = "Q" -> { Sel("", "o") } [] t = "O" -> { Sel("", "z") } [] OTHER -> {}
V4i_Inlines(t) == CASE t = "Q" -> { "", "Q" } [] t = "O" -> { "", "O" } [] OTHER -> {}

\* V3: arguments and literals -------------------------------------------------
I1 == IntV("1")
V3_Leafs(t) ==
  IF t # "Q" THEN { Sel("", "x") } ELSE
  { SelA("", "f", <<>>),
    SelA("", "f", <<Arg("x", I1)>>),
    SelA("", "f", <<Arg("y", StrV("s"))>>),
    SelA("", "f", <<Arg("y", FloatV("1.5"))>>),
    SelA("", "f", <<Arg("y", IntV("over32"))>>),
    SelA("", "f", <<Arg("q", I1)>>),
    SelA("", "f", <<Arg("y", I1), Arg("y", IntV("2"))>>),
    SelA("", "f", <<Arg("y", I1), Arg("x", StrV("s")), Arg("q", T)>>),
    SelA("", "f", <<Arg("z", ListV(<<I1, StrV("a")>>))>>),
    SelA("", "f", <<Arg("z", I1)>>),
    SelA("", "f", <<Arg("z", ListV(<<ListV(<<I1>>)>>))>>),
    SelA("", "f", <<Arg("in", ObjL(<<OF("r", I1)>>))>>),
    SelA("", "f", <<Arg("in", ObjL(<<OF("k", I1)>>))>>),
    SelA("", "f", <<Arg("in", ObjL(<<OF("r", I1), OF("zz", I1)>>))>>),
    SelA("", "f", <<Arg("in", ObjL(<<OF("r", I1), OF("r", IntV("2"))>>))>>),
    SelA("", "f", <<Arg("in", ObjL(<<OF("r", StrV("s")), OF("m", StrV("s"))>>))>>),
    SelA("", "f", <<Arg("in", I1)>>),
    SelA("", "f", <<Arg("en", EnumV("RED"))>>),
    SelA("", "f", <<Arg("en", EnumV("BLUE"))>>),
    SelA("", "f", <<Arg("en", StrV("RED"))>>),
    SelA("", "gni", <<>>),
    SelA("", "gni", <<Arg("ni", I1)>>),
    SelA("", "gni", <<Arg("ni", StrV("s"))>>),
    SelA("", "gni", <<Arg("zz", I1)>>),
    SelA("", "gnin", <<Arg("nin", ObjL(<<OF("r", I1)>>))>>),
    SelA("", "gnin", <<Arg("nin", ObjL(<<OF("m", I1)>>))>>),
    SelA("", "g", <<Arg("in2", ObjL(<<OF("n", ObjL(<<OF("r", I1), OF("k", StrV("s"))>>)), OF("l", ListV(<<I1>>))>>))>>),
    SelA("", "g", <<Arg("in2", ObjL(<<OF("n", ObjL(<<OF("m", StrV("s"))>>)), OF("e", EnumV("GREEN")), OF("e", EnumV("RED"))>>))>>),
    SelA("", "g", <<Arg("lni", ListV(<<I1>>)), Arg("cu", StrV("c")), Arg("cu", I1), Arg("id", I1), Arg("bo", I1)>>),
    SelA("", "zz", <<Arg("y", I1)>>),
    SelA("", "a", <<Arg("y", I1)>>) }
V3_Comps(t) == IF t = "Q" THEN { Sel("", "o") } ELSE {}
V3_Dirs ==
  { <<>>,
    <<DirX("skip", <<Arg("if", T)>>)>>,
    <<DirX("skip", <<>>)>>,
    <<DirX("skip", <<Arg("if", I1)>>)>>,
    <<DirX("skip", <<Arg("iff", T)>>)>>,
    <<DirX("include", <<Arg("if", T), Arg("if", BoolV(FALSE))>>)>>,
    <<DirX("skip", <<Arg("if", T)>>), DirX("include", <<Arg("if", StrV("s")), Arg("x", I1)>>)>>,
    <<DirX("unknown", <<>>)>>,
    <<DirX("unknown", <<Arg("y", StrV("s"))>>)>>,
    <<DirX("deprecated", <<>>)>>,
    <<DirX("deprecated", <<Arg("reason", I1)>>)>> }

\* V3s: a directive on an EARLIER selection, a (possibly wrong) argument on a later one: the type
\* tracker must not carry the directive over
V3s_Leafs(t) ==
  IF t # "Q" THEN { Sel("", "x") } ELSE
  { SelA("", "a", <<>>),
    SelA("", "f", <<Arg("x", I1)>>),
    SelA("", "f", <<Arg("y", StrV("s"))>>),
    SelA("", "f", <<Arg("in", ObjL(<<OF("r", StrV("s"))>>))>>),
    SelA("", "f", <<Arg("en", EnumV("BLUE"))>>),
    SelA("", "f", <<Arg("if", T)>>),
    SelA("", "gni", <<Arg("ni", StrV("s"))>>) }
V3s_Dirs == { <<>>, <<DirX("skip", <<Arg("if", T)>>)>>, <<DirX("include", <<Arg("if", BoolV(FALSE))>>)>> }

\* V2: variables ---------------------------------------------------------------
Va == VarRef("a")
Vb == VarRef("b")
V2_Leafs(t) ==
  IF t # "Q" THEN { Sel("", "x") } ELSE
  { SelA("", "a", <<>>),
    SelA("", "f", <<Arg("y", Va)>>),
    SelA("", "f", <<Arg("y", Vb)>>),
    SelA("", "f", <<Arg("z", Va)>>),
    SelA("", "f", <<Arg("z", ListV(<<Va, I1>>))>>),
    SelA("", "f", <<Arg("in", ObjL(<<OF("r", Va)>>))>>),
    SelA("", "f", <<Arg("in", ObjL(<<OF("k", Va), OF("r", Vb)>>))>>),
    SelA("", "f", <<Arg("in", Va)>>),
    SelA("", "f", <<Arg("q", Va)>>),
    SelA("", "gni", <<Arg("ni", Va)>>),
    SelA("", "g", <<Arg("lni", ListV(<<Va>>))>>),
    SelA("", "g", <<Arg("lin", ObjL(<<OF("r", Va)>>))>>),
    SelA("", "g", <<Arg("lli", ListV(<<Va>>))>>),
    SelA("", "gnli", <<Arg("nli", ListV(<<Va, I1>>))>>),       \* an item of a list literal in a NON-NULL list position
    SelA("", "zz", <<Arg("y", Va)>>) }
V2_Dirs ==
  { <<>>, <<DirX("skip", <<Arg("if", Va)>>)>>, <<DirX("unknown", <<Arg("y", Va)>>)>> }

VD(n, t) == [n |-> n, type |-> t, hasDef |-> FALSE, def |-> NullV]
VDD(n, t, d) == [n |-> n, type |-> t, hasDef |-> TRUE, def |-> d]
N(n) == TNamed(n)
V2_DefsA ==
  { VD("a", N("Int")), VD("a", TNN(N("Int"))), VD("a", TList(N("Int"))), VD("a", TList(TNN(N("Int")))),
    VD("a", TNN(N("Boolean"))), VD("a", N("Boolean")), VD("a", N("In")), VD("a", N("O")), VD("a", N("Zzz")),
    VD("a", TList(N("Zzz"))),
    VDD("a", N("Int"), I1), VDD("a", TNN(N("Int")), I1), VDD("a", N("Int"), StrV("s")),
    VDD("a", N("Boolean"), T), VDD("a", TList(N("Int")), ListV(<<I1, StrV("s")>>)),
    VDD("a", N("In"), ObjL(<<OF("k", I1)>>)), VDD("a", N("In"), ObjL(<<OF("r", I1), OF("r", I1)>>)),
    VDD("a", N("O"), I1), VDD("a", N("Zzz"), I1) }
V2_DefsB == { VD("b", N("Int")), VD("a", N("Int")), VDD("b", TNN(N("Int")), StrV("s")) }
V2_VDefs == { <<>> } \cup { <<d>> : d \in V2_DefsA } \cup { <<d, e>> : d \in { VD("a", N("Int")), VD("a", TNN(N("Boolean"))), VDD("a", N("Int"), I1) }, e \in V2_DefsB }

\* V5: operations and directives ---------------------------------------------
V5_Leafs(t) == IF t = "Q" THEN { Sel("", "a") } ELSE IF t = "M" THEN { Sel("", "a") } ELSE { Sel("", "x") }
V5_Inlines(t) == IF t = "Q" THEN { "" } ELSE {}
V5_Dirs == { <<>>, <<DirX("skip", <<Arg("if", T)>>)>>, <<DirX("deprecated", <<>>)>>, <<DirX("nope", <<>>)>> }
V5_DefDirs == { <<>>, <<DirX("skip", <<Arg("if", T)>>)>>, <<DirX("nope", <<>>)>>, <<DirX("include", <<>>)>> }
FldA(id) == [k |-> "field", id |-> id, alias |-> "", name |-> "a", args |-> <<>>, dirs |-> <<>>, sel |-> <<>>]
OpRec(kind, name, sel, dirs) == [kind |-> kind, name |-> name, vdefs |-> <<>>, sel |-> sel, dirs |-> dirs]
\* second operations (their selection has id 90)
V5_Second ==
  { <<>> } \cup { << OpRec(k, n, << FldA(90) >>, <<>>) >> : k \in {"query", "mutation"}, n \in {"", "A", "B"} }

\* ----------------------------------------------------------------- decoration
BaseFrags == [i \in 1..Len(Frags) |-> [name |-> Frags[i].name, on |-> Frags[i].on, sel |-> done[i], dirs |-> <<>>]]

Decorated ==
  LET sel == stack[1].sels
      plain == [ops |-> << OpRec(OpKind, "", sel, <<>>) >>, frags |-> BaseFrags]
  IN CASE Decor = "none" -> { plain }
       [] Decor = "vdefs" ->
            { [ops |-> << [kind |-> OpKind, name |-> "", vdefs |-> vd, sel |-> sel, dirs |-> <<>>] >>, frags |-> BaseFrags]
              : vd \in V2_VDefs }
       [] Decor = "ops" ->
            \* first operation: kind x name x directives; optional second operation; fragment decorations
            { [ops |-> << OpRec(k, n, sel, dd) >>, frags |-> BaseFrags]
              : k \in {"query", "subscription"}, n \in {"", "A"}, dd \in V5_DefDirs }
            \cup
            { [ops |-> << OpRec("query", n, sel, <<>>) >> \o second, frags |-> BaseFrags]
              : n \in {"", "A"}, second \in V5_Second }
            \cup
            (IF Len(Frags) = 0 THEN {} ELSE
             { [ops |-> << OpRec("query", "", sel, <<>>) >>,
                frags |-> << [name |-> Frags[1].name, on |-> Frags[1].on, sel |-> done[1], dirs |-> dd] >> \o extra]
               : dd \in V5_DefDirs,
                 extra \in { <<>>, << [name |-> Frags[1].name, on |-> "Q", sel |-> << FldA(91) >>, dirs |-> <<>>] >>,
                             << [name |-> "G", on |-> "Q", sel |-> << FldA(91) >>, dirs |-> <<>>] >> } })

VectorOfDoc(D) ==
  LET j == Judge(SX, D)
  IN [fam |-> Fam, doc |-> D, viol |-> j.viol, dev |-> j.dev, unspec |-> j.unspec,
      thm |-> /\ j.dv["D_C02_overlap_step_E"] \subseteq j.v0["OverlappingFieldsCanBeMerged"]
              /\ j.v0["PossibleFragmentSpreads"] \subseteq j.dv["D_C02_untyped_inline_in_wrapped_field"]
              \* without fragments the fragment rules have nothing to say
              /\ (D.frags = <<>> => /\ j.v0["NoFragmentCycles"] = {} /\ j.v0["NoUnusedFragments"] = {}
                                    /\ j.v0["UniqueFragmentNames"] = {})]

\* -------------------------------------------------------------------- machine
Init == GenInit /\ fin = <<>>

Finish ==
  /\ Complete /\ fin = <<>>
  /\ LET vs == { VectorOfDoc(D) : D \in Decorated } IN
     /\ \A v \in vs : PrintT(<<"VEC", ToJson(v)>>)
     /\ fin' = << [n |-> Cardinality(vs), thm |-> \A v \in vs : v.thm] >>
  /\ UNCHANGED gvars

Next == (fin = <<>> /\ GenNext /\ UNCHANGED fin) \/ Finish

Spec == Init /\ [][Next]_vars

TheoremsHold == fin # <<>> => fin[1].thm

ASSUME PrintT(<<"SCHEMA", ToJson(S1)>>)
=============================================================================
