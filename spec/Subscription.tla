---------------------------- MODULE Subscription ----------------------------
(***************************************************************************)
(* C15: a subscription delivers one correct result per source event, then  *)
(* closes.  Written from the property statement; the actions are the       *)
(* channel operations / critical sections of a forwarder that sits between *)
(* an event source and a consumer, and of the executors it starts.         *)
(*                                                                         *)
(* Processes                                                               *)
(*   Source     emits events e1..en (payload class chosen freely, among    *)
(*              them classes whose field resolution fails and a class      *)
(*              whose resolver is slow) over an UNBUFFERED channel, and    *)
(*              may close that channel;                                    *)
(*   Forwarder  sets the subscription up (parse, validate, subscribe); then*)
(*              loops: select { context done | event | source closed };    *)
(*              maps the event through Execute: STARTS AN EXECUTOR for it  *)
(*              and waits for { the executor's hand-off | context done };  *)
(*              sends the result on the UNBUFFERED result channel; closes  *)
(*              the result channel when it leaves;                         *)
(*   Executor i (one per event, started by the forwarder's map step) runs  *)
(*              the resolvers of event i - for an event of class "slow"    *)
(*              the resolver PARKS until the environment releases it - and *)
(*              then hands its result to the forwarder through its own     *)
(*              hand-off channel of capacity Cap (exactly one send);       *)
(*   Consumer   receives results (promptly, slowly = any interleaving, or  *)
(*              stops reading for ever);                                   *)
(*   Canceller  cancels the context at any time, also before the           *)
(*              forwarder has subscribed and while a resolver is parked;   *)
(*   Releaser   lets a parked resolver return (any time, or never).        *)
(*                                                                         *)
(* An unbuffered channel is a rendezvous: the sender's and the receiver's  *)
(* step are ONE action (SrcEmit = source send + forwarder receive,         *)
(* Deliver = forwarder send + consumer receive, and for Cap = 0 ExecSend = *)
(* executor send + forwarder receive).                                     *)
(*                                                                         *)
(* Results are not interpreted here: the result of executing the           *)
(* subscription's selection with event number i of class c as root value   *)
(* is the pair [i, c]; the request-level error result is ErrRes.  The      *)
(* binding (MC_C15) maps classes to concrete payloads and response shapes. *)
(*                                                                         *)
(* Design = "intended": while sending a result the forwarder also watches  *)
(*          the context (FwdSendCtx);                                      *)
(* Design = "asis":     plain send.  TLC shows that NoLeak fails (named    *)
(*          deviation D_C15_send_ignores_ctx).                             *)
(* Cap >= 1 (intended): the executor's single send never blocks;           *)
(* Cap = 0:  the hand-off is a rendezvous.  TLC shows that RestAfterCancel *)
(*          and NoLeak fail: a forwarder that left on "context done" never *)
(*          receives, the executor stays blocked in its send for ever      *)
(*          (named deviation D_C15_handoff_unbuffered).                    *)
(***************************************************************************)
EXTENDS Naturals, Sequences, FiniteSets, TLC

CONSTANTS MaxEv,      \* the source emits at most MaxEv events
          Classes,    \* payload classes
          Modes,      \* request kinds explored: "ok", "parse", "validate", "suberr", "subpanic" (the Subscribe resolver panics)
          Design,     \* "intended" | "asis"
          Cap         \* capacity of an executor's hand-off channel

VARIABLES mode,       \* kind of request (fixed per behaviour)
          cancelled,  \* the context is done
          sent,       \* classes of the events the source has handed over so far
          srcClosed,  \* the source closed its channel
          fpc,        \* forwarder: "start" "sel" "map" "wait" "send" "exit" "done"
          cur,        \* the event / result the forwarder holds
          last,       \* the forwarder leaves after sending cur (request-level error)
          delivered,  \* results received by the consumer, in order
          outClosed,  \* the result channel is closed
          cstop,      \* the consumer stopped reading for ever
          seenClosed, \* the consumer observed the closed result channel
          epc,        \* executor of event i: "idle" (not started) "run" "parked" "send" "done"
          hbuf        \* the hand-off channel of executor i holds its result (Cap >= 1 only)

vars == <<mode, cancelled, sent, srcClosed, fpc, cur, last, delivered, outClosed, cstop, seenClosed, epc, hbuf>>
xvars == <<epc, hbuf>>

Evs == 1..MaxEv

None   == [i |-> 0, c |-> "-"]
ErrRes == [i |-> 0, c |-> "reqerr"]
Res(i, c) == [i |-> i, c |-> c]      \* Execute(selection, root value = event i of class c)
Parks(c) == c = "slow"               \* the class whose resolver parks until it is released

TypeOK ==
  /\ mode \in Modes /\ cancelled \in BOOLEAN /\ srcClosed \in BOOLEAN
  /\ sent \in Seq(Classes) /\ Len(sent) <= MaxEv
  /\ fpc \in {"start", "sel", "map", "wait", "send", "exit", "done"}
  /\ last \in BOOLEAN /\ outClosed \in BOOLEAN /\ cstop \in BOOLEAN /\ seenClosed \in BOOLEAN
  /\ Len(delivered) <= MaxEv + 1
  /\ epc \in [Evs -> {"idle", "run", "parked", "send", "done"}]
  /\ hbuf \in [Evs -> BOOLEAN]

Init ==
  /\ mode \in Modes
  /\ cancelled = FALSE /\ sent = <<>> /\ srcClosed = FALSE
  /\ fpc = "start" /\ cur = None /\ last = FALSE
  /\ delivered = <<>> /\ outClosed = FALSE /\ cstop = FALSE /\ seenClosed = FALSE
  /\ epc = [i \in Evs |-> "idle"] /\ hbuf = [i \in Evs |-> FALSE]

\* ---------------------------------------------------------------- forwarder
\* parse + validate + call the field's subscribe function
FwdSetup ==
  /\ fpc = "start"
  /\ IF mode = "ok"
       THEN fpc' = "sel" /\ UNCHANGED <<cur, last>>
       ELSE fpc' = "send" /\ cur' = ErrRes /\ last' = TRUE
  /\ UNCHANGED <<mode, cancelled, sent, srcClosed, delivered, outClosed, cstop, seenClosed, xvars>>

\* select: case <-ctx.Done()
FwdSelCtx ==
  /\ fpc = "sel" /\ cancelled
  /\ fpc' = "exit"
  /\ UNCHANGED <<mode, cancelled, sent, srcClosed, cur, last, delivered, outClosed, cstop, seenClosed, xvars>>

\* select: case ev := <-source  (rendezvous with the source's send of an event of class c)
SrcEmit(c) ==
  /\ fpc = "sel" /\ ~srcClosed /\ Len(sent) < MaxEv
  /\ sent' = Append(sent, c)
  /\ cur' = Res(Len(sent) + 1, c)
  /\ fpc' = "map"
  /\ UNCHANGED <<mode, cancelled, srcClosed, last, delivered, outClosed, cstop, seenClosed, xvars>>

\* select: case _, more := <-source with more = false
FwdSelClosed ==
  /\ fpc = "sel" /\ srcClosed
  /\ fpc' = "exit"
  /\ UNCHANGED <<mode, cancelled, sent, srcClosed, cur, last, delivered, outClosed, cstop, seenClosed, xvars>>

\* res := Execute(selection, root = event): the execution is carried out by a separate process;
\* this step starts it (go func() { ... handoff <- result }()) ...
FwdMap ==
  /\ fpc = "map"
  /\ fpc' = "wait"
  /\ epc' = [epc EXCEPT ![cur.i] = "run"]
  /\ UNCHANGED <<mode, cancelled, sent, srcClosed, cur, last, delivered, outClosed, cstop, seenClosed, hbuf>>

\* ... and then the forwarder waits: select { case res := <-handoff | case <-ctx.Done() }.
\* case res := <-handoff, buffered hand-off (for Cap = 0 see ExecSend)
FwdRecv ==
  /\ fpc = "wait" /\ hbuf[cur.i]
  /\ hbuf' = [hbuf EXCEPT ![cur.i] = FALSE]
  /\ fpc' = "send"
  /\ UNCHANGED <<mode, cancelled, sent, srcClosed, cur, last, delivered, outClosed, cstop, seenClosed, epc>>

\* case <-ctx.Done(): the execution runs under the subscription's context; by C16 an execution whose
\* context is done yields either the complete response or exactly the context's error (class
\* "ctxerr").  The executor is NOT waited for: it goes on and will still do its send.
FwdWaitCtx ==
  /\ fpc = "wait" /\ cancelled
  /\ cur' = [cur EXCEPT !.c = "ctxerr"]
  /\ fpc' = "send"
  /\ UNCHANGED <<mode, cancelled, sent, srcClosed, last, delivered, outClosed, cstop, seenClosed, xvars>>

\* out <- res  (rendezvous with the consumer's receive)
Deliver ==
  /\ fpc = "send" /\ ~cstop
  /\ delivered' = Append(delivered, cur)
  /\ cur' = None
  /\ fpc' = IF last THEN "exit" ELSE "sel"
  /\ UNCHANGED <<mode, cancelled, sent, srcClosed, last, outClosed, cstop, seenClosed, xvars>>

\* intended design only: select { case out <- res: | case <-ctx.Done(): return }
FwdSendCtx ==
  /\ Design = "intended"
  /\ fpc = "send" /\ cancelled
  /\ cur' = None
  /\ fpc' = "exit"
  /\ UNCHANGED <<mode, cancelled, sent, srcClosed, last, delivered, outClosed, cstop, seenClosed, xvars>>

\* deferred close(out); the goroutine ends
FwdClose ==
  /\ fpc = "exit"
  /\ outClosed' = TRUE
  /\ fpc' = "done"
  /\ UNCHANGED <<mode, cancelled, sent, srcClosed, cur, last, delivered, cstop, seenClosed, xvars>>

\* the steps the forwarder can take on its own (no partner needed)
FwdInternal == FwdSetup \/ FwdSelCtx \/ FwdSelClosed \/ FwdMap \/ FwdRecv \/ FwdWaitCtx \/ FwdSendCtx \/ FwdClose

\* state predicate: some FwdInternal step is possible under design d
FwdCanStep(d) ==
  \/ fpc \in {"start", "map", "exit"}
  \/ fpc = "sel" /\ (cancelled \/ srcClosed)
  \/ fpc = "wait" /\ (cancelled \/ hbuf[cur.i])
  \/ fpc = "send" /\ cancelled /\ d = "intended"

\* ---------------------------------------------------------------- executor of event i
\* runs the resolvers; the resolver of a "slow" event parks (visibly for the environment)
ExecRun(i) ==
  /\ epc[i] = "run"
  /\ epc' = [epc EXCEPT ![i] = IF Parks(sent[i]) THEN "parked" ELSE "send"]
  /\ UNCHANGED <<mode, cancelled, sent, srcClosed, fpc, cur, last, delivered, outClosed, cstop, seenClosed, hbuf>>

\* handoff <- result; the goroutine ends.  Cap >= 1: the channel is the executor's own and this is
\* the only send on it, so it never blocks.  Cap = 0: rendezvous with the forwarder waiting for
\* exactly this executor.
ExecSend(i) ==
  /\ epc[i] = "send"
  /\ epc' = [epc EXCEPT ![i] = "done"]
  /\ IF Cap >= 1
       THEN hbuf' = [hbuf EXCEPT ![i] = TRUE] /\ fpc' = fpc
       ELSE fpc = "wait" /\ cur.i = i /\ fpc' = "send" /\ hbuf' = hbuf
  /\ UNCHANGED <<mode, cancelled, sent, srcClosed, cur, last, delivered, outClosed, cstop, seenClosed>>

ExecStep(i) == ExecRun(i) \/ ExecSend(i)

\* state predicate: executor i can take a step when the hand-off channel has capacity cap
ExecCanStepC(i, cap) ==
  \/ epc[i] = "run"
  \/ epc[i] = "send" /\ (cap >= 1 \/ (fpc = "wait" /\ cur.i = i))
ExecCanStep(i) == ExecCanStepC(i, Cap)

Parked == {i \in Evs : epc[i] = "parked"}
\* executor i is not there (never started, or ended) or is held by the environment
ExecGone(i)   == epc[i] \in {"idle", "done"}
ExecAtEase(i) == epc[i] \in {"idle", "done", "parked"}

\* ---------------------------------------------------------------- environment
SrcClose ==
  /\ ~srcClosed
  /\ srcClosed' = TRUE
  /\ UNCHANGED <<mode, cancelled, sent, fpc, cur, last, delivered, outClosed, cstop, seenClosed, xvars>>

ConsumerSeeClosed ==
  /\ outClosed /\ ~cstop /\ ~seenClosed
  /\ seenClosed' = TRUE
  /\ UNCHANGED <<mode, cancelled, sent, srcClosed, fpc, cur, last, delivered, outClosed, cstop, xvars>>

ConsumerStop ==
  /\ ~cstop
  /\ cstop' = TRUE
  /\ UNCHANGED <<mode, cancelled, sent, srcClosed, fpc, cur, last, delivered, outClosed, seenClosed, xvars>>

Cancel ==
  /\ ~cancelled
  /\ cancelled' = TRUE
  /\ UNCHANGED <<mode, sent, srcClosed, fpc, cur, last, delivered, outClosed, cstop, seenClosed, xvars>>

\* the parked resolver of event i returns
Release(i) ==
  /\ epc[i] = "parked"
  /\ epc' = [epc EXCEPT ![i] = "send"]
  /\ UNCHANGED <<mode, cancelled, sent, srcClosed, fpc, cur, last, delivered, outClosed, cstop, seenClosed, hbuf>>

Next ==
  \/ FwdInternal
  \/ \E i \in Evs : ExecStep(i)
  \/ \E c \in Classes : SrcEmit(c)
  \/ Deliver
  \/ SrcClose \/ ConsumerSeeClosed \/ ConsumerStop \/ Cancel
  \/ \E i \in Evs : Release(i)

\* the environment (source, consumer, canceller, releaser) is free; the forwarder and every
\* started executor are running goroutines
Spec     == Init /\ [][Next]_vars /\ WF_vars(FwdInternal) /\ \A i \in Evs : WF_vars(ExecStep(i))
\* additionally: a consumer that has not stopped keeps receiving, and every resolver returns
\* (without the latter a forwarder may wait for a parked executor for ever while the context is live)
SpecRead == Spec /\ WF_vars(Deliver) /\ \A i \in Evs : WF_vars(Release(i))

\* ---------------------------------------------------------------- safety
\* delivered is the image under Execute of a prefix of the events, in source order:
\* the j-th delivered result is the result of the j-th event, hence at most one per event
PrefixInOrder ==
  mode = "ok" =>
    /\ Len(delivered) <= Len(sent)
    /\ \A j \in 1..Len(delivered) :
          \/ delivered[j] = Res(j, sent[j])
          \/ cancelled /\ delivered[j] = Res(j, "ctxerr")     \* executed under a done context

\* exactly one per event: nothing is dropped unless the context was cancelled
\* (the only event without a result is the one the forwarder is working on)
NothingLost ==
  mode = "ok" =>
    /\ Len(sent) - Len(delivered) \in {0, 1}
    /\ (Len(sent) - Len(delivered) = 1 /\ fpc \notin {"map", "wait", "send"}) => cancelled

\* the result channel is closed only after the source closed or the context was cancelled
\* (or, for a failed request, after its single error result)
ClosedOnlyAfter ==
  outClosed => (srcClosed \/ cancelled \/ (mode # "ok" /\ delivered = <<ErrRes>>))

\* a request that fails to parse, validate or subscribe: exactly one error result, then closed
ErrorOnce ==
  mode # "ok" =>
    /\ sent = <<>>
    /\ delivered \in {<<>>, <<ErrRes>>}
    /\ (outClosed /\ ~cancelled) => delivered = <<ErrRes>>
    /\ (delivered = <<ErrRes>>) => fpc \in {"exit", "done"}

\* executors: one per event that was taken, started in event order; the result of an event is never
\* delivered while its resolver is still held by the environment (only the context's error is);
\* unless the context is cancelled there is at most one live executor, the one the forwarder waits for
ExecInv ==
  /\ \A i \in Evs : epc[i] # "idle" => i <= Len(sent)
  /\ \A i \in Evs : epc[i] = "parked" => Parks(sent[i])
  /\ \A i \in Evs : hbuf[i] => epc[i] = "done"
  /\ \A i \in Evs : (epc[i] \in {"run", "parked"} /\ i <= Len(delivered)) => delivered[i] = Res(i, "ctxerr")
  /\ \A i \in Evs : (~ExecGone(i) /\ ~cancelled) => (fpc = "wait" /\ cur.i = i)

\* the functional part (holds for every design)
SafetyCore == TypeOK /\ PrefixInOrder /\ NothingLost /\ ClosedOnlyAfter /\ ErrorOnce /\ ExecInv

\* the leak clause as a state predicate: once the context is cancelled, a state in which no process
\* can take a step on its own - the forwarder as designed (intended: its send watches the context),
\* the executors with the hand-off capacity as configured - is a state in which the forwarder has
\* terminated and every executor has terminated, was never started, or is parked in a resolver that
\* the environment has not released yet.  (Cap = 0 violates it: executor in "send", forwarder gone.)
RestAfterCancel ==
  (cancelled /\ ~FwdCanStep("intended") /\ \A i \in Evs : ~ExecCanStep(i))
     => (fpc = "done" /\ \A i \in Evs : ExecAtEase(i))

Safety == SafetyCore /\ RestAfterCancel

\* nothing is delivered after the close; the close is final; results are never retracted
AfterClose ==
  [][/\ outClosed => (outClosed' /\ delivered' = delivered)
     /\ Len(delivered') >= Len(delivered)
     /\ \A j \in 1..Len(delivered) : delivered'[j] = delivered[j]]_vars

\* ---------------------------------------------------------------- liveness
\* after cancellation no process started for the subscription stays blocked for ever: the forwarder
\* terminates, and every executor terminates unless the environment holds its resolver (the
\* property is re-evaluated in every later state, so after the last release all executors are gone)
NoLeak == cancelled ~> (fpc = "done" /\ \A i \in Evs : ExecAtEase(i))
\* the forwarder alone (does not depend on the releases at all)
NoLeakFwd == cancelled ~> (fpc = "done")
\* once every parked resolver has been released for good, everything is gone for good
AllGone == fpc = "done" /\ \A i \in Evs : ExecGone(i)
NoLeakReleased == (cancelled /\ [](Parked = {})) ~> [](AllGone)
\* with a consumer that keeps reading, the channel is closed after source close / cancel
ClosesWhenRead == (srcClosed \/ cancelled) ~> (outClosed \/ cstop)
=============================================================================
