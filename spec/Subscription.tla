---------------------------- MODULE Subscription ----------------------------
(***************************************************************************)
(* C15: a subscription delivers one correct result per source event, then  *)
(* closes.  Written from the property statement; the actions are the       *)
(* channel operations / critical sections of a forwarder that sits between *)
(* an event source and a consumer.                                         *)
(*                                                                         *)
(* Processes                                                               *)
(*   Source     emits events e1..en (payload class chosen freely, among    *)
(*              them classes whose field resolution fails) over an         *)
(*              UNBUFFERED channel, and may close that channel;            *)
(*   Forwarder  sets the subscription up (parse, validate, subscribe); then*)
(*              loops: select { context done | event | source closed };    *)
(*              maps the event through Execute; sends the result on the    *)
(*              UNBUFFERED result channel; closes the result channel when  *)
(*              it leaves;                                                 *)
(*   Consumer   receives results (promptly, slowly = any interleaving, or  *)
(*              stops reading for ever);                                   *)
(*   Canceller  cancels the context at any time, also before the           *)
(*              forwarder has subscribed.                                  *)
(*                                                                         *)
(* An unbuffered channel is a rendezvous: the sender's and the receiver's  *)
(* step are ONE action (SrcEmit = source send + forwarder receive,         *)
(* Deliver = forwarder send + consumer receive).                           *)
(*                                                                         *)
(* Results are not interpreted here: the result of executing the           *)
(* subscription's selection with event number i of class c as root value   *)
(* is the pair [i, c]; the request-level error result is ErrRes.  The      *)
(* binding (MC_C15) maps classes to concrete payloads and response shapes. *)
(*                                                                         *)
(* Design = "intended": while sending a result the forwarder also watches  *)
(*          the context (FwdSendCtx);                                      *)
(* Design = "asis":     plain send.  TLC shows that NoLeak fails (named    *)
(*          deviation D_C15_send_ignores_ctx).                             *)
(***************************************************************************)
EXTENDS Naturals, Sequences, FiniteSets, TLC

CONSTANTS MaxEv,      \* the source emits at most MaxEv events
          Classes,    \* payload classes
          Modes,      \* request kinds explored: "ok", "parse", "validate", "suberr"
          Design      \* "intended" | "asis"

VARIABLES mode,       \* kind of request (fixed per behaviour)
          cancelled,  \* the context is done
          sent,       \* classes of the events the source has handed over so far
          srcClosed,  \* the source closed its channel
          fpc,        \* forwarder: "start" "sel" "map" "send" "exit" "done"
          cur,        \* the event / result the forwarder holds
          last,       \* the forwarder leaves after sending cur (request-level error)
          delivered,  \* results received by the consumer, in order
          outClosed,  \* the result channel is closed
          cstop,      \* the consumer stopped reading for ever
          seenClosed  \* the consumer observed the closed result channel

vars == <<mode, cancelled, sent, srcClosed, fpc, cur, last, delivered, outClosed, cstop, seenClosed>>

None   == [i |-> 0, c |-> "-"]
ErrRes == [i |-> 0, c |-> "reqerr"]
Res(i, c) == [i |-> i, c |-> c]      \* Execute(selection, root value = event i of class c)

TypeOK ==
  /\ mode \in Modes /\ cancelled \in BOOLEAN /\ srcClosed \in BOOLEAN
  /\ sent \in Seq(Classes) /\ Len(sent) <= MaxEv
  /\ fpc \in {"start", "sel", "map", "send", "exit", "done"}
  /\ last \in BOOLEAN /\ outClosed \in BOOLEAN /\ cstop \in BOOLEAN /\ seenClosed \in BOOLEAN
  /\ Len(delivered) <= MaxEv + 1

Init ==
  /\ mode \in Modes
  /\ cancelled = FALSE /\ sent = <<>> /\ srcClosed = FALSE
  /\ fpc = "start" /\ cur = None /\ last = FALSE
  /\ delivered = <<>> /\ outClosed = FALSE /\ cstop = FALSE /\ seenClosed = FALSE

\* ---------------------------------------------------------------- forwarder
\* parse + validate + call the field's subscribe function
FwdSetup ==
  /\ fpc = "start"
  /\ IF mode = "ok"
       THEN fpc' = "sel" /\ UNCHANGED <<cur, last>>
       ELSE fpc' = "send" /\ cur' = ErrRes /\ last' = TRUE
  /\ UNCHANGED <<mode, cancelled, sent, srcClosed, delivered, outClosed, cstop, seenClosed>>

\* select: case <-ctx.Done()
FwdSelCtx ==
  /\ fpc = "sel" /\ cancelled
  /\ fpc' = "exit"
  /\ UNCHANGED <<mode, cancelled, sent, srcClosed, cur, last, delivered, outClosed, cstop, seenClosed>>

\* select: case ev := <-source  (rendezvous with the source's send of an event of class c)
SrcEmit(c) ==
  /\ fpc = "sel" /\ ~srcClosed /\ Len(sent) < MaxEv
  /\ sent' = Append(sent, c)
  /\ cur' = Res(Len(sent) + 1, c)
  /\ fpc' = "map"
  /\ UNCHANGED <<mode, cancelled, srcClosed, last, delivered, outClosed, cstop, seenClosed>>

\* select: case _, more := <-source with more = false
FwdSelClosed ==
  /\ fpc = "sel" /\ srcClosed
  /\ fpc' = "exit"
  /\ UNCHANGED <<mode, cancelled, sent, srcClosed, cur, last, delivered, outClosed, cstop, seenClosed>>

\* res := Execute(selection, root = event)
\* The execution runs under the subscription's context: by C16 an execution whose context is
\* done yields either the complete response or exactly the context's error (class "ctxerr").
FwdMap ==
  /\ fpc = "map"
  /\ fpc' = "send"
  /\ \/ cur' = cur
     \/ cancelled /\ cur' = [cur EXCEPT !.c = "ctxerr"]
  /\ UNCHANGED <<mode, cancelled, sent, srcClosed, last, delivered, outClosed, cstop, seenClosed>>

\* out <- res  (rendezvous with the consumer's receive)
Deliver ==
  /\ fpc = "send" /\ ~cstop
  /\ delivered' = Append(delivered, cur)
  /\ cur' = None
  /\ fpc' = IF last THEN "exit" ELSE "sel"
  /\ UNCHANGED <<mode, cancelled, sent, srcClosed, last, outClosed, cstop, seenClosed>>

\* intended design only: select { case out <- res: | case <-ctx.Done(): return }
FwdSendCtx ==
  /\ Design = "intended"
  /\ fpc = "send" /\ cancelled
  /\ cur' = None
  /\ fpc' = "exit"
  /\ UNCHANGED <<mode, cancelled, sent, srcClosed, last, delivered, outClosed, cstop, seenClosed>>

\* deferred close(out); the goroutine ends
FwdClose ==
  /\ fpc = "exit"
  /\ outClosed' = TRUE
  /\ fpc' = "done"
  /\ UNCHANGED <<mode, cancelled, sent, srcClosed, cur, last, delivered, cstop, seenClosed>>

\* the steps the forwarder can take on its own (no partner needed)
FwdInternal == FwdSetup \/ FwdSelCtx \/ FwdSelClosed \/ FwdMap \/ FwdSendCtx \/ FwdClose

\* state predicate: some FwdInternal step is possible under design d
FwdCanStep(d) ==
  \/ fpc \in {"start", "map", "exit"}
  \/ fpc = "sel" /\ (cancelled \/ srcClosed)
  \/ fpc = "send" /\ cancelled /\ d = "intended"

\* ---------------------------------------------------------------- environment
SrcClose ==
  /\ ~srcClosed
  /\ srcClosed' = TRUE
  /\ UNCHANGED <<mode, cancelled, sent, fpc, cur, last, delivered, outClosed, cstop, seenClosed>>

ConsumerSeeClosed ==
  /\ outClosed /\ ~cstop /\ ~seenClosed
  /\ seenClosed' = TRUE
  /\ UNCHANGED <<mode, cancelled, sent, srcClosed, fpc, cur, last, delivered, outClosed, cstop>>

ConsumerStop ==
  /\ ~cstop
  /\ cstop' = TRUE
  /\ UNCHANGED <<mode, cancelled, sent, srcClosed, fpc, cur, last, delivered, outClosed, seenClosed>>

Cancel ==
  /\ ~cancelled
  /\ cancelled' = TRUE
  /\ UNCHANGED <<mode, sent, srcClosed, fpc, cur, last, delivered, outClosed, cstop, seenClosed>>

Next ==
  \/ FwdInternal
  \/ \E c \in Classes : SrcEmit(c)
  \/ Deliver
  \/ SrcClose \/ ConsumerSeeClosed \/ ConsumerStop \/ Cancel

\* the environment (source, consumer, canceller) is free; the forwarder is a running goroutine
Spec     == Init /\ [][Next]_vars /\ WF_vars(FwdInternal)
\* additionally: a consumer that has not stopped keeps receiving
SpecRead == Spec /\ WF_vars(Deliver)

\* ---------------------------------------------------------------- safety
\* delivered is the image under Execute of a prefix of the events, in source order:
\* the j-th delivered result is the result of the j-th event, hence at most one per event
PrefixInOrder ==
  mode = "ok" =>
    /\ Len(delivered) <= Len(sent)
    /\ \A j \in 1..Len(delivered) :
          \/ delivered[j] = Res(j, sent[j])
          \/ cancelled /\ delivered[j] = Res(j, "ctxerr")     \* executed under a done context

\* exactly one per event: nothing is dropped unless the context was cancelled
\* (the only event without a result is the one the forwarder is working on)
NothingLost ==
  mode = "ok" =>
    /\ Len(sent) - Len(delivered) \in {0, 1}
    /\ (Len(sent) - Len(delivered) = 1 /\ fpc \notin {"map", "send"}) => cancelled

\* the result channel is closed only after the source closed or the context was cancelled
\* (or, for a failed request, after its single error result)
ClosedOnlyAfter ==
  outClosed => (srcClosed \/ cancelled \/ (mode # "ok" /\ delivered = <<ErrRes>>))

\* a request that fails to parse, validate or subscribe: exactly one error result, then closed
ErrorOnce ==
  mode # "ok" =>
    /\ sent = <<>>
    /\ delivered \in {<<>>, <<ErrRes>>}
    /\ (outClosed /\ ~cancelled) => delivered = <<ErrRes>>
    /\ (delivered = <<ErrRes>>) => fpc \in {"exit", "done"}

\* a forwarder at rest under the intended design is gone once the context is cancelled
RestAfterCancel == (cancelled /\ ~FwdCanStep("intended")) => fpc = "done"

Safety == TypeOK /\ PrefixInOrder /\ NothingLost /\ ClosedOnlyAfter /\ ErrorOnce /\ RestAfterCancel

\* nothing is delivered after the close; the close is final; results are never retracted
AfterClose ==
  [][/\ outClosed => (outClosed' /\ delivered' = delivered)
     /\ Len(delivered') >= Len(delivered)
     /\ \A j \in 1..Len(delivered) : delivered'[j] = delivered[j]]_vars

\* ---------------------------------------------------------------- liveness
\* after cancellation the forwarder goroutine does not stay blocked for ever
NoLeak == cancelled ~> (fpc = "done")
\* with a consumer that keeps reading, the channel is closed after source close / cancel
ClosesWhenRead == (srcClosed \/ cancelled) ~> (outClosed \/ cstop)
=============================================================================
