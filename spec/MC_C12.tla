------------------------------- MODULE MC_C12 -------------------------------
(***************************************************************************)
(* Histories for C12 over a pool of requests chosen to pass through every  *)
(* place where the library iterates a Go map (or sorts unstably) while     *)
(* building user-visible output.  TLC enumerates all histories of length   *)
(* HLen over the pool; the harness runs each history on a fresh schema,    *)
(* with and without a plan cache, and logs one observation per step; the   *)
(* pool is also run in several fresh processes.  Trace_C12 checks the      *)
(* functional dependence over the union of all logs.                       *)
(***************************************************************************)
EXTENDS Naturals, Sequences, FiniteSets, TLC, Json, SchemaS1

CONSTANTS HLen, PoolIds

R(text, op, vars, outs, tag) == [text |-> text, op |-> op, vars |-> vars, outs |-> outs, tag |-> tag]

Pool ==
  << R("{ a b nn s }", "", "-", "-", "-"),                                                  \*  1
     R("{ d }", "", "-", "-", "suggest"),                                                   \*  2 did-you-mean with ties
     R("{ f(in: {r: \"x\", k: \"y\", m: 1}) }", "", "-", "-", "inobj_literal"),             \*  3 several input-field errors (literal)
     R("query($q: In) { f(in: $q) }", "", "badin", "-", "inobj_variable"),                  \*  4 several input-field errors (variable)
     R("{ __schema { types { name } } }", "", "-", "-", "types_order"),                     \*  5
     R("{ __type(name: \"E\") { enumValues { name } } }", "", "-", "-", "enum_order"),      \*  6
     R("{ __type(name: \"Q\") { fields { name args { name } } } }", "", "-", "-", "fields_order"),   \*  7
     R("{ a b c }", "", "-", "thunkerr", "deferred_error_order"),                           \*  8 several deferred failures
     R("mutation { a b c }", "", "-", "thunkerr", "deferred_error_order"),                  \*  9
     R("{ a nn o { x w } }", "", "-", "err", "-"),                                          \* 10 several immediate failures
     R("{ o { zzz } l { yyy } e }", "", "-", "-", "-"),                                     \* 11 two validation errors
     R("{ __type(name: \"In\") { inputFields { name defaultValue } } }", "", "-", "-", "inputfields_order"),  \* 12
     R("{ __type(name: \"I\") { possibleTypes { name } } u: __type(name: \"U\") { possibleTypes { name } } }", "", "-", "-", "possible_order"), \* 13
     R("{ __schema { directives { name args { name } locations } } }", "", "-", "-", "directives_order"), \* 14
     R("{ f(zzz: 1, x: 2) g(st: 1) }", "", "-", "-", "suggest"),                            \* 15 unknown argument + wrong literal
     R("{ i { x } il { x __typename } u { __typename } e }", "", "-", "-", "-"),            \* 16
     R("query($a: Int, $b: Int) { a }", "", "-", "-", "-"),                                 \* 17 two unused variables
     R("{ __type(name: \"A\") { interfaces { name } fields { name } } }", "", "-", "-", "fields_order"),   \* 18
     R("FULL_INTROSPECTION", "", "-", "-", "types_order"),                                  \* 19 the standard introspection query
     R("{ uo { __typename } }", "", "-", "uostar", "-"),                                    \* 20 a value every member's IsTypeOf accepts
     R("{ __type(name: \"UO\") { possibleTypes { name } } }", "", "-", "-", "possible_order"), \* 21 introspection of that union
     R("{ itl { __typename x } it { x } }", "", "-", "-", "-"),                             \* 22 interface resolved through IsTypeOf
     R("{ srl { r(y: 2) p } }", "", "-", "-", "-"),                                         \* 23 fields resolved by their source value, literal arguments
     R("{ sr { r(e: RED) } srl { k: r(e: RED, y: 1) r(y: 3) } }", "", "-", "-", "-"),       \* 24
     R("{ a b }", "", "-", "thunkerr", "deferred_error_order"),                             \* 25 exactly two deferred failures
     R("{ o { x y } n { x y } }", "", "-", "thunkerr", "deferred_error_order"),              \* 26 ... in nested objects
     R("mutation { b a }", "", "-", "thunkerr", "deferred_error_order"),                    \* 27
     R("{ ol }", "", "-", "-", "suggest"),                                                  \* 28 a misspelt field with many equidistant candidates (o l ll dl il el)
     R("query($v: Ix) { a ... on Ux { x } }", "", "-", "-", "suggest")                      \* 29 misspelt type names (In I IT / U UO)
  >>

VARIABLE hist
Init == hist = <<>>
Next == Len(hist) < HLen /\ \E q \in PoolIds : hist' = Append(hist, q)
Spec == Init /\ [][Next]_hist
Complete == Len(hist) = HLen

Emit == Complete => PrintT(<<"VEC", ToJson([hist |-> hist])>>)
ASSUME PrintT(<<"SCHEMA", ToJson(S1)>>)
ASSUME PrintT(<<"POOL", ToJson(Pool)>>)
=============================================================================
